//! X04: the REAL `libp2p_dcutr::Behaviour` together with its REAL relayed-connection handlers
//! (`handler/relayed.rs`, `protocol/{inbound,outbound}.rs`). The driver plays the Swarm (connections
//! come and go, external address candidates are reported, dials requested by the behaviour succeed
//! or fail) and the remote peers: DCUtR messages are crafted protobuf frames on negotiated in-memory
//! streams; everything the handlers write is parsed back and recorded.
//!
//! Schedule {"ops":[..]}; entities are numbered by the driver in order of creation (connection slot
//! c, dial d); an index `i` in an op selects the i-th (mod count) currently eligible entity.
//!   {"a":"cand","k","f"}        NewExternalAddrCandidate: address k in form f (0 plain, 1 with /p2p/local,
//!                                2 relayed, 3 with /p2p/<other>)
//!   {"a":"conn","p","kind"}     connection to peer p: "rin" relayed inbound (we listen: we initiate DCUtR),
//!                                "rout" relayed outbound, "din"/"dout" direct
//!   {"a":"close","i"}           the i-th open connection closes
//!   {"a":"open","i","r"}        the oldest outbound substream request of the i-th handler that has one:
//!                                r = "ok" | "unsup" | "timeout" | "io"
//!   {"a":"msg","i","m","addrs"} the remote writes on the outbound stream of the i-th connection that has one
//!   {"a":"in_open","i"}         the remote opens a DCUtR stream on the i-th open relayed outbound connection
//!   {"a":"in_msg","i","j","m","addrs"}  the remote writes on the j-th inbound stream (from the newest) of the
//!                                i-th relayed outbound connection that has inbound streams
//!       m = "connect" | "sync" | "junk" | "big" | "eof";  addrs = names "d0".."d3", "dp0".."dp3", "relay", "bad"
//!   {"a":"dialres","i","r"}     the i-th pending dial: r = "ok" | "fail" | "deny" (established, then denied by
//!                                a behaviour composed after this one)
use std::{
    task::Poll,
    time::{Duration, Instant},
};

use futures::future;
use libp2p_core::{multiaddr::Protocol, muxing::SubstreamBox, transport::PortUse, ConnectedPoint, Endpoint, Multiaddr};
use libp2p_dcutr as dcutr;
use libp2p_identity::PeerId;
use libp2p_swarm::{
    behaviour::{ConnectionClosed, ConnectionEstablished, DialFailure, FromSwarm, NewExternalAddrCandidate},
    derive_prelude::Either,
    dial_opts::PeerCondition,
    handler::{ConnectionEvent, ConnectionHandlerEvent, DialUpgradeError, FullyNegotiatedInbound, FullyNegotiatedOutbound, StreamUpgradeError},
    ConnectionDenied, ConnectionHandler, ConnectionId, DialError, NetworkBehaviour, NotifyHandler, Stream, THandler, ToSwarm,
};
use rand::Rng;
use vcommon::{exec::Det, json, pipe, Out, Value};

const NP: usize = 3;
const PROTO: &str = "/libp2p/dcutr";

type Hdl = THandler<dcutr::Behaviour>;

fn stream(det: &Det) -> (Stream, pipe::PipeCtl) {
    let (a, b, ctl) = pipe::pipe(true);
    let d = multistream_select::dialer_select_proto(a, vec![PROTO], multistream_select::Version::V1);
    let l = multistream_select::listener_select_proto(SubstreamBox::new(b), vec![PROTO]);
    let mut both = Box::pin(future::join(d, l));
    let (rd, rl) = det.run_until_stalled(both.as_mut(), 1000).expect("negotiation completes");
    let (_, remote_io) = rd.expect("dialer");
    let (_, io) = rl.expect("listener");
    // the remote's end is only used through `ctl` (inject into direction 0, read direction 1)
    std::mem::forget(remote_io);
    (libp2p_swarm::verif::stream(io), ctl)
}

fn varint(mut n: usize, out: &mut Vec<u8>) {
    loop {
        let b = (n & 0x7f) as u8;
        n >>= 7;
        if n == 0 {
            out.push(b);
            return;
        }
        out.push(b | 0x80);
    }
}

/// HolePunch { required Type type = 1; repeated bytes ObsAddrs = 2; } as a length-prefixed frame
fn holepunch(ty: usize, addrs: &[Vec<u8>]) -> Vec<u8> {
    let mut msg = vec![0x08];
    varint(ty, &mut msg);
    for a in addrs {
        msg.push(0x12);
        varint(a.len(), &mut msg);
        msg.extend_from_slice(a);
    }
    let mut frame = vec![];
    varint(msg.len(), &mut frame);
    frame.extend_from_slice(&msg);
    frame
}

fn read_varint(b: &[u8]) -> Option<(usize, usize)> {
    let mut v = 0usize;
    for (i, x) in b.iter().enumerate().take(9) {
        v |= ((x & 0x7f) as usize) << (7 * i);
        if x & 0x80 == 0 {
            return Some((v, i + 1));
        }
    }
    None
}

/// Parse the complete frames at the front of `buf` (removing them): (type, addrs)
fn parse_frames(buf: &mut Vec<u8>) -> Vec<(i64, Vec<Vec<u8>>)> {
    let mut out = vec![];
    loop {
        let Some((len, n)) = read_varint(buf) else { break };
        if buf.len() < n + len {
            break;
        }
        let msg: Vec<u8> = buf[n..n + len].to_vec();
        buf.drain(..n + len);
        let mut ty = -1i64;
        let mut addrs = vec![];
        let mut i = 0;
        while i < msg.len() {
            let tag = msg[i];
            i += 1;
            match tag {
                0x08 => {
                    let Some((v, k)) = read_varint(&msg[i..]) else { break };
                    ty = v as i64;
                    i += k;
                }
                0x12 => {
                    let Some((l, k)) = read_varint(&msg[i..]) else { break };
                    i += k;
                    addrs.push(msg[i..i + l].to_vec());
                    i += l;
                }
                _ => {
                    ty = -2;
                    break;
                }
            }
        }
        out.push((ty, addrs));
    }
    out
}

#[derive(Clone, Copy, PartialEq, Debug)]
enum Kind {
    RIn,
    ROut,
    DIn,
    DOut,
    Dial,
}

impl Kind {
    fn name(self) -> &'static str {
        match self {
            Kind::RIn => "rin",
            Kind::ROut => "rout",
            Kind::DIn => "din",
            Kind::DOut => "dout",
            Kind::Dial => "dial",
        }
    }
}

struct Strm {
    ctl: pipe::PipeCtl,
    buf: Vec<u8>,
}

struct Conn {
    id: ConnectionId,
    p: usize,
    kind: Kind,
    ep: ConnectedPoint,
    handler: Option<Hdl>,
    want_open: usize,
    out: Option<Strm>,
    ins: Vec<Strm>,
    await_timer: bool,
}

struct DialRec {
    id: ConnectionId,
    p: i64,
    addrs: Vec<Multiaddr>,
    role: Endpoint,
    port_use: PortUse,
    pending: bool,
}

struct World {
    beh: dcutr::Behaviour,
    local: PeerId,
    other: PeerId,
    relay: PeerId,
    peers: Vec<PeerId>,
    conns: Vec<Conn>,
    dials: Vec<DialRec>,
    det: Det,
    evs: Vec<Value>,
    next_id: usize,
}

static NEXT: std::sync::atomic::AtomicUsize = std::sync::atomic::AtomicUsize::new(1_000_000);

impl World {
    fn pidx(&self, p: &PeerId) -> i64 {
        self.peers.iter().position(|x| x == p).map(|i| i as i64).unwrap_or(-1)
    }

    fn cand_addr(&self, k: usize, f: usize) -> Multiaddr {
        let base: Multiaddr = format!("/ip4/9.9.{}.{}/tcp/9000", k / 200, k % 200 + 1).parse().unwrap();
        match f {
            0 => base,
            1 => base.with(Protocol::P2p(self.local)),
            2 => base.with(Protocol::P2p(self.relay)).with(Protocol::P2pCircuit),
            _ => base.with(Protocol::P2p(self.other)),
        }
    }

    /// what one of OUR candidate addresses looks like on the wire
    fn cand_shape(&self, bytes: &[u8]) -> Value {
        let Ok(a) = Multiaddr::try_from(bytes.to_vec()) else { return json!({"k": -1, "o": 0, "circ": false, "last_local": false, "nl": 0}) };
        let mut k = -1i64;
        let mut o = 0;
        let mut circ = false;
        let mut nl = 0;
        for c in a.iter() {
            match c {
                Protocol::Ip4(ip) => {
                    let x = ip.octets();
                    if x[0] == 9 && x[1] == 9 {
                        k = x[2] as i64 * 200 + x[3] as i64 - 1;
                    }
                }
                Protocol::P2p(id) if id == self.local => nl += 1,
                Protocol::P2p(_) => o = 1,
                Protocol::P2pCircuit => circ = true,
                _ => {}
            }
        }
        let last_local = a.iter().last() == Some(Protocol::P2p(self.local));
        json!({"k": k, "o": o, "circ": circ, "last_local": last_local, "nl": nl})
    }

    /// an address a REMOTE peer p advertises, by name
    fn remote_addr(&self, name: &str, p: usize) -> Vec<u8> {
        let peer = self.peers[p];
        if name == "bad" {
            return vec![0xff, 0xff, 0x01];
        }
        if name == "relay" {
            return "/ip4/5.5.5.5/tcp/1".parse::<Multiaddr>().unwrap().with(Protocol::P2p(self.relay)).with(Protocol::P2pCircuit).with(Protocol::P2p(peer)).to_vec();
        }
        let (with_p2p, k) = if let Some(r) = name.strip_prefix("dp") { (true, r) } else { (false, name.strip_prefix('d').expect("address name")) };
        let k: usize = k.parse().expect("address number");
        let a: Multiaddr = format!("/ip4/7.7.{}.{}/tcp/4001", p + 1, k + 1).parse().unwrap();
        if with_p2p { a.with(Protocol::P2p(peer)).to_vec() } else { a.to_vec() }
    }

    fn remote_name(&self, a: &Multiaddr) -> String {
        let mut k = None;
        let mut p2p = false;
        for c in a.iter() {
            match c {
                Protocol::Ip4(ip) if ip.octets()[0] == 7 && ip.octets()[1] == 7 => k = Some(ip.octets()[3] as usize - 1),
                Protocol::P2p(_) => p2p = true,
                Protocol::P2pCircuit => return "relay".into(),
                _ => {}
            }
        }
        match k {
            Some(k) if p2p => format!("dp{k}"),
            Some(k) => format!("d{k}"),
            None => "?".into(),
        }
    }

    fn slot_of(&self, id: ConnectionId) -> i64 {
        self.conns.iter().position(|c| c.id == id).map(|i| i as i64).unwrap_or(-1)
    }

    fn open_conns(&self, f: impl Fn(&Conn) -> bool) -> Vec<usize> {
        (0..self.conns.len()).filter(|i| self.conns[*i].handler.is_some() && f(&self.conns[*i])).collect()
    }

    fn drain_beh(&mut self) -> bool {
        let det = self.det.clone();
        let mut any = false;
        loop {
            let items = vcommon::exec::drain(&det, 64, |cx| self.beh.poll(cx));
            if items.is_empty() {
                return any;
            }
            any = true;
            for it in items {
                match it {
                    ToSwarm::Dial { opts } => {
                        let p = opts.get_peer_id().map(|x| self.pidx(&x)).unwrap_or(-1);
                        let addrs = libp2p_swarm::verif::dial_opts_addresses(&opts);
                        let (role, port_use, cond) = libp2p_swarm::verif::dial_opts_settings(&opts);
                        let names: Vec<String> = addrs.iter().map(|a| self.remote_name(a)).collect();
                        let d = self.dials.len();
                        self.evs.push(json!({"e": "dial", "d": d, "p": p, "addrs": names,
                            "role": if role == Endpoint::Listener { "listener" } else { "dialer" },
                            "always": matches!(cond, PeerCondition::Always)}));
                        self.dials.push(DialRec { id: opts.connection_id(), p, addrs, role, port_use, pending: true });
                    }
                    ToSwarm::NotifyHandler { handler: NotifyHandler::One(id), event, peer_id } => {
                        let c = self.slot_of(id);
                        let open = c >= 0 && self.conns[c as usize].handler.is_some();
                        self.evs.push(json!({"e": "cmd_connect", "c": c, "p": self.pidx(&peer_id), "open": open}));
                        if open {
                            // the Swarm delivers the command only to a live connection
                            self.conns[c as usize].handler.as_mut().unwrap().on_behaviour_event(event);
                        }
                    }
                    ToSwarm::GenerateEvent(dcutr::Event { remote_peer_id, result }) => {
                        let p = self.pidx(&remote_peer_id);
                        let v = match result {
                            Ok(id) => json!({"e": "event", "p": p, "ok": true, "c": self.slot_of(id)}),
                            Err(e) => {
                                let s = e.to_string();
                                let kind = if s.contains("Giving up after") {
                                    "attempts"
                                } else if s.contains("Inbound stream error") {
                                    "inbound"
                                } else if s.contains("Outbound stream error") {
                                    "outbound"
                                } else {
                                    "?"
                                };
                                json!({"e": "event", "p": p, "ok": false, "err": kind})
                            }
                        };
                        self.evs.push(v);
                    }
                    other => {
                        self.evs.push(json!({"e": "beh_other", "what": format!("{other:?}").chars().take(60).collect::<String>()}));
                    }
                }
            }
        }
    }

    /// what the handler of connection c wrote on its streams since the last call
    fn collect_tx(&mut self, c: usize) {
        let mut recs = vec![];
        {
            let conn = &mut self.conns[c];
            let mut streams: Vec<(i64, &mut Strm)> = vec![];
            if let Some(s) = conn.out.as_mut() {
                streams.push((-1, s));
            }
            for (j, s) in conn.ins.iter_mut().enumerate() {
                streams.push((j as i64, s));
            }
            for (j, s) in streams {
                let bytes: Vec<u8> = s.ctl.with(1, |d| d.ready.drain(..).collect());
                s.buf.extend_from_slice(&bytes);
                for (ty, addrs) in parse_frames(&mut s.buf) {
                    recs.push((j, ty, addrs));
                }
            }
        }
        for (j, ty, addrs) in recs {
            let t = match ty {
                100 => "connect",
                300 => "sync",
                _ => "?",
            };
            let shapes: Vec<Value> = addrs.iter().map(|a| self.cand_shape(a)).collect();
            if t == "sync" && j == -1 {
                // outbound handshake: after SYNC the handler waits rtt/2 on a real timer
                self.conns[c].await_timer = true;
            }
            self.evs.push(json!({"e": "tx", "c": c, "s": j, "t": t, "addrs": shapes}));
        }
    }

    fn poll_handler(&mut self, c: usize) -> bool {
        let det = self.det.clone();
        let mut progress = false;
        loop {
            let Some(h) = self.conns[c].handler.as_mut() else { return progress };
            let before = det.wakes();
            let mut cx = det.cx();
            match h.poll(&mut cx) {
                Poll::Ready(ConnectionHandlerEvent::OutboundSubstreamRequest { .. }) => {
                    progress = true;
                    self.conns[c].want_open += 1;
                    self.evs.push(json!({"e": "want_open", "c": c}));
                }
                Poll::Ready(ConnectionHandlerEvent::NotifyBehaviour(ev)) => {
                    progress = true;
                    self.collect_tx(c);
                    self.conns[c].await_timer = false;
                    let v = match &ev {
                        Either::Left(e) => match dcutr::verif::handler_event_view(e) {
                            dcutr::verif::HandlerEventView::InboundConnectNegotiated(a) => json!({"e": "hev", "c": c, "k": "in_neg", "addrs": a.iter().map(|x| self.remote_name(x)).collect::<Vec<_>>()}),
                            dcutr::verif::HandlerEventView::OutboundConnectNegotiated(a) => json!({"e": "hev", "c": c, "k": "out_neg", "addrs": a.iter().map(|x| self.remote_name(x)).collect::<Vec<_>>()}),
                            dcutr::verif::HandlerEventView::InboundConnectFailed(m) => json!({"e": "hev", "c": c, "k": "in_fail", "msg": m.chars().take(60).collect::<String>()}),
                            dcutr::verif::HandlerEventView::OutboundConnectFailed(m) => json!({"e": "hev", "c": c, "k": "out_fail", "msg": m.chars().take(60).collect::<String>()}),
                        },
                        Either::Right(_) => json!({"e": "hev", "c": c, "k": "dummy"}),
                    };
                    self.evs.push(v);
                    let (peer, id) = (self.peers[self.conns[c].p], self.conns[c].id);
                    self.beh.on_connection_handler_event(peer, id, ev);
                    self.drain_beh();
                }
                Poll::Ready(_) => progress = true,
                Poll::Pending => {
                    if det.wakes() == before {
                        self.collect_tx(c);
                        return progress;
                    }
                }
            }
        }
    }

    fn settle(&mut self) {
        for _ in 0..400 {
            // wake-ups are counted from before the polls: a timer firing right after a handler's last poll is seen
            let w0 = self.det.wakes();
            let mut progress = self.drain_beh();
            for c in 0..self.conns.len() {
                progress |= self.poll_handler(c);
            }
            if progress || self.det.wakes() != w0 {
                continue;
            }
            // an outbound handshake that has written SYNC sleeps rtt/2 (micro-seconds here) on futures-timer
            if self.conns.iter().any(|c| c.handler.is_some() && c.await_timer) {
                let t0 = Instant::now();
                while self.det.wakes() == w0 && t0.elapsed() < Duration::from_secs(20) {
                    std::thread::sleep(Duration::from_micros(200));
                }
                if self.det.wakes() == w0 {
                    self.evs.push(json!({"e": "driver_timer_stall"}));
                    for c in self.conns.iter_mut() {
                        c.await_timer = false;
                    }
                }
                continue;
            }
            return;
        }
        self.evs.push(json!({"e": "driver_livelock"}));
    }

    fn book(&mut self) {
        let mut direct: Vec<i64> = vec![];
        let mut unknown = 0;
        for (_p, ids) in self.beh.verif_direct_connections() {
            for id in ids {
                let s = self.slot_of(id);
                if s >= 0 {
                    direct.push(s);
                } else {
                    unknown += 1;
                }
            }
        }
        direct.sort();
        self.evs.push(json!({"e": "book", "direct": direct, "unknown": unknown}));
    }

    fn others(&self, p: usize, except: usize) -> usize {
        (0..self.conns.len()).filter(|i| *i != except && self.conns[*i].handler.is_some() && self.conns[*i].p == p).count()
    }

    fn message(&self, m: &str, op: &Value, p: usize) -> (Option<Vec<u8>>, Vec<String>) {
        let names: Vec<String> = op.get("addrs").and_then(|x| x.as_array()).map(|l| l.iter().map(|x| x.as_str().unwrap().to_string()).collect()).unwrap_or_default();
        let addrs: Vec<Vec<u8>> = names.iter().map(|n| self.remote_addr(n, p)).collect();
        match m {
            "connect" => (Some(holepunch(100, &addrs)), names),
            "sync" => (Some(holepunch(300, &addrs)), names),
            "junk" => (Some(vec![3, 0xff, 0xff, 0xff]), vec![]),
            "big" => {
                let mut f = vec![];
                varint(5000, &mut f);
                (Some(f), vec![])
            }
            "eof" => (None, vec![]),
            x => panic!("message kind {x}"),
        }
    }

    fn op(&mut self, op: &Value) {
        let i = op.get("i").and_then(|x| x.as_u64()).unwrap_or(0) as usize;
        match vcommon::s(op, "a").as_str() {
            "cand" => {
                let k = vcommon::n(op, "k") as usize;
                let f = vcommon::n(op, "f") as usize;
                let addr = self.cand_addr(k, f);
                self.evs.push(json!({"e": "cand", "k": k, "f": f}));
                self.beh.on_swarm_event(FromSwarm::NewExternalAddrCandidate(NewExternalAddrCandidate { addr: &addr }));
            }
            "conn" => {
                let p = vcommon::n(op, "p") as usize % NP;
                let kind = match vcommon::s(op, "kind").as_str() {
                    "rin" => Kind::RIn,
                    "rout" => Kind::ROut,
                    "din" => Kind::DIn,
                    _ => Kind::DOut,
                };
                let id = ConnectionId::new_unchecked(NEXT.fetch_add(1, std::sync::atomic::Ordering::SeqCst));
                self.next_id += 1;
                let n = self.next_id;
                let peer = self.peers[p];
                let circuit: Multiaddr = "/ip4/5.5.5.5/tcp/1".parse::<Multiaddr>().unwrap().with(Protocol::P2p(self.relay)).with(Protocol::P2pCircuit);
                let direct_remote: Multiaddr = format!("/ip4/7.7.{}.9/tcp/{}", p + 1, 5000 + n).parse().unwrap();
                let local_direct: Multiaddr = "/ip4/10.0.0.1/tcp/4001".parse().unwrap();
                let c = self.conns.len();
                self.evs.push(json!({"e": "conn", "c": c, "p": p, "kind": kind.name()}));
                let (handler, ep) = match kind {
                    Kind::RIn => {
                        let remote = circuit.clone().with(Protocol::P2p(peer));
                        let h = self.beh.handle_established_inbound_connection(id, peer, &circuit, &remote).expect("never denied");
                        (h, ConnectedPoint::Listener { local_addr: circuit.clone(), send_back_addr: remote })
                    }
                    Kind::DIn => {
                        let h = self.beh.handle_established_inbound_connection(id, peer, &local_direct, &direct_remote).expect("never denied");
                        (h, ConnectedPoint::Listener { local_addr: local_direct.clone(), send_back_addr: direct_remote })
                    }
                    Kind::ROut => {
                        let addr = circuit.clone().with(Protocol::P2p(peer));
                        let h = self.beh.handle_established_outbound_connection(id, peer, &addr, Endpoint::Dialer, PortUse::Reuse).expect("never denied");
                        (h, ConnectedPoint::Dialer { address: addr, role_override: Endpoint::Dialer, port_use: PortUse::Reuse })
                    }
                    _ => {
                        let addr = direct_remote.clone().with(Protocol::P2p(peer));
                        let h = self.beh.handle_established_outbound_connection(id, peer, &addr, Endpoint::Dialer, PortUse::Reuse).expect("never denied");
                        (h, ConnectedPoint::Dialer { address: addr, role_override: Endpoint::Dialer, port_use: PortUse::Reuse })
                    }
                };
                self.conns.push(Conn { id, p, kind, ep: ep.clone(), handler: Some(handler), want_open: 0, out: None, ins: vec![], await_timer: false });
                let other = self.others(p, c);
                self.beh.on_swarm_event(FromSwarm::ConnectionEstablished(ConnectionEstablished {
                    peer_id: peer,
                    connection_id: id,
                    endpoint: &ep,
                    failed_addresses: &[],
                    other_established: other,
                }));
                self.settle();
                self.book();
            }
            "close" => {
                let el = self.open_conns(|_| true);
                if el.is_empty() {
                    return;
                }
                let c = el[i % el.len()];
                self.evs.push(json!({"e": "close", "c": c}));
                let h = self.conns[c].handler.take();
                drop(h);
                self.conns[c].out = None;
                self.conns[c].ins.clear();
                self.conns[c].want_open = 0;
                self.conns[c].await_timer = false;
                let (peer, id, ep) = (self.peers[self.conns[c].p], self.conns[c].id, self.conns[c].ep.clone());
                let rem = self.others(self.conns[c].p, c);
                self.beh.on_swarm_event(FromSwarm::ConnectionClosed(ConnectionClosed {
                    peer_id: peer,
                    connection_id: id,
                    endpoint: &ep,
                    cause: None,
                    remaining_established: rem,
                }));
                self.settle();
                self.book();
            }
            "open" => {
                let el = self.open_conns(|c| c.want_open > 0);
                if el.is_empty() {
                    return;
                }
                let c = el[i % el.len()];
                let r = vcommon::s(op, "r");
                self.evs.push(json!({"e": "open", "c": c, "r": r}));
                self.conns[c].want_open -= 1;
                let det = self.det.clone();
                match r.as_str() {
                    "ok" => {
                        let (s, ctl) = stream(&det);
                        self.conns[c].out = Some(Strm { ctl, buf: vec![] });
                        let h = self.conns[c].handler.as_mut().unwrap();
                        h.on_connection_event(ConnectionEvent::FullyNegotiatedOutbound(FullyNegotiatedOutbound { protocol: future::Either::Left(s), info: Either::Left(()) }));
                    }
                    x => {
                        let error = match x {
                            "unsup" => StreamUpgradeError::NegotiationFailed,
                            "timeout" => StreamUpgradeError::Timeout,
                            _ => StreamUpgradeError::Io(std::io::Error::new(std::io::ErrorKind::ConnectionReset, "scripted")),
                        };
                        let h = self.conns[c].handler.as_mut().unwrap();
                        h.on_connection_event(ConnectionEvent::DialUpgradeError(DialUpgradeError { info: Either::Left(()), error }));
                    }
                }
                self.settle();
            }
            "msg" => {
                let el = self.open_conns(|c| c.out.is_some());
                if el.is_empty() {
                    return;
                }
                let c = el[i % el.len()];
                let m = vcommon::s(op, "m");
                let (frame, names) = self.message(&m, op, self.conns[c].p);
                self.evs.push(json!({"e": "rx", "c": c, "s": -1, "m": m, "addrs": names}));
                let s = self.conns[c].out.as_ref().unwrap();
                match frame {
                    Some(f) => s.ctl.inject(0, &f),
                    None => s.ctl.close_dir(0),
                }
                self.settle();
            }
            "in_open" => {
                let el = self.open_conns(|c| c.kind == Kind::ROut);
                if el.is_empty() {
                    return;
                }
                let c = el[i % el.len()];
                let det = self.det.clone();
                let (s, ctl) = stream(&det);
                let j = self.conns[c].ins.len();
                self.conns[c].ins.push(Strm { ctl, buf: vec![] });
                self.evs.push(json!({"e": "in_open", "c": c, "s": j}));
                let h = self.conns[c].handler.as_mut().unwrap();
                h.on_connection_event(ConnectionEvent::FullyNegotiatedInbound(FullyNegotiatedInbound { protocol: future::Either::Left(future::Either::Left(s)), info: Either::Left(()) }));
                self.settle();
            }
            "in_msg" => {
                let el = self.open_conns(|c| !c.ins.is_empty());
                if el.is_empty() {
                    return;
                }
                let c = el[i % el.len()];
                let n = self.conns[c].ins.len();
                let j = n - 1 - (op.get("j").and_then(|x| x.as_u64()).unwrap_or(0) as usize % n);
                let m = vcommon::s(op, "m");
                let (frame, names) = self.message(&m, op, self.conns[c].p);
                self.evs.push(json!({"e": "rx", "c": c, "s": j, "m": m, "addrs": names}));
                let s = &self.conns[c].ins[j];
                match frame {
                    Some(f) => s.ctl.inject(0, &f),
                    None => s.ctl.close_dir(0),
                }
                self.settle();
            }
            "dialres" => {
                let el: Vec<usize> = (0..self.dials.len()).filter(|d| self.dials[*d].pending).collect();
                if el.is_empty() {
                    return;
                }
                let d = el[i % el.len()];
                let r = vcommon::s(op, "r");
                self.dials[d].pending = false;
                let (id, p, role, port_use) = (self.dials[d].id, self.dials[d].p, self.dials[d].role, self.dials[d].port_use);
                if p < 0 {
                    self.evs.push(json!({"e": "dial_unknown_peer", "d": d}));
                    return;
                }
                let p = p as usize;
                let peer = self.peers[p];
                let addr = self.dials[d].addrs.first().cloned().unwrap_or_else(|| format!("/ip4/7.7.{}.1/tcp/4001", p + 1).parse().unwrap());
                match r.as_str() {
                    "ok" | "deny" => {
                        let c = self.conns.len();
                        self.evs.push(json!({"e": "dialres", "d": d, "r": r, "c": c}));
                        let h = self.beh.handle_established_outbound_connection(id, peer, &addr, role, port_use).expect("never denied");
                        let ep = ConnectedPoint::Dialer { address: addr, role_override: role, port_use };
                        if r == "ok" {
                            self.conns.push(Conn { id, p, kind: Kind::Dial, ep: ep.clone(), handler: Some(h), want_open: 0, out: None, ins: vec![], await_timer: false });
                            let other = self.others(p, c);
                            self.beh.on_swarm_event(FromSwarm::ConnectionEstablished(ConnectionEstablished {
                                peer_id: peer,
                                connection_id: id,
                                endpoint: &ep,
                                failed_addresses: &[],
                                other_established: other,
                            }));
                        } else {
                            // a behaviour composed after this one denied the connection: the Swarm drops the
                            // handler and reports a dial failure; the connection never counts as established
                            drop(h);
                            self.conns.push(Conn { id, p, kind: Kind::Dial, ep, handler: None, want_open: 0, out: None, ins: vec![], await_timer: false });
                            let err = DialError::Denied { cause: ConnectionDenied::new(std::io::Error::other("denied by another behaviour")) };
                            self.beh.on_swarm_event(FromSwarm::DialFailure(DialFailure { peer_id: Some(peer), error: &err, connection_id: id }));
                        }
                    }
                    _ => {
                        self.evs.push(json!({"e": "dialres", "d": d, "r": "fail"}));
                        let err = DialError::Transport(vec![]);
                        self.beh.on_swarm_event(FromSwarm::DialFailure(DialFailure { peer_id: Some(peer), error: &err, connection_id: id }));
                    }
                }
                self.settle();
                self.book();
            }
            x => panic!("op {x}"),
        }
    }
}

fn run(out: &mut Out, sched: &Value, peers: &[PeerId], local: PeerId, other: PeerId, relay: PeerId) {
    out.reset_with(json!({"max": dcutr::verif::MAX_NUMBER_OF_UPGRADE_ATTEMPTS}), sched);
    let mut w = World {
        beh: dcutr::Behaviour::new(local),
        local,
        other,
        relay,
        peers: peers.to_vec(),
        conns: vec![],
        dials: vec![],
        det: Det::new(),
        evs: vec![],
        next_id: 0,
    };
    for op in sched["ops"].as_array().unwrap() {
        let r = vcommon::guard(|| w.op(op));
        for e in w.evs.drain(..) {
            out.ev(e);
        }
        if let Err(m) = r {
            out.ev(json!({"e": "panic", "msg": m}));
            return;
        }
    }
    out.ev(json!({"e": "end"}));
}

const ADDRS: [&str; 7] = ["d0", "d1", "d2", "dp0", "dp3", "relay", "bad"];

fn random_addrs(rng: &mut impl Rng) -> Vec<&'static str> {
    let n = if rng.gen_bool(0.1) { 0 } else { rng.gen_range(1..=4) };
    (0..n).map(|_| if rng.gen_bool(0.75) { ADDRS[rng.gen_range(0..5)] } else { ADDRS[rng.gen_range(5..7)] }).collect()
}

fn random_msg(rng: &mut impl Rng, want: &str) -> &'static str {
    // mostly the message the protocol expects next
    if rng.gen_bool(0.7) {
        return if want == "connect" { "connect" } else { "sync" };
    }
    ["connect", "sync", "junk", "big", "eof"][rng.gen_range(0..5)]
}

fn noise(rng: &mut impl Rng, np: usize, span: usize) -> Value {
    match rng.gen_range(0..6) {
        0 => json!({"a": "cand", "k": rng.gen_range(0..span), "f": rng.gen_range(0..4)}),
        1 => json!({"a": "conn", "p": rng.gen_range(0..np), "kind": (["din", "dout"][rng.gen_range(0..2)])}),
        2 => json!({"a": "close", "i": rng.gen_range(0..6)}),
        3 => json!({"a": "in_open", "i": rng.gen_range(0..3)}),
        4 => json!({"a": "conn", "p": rng.gen_range(0..np), "kind": (["rin", "rout"][rng.gen_range(0..2)])}),
        _ => json!({"a": "dialres", "i": rng.gen_range(0..3), "r": "fail"}),
    }
}

/// undirected: any op at any time
fn free_sched(rng: &mut impl Rng, ops: &mut Vec<Value>, np: usize, span: usize) {
    let len = rng.gen_range(6..=40);
    for step in 0..len {
        let x = rng.gen_range(0..100);
        let i = rng.gen_range(0..4);
        let op = if step < 2 || x < 10 {
            let kind = ["rin", "rin", "rout", "rout", "din", "dout"][rng.gen_range(0..6)];
            json!({"a": "conn", "p": rng.gen_range(0..np), "kind": kind})
        } else if x < 14 {
            json!({"a": "cand", "k": rng.gen_range(0..span), "f": rng.gen_range(0..4)})
        } else if x < 32 {
            json!({"a": "open", "i": i, "r": if rng.gen_bool(0.85) { "ok" } else { ["unsup", "timeout", "io"][rng.gen_range(0..3)] }})
        } else if x < 50 {
            json!({"a": "msg", "i": i, "m": random_msg(rng, "connect"), "addrs": random_addrs(rng)})
        } else if x < 58 {
            json!({"a": "in_open", "i": i})
        } else if x < 74 {
            let m = if rng.gen_bool(0.5) { random_msg(rng, "connect") } else { random_msg(rng, "sync") };
            let addrs = if m == "sync" && rng.gen_bool(0.8) { vec![] } else { random_addrs(rng) };
            json!({"a": "in_msg", "i": i, "j": if rng.gen_bool(0.8) { 0 } else { 1 }, "m": m, "addrs": addrs})
        } else if x < 95 {
            let r = if rng.gen_bool(0.55) { "fail" } else if rng.gen_bool(0.9) { "ok" } else { "deny" };
            json!({"a": "dialres", "i": i, "r": r})
        } else {
            json!({"a": "close", "i": i})
        };
        ops.push(op);
    }
}

/// directed: whole upgrade episodes (initiating: up to four rounds of open / CONNECT / dial result; answering:
/// stream, CONNECT, possibly a second stream, SYNC, dial result), with noise in between
fn episode_sched(rng: &mut impl Rng, ops: &mut Vec<Value>, np: usize, span: usize) {
    let episodes = rng.gen_range(1..=3);
    for _ in 0..episodes {
        let p = rng.gen_range(0..np);
        let i = rng.gen_range(0..2); // mostly the entity just created when nothing else is eligible
        if rng.gen_bool(0.6) {
            ops.push(json!({"a": "conn", "p": p, "kind": "rin"}));
            for _round in 0..rng.gen_range(1..=4) {
                if rng.gen_bool(0.15) {
                    ops.push(noise(rng, np, span));
                }
                let r = if rng.gen_bool(0.9) { "ok" } else { ["unsup", "timeout", "io"][rng.gen_range(0..3)] };
                ops.push(json!({"a": "open", "i": i, "r": r}));
                let m = if rng.gen_bool(0.9) { "connect" } else { random_msg(rng, "connect") };
                let addrs = if rng.gen_bool(0.9) { vec![ADDRS[rng.gen_range(0..5)], ADDRS[rng.gen_range(0..7)]] } else { random_addrs(rng) };
                ops.push(json!({"a": "msg", "i": i, "m": m, "addrs": addrs}));
                if rng.gen_bool(0.1) {
                    ops.push(noise(rng, np, span));
                }
                let x = rng.gen_range(0..100);
                let r = if x < 72 { "fail" } else if x < 90 { "ok" } else { "deny" };
                ops.push(json!({"a": "dialres", "i": i, "r": r}));
            }
        } else {
            ops.push(json!({"a": "conn", "p": p, "kind": "rout"}));
            for _round in 0..rng.gen_range(1..=3) {
                ops.push(json!({"a": "in_open", "i": i}));
                let m = if rng.gen_bool(0.9) { "connect" } else { random_msg(rng, "connect") };
                ops.push(json!({"a": "in_msg", "i": i, "j": 0, "m": m, "addrs": random_addrs(rng)}));
                if rng.gen_bool(0.35) {
                    // the remote starts over on a new stream; later messages go to either stream
                    ops.push(json!({"a": "in_open", "i": i}));
                    if rng.gen_bool(0.8) {
                        ops.push(json!({"a": "in_msg", "i": i, "j": 0, "m": "connect", "addrs": random_addrs(rng)}));
                    }
                    if rng.gen_bool(0.5) {
                        ops.push(json!({"a": "in_msg", "i": i, "j": 1, "m": "sync", "addrs": []}));
                    }
                }
                if rng.gen_bool(0.1) {
                    ops.push(noise(rng, np, span));
                }
                let m = if rng.gen_bool(0.9) { "sync" } else { random_msg(rng, "sync") };
                ops.push(json!({"a": "in_msg", "i": i, "j": 0, "m": m, "addrs": []}));
                let x = rng.gen_range(0..100);
                let r = if x < 50 { "fail" } else if x < 90 { "ok" } else { "deny" };
                ops.push(json!({"a": "dialres", "i": i, "r": r}));
            }
        }
        if rng.gen_bool(0.3) {
            ops.push(json!({"a": "close", "i": rng.gen_range(0..4)}));
        }
    }
}

fn random_sched(rng: &mut impl Rng) -> Value {
    let mut ops = vec![];
    // candidates: sometimes more than the LRU bound (20)
    let nc = if rng.gen_bool(0.25) { rng.gen_range(18..=28) } else { rng.gen_range(0..=6) };
    let span = if nc > 10 { 26 } else { 5 };
    for _ in 0..nc {
        let f = if rng.gen_bool(0.7) { rng.gen_range(0..2) } else { rng.gen_range(0..4) };
        ops.push(json!({"a": "cand", "k": rng.gen_range(0..span), "f": f}));
    }
    let np = rng.gen_range(1..=NP);
    if rng.gen_bool(0.65) {
        episode_sched(rng, &mut ops, np, span);
    } else {
        free_sched(rng, &mut ops, np, span);
    }
    json!({"ops": ops})
}

pub fn main(a: &vcommon::Args) {
    vcommon::quiet_panics();
    let peers: Vec<PeerId> = (0..NP).map(|_| PeerId::random()).collect();
    let local = PeerId::random();
    let other = PeerId::random();
    let relay = PeerId::random();
    match a.get(0) {
        "replay" => {
            let scheds = vcommon::read_schedules(a.get(1));
            let mut out = Out::create(a.get(2));
            for s in &scheds {
                run(&mut out, s, &peers, local, other, relay);
            }
            println!("runs={} events={}", out.run, out.events);
            out.finish();
        }
        // every op sequence of length n over a fixed alphabet, after each of three prefixes: fresh connections /
        // two failed attempts and the third dial pending / an inbound handshake half way
        "exhaustive" => {
            let n = a.num(1) as usize;
            let mut out = Out::create(a.get(2));
            let alpha: Vec<Value> = vec![
                json!({"a": "open", "i": 0, "r": "ok"}),
                json!({"a": "open", "i": 0, "r": "unsup"}),
                json!({"a": "msg", "i": 0, "m": "connect", "addrs": ["d0", "relay", "dp1"]}),
                json!({"a": "msg", "i": 0, "m": "sync", "addrs": []}),
                json!({"a": "dialres", "i": 0, "r": "fail"}),
                json!({"a": "dialres", "i": 0, "r": "ok"}),
                json!({"a": "dialres", "i": 0, "r": "deny"}),
                json!({"a": "in_open", "i": 0}),
                json!({"a": "in_msg", "i": 0, "j": 0, "m": "connect", "addrs": ["d2", "bad"]}),
                json!({"a": "in_msg", "i": 0, "j": 0, "m": "sync", "addrs": []}),
                json!({"a": "in_msg", "i": 0, "j": 1, "m": "sync", "addrs": []}),
                json!({"a": "close", "i": 0}),
            ];
            let base: Vec<Value> = vec![
                json!({"a": "cand", "k": 1, "f": 0}),
                json!({"a": "cand", "k": 2, "f": 1}),
                json!({"a": "cand", "k": 3, "f": 2}),
                json!({"a": "cand", "k": 1, "f": 1}),
                json!({"a": "conn", "p": 0, "kind": "rin"}),
                json!({"a": "conn", "p": 1, "kind": "rout"}),
                json!({"a": "conn", "p": 0, "kind": "din"}),
            ];
            let round = |r: &str| -> Vec<Value> {
                vec![json!({"a": "open", "i": 0, "r": "ok"}), json!({"a": "msg", "i": 0, "m": "connect", "addrs": ["d0"]}), json!({"a": "dialres", "i": 0, "r": r})]
            };
            let mut pre1 = base.clone();
            pre1.extend(round("fail"));
            pre1.extend(round("deny"));
            pre1.extend(round("fail")[..2].to_vec());
            let mut pre2 = base.clone();
            pre2.push(json!({"a": "in_open", "i": 0}));
            pre2.push(json!({"a": "in_msg", "i": 0, "j": 0, "m": "connect", "addrs": ["d1", "relay"]}));
            let k = alpha.len();
            for pre in [&base, &pre1, &pre2] {
                for code in 0..k.pow(n as u32) {
                    let mut c = code;
                    let mut ops: Vec<Value> = pre.clone();
                    for _ in 0..n {
                        ops.push(alpha[c % k].clone());
                        c /= k;
                    }
                    run(&mut out, &json!({"ops": ops}), &peers, local, other, relay);
                }
            }
            // the candidate cache around its bound: m distinct candidates, two of them reported again
            for m in [1usize, 19, 20, 21, 22, 27] {
                for again in [0usize, 1, 5] {
                    let mut ops: Vec<Value> = (0..m).map(|k| json!({"a": "cand", "k": k, "f": k % 2})).collect();
                    ops.push(json!({"a": "cand", "k": again % m, "f": 0}));
                    ops.push(json!({"a": "cand", "k": (again + 3) % m, "f": 1}));
                    ops.push(json!({"a": "cand", "k": 40, "f": 2}));
                    ops.push(json!({"a": "conn", "p": 0, "kind": "rin"}));
                    ops.push(json!({"a": "open", "i": 0, "r": "ok"}));
                    ops.push(json!({"a": "conn", "p": 1, "kind": "rout"}));
                    ops.push(json!({"a": "in_open", "i": 0}));
                    ops.push(json!({"a": "in_msg", "i": 0, "j": 0, "m": "connect", "addrs": ["d1"]}));
                    run(&mut out, &json!({"ops": ops}), &peers, local, other, relay);
                }
            }
            println!("runs={} events={}", out.run, out.events);
            out.finish();
        }
        "random" => {
            let seed = a.num(1);
            let runs = a.num(2);
            let mut out = Out::create(a.get(3));
            let mut rng = vcommon::rng(seed.wrapping_mul(7919).wrapping_add(404));
            for _ in 0..runs {
                let s = random_sched(&mut rng);
                run(&mut out, &s, &peers, local, other, relay);
            }
            println!("runs={} events={}", out.run, out.events);
            out.finish();
        }
        m => {
            eprintln!("unknown sub-mode {m}");
            std::process::exit(2)
        }
    }
}
