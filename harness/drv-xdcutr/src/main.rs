//! Driver for libp2p-dcutr (extension component X04): the hole-punch attempt state machine of the
//! behaviour together with its real relayed-connection handlers.
mod beh;

fn main() {
    let a = vcommon::Args::parse();
    match a.mode.as_str() {
        "beh" => beh::main(&a),
        m => {
            eprintln!("unknown mode {m}");
            std::process::exit(2)
        }
    }
}
