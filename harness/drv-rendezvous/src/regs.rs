//! C51: drive the REAL `server::Registrations` through the server's request dispatcher
//! (`handle_request`), every request and response passing through the real wire codec, with the
//! per-registration expiry timers emulated on a logical clock: `tick` fires (through the real
//! `poll` path) the timer of every registration id whose TTL has elapsed, exactly the ids whose
//! `futures_timer::Delay` would have fired (including superseded / removed ones).
//!
//! Schedule: {"min","max","mpp","mt","ops":[..]} with ops
//!   {"a":"reg","p":i,"n":j,"ttl":t}     t = -1: no ttl in the request (DEFAULT_TTL applies)
//!   {"a":"unreg","p":i,"n":j}
//!   {"a":"disc","n":j|-1|-2,"ck":k,"lim":x|-1}   k = -1 none, -2 last cookie, k>=0: k-th cookie issued (mod count);
//!                                               n = -1 all namespaces, -2 the namespace the chosen cookie was issued for
//!   {"a":"tick","d":dt}
//! Trace events: reg / unreg / disc / tick / expired (see specs/TraceRendezvous.tla).
use libp2p_core::{Multiaddr, PeerRecord};
use libp2p_identity::{Keypair, PeerId};
use libp2p_rendezvous::{
    server::{Config, Event},
    verif::{self, Message, NewRegistration, Registrations},
    Cookie, ErrorCode, Namespace, Registration,
};
use rand::Rng;
use vcommon::{exec::Det, json, Out, Value};

const NS: [&str; 3] = ["a", "b", "c"];

fn keypair(i: usize) -> Keypair {
    let mut b = [0u8; 32];
    b[0] = i as u8 + 1;
    b[31] = 0x51;
    Keypair::ed25519_from_bytes(b).unwrap()
}

fn err_name(e: ErrorCode) -> &'static str {
    match e {
        ErrorCode::InvalidTtl => "ttl",
        ErrorCode::Unavailable => "unavail",
        ErrorCode::NotAuthorized => "unauth",
        ErrorCode::InvalidCookie => "cookie",
        ErrorCode::InvalidNamespace => "ns",
        ErrorCode::InvalidSignedPeerRecord => "record",
        ErrorCode::InternalError => "internal",
    }
}

/// the add operation (op index) a registration stems from: encoded in the record's address
fn seq_of(r: &Registration) -> i64 {
    use libp2p_core::multiaddr::Protocol;
    for a in r.record.addresses() {
        for p in a.iter() {
            if let Protocol::Tcp(port) = p {
                return port as i64;
            }
        }
    }
    -1
}

/// client -> wire -> server
fn wire(m: Message) -> Message {
    let bytes = verif::encode(m).expect("encode");
    verif::decode(&bytes).expect("decode").expect("complete frame")
}

struct Timer {
    id: u64,
    deadline: u64,
    fired: bool,
}

fn run(out: &mut Out, sched: &Value, keys: &[Keypair], peers: &[PeerId]) {
    let min = vcommon::n(sched, "min") as u64;
    let max = vcommon::n(sched, "max") as u64;
    let mpp = vcommon::n(sched, "mpp") as usize;
    let mt = vcommon::n(sched, "mt") as usize;
    out.reset_with(json!({"min": min, "max": max, "mpp": mpp, "mt": mt}), sched);
    let cfg = Config::default()
        .with_min_ttl(min)
        .with_max_ttl(max)
        .with_max_registration_per_peer(mpp)
        .with_max_registration_total(mt);
    let mut regs = Registrations::with_config(cfg);
    let det = Det::new();
    let mut now: u64 = 0;
    let mut timers: Vec<Timer> = vec![];
    let mut cookies: Vec<Vec<u8>> = vec![]; // wire encodings, index = cookie number
    let mut seq: i64 = 0;

    let ops = sched["ops"].as_array().unwrap().clone();
    for op in &ops {
        let r = vcommon::guard(|| {
            let mut evs: Vec<Value> = vec![];
            match vcommon::s(op, "a").as_str() {
                "reg" => {
                    let p = vcommon::n(op, "p") as usize;
                    let n = vcommon::n(op, "n") as usize;
                    let t = vcommon::n(op, "ttl");
                    seq += 1;
                    let addr: Multiaddr = format!("/ip4/127.0.0.1/tcp/{}", seq).parse().unwrap();
                    let rec = PeerRecord::new(&keys[p], vec![addr]).unwrap();
                    let ttl = if t < 0 { None } else { Some(t as u64) };
                    let new = NewRegistration::new(Namespace::from_static(NS[n]), rec, ttl);
                    let eff = new.effective_ttl();
                    let req = wire(Message::Register(new));
                    let (event, resp) = regs.handle_request(peers[p], req).expect("register is answered");
                    let resp = wire(resp.expect("register has a response"));
                    let (res, rttl) = match resp {
                        Message::RegisterResponse(Ok(t)) => ("ok", t as i64),
                        Message::RegisterResponse(Err(e)) => (err_name(e), -1),
                        _ => ("badresp", -1),
                    };
                    // the server's own event must agree with its response
                    let evok = matches!(event, Event::PeerRegistered { .. });
                    if res == "ok" {
                        // arm the emulated timer of the registration id now current for (p, n)
                        let id = regs
                            .current_ids()
                            .into_iter()
                            .find(|(pp, nn, _)| *pp == peers[p] && nn == NS[n])
                            .map(|x| x.2);
                        if let Some(id) = id {
                            timers.push(Timer { id, deadline: now + rttl as u64, fired: false });
                        }
                    }
                    evs.push(json!({"e": "reg", "p": p, "n": n, "ttl": eff, "seq": seq, "res": res, "rttl": rttl, "evok": evok}));
                }
                "unreg" => {
                    let p = vcommon::n(op, "p") as usize;
                    let n = vcommon::n(op, "n") as usize;
                    let req = wire(Message::Unregister(Namespace::from_static(NS[n])));
                    let _ = regs.handle_request(peers[p], req);
                    evs.push(json!({"e": "unreg", "p": p, "n": n}));
                }
                "disc" => {
                    let mut n = vcommon::n(op, "n");
                    let k = vcommon::n(op, "ck");
                    let lim = vcommon::n(op, "lim");
                    let ck: i64 = if cookies.is_empty() || k == -1 {
                        -1
                    } else if k == -2 {
                        cookies.len() as i64 - 1
                    } else {
                        k % cookies.len() as i64
                    };
                    let cookie = if ck >= 0 {
                        Some(Cookie::from_wire_encoding(cookies[ck as usize].clone()).expect("own cookie decodes"))
                    } else {
                        None
                    };
                    if n == -2 {
                        n = match cookie.as_ref().and_then(|c| c.namespace()) {
                            Some(ns) => NS.iter().position(|x| *ns == **x).map(|i| i as i64).unwrap_or(-1),
                            None => -1,
                        };
                    }
                    let req = wire(Message::Discover {
                        namespace: if n < 0 { None } else { Some(Namespace::from_static(NS[n as usize])) },
                        cookie,
                        limit: if lim < 0 { None } else { Some(lim as u64) },
                    });
                    let (_event, resp) = regs.handle_request(peers[0], req).expect("discover is answered");
                    let resp = wire(resp.expect("discover has a response"));
                    match resp {
                        Message::DiscoverResponse(Ok((found, cookie))) => {
                            let enc = cookie.into_wire_encoding();
                            let nck = match cookies.iter().position(|c| *c == enc) {
                                Some(i) => i,
                                None => {
                                    cookies.push(enc);
                                    cookies.len() - 1
                                }
                            };
                            let seqs: Vec<i64> = found.iter().map(seq_of).collect();
                            let nss: Vec<i64> =
                                found.iter().map(|r| NS.iter().position(|x| r.namespace == **x).map(|i| i as i64).unwrap_or(-1)).collect();
                            evs.push(json!({"e": "disc", "n": n, "ck": ck, "lim": lim, "res": "ok", "regs": seqs, "nss": nss, "nck": nck}));
                        }
                        Message::DiscoverResponse(Err(e)) => {
                            evs.push(json!({"e": "disc", "n": n, "ck": ck, "lim": lim, "res": err_name(e)}));
                        }
                        _ => evs.push(json!({"e": "disc", "n": n, "ck": ck, "lim": lim, "res": "badresp"})),
                    }
                }
                "tick" => {
                    now += vcommon::n(op, "d") as u64;
                    evs.push(json!({"e": "tick", "now": now}));
                    let mut due: Vec<&mut Timer> = timers.iter_mut().filter(|t| !t.fired && t.deadline <= now).collect();
                    due.sort_by_key(|t| t.deadline);
                    for t in due {
                        t.fired = true;
                        regs.fire_expiry(t.id);
                    }
                }
                x => panic!("op {x}"),
            }
            // the behaviour polls the table on every wake-up: collect expiries
            for r in vcommon::exec::drain(&det, 64, |cx| regs.poll(cx)) {
                evs.push(json!({"e": "expired", "seq": seq_of(&r)}));
            }
            evs
        });
        match r {
            Ok(evs) => {
                for e in evs {
                    out.ev(e)
                }
            }
            Err(m) => {
                out.ev(json!({"e": "panic", "msg": m}));
                break;
            }
        }
    }
}

fn alphabet() -> Vec<Value> {
    let mut a = vec![];
    for p in 0..2 {
        for n in 0..2 {
            a.push(json!({"a": "reg", "p": p, "n": n, "ttl": 1001}));
        }
    }
    a.push(json!({"a": "reg", "p": 0, "n": 0, "ttl": 1003}));
    a.push(json!({"a": "reg", "p": 0, "n": 0, "ttl": 999}));
    a.push(json!({"a": "reg", "p": 1, "n": 0, "ttl": 1004}));
    a.push(json!({"a": "unreg", "p": 0, "n": 0}));
    a.push(json!({"a": "disc", "n": -1, "ck": -1, "lim": -1}));
    a.push(json!({"a": "disc", "n": -1, "ck": -2, "lim": 1}));
    a.push(json!({"a": "disc", "n": 0, "ck": -2, "lim": -1}));
    a.push(json!({"a": "tick", "d": 1}));
    a.push(json!({"a": "tick", "d": 1001}));
    a
}

fn random_sched(rng: &mut impl Rng) -> Value {
    let (mpp, mt) = [(1, 1), (1, 2), (2, 2), (2, 3), (3, 4), (1, 3)][rng.gen_range(0..6)];
    let len = rng.gen_range(6..=30);
    let mut ops = vec![];
    for _ in 0..len {
        let x = rng.gen_range(0..100);
        let op = if x < 40 {
            let ttl = match rng.gen_range(0..10) {
                0 => 999,
                1 => 1004,
                2 => -1,
                3 => 1003,
                4 => 1000,
                _ => 1001,
            };
            json!({"a": "reg", "p": rng.gen_range(0..3), "n": rng.gen_range(0..3), "ttl": ttl})
        } else if x < 50 {
            json!({"a": "unreg", "p": rng.gen_range(0..3), "n": rng.gen_range(0..3)})
        } else if x < 80 {
            let ck = match rng.gen_range(0..4) {
                0 => -1,
                1 | 2 => -2,
                _ => rng.gen_range(0..8),
            };
            let lim = if rng.gen_bool(0.5) { -1 } else { rng.gen_range(0..3) };
            let n = if rng.gen_bool(0.6) { -2 } else { rng.gen_range(-1..3) };
            json!({"a": "disc", "n": n, "ck": ck, "lim": lim})
        } else {
            let d = [1, 2, 3, 500, 998, 1000, 1001][rng.gen_range(0..7)];
            json!({"a": "tick", "d": d})
        };
        ops.push(op);
    }
    // DEFAULT_TTL (7200) is inside [min,max] in a quarter of the runs
    let (min, max) = if rng.gen_range(0..4) == 0 { (1000, 7200) } else { (1000, 1003) };
    json!({"min": min, "max": max, "mpp": mpp, "mt": mt, "ops": ops})
}

pub fn main(a: &vcommon::Args) {
    vcommon::quiet_panics();
    let keys: Vec<Keypair> = (0..3).map(keypair).collect();
    let peers: Vec<PeerId> = keys.iter().map(|k| k.public().to_peer_id()).collect();
    match a.get(0) {
        "replay" => {
            let scheds = vcommon::read_schedules(a.get(1));
            let mut out = Out::create(a.get(2));
            for s in &scheds {
                run(&mut out, s, &keys, &peers);
            }
            println!("runs={} events={}", out.run, out.events);
            out.finish();
        }
        // every op sequence of length exactly n over the alphabet, for each limit pair
        "exhaustive" => {
            let n = a.num(1) as usize;
            let mut out = Out::create(a.get(2));
            let alpha = alphabet();
            let k = alpha.len();
            for (mpp, mt) in [(1usize, 2usize), (2, 2)] {
                let total = k.pow(n as u32);
                for code in 0..total {
                    let mut c = code;
                    let mut ops = vec![];
                    for _ in 0..n {
                        ops.push(alpha[c % k].clone());
                        c /= k;
                    }
                    // skip schedules without any accepted-looking registration
                    if !ops.iter().any(|o| o["a"] == "reg") {
                        continue;
                    }
                    let s = json!({"min": 1000, "max": 1003, "mpp": mpp, "mt": mt, "ops": ops});
                    run(&mut out, &s, &keys, &peers);
                }
            }
            println!("runs={} events={}", out.run, out.events);
            out.finish();
        }
        "random" => {
            let seed = a.num(1);
            let runs = a.num(2);
            let mut out = Out::create(a.get(3));
            let mut rng = vcommon::rng(seed.wrapping_mul(7919).wrapping_add(51));
            for _ in 0..runs {
                let s = random_sched(&mut rng);
                run(&mut out, &s, &keys, &peers);
            }
            println!("runs={} events={}", out.run, out.events);
            out.finish();
        }
        m => {
            eprintln!("unknown sub-mode {m}");
            std::process::exit(2)
        }
    }
}
