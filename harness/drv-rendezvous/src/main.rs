//! Driver for libp2p-rendezvous: the server's registration table (C51).
mod regs;

fn main() {
    let a = vcommon::Args::parse();
    match a.mode.as_str() {
        "regs" => regs::main(&a),
        m => {
            eprintln!("unknown mode {m}");
            std::process::exit(2)
        }
    }
}
