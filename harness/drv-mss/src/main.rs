//! Driver for multistream-select: negotiation over a scripted pipe (C14), message codec and
//! hostile input (C15).
mod msg;
mod negotiate;

fn main() {
    let a = vcommon::Args::parse();
    match a.mode.as_str() {
        "negotiate" => negotiate::main(&a),
        "msg" => msg::main(&a),
        m => {
            eprintln!("unknown mode {m}");
            std::process::exit(2)
        }
    }
}
