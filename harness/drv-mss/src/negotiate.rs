//! C14: the REAL `dialer_select_proto` / `listener_select_proto` futures and the `Negotiated`
//! streams they yield, over a manual pipe: the schedule decides who is polled when and how many
//! bytes of each direction become visible.
//!
//! Application bytes: dialer -> listener 'A'+(j mod 26), listener -> dialer 'a'+(j mod 26)
//! (never a well-formed negotiation frame, cf. the scope note of C14).
//!
//! Schedule: {"ver":"V1"|"V1Lazy","pd":[..],"pl":[..],"ops":[..]}
//! ops: pd pl (poll the select futures)  dl{d,n}  dw{len} dr{max} df dc  lw{len} lr{max} lf lc
use std::{future::Future, pin::Pin, task::Poll};

use futures::{AsyncRead, AsyncWrite};
use multistream_select::{dialer_select_proto, listener_select_proto, Negotiated, NegotiationError, Version};
use rand::Rng;
use vcommon::{exec::Det, json, pipe::{PipeCtl, PipeEnd}, Out, Value};

type Fut = Pin<Box<dyn Future<Output = Result<(String, Negotiated<PipeEnd>), NegotiationError>>>>;

struct Side {
    fut: Option<Fut>,
    io: Option<Negotiated<PipeEnd>>,
    off: u64,
    base: u8,
    name: &'static str,
    eof: bool,
}

struct World {
    s: [Side; 2],
    ctl: PipeCtl,
    det: Det,
}

fn settle<T>(det: &Det, mut f: impl FnMut(&mut std::task::Context<'_>) -> Poll<T>) -> Option<T> {
    for _ in 0..200 {
        let before = det.wakes();
        match f(&mut det.cx()) {
            Poll::Ready(v) => return Some(v),
            Poll::Pending => {
                if det.wakes() == before {
                    return None;
                }
            }
        }
    }
    None
}

fn err_kind(e: &NegotiationError) -> Value {
    match e {
        NegotiationError::Failed => json!({"r": "failed"}),
        NegotiationError::ProtocolError(p) => json!({"r": "error", "msg": p.to_string()}),
    }
}

impl World {
    /// poll a select future; true if it completed now
    fn poll_select(&mut self, i: usize, out: &mut Out) -> bool {
        let det = self.det.clone();
        let name = self.s[i].name;
        let Some(f) = self.s[i].fut.as_mut() else {
            out.ev(json!({"e": "skip", "why": "select finished", "who": name}));
            return false;
        };
        match vcommon::guard(|| settle(&det, |cx| f.as_mut().poll(cx))) {
            Ok(Some(r)) => {
                self.s[i].fut = None; // dropping the future drops the io it still owns (error cases)
                match r {
                    Ok((p, io)) => {
                        self.s[i].io = Some(io);
                        out.ev(json!({"e": format!("{name}res"), "r": "ok", "p": p}));
                    }
                    Err(e) => {
                        let mut v = err_kind(&e);
                        v["e"] = json!(format!("{name}res"));
                        out.ev(v);
                    }
                }
                true
            }
            Ok(None) => {
                out.ev(json!({"e": format!("{name}pending")}));
                false
            }
            Err(m) => {
                self.s[i].fut = None;
                out.ev(json!({"e": "panic", "msg": m, "who": name}));
                false
            }
        }
    }
    /// 0 nothing, 1 bytes, 2 eof, 3 error
    fn read(&mut self, i: usize, max: usize, out: &mut Out) -> u8 {
        let det = self.det.clone();
        let name = self.s[i].name;
        let Some(io) = self.s[i].io.as_mut() else {
            out.ev(json!({"e": "skip", "why": "no stream", "who": name}));
            return 0;
        };
        let mut buf = vec![0u8; max.max(1)];
        match vcommon::guard(|| settle(&det, |cx| Pin::new(&mut *io).poll_read(cx, &mut buf))) {
            Ok(Some(Ok(0))) => {
                self.s[i].eof = true;
                out.ev(json!({"e": format!("{name}r_eof")}));
                2
            }
            Ok(Some(Ok(n))) => {
                out.ev(json!({"e": format!("{name}r"), "bytes": buf[..n].to_vec()}));
                1
            }
            Ok(Some(Err(e))) => {
                out.ev(json!({"e": format!("{name}r_err"), "kind": format!("{:?}", e.kind()), "msg": e.to_string()}));
                // an errored Negotiated is not used any further
                self.s[i].io = None;
                3
            }
            Ok(None) => {
                out.ev(json!({"e": format!("{name}r_pending")}));
                0
            }
            Err(m) => {
                self.s[i].io = None;
                out.ev(json!({"e": "panic", "msg": m, "who": name}));
                0
            }
        }
    }
    fn wop(&mut self, i: usize, op: &str, len: usize, out: &mut Out) {
        let det = self.det.clone();
        let name = self.s[i].name;
        let (off, base) = (self.s[i].off, self.s[i].base);
        let Some(io) = self.s[i].io.as_mut() else {
            out.ev(json!({"e": "skip", "why": "no stream", "who": name}));
            return;
        };
        let data: Vec<u8> = (0..len as u64).map(|j| base + ((off + j) % 26) as u8).collect();
        let r = vcommon::guard(|| {
            settle(&det, |cx| match op {
                "w" => Pin::new(&mut *io).poll_write(cx, &data),
                // vectored write split into two slices (seeded mutant C14-2: the vectored path must flush pending
                // negotiation frames first, exactly like poll_write)
                "wv" => {
                    let mid = data.len() / 2;
                    let bufs = [std::io::IoSlice::new(&data[..mid]), std::io::IoSlice::new(&data[mid..])];
                    Pin::new(&mut *io).poll_write_vectored(cx, &bufs)
                }
                "f" => Pin::new(&mut *io).poll_flush(cx).map_ok(|_| 0),
                _ => Pin::new(&mut *io).poll_close(cx).map_ok(|_| 0),
            })
        });
        let op = if op == "wv" { "w" } else { op }; // a vectored write is reported like a plain write
        match r {
            Ok(Some(Ok(n))) => {
                if op == "w" {
                    self.s[i].off += n as u64;
                    out.ev(json!({"e": format!("{name}w"), "bytes": data[..n].to_vec()}));
                } else {
                    out.ev(json!({"e": format!("{name}{op}")}));
                }
            }
            Ok(Some(Err(e))) => out.ev(json!({"e": format!("{name}{op}_err"), "kind": format!("{:?}", e.kind()), "msg": e.to_string()})),
            Ok(None) => out.ev(json!({"e": format!("{name}{op}_pending")})),
            Err(m) => {
                self.s[i].io = None;
                out.ev(json!({"e": "panic", "msg": m, "who": name}));
            }
        }
    }
    fn deliver(&mut self, d: usize, n: i64, out: &mut Out) -> usize {
        let k = if n < 0 { self.ctl.deliver_all(d) } else { self.ctl.deliver(d, n as usize) };
        out.ev(json!({"e": "dl", "d": d, "n": k}));
        k
    }
}

fn run(out: &mut Out, sched: &Value) {
    let ver = vcommon::s(sched, "ver");
    let pd: Vec<String> = sched["pd"].as_array().unwrap().iter().map(|x| x.as_str().unwrap().to_string()).collect();
    let pl: Vec<String> = sched["pl"].as_array().unwrap().iter().map(|x| x.as_str().unwrap().to_string()).collect();
    out.reset_with(json!({"ver": ver, "pd": pd, "pl": pl}), sched);
    let (a, b, ctl) = vcommon::pipe::pipe(false);
    let rc = sched.get("chunk").and_then(|x| x.as_u64()).unwrap_or(0) as usize;
    let wc = sched.get("wchunk").and_then(|x| x.as_u64()).unwrap_or(0) as usize;
    for d in 0..2 {
        ctl.with(d, |x| {
            x.read_chunk = rc;
            x.write_chunk = wc;
        });
    }
    if let Some(b) = sched.get("wbudget").and_then(|x| x.as_u64()) {
        for d in 0..2 {
            ctl.set_write_budget(d, Some(b as usize));
        }
    }
    let v = if ver == "V1Lazy" { Version::V1Lazy } else { Version::V1 };
    let dfut: Fut = Box::pin(dialer_select_proto(a, pd.clone(), v));
    let lfut: Fut = Box::pin(listener_select_proto(b, pl.clone()));
    let mut w = World {
        s: [
            Side { fut: Some(dfut), io: None, off: 0, base: b'A', name: "d", eof: false },
            Side { fut: Some(lfut), io: None, off: 0, base: b'a', name: "l", eof: false },
        ],
        ctl,
        det: Det::new(),
    };
    for op in sched["ops"].as_array().unwrap() {
        let a = vcommon::s(op, "a");
        let len = op.get("len").and_then(|x| x.as_u64()).unwrap_or(0) as usize;
        let max = op.get("max").and_then(|x| x.as_u64()).unwrap_or(64) as usize;
        match a.as_str() {
            "pd" => {
                w.poll_select(0, out);
            }
            "pl" => {
                w.poll_select(1, out);
            }
            "dl" => {
                w.deliver(vcommon::n(op, "d") as usize, vcommon::n(op, "n"), out);
            }
            "dw" => w.wop(0, if op.get("vec").and_then(|x| x.as_bool()).unwrap_or(false) { "wv" } else { "w" }, len, out),
            // grant write budget to direction d (back-pressured transport: the writer sees Pending until then)
            "wb" => {
                let d = vcommon::n(op, "d") as usize;
                w.ctl.add_write_budget(d, vcommon::n(op, "n") as usize);
                out.ev(json!({"e": "wb", "d": d}));
            }
            "df" => w.wop(0, "f", 0, out),
            "dc" => w.wop(0, "c", 0, out),
            "dr" => {
                w.read(0, max, out);
            }
            "lw" => w.wop(1, if op.get("vec").and_then(|x| x.as_bool()).unwrap_or(false) { "wv" } else { "w" }, len, out),
            "lf" => w.wop(1, "f", 0, out),
            "lc" => w.wop(1, "c", 0, out),
            "lr" => {
                w.read(1, max, out);
            }
            x => panic!("op {x}"),
        }
    }
    // drain: both tasks run to completion, the wire delivers everything, both applications flush and
    // read whatever is there; finally both streams are dropped (EOF for a peer that still negotiates)
    out.ev(json!({"e": "drain"}));
    for d in 0..2 {
        w.ctl.set_write_budget(d, None);
    }
    for phase in 0..2 {
        for _round in 0..500 {
            let mut progress = false;
            for i in 0..2 {
                if w.s[i].fut.is_some() {
                    progress |= w.poll_select(i, out);
                }
                if w.s[i].io.is_some() {
                    w.wop(i, "f", 0, out);
                }
            }
            for d in 0..2 {
                if w.ctl.staged(d) > 0 {
                    progress |= w.deliver(d, -1, out) > 0;
                }
            }
            for i in 0..2 {
                while w.s[i].io.is_some() && !w.s[i].eof {
                    let p = w.read(i, 64, out);
                    if p == 0 || p == 3 {
                        progress |= p == 3;
                        break;
                    }
                    progress = true;
                }
            }
            if !progress {
                break;
            }
        }
        if phase == 0 {
            // the applications are done: whoever holds a stream closes and drops it
            for i in 0..2 {
                if w.s[i].io.is_some() {
                    w.wop(i, "c", 0, out);
                    w.s[i].io = None;
                    out.ev(json!({"e": format!("{}drop", w.s[i].name)}));
                }
            }
        }
    }
    out.ev(json!({"e": "end", "dfin": w.s[0].fut.is_none(), "lfin": w.s[1].fut.is_none()}));
}

// ------------------------------------------------------------------ generators

fn lists(maxlen: usize) -> Vec<Vec<String>> {
    let alpha = ["/a", "/b", "/c"];
    let mut all: Vec<Vec<String>> = vec![vec![]];
    let mut layer: Vec<Vec<String>> = vec![vec![]];
    for _ in 0..maxlen {
        let mut next = vec![];
        for l in &layer {
            for a in alpha {
                let mut n = l.clone();
                n.push(a.to_string());
                next.push(n);
            }
        }
        all.extend(next.iter().cloned());
        layer = next;
    }
    all
}

fn op(a: &str) -> Value {
    json!({"a": a})
}
fn dl(d: usize, n: i64) -> Value {
    json!({"a": "dl", "d": d, "n": n})
}

/// all protocol lists up to `maxlen` over {/a,/b,/c} x both versions x chunk styles
/// {one byte at a time, everything at once}, with a fixed application exchange afterwards
fn exhaustive(out: &mut Out, maxlen: usize) {
    let ls = lists(maxlen);
    for ver in ["V1", "V1Lazy"] {
        for pd in &ls {
            for pl in &ls {
                for style in 0..4 {
                    let mut ops = vec![];
                    // negotiation phase: alternate polls and deliveries
                    // style 3: the transport accepts only a few bytes per round (write budget), so flushes return Pending;
                    // the dialer's first application write is vectored
                    let rounds = if style == 0 { 80 } else if style == 3 { 40 } else { 10 };
                    let budget = [1u64, 2, 3, 7, 16, 24][(pd.len() + 2 * pl.len()) % 6];
                    for r in 0..rounds {
                        if style == 3 {
                            ops.push(json!({"a": "wb", "d": 0, "n": budget}));
                            ops.push(json!({"a": "wb", "d": 1, "n": budget}));
                        }
                        ops.push(op("pd"));
                        ops.push(dl(0, if style == 0 { 1 } else { -1 }));
                        ops.push(op("pl"));
                        ops.push(dl(1, if style == 0 { 1 } else if style == 1 { -1 } else { 3 }));
                        if r == 2 && style >= 2 {
                            // early application data on whatever stream exists already (lazy dialer!)
                            ops.push(json!({"a": "dw", "len": 5, "vec": style == 3}));
                            ops.push(op("df"));
                        }
                    }
                    ops.push(json!({"a": "dw", "len": 4}));
                    ops.push(json!({"a": "lw", "len": 3}));
                    ops.push(op("df"));
                    ops.push(op("lf"));
                    ops.push(dl(0, 2));
                    ops.push(json!({"a": "lr", "max": 3}));
                    ops.push(dl(1, -1));
                    ops.push(json!({"a": "dr", "max": 2}));
                    ops.push(op("dc"));
                    let mut sc = json!({"ver": ver, "pd": pd, "pl": pl, "ops": ops});
                    if style == 3 {
                        sc["wbudget"] = json!(0);
                    }
                    run(out, &sc);
                }
            }
        }
    }
}

fn random(out: &mut Out, seed: u64, runs: u64) {
    let mut rng = vcommon::rng(seed ^ 0x14_14);
    let alpha = ["/a", "/b", "/c", "/proto/long/name/1.0.0"];
    for _ in 0..runs {
        let ver = if rng.gen_bool(0.5) { "V1" } else { "V1Lazy" };
        let npd = [0, 1, 1, 1, 2, 3, 4][rng.gen_range(0..7)];
        let pd: Vec<&str> = (0..npd).map(|_| alpha[rng.gen_range(0..alpha.len())]).collect();
        let pl: Vec<&str> = (0..rng.gen_range(0..4)).map(|_| alpha[rng.gen_range(0..alpha.len())]).collect();
        let n = rng.gen_range(10..=90);
        let mut ops = vec![];
        let slow = rng.gen_bool(0.4);
        for _ in 0..n {
            match rng.gen_range(0..100) {
                0..=17 => ops.push(op("pd")),
                18..=35 => ops.push(op("pl")),
                36..=65 => {
                    let k: i64 = if slow { [1, 1, 2, 3][rng.gen_range(0..4)] } else { [1, 2, 5, 19, 20, 21, -1][rng.gen_range(0..7)] };
                    ops.push(dl(rng.gen_range(0..2), k));
                }
                66..=73 => ops.push(json!({"a": "dw", "len": rng.gen_range(1..=8), "vec": rng.gen_bool(0.4)})),
                74..=79 => ops.push(json!({"a": "lw", "len": rng.gen_range(1..=8), "vec": rng.gen_bool(0.4)})),
                80..=84 => ops.push(op(["df", "lf"][rng.gen_range(0..2)])),
                85..=90 => {
                    let mx = [1, 3, 64][rng.gen_range(0..3)];
                    ops.push(json!({"a": "dr", "max": mx}));
                }
                91..=96 => {
                    let mx = [1, 3, 64][rng.gen_range(0..3)];
                    ops.push(json!({"a": "lr", "max": mx}));
                }
                97 => ops.push(op("dc")),
                _ => ops.push(op("lc")),
            }
        }
        let chunk = [0, 0, 1, 2][rng.gen_range(0..4)];
        let wchunk = [0, 0, 1, 3][rng.gen_range(0..4)];
        let mut sc = json!({"ver": ver, "pd": pd, "pl": pl, "chunk": chunk, "wchunk": wchunk, "ops": ops});
        if rng.gen_bool(0.35) {
            // back-pressured transport: budget granted in small portions between the other ops
            sc["wbudget"] = json!(rng.gen_range(0..=3));
            let b = [1, 2, 3, 7, 16][rng.gen_range(0..5)];
            let old: Vec<Value> = sc["ops"].as_array().unwrap().clone();
            let mut neu = vec![];
            for (i, o) in old.into_iter().enumerate() {
                if i % 2 == 0 {
                    neu.push(json!({"a": "wb", "d": i / 2 % 2, "n": b}));
                }
                neu.push(o);
            }
            sc["ops"] = Value::Array(neu);
        }
        run(out, &sc);
    }
}

pub fn main(a: &vcommon::Args) {
    if std::env::var("VERIF_LOUD").is_err() {
        vcommon::quiet_panics();
    }
    match a.get(0) {
        "replay" => {
            let scheds = vcommon::read_schedules(a.get(1));
            let mut out = Out::create(a.get(2));
            for s in &scheds {
                run(&mut out, s);
            }
            println!("runs={} events={}", out.run, out.events);
            out.finish();
        }
        "exhaustive" => {
            let mut out = Out::create(a.get(2));
            exhaustive(&mut out, a.num(1) as usize);
            println!("runs={} events={}", out.run, out.events);
            out.finish();
        }
        "random" => {
            let mut out = Out::create(a.get(3));
            random(&mut out, a.num(1), a.num(2));
            println!("runs={} events={}", out.run, out.events);
            out.finish();
        }
        m => panic!("negotiate mode {m}"),
    }
}
