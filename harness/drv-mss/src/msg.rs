pub fn main(_a: &vcommon::Args) {
    unimplemented!()
}
