//! C15: negotiation message codec and hostile input.
//!
//! `msg records <level> <out>`: relation records
//!   rt    encode_message -> decode_message round trip of generated valid messages (verif hook)
//!   dec   decode_message on hand-built bodies (counts around MAX_PROTOCOLS, names without '/', ...)
//!   wire  what the REAL listener / dialer put on the wire (public API): every frame's length-prefix
//!         size, body size and decoded message
//! `msg hostile enum|random ..`: traces of the public select functions fed crafted / random bytes,
//!   then the resulting streams are used some more (read, read again, flush, close).
use std::{future::Future, pin::Pin, task::Poll};

#[allow(unused_imports)]
use futures::{AsyncRead, AsyncWrite};
use multistream_select::{
    dialer_select_proto, listener_select_proto,
    verif::{decode_message, encode_message, Msg},
    Negotiated, NegotiationError, ProtocolError, Version,
};
use rand::Rng;
use vcommon::{exec::Det, json, pipe::PipeEnd, Out, Value};

fn varint(mut v: u64, out: &mut Vec<u8>) {
    loop {
        let b = (v & 0x7f) as u8;
        v >>= 7;
        if v == 0 {
            out.push(b);
            return;
        }
        out.push(b | 0x80);
    }
}

fn perr(e: &ProtocolError) -> String {
    match e {
        ProtocolError::IoError(e) => format!("io:{:?}", e.kind()),
        ProtocolError::InvalidMessage => "InvalidMessage".into(),
        ProtocolError::InvalidProtocol => "InvalidProtocol".into(),
        ProtocolError::TooManyProtocols => "TooManyProtocols".into(),
    }
}

fn name(len: usize, salt: usize) -> String {
    // '/' + (len-1) characters from a protocol-name alphabet
    let alpha = b"abcdefghijklmnopqrstuvwxyzABCDEFGHIJKLMNOPQRSTUVWXYZ0123456789/.-_";
    let mut s = String::from("/");
    for i in 1..len.max(1) {
        s.push(alpha[(i * 7 + salt * 13) % alpha.len()] as char);
    }
    s
}

fn describe(m: &Msg) -> Value {
    match m {
        Msg::Header => json!({"kind": "Header", "n": 0}),
        Msg::Protocol(p) => json!({"kind": "Protocol", "n": 1, "len": p.len()}),
        Msg::ListProtocols => json!({"kind": "Ls", "n": 0}),
        Msg::Protocols(ps) => json!({"kind": "Protocols", "n": ps.len(), "sum": ps.iter().map(|p| p.len()).sum::<usize>() % 1_000_000}),
        Msg::NotAvailable => json!({"kind": "Na", "n": 0}),
    }
}

fn rt(out: &mut Out, m: Msg) {
    let d = describe(&m);
    let r = vcommon::guard(|| {
        let enc = encode_message(&m).map_err(|e| perr(&e))?;
        let dec = decode_message(&enc).map_err(|e| perr(&e))?;
        Ok::<_, String>((enc.len(), dec))
    });
    let v = match r {
        Ok(Ok((n, dec))) => json!({"t": "rt", "msg": d, "enc_len": n, "res": if dec == m { "same" } else { "diff" }, "err": "-", "got": describe(&dec)}),
        Ok(Err(e)) => json!({"t": "rt", "msg": d, "enc_len": 0, "res": "err", "err": e, "got": {"kind": "-", "n": 0}}),
        Err(p) => json!({"t": "rt", "msg": d, "res": "panic", "panic": p}),
    };
    out.ev(v);
}

/// hand-built `ls` response body: `count` names, name i is "/p<i>" unless i == bad_at
fn dec_case(out: &mut Out, count: usize, bad_at: usize, bad: &str, terminator: bool) {
    let mut body = vec![];
    for i in 1..=count {
        let mut nm = format!("/p{i}").into_bytes();
        let mut declared = nm.len() + 1;
        let mut nl = true;
        if i == bad_at {
            match bad {
                "noslash" => nm[0] = b'p',
                "empty" => {
                    nm.clear();
                    declared = 0;
                    nl = false;
                }
                "overlong" => declared += 50_000,
                "no_nl" => nl = false,
                "utf8" => nm.push(0xff),
                _ => panic!("bad {bad}"),
            }
            if bad == "utf8" {
                declared = nm.len() + 1;
            }
        }
        varint(declared as u64, &mut body);
        body.extend_from_slice(&nm);
        if nl {
            body.push(b'\n');
        } else if bad == "no_nl" && i == bad_at {
            body.push(b'x');
        }
    }
    if terminator {
        body.push(b'\n');
    }
    let r = vcommon::guard(|| decode_message(&body));
    let res = match r {
        Ok(Ok(m)) => json!({"ok": true, "panic": false, "err": "-", "got": describe(&m)}),
        Ok(Err(e)) => json!({"ok": false, "panic": false, "err": perr(&e), "got": {"kind": "-", "n": 0}}),
        Err(p) => json!({"ok": false, "panic": true, "err": p, "got": {"kind": "-", "n": 0}}),
    };
    out.ev(json!({"t": "dec", "count": count, "bad_at": bad_at, "bad": bad, "term": terminator, "len": body.len(), "res": res}));
}

/// single-line bodies: "<first><rest>\n"
fn line_case(out: &mut Out, body: &[u8], class: &str) {
    let r = vcommon::guard(|| decode_message(body));
    let res = match r {
        Ok(Ok(m)) => json!({"ok": true, "panic": false, "err": "-", "got": describe(&m)}),
        Ok(Err(e)) => json!({"ok": false, "panic": false, "err": perr(&e), "got": {"kind": "-", "n": 0}}),
        Err(p) => json!({"ok": false, "panic": true, "err": p, "got": {"kind": "-", "n": 0}}),
    };
    out.ev(json!({"t": "line", "class": class, "len": body.len(), "res": res}));
}

type Fut = Pin<Box<dyn Future<Output = Result<(String, Negotiated<PipeEnd>), NegotiationError>>>>;

fn settle<T>(det: &Det, mut f: impl FnMut(&mut std::task::Context<'_>) -> Poll<T>) -> Option<T> {
    for _ in 0..300 {
        let before = det.wakes();
        match f(&mut det.cx()) {
            Poll::Ready(v) => return Some(v),
            Poll::Pending => {
                if det.wakes() == before {
                    return None;
                }
            }
        }
    }
    None
}

fn frame(body: &[u8]) -> Vec<u8> {
    let mut v = vec![];
    varint(body.len() as u64, &mut v);
    v.extend_from_slice(body);
    v
}

/// split a captured byte stream into frames: (prefix bytes, declared len, decoded message)
fn parse_wire(mut b: &[u8]) -> Vec<Value> {
    let mut frames = vec![];
    while !b.is_empty() && frames.len() < 16 {
        let mut len: u64 = 0;
        let mut plen = 0;
        loop {
            if plen >= b.len() || plen >= 9 {
                frames.push(json!({"plen": plen, "len": 0, "trunc": true, "msg": {"kind": "-", "n": 0}}));
                return frames;
            }
            let x = b[plen];
            len |= ((x & 0x7f) as u64) << (7 * plen);
            plen += 1;
            if x & 0x80 == 0 {
                break;
            }
        }
        let len = len as usize;
        if b.len() < plen + len {
            frames.push(json!({"plen": plen, "len": len, "trunc": true, "msg": {"kind": "-", "n": 0}}));
            return frames;
        }
        let body = &b[plen..plen + len];
        let m = match vcommon::guard(|| decode_message(body)) {
            Ok(Ok(m)) => describe(&m),
            Ok(Err(e)) => json!({"kind": format!("err:{}", perr(&e)), "n": 0}),
            Err(p) => json!({"kind": "panic", "n": 0, "msg": p}),
        };
        frames.push(json!({"plen": plen, "len": len, "trunc": false, "msg": m}));
        b = &b[plen + len..];
    }
    frames
}

/// what the real listener writes when asked `ls` (and a rejected / accepted proposal)
fn wire_listener(out: &mut Out, nprotos: usize, namelen: usize) {
    let pl: Vec<String> = (0..nprotos).map(|i| name(namelen, i)).collect();
    let (a, b, ctl) = vcommon::pipe::pipe(true);
    ctl.with(1, |d| d.keep_log = true);
    let mut fut: Fut = Box::pin(listener_select_proto(b, pl.clone()));
    let det = Det::new();
    let mut input = frame(b"/multistream/1.0.0\n");
    input.extend(frame(b"ls\n"));
    input.extend(frame(b"/definitely/not/supported\n"));
    if let Some(p) = pl.first() {
        input.extend(frame(format!("{p}\n").as_bytes()));
    }
    ctl.inject(0, &input);
    let r = vcommon::guard(|| settle(&det, |cx| fut.as_mut().poll(cx)));
    let outcome = match &r {
        Ok(Some(Ok((p, _)))) => json!({"r": "ok", "plen": p.len()}),
        Ok(Some(Err(NegotiationError::Failed))) => json!({"r": "failed"}),
        Ok(Some(Err(NegotiationError::ProtocolError(e)))) => json!({"r": "error", "err": perr(e)}),
        Ok(None) => json!({"r": "pending"}),
        Err(p) => json!({"r": "panic", "msg": p}),
    };
    let frames = parse_wire(&ctl.take_log(1));
    // size of the ls response body the listener has to send
    let ls_body: usize = pl.iter().map(|p| p.len() + 1 + if p.len() + 1 < 128 { 1 } else { 2 }).sum::<usize>() + 1;
    out.ev(json!({"t": "wire", "who": "listener", "nprotos": nprotos, "namelen": namelen, "ls_body": ls_body, "outcome": outcome, "frames": frames}));
    drop(a);
}

/// what the real dialer writes (header + proposal), for protocol names of a given length
fn wire_dialer(out: &mut Out, namelen: usize, lazy: bool) {
    let p = name(namelen, 3);
    let (a, b, ctl) = vcommon::pipe::pipe(true);
    ctl.with(0, |d| d.keep_log = true);
    let mut fut: Fut = Box::pin(dialer_select_proto(a, vec![p.clone()], if lazy { Version::V1Lazy } else { Version::V1 }));
    let det = Det::new();
    let r = vcommon::guard(|| settle(&det, |cx| fut.as_mut().poll(cx)));
    let mut keep = None;
    let outcome = match r {
        Ok(Some(Ok((_, mut io)))) => {
            // lazy: the frames go out with the first flush
            let _ = vcommon::guard(|| settle(&det, |cx| Pin::new(&mut io).poll_flush(cx)));
            keep = Some(io);
            json!({"r": "ok"})
        }
        Ok(Some(Err(NegotiationError::Failed))) => json!({"r": "failed"}),
        Ok(Some(Err(NegotiationError::ProtocolError(e)))) => json!({"r": "error", "err": perr(&e)}),
        Ok(None) => json!({"r": "pending"}),
        Err(p) => json!({"r": "panic", "msg": p}),
    };
    let frames = parse_wire(&ctl.take_log(0));
    out.ev(json!({"t": "wire", "who": "dialer", "lazy": lazy, "namelen": namelen, "outcome": outcome, "frames": frames}));
    drop(keep);
    drop(b);
}

fn records(out: &mut Out, level: u64) {
    // ---- round trips
    rt(out, Msg::Header);
    rt(out, Msg::ListProtocols);
    rt(out, Msg::NotAvailable);
    let lens: &[usize] = if level >= 2 {
        &[1, 2, 3, 19, 20, 126, 127, 128, 129, 1000, 16381, 16382, 16383, 16384, 40000]
    } else {
        &[1, 2, 19, 126, 127, 128, 16382, 16383, 16384]
    };
    for &l in lens {
        for salt in 0..(if level >= 2 { 4 } else { 2 }) {
            rt(out, Msg::Protocol(name(l, salt)));
        }
    }
    for &k in &[0usize, 1, 2, 3, 10, 999, 1000, 1001, 1002, 2500] {
        for &l in &[1usize, 2, 5, 126, 127, 128] {
            if k * l > 400_000 {
                continue;
            }
            rt(out, Msg::Protocols((0..k).map(|i| name(l, i)).collect()));
        }
    }
    // ---- hand-built ls responses
    for &count in &[0usize, 1, 2, 999, 1000, 1001, 1002, 3000] {
        dec_case(out, count, 0, "-", true);
        dec_case(out, count, 0, "-", false);
        if count > 0 {
            for bad in ["noslash", "empty", "overlong", "no_nl", "utf8"] {
                for at in [1, count / 2 + 1, count] {
                    dec_case(out, count, at, bad, true);
                }
            }
        }
    }
    // ---- single-line bodies
    line_case(out, b"/multistream/1.0.0\n", "header");
    line_case(out, b"na\n", "na");
    line_case(out, b"ls\n", "ls");
    line_case(out, b"/echo/1.0.0\n", "proto");
    line_case(out, b"echo/1.0.0\n", "noslash");
    line_case(out, b"\n", "emptyls");
    line_case(out, b"", "empty");
    line_case(out, b"/echo/1.0.0", "no_nl");
    line_case(out, b"na", "no_nl");
    line_case(out, b"/\xff\xfe\n", "utf8");
    line_case(out, b"x\n", "noslash");
    // ---- what the real endpoints put on the wire
    for &n in &[0usize, 1, 2, 50, 999, 1000, 1001, 1500] {
        for &l in &[2usize, 8, 126, 127, 128, 200] {
            if level < 2 && l > 8 && n > 50 {
                continue;
            }
            wire_listener(out, n, l);
        }
    }
    for &l in &[2usize, 126, 127, 128, 16382, 16383, 16384, 20000] {
        wire_dialer(out, l, false);
        wire_dialer(out, l, true);
    }
}

// ------------------------------------------------------------------ hostile input through the public API

/// {"role":"listener"|"dialer"|"lazy","case":..,"input":[bytes] | "seed","chunks":[..],"eof":bool}
fn hostile_run(out: &mut Out, sched: &Value) {
    let role = vcommon::s(sched, "role");
    let input: Vec<u8> = sched["input"].as_array().unwrap().iter().map(|x| x.as_u64().unwrap() as u8).collect();
    let expect = sched.get("expect").and_then(|x| x.as_str()).unwrap_or("any").to_string();
    out.reset_with(json!({"role": role, "expect": expect, "n": input.len()}), sched);
    let (a, b, ctl) = vcommon::pipe::pipe(true);
    let det = Det::new();
    // the code under test owns end 0; the hostile peer is the driver injecting into direction 1
    let mut fut: Fut = match role.as_str() {
        "listener" => Box::pin(listener_select_proto(a, vec!["/a".to_string(), "/b".to_string()])),
        "dialer" => Box::pin(dialer_select_proto(a, vec!["/a".to_string(), "/b".to_string()], Version::V1)),
        _ => Box::pin(dialer_select_proto(a, vec!["/a".to_string()], Version::V1Lazy)),
    };
    let mut io: Option<Negotiated<PipeEnd>> = None;
    let mut done = false;
    let mut chunks: Vec<usize> = sched["chunks"].as_array().map(|a| a.iter().map(|x| x.as_u64().unwrap() as usize).collect()).unwrap_or_default();
    chunks.push(usize::MAX);
    let mut pos = 0;
    let mut peer = Some(b);
    let step = |fut: &mut Fut, io: &mut Option<Negotiated<PipeEnd>>, done: &mut bool, out: &mut Out| {
        if !*done {
            match vcommon::guard(|| settle(&det, |cx| fut.as_mut().poll(cx))) {
                Ok(Some(Ok((p, s)))) => {
                    *done = true;
                    *io = Some(s);
                    out.ev(json!({"e": "res", "r": "ok", "p": p}));
                }
                Ok(Some(Err(NegotiationError::Failed))) => {
                    *done = true;
                    out.ev(json!({"e": "res", "r": "failed"}));
                }
                Ok(Some(Err(NegotiationError::ProtocolError(e)))) => {
                    *done = true;
                    out.ev(json!({"e": "res", "r": "error", "err": perr(&e)}));
                }
                Ok(None) => out.ev(json!({"e": "pending"})),
                Err(p) => {
                    *done = true;
                    out.ev(json!({"e": "panic", "msg": p, "at": "select"}));
                }
            }
        } else if let Some(s) = io.as_mut() {
            // use the stream like an application would: read; after an error once more; then flush and close
            let mut buf = [0u8; 32];
            for op in ["read", "read", "flush", "close"] {
                let r = vcommon::guard(|| {
                    settle(&det, |cx| match op {
                        "read" => Pin::new(&mut *s).poll_read(cx, &mut buf),
                        "flush" => Pin::new(&mut *s).poll_flush(cx).map_ok(|_| 0),
                        _ => Pin::new(&mut *s).poll_close(cx).map_ok(|_| 0),
                    })
                });
                match r {
                    Ok(Some(Ok(n))) => out.ev(json!({"e": "io", "op": op, "r": "ok", "n": n})),
                    Ok(Some(Err(e))) => out.ev(json!({"e": "io", "op": op, "r": "err", "kind": format!("{:?}", e.kind())})),
                    Ok(None) => out.ev(json!({"e": "io", "op": op, "r": "pending"})),
                    Err(p) => {
                        out.ev(json!({"e": "panic", "msg": p, "at": op}));
                        *io = None;
                        return;
                    }
                }
            }
        }
    };
    step(&mut fut, &mut io, &mut done, out);
    for c in chunks {
        if pos >= input.len() {
            break;
        }
        let n = c.min(input.len() - pos);
        ctl.inject(1, &input[pos..pos + n]);
        pos += n;
        out.ev(json!({"e": "feed", "n": n}));
        step(&mut fut, &mut io, &mut done, out);
    }
    if sched.get("eof").and_then(|x| x.as_bool()).unwrap_or(true) {
        peer = None; // the hostile peer hangs up
        out.ev(json!({"e": "hangup"}));
        step(&mut fut, &mut io, &mut done, out);
        step(&mut fut, &mut io, &mut done, out);
    }
    out.ev(json!({"e": "end", "done": done}));
    drop(peer);
}

fn b2v(b: &[u8]) -> Vec<u64> {
    b.iter().map(|x| *x as u64).collect()
}

fn hostile_enum(out: &mut Out) {
    let hdr = frame(b"/multistream/1.0.0\n");
    let cat = |parts: &[&[u8]]| -> Vec<u8> { parts.iter().flat_map(|p| p.iter().cloned()).collect() };
    let mut big = vec![];
    varint(16383, &mut big);
    big.extend(std::iter::repeat(b'x').take(16383));
    let mut toobig = vec![0xff, 0xff, 0x01]; // 3-byte length prefix (32767)
    toobig.extend(std::iter::repeat(b'x').take(40));
    let mut many = vec![];
    for i in 0..1001 {
        let nm = format!("/p{i}\n");
        varint(nm.len() as u64, &mut many);
        many.extend_from_slice(nm.as_bytes());
    }
    many.push(b'\n');
    let cases: Vec<(&str, Vec<u8>, &str)> = vec![
        ("oversize_first", toobig.clone(), "error"),
        ("oversize_after_header", cat(&[&hdr, &toobig]), "error"),
        ("max_len_garbage", cat(&[&hdr, &big]), "error"),
        ("noslash_name", cat(&[&hdr, &frame(b"a\n")]), "error"),
        ("too_many_protocols", cat(&[&hdr, &frame(&many)]), "error"),
        ("zero_len_frame", cat(&[&hdr, &frame(b"")]), "error"),
        ("wrong_header", frame(b"/multistream/2.0.0\n"), "error"),
        // length prefixes that are not minimal / not terminated within two bytes (the stream is read again afterwards)
        ("nonminimal_len_first", vec![0x80, 0x00, b'/', b'a', b'\n'], "error"),
        ("nonminimal_len_after_header", cat(&[&hdr, &[0x80, 0x00, b'/', b'a', b'\n']]), "error"),
        ("nonminimal_len2_after_header", cat(&[&hdr, &[0x83, 0x00, b'/', b'a', b'\n']]), "error"),
        ("three_byte_zero_len", cat(&[&hdr, &[0x80, 0x80, 0x00, b'/', b'a', b'\n']]), "error"),
        ("truncated_len", vec![0x85], "any"),
        ("truncated_body", vec![0x13, b'/', b'm'], "any"),
        ("nothing", vec![], "failed"),
        ("na_only", cat(&[&hdr, &frame(b"na\n")]), "any"),
        ("ls_only", cat(&[&hdr, &frame(b"ls\n")]), "any"),
        // a confirmation for a protocol that was never proposed (same length as the proposal "/a")
        ("wrong_confirmation", cat(&[&hdr, &frame(b"/c\n"), b"xyz"]), "error"),
    ];
    for role in ["listener", "dialer", "lazy"] {
        for (case, input, expect) in &cases {
            // a lazy dialer settles before reading anything: its outcome is `ok`, errors show on the stream
            // ... and no read on it may ever succeed for any of these inputs
            let exp = if role == "lazy" {
                "lazy_err"
            } else if role == "listener" && *case == "wrong_confirmation" {
                "any" // for a listener this is just a proposal it does not support, then garbage
            } else {
                expect
            };
            for chunks in [vec![], vec![1], vec![1, 1, 1], vec![2, 17], vec![19, 1, 1]] {
                hostile_run(out, &json!({"role": role, "case": case, "expect": exp, "input": b2v(input), "chunks": chunks}));
            }
        }
    }
}

fn hostile_random(out: &mut Out, seed: u64, runs: u64) {
    let mut rng = vcommon::rng(seed ^ 0x15_15);
    let hdr = frame(b"/multistream/1.0.0\n");
    for _ in 0..runs {
        let role = ["listener", "dialer", "lazy"][rng.gen_range(0..3)];
        let mut input = vec![];
        if rng.gen_bool(0.6) {
            input.extend_from_slice(&hdr);
        }
        let style = rng.gen_range(0..4);
        let n = rng.gen_range(0..80);
        for _ in 0..n {
            input.push(match style {
                0 => rng.gen(),
                1 => {
                    let a = b"/\nnals\x03\x02\x13a";
                    a[rng.gen_range(0..a.len())]
                }
                2 => rng.gen_range(0..8),
                _ => {
                    if rng.gen_bool(0.2) {
                        rng.gen()
                    } else {
                        let a = b"/a\n/b\n\x03\x03na\n\x03ls\n";
                        a[rng.gen_range(0..a.len())]
                    }
                }
            });
        }
        let chunks: Vec<usize> = (0..rng.gen_range(0..10)).map(|_| rng.gen_range(1..=12)).collect();
        hostile_run(out, &json!({"role": role, "case": "random", "expect": "any", "input": b2v(&input), "chunks": chunks, "eof": rng.gen_bool(0.8)}));
    }
}

pub fn main(a: &vcommon::Args) {
    if std::env::var("VERIF_LOUD").is_err() {
        vcommon::quiet_panics();
    }
    match a.get(0) {
        "records" => {
            let mut out = Out::create(a.get(2));
            records(&mut out, a.num(1));
            println!("records={}", out.events);
            out.finish();
        }
        "hostile" => match a.get(1) {
            "replay" => {
                let scheds = vcommon::read_schedules(a.get(2));
                let mut out = Out::create(a.get(3));
                for s in &scheds {
                    hostile_run(&mut out, s);
                }
                println!("runs={} events={}", out.run, out.events);
                out.finish();
            }
            "enum" => {
                let mut out = Out::create(a.get(2));
                hostile_enum(&mut out);
                println!("runs={} events={}", out.run, out.events);
                out.finish();
            }
            "random" => {
                let mut out = Out::create(a.get(4));
                hostile_random(&mut out, a.num(2), a.num(3));
                println!("runs={} events={}", out.run, out.events);
                out.finish();
            }
            m => panic!("hostile mode {m}"),
        },
        m => panic!("msg mode {m}"),
    }
}
