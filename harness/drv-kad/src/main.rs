//! Driver for libp2p-kad components: k-bucket table (C37, C38), key metric (C40), peer iterators (C39),
//! memory store (C41), record lifetimes and inbound request handling (C42, C43), wire codec (C44).
mod kbucket;
mod lookup;
mod record;
mod store;
mod wire;

fn main() {
    let a = vcommon::Args::parse();
    let sub = vcommon::Args { mode: a.mode.clone(), rest: a.rest.clone() };
    match a.mode.as_str() {
        "kbucket" => kbucket::main(&sub),
        "store" => store::main(&sub),
        "wire" => wire::main(&sub),
        "lookup" => lookup::main(&sub),
        "record" => record::main(&sub),
        m => {
            eprintln!("unknown mode {m}");
            std::process::exit(2)
        }
    }
}
