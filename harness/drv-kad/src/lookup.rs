//! C39: the real peer iterators (`ClosestPeersIter`, `ClosestDisjointPeersIter`, `FixedPeersIter`) driven by an
//! environment that answers, fails, delays (synthetic instants) or ignores requests. Peers are real `PeerId`s
//! named by their distance rank to a real target key (1 = closest). One event per call.
use std::{
    num::NonZeroUsize,
    time::{Duration, Instant},
};

use libp2p_identity::PeerId;
use libp2p_kad::{
    verif::{ClosestPeersIter, ClosestPeersIterConfig, DisjointIter, FixedIter, KeyBytes, PeersIterState},
    KBucketKey,
};
use rand::{seq::SliceRandom, Rng};
use vcommon::{json, Out, Value};

const UNIT: Duration = Duration::from_secs(1);

enum It {
    Closest(ClosestPeersIter),
    Disjoint(DisjointIter),
    Fixed(FixedIter),
}

struct World {
    peers: Vec<PeerId>, // index = rank - 1
}

impl World {
    fn new(n: usize, pseed: u64) -> (World, KeyBytes) {
        let tk = KBucketKey::new(vec![b't', (pseed >> 8) as u8, pseed as u8]);
        let target: KeyBytes = tk.clone().into();
        let mut peers: Vec<PeerId> = (0..n as u64)
            .map(|i| PeerId::from_bytes(&[0x00, 0x05, b'q', (pseed >> 8) as u8, pseed as u8, (i >> 8) as u8, i as u8]).unwrap())
            .collect();
        peers.sort_by_key(|p| KBucketKey::from(*p).distance(&tk));
        (World { peers }, target)
    }
    fn rank(&self, p: &PeerId) -> i64 {
        self.peers.iter().position(|x| x == p).map(|i| i as i64 + 1).unwrap_or(-1)
    }
    fn peer(&self, r: i64) -> PeerId {
        self.peers[(r - 1) as usize]
    }
}

fn ranks(v: &Value, k: &str) -> Vec<i64> {
    v.get(k).and_then(|x| x.as_array()).map(|a| a.iter().map(|x| x.as_i64().unwrap()).collect()).unwrap_or_default()
}

struct Run {
    w: World,
    it: It,
    base: Instant,
    now: i64,
    timeout: i64,
    finished: bool,
    outstanding: Vec<i64>, // contacted, no accepted answer yet
    last_peer: bool,
    evs: Vec<Value>,
    events: u64,
    forced: bool,
    n: usize,
}

impl Run {
    fn ev(&mut self, v: Value) {
        self.events += 1;
        self.evs.push(v);
    }
    fn new(sched: &Value) -> (Run, Value) {
        let kind = vcommon::s(sched, "kind");
        let n = vcommon::n(sched, "n") as usize;
        let par = vcommon::n(sched, "par") as usize;
        let nres = vcommon::n(sched, "nres") as usize;
        let timeout = vcommon::n(sched, "timeout");
        let pseed = vcommon::n(sched, "pseed") as u64;
        let seeds = ranks(sched, "seeds");
        let (w, target) = World::new(n, pseed);
        let hdr = json!({"kind": kind, "n": n, "par": par, "nres": nres, "timeout": timeout, "seeds": seeds});
        let cfg = ClosestPeersIterConfig {
            parallelism: NonZeroUsize::new(par).unwrap(),
            num_results: NonZeroUsize::new(nres).unwrap(),
            peer_timeout: UNIT * timeout as u32,
        };
        let seed_ids: Vec<PeerId> = seeds.iter().map(|r| w.peer(*r)).collect();
        let it = match kind.as_str() {
            "closest" => It::Closest(ClosestPeersIter::with_config(cfg, target, seed_ids.iter().map(|p| KBucketKey::from(*p)))),
            "disjoint" => It::Disjoint(DisjointIter::with_config(cfg, target, seed_ids.iter().map(|p| KBucketKey::from(*p)).collect())),
            "fixed" => It::Fixed(FixedIter::new(seed_ids.clone(), NonZeroUsize::new(par).unwrap())),
            k => panic!("driver: kind {k}"),
        };
        (Run { w, it, base: Instant::now(), now: 0, timeout, finished: false, outstanding: vec![], last_peer: false, evs: vec![], events: 0, forced: false, n }, hdr)
    }
    fn apply(&mut self, op: &Value) -> Result<(), String> {
        match vcommon::s(op, "a").as_str() {
            "next" => self.next()?,
            "succ" => self.succ(vcommon::n(op, "p"), &ranks(op, "closer"))?,
            "fail" => self.fail(vcommon::n(op, "p"))?,
            "tick" => self.tick(vcommon::n(op, "d")),
            "finish" => {
                let it = &mut self.it;
                vcommon::guard(|| match it {
                    It::Closest(i) => i.finish(),
                    It::Disjoint(i) => i.finish(),
                    It::Fixed(i) => i.finish(),
                })?;
                self.ev(json!({"e": "finish"}));
                self.forced = true;
            }
            x => panic!("driver: op {x}"),
        }
        Ok(())
    }
    fn next(&mut self) -> Result<(), String> {
        let t = self.base + UNIT * self.now as u32;
        let w = &self.w;
        let it = &mut self.it;
        let r = vcommon::guard(|| {
            let st = match it {
                It::Closest(i) => i.next(t),
                It::Disjoint(i) => i.next(t),
                It::Fixed(i) => i.next(),
            };
            let (res, p) = match st {
                PeersIterState::Waiting(Some(p)) => ("peer", w.rank(&p)),
                PeersIterState::Waiting(None) => ("none", 0),
                PeersIterState::WaitingAtCapacity => ("cap", 0),
                PeersIterState::Finished => ("fin", 0),
            };
            let nw = match it {
                It::Closest(i) => i.num_waiting() as i64,
                _ => -1,
            };
            (res, p, nw)
        })?;
        let (res, p, nw) = r;
        self.ev(json!({"e": "next", "now": self.now, "res": res, "p": p, "nw": nw}));
        self.last_peer = res == "peer";
        if res == "peer" && p > 0 {
            self.outstanding.push(p);
        }
        if res == "fin" {
            self.finished = true;
        }
        Ok(())
    }
    fn succ(&mut self, p: i64, closer: &[i64]) -> Result<(), String> {
        let pid = self.w.peer(p);
        let cl: Vec<PeerId> = closer.iter().map(|r| self.w.peer(*r)).collect();
        let it = &mut self.it;
        let ret = vcommon::guard(|| match it {
            It::Closest(i) => i.on_success(&pid, cl),
            It::Disjoint(i) => i.on_success(&pid, cl),
            It::Fixed(i) => i.on_success(&pid),
        })?;
        self.ev(json!({"e": "succ", "p": p, "closer": closer, "ret": ret}));
        if ret {
            self.outstanding.retain(|x| *x != p);
        }
        Ok(())
    }
    fn fail(&mut self, p: i64) -> Result<(), String> {
        let pid = self.w.peer(p);
        let it = &mut self.it;
        let ret = vcommon::guard(|| match it {
            It::Closest(i) => i.on_failure(&pid),
            It::Disjoint(i) => i.on_failure(&pid),
            It::Fixed(i) => i.on_failure(&pid),
        })?;
        self.ev(json!({"e": "fail", "p": p, "ret": ret}));
        if ret {
            self.outstanding.retain(|x| *x != p);
        }
        Ok(())
    }
    fn tick(&mut self, d: i64) {
        self.now += d;
        self.ev(json!({"e": "tick", "d": d, "now": self.now}));
    }
}

fn run(out: &mut Out, sched: &Value) {
    let (mut r, hdr) = Run::new(sched);
    out.reset_with(hdr, sched);
    let n = r.n;
    let res: Result<(), String> = (|| {
        for op in sched["ops"].as_array().unwrap() {
            r.apply(op)?;
        }
        // drain: let the lookup run to completion; every outstanding request eventually fails or times out
        let budget = 6 * n + 12;
        let mut steps = 0;
        let mut idle = 0;
        while !r.finished {
            steps += 1;
            if steps > budget {
                r.ev(json!({"e": "stuck", "steps": steps}));
                return Ok(());
            }
            r.next()?;
            if r.finished {
                break;
            }
            if r.last_was_peer() {
                idle = 0;
                continue;
            }
            if let Some(p) = r.outstanding.iter().min().copied() {
                // alternate: fail the closest outstanding request, or let time pass beyond the timeout
                if (steps + p as usize) % 3 == 0 && r.timeout > 0 && !matches!(r.it, It::Fixed(_)) {
                    let d = r.timeout;
                    r.tick(d);
                    idle += 1;
                    if idle > 2 {
                        r.fail(p)?;
                        idle = 0;
                    }
                } else {
                    r.fail(p)?;
                    idle = 0;
                }
            } else {
                // nothing outstanding and not finished: only a repeated call can make progress
                idle += 1;
                if idle > 3 {
                    r.ev(json!({"e": "stuck", "steps": steps}));
                    return Ok(());
                }
            }
        }
        Ok(())
    })();
    if let Err(m) = res {
        r.ev(json!({"e": "panic", "msg": m}));
        for e in r.evs.drain(..) {
            out.ev(e);
        }
        return;
    }
    let forced = r.forced;
    let mut evs = std::mem::take(&mut r.evs);
    let w = &r.w;
    let it = r.it;
    let outp = vcommon::guard(move || {
        let v: Vec<PeerId> = match it {
            It::Closest(i) => i.into_result().collect(),
            It::Disjoint(i) => i.into_result(),
            It::Fixed(i) => i.into_result(),
        };
        v
    });
    match outp {
        Ok(v) => {
            let o: Vec<i64> = v.iter().map(|p| w.rank(p)).collect();
            evs.push(json!({"e": "result", "out": o, "forced": forced}));
        }
        Err(m) => evs.push(json!({"e": "panic", "msg": m})),
    }
    for e in evs {
        out.ev(e);
    }
}

impl Run {
    fn last_was_peer(&self) -> bool {
        self.last_peer
    }
}

fn rand_sched(rng: &mut rand::rngs::StdRng, kind: &str) -> Value {
    let n = rng.gen_range(2..=9usize);
    let par = rng.gen_range(1..=3usize);
    let nres = rng.gen_range(1..=4usize);
    let timeout = rng.gen_range(1..=3i64);
    let mut all: Vec<i64> = (1..=n as i64).collect();
    all.shuffle(rng);
    let ns = if kind == "fixed" { rng.gen_range(1..=n) } else { rng.gen_range(1..=n.min(4)) };
    let mut seeds: Vec<i64> = all[..ns].to_vec();
    if kind == "fixed" && rng.gen_bool(0.2) {
        let d = seeds[0];
        seeds.push(d); // duplicate in the fixed list
    }
    // adaptive environment: ops are chosen while running a scratch iterator (iterators are deterministic, so the
    // recorded op list replays identically)
    let pseed = rng.gen_range(0..60000u64);
    let len = rng.gen_range(3..=30);
    let mut ops: Vec<Value> = vec![];
    let probe = json!({"kind": kind, "n": n, "par": par, "nres": nres, "timeout": timeout, "pseed": pseed, "seeds": seeds, "ops": []});
    let (mut sim, _) = Run::new(&probe);
    let finish_at = if rng.gen_bool(0.06) { rng.gen_range(0..len) } else { usize::MAX };
    for i in 0..len {
        let x = rng.gen_range(0..100);
        let pick = |rng: &mut rand::rngs::StdRng, sim: &Run| -> i64 {
            if !sim.outstanding.is_empty() && rng.gen_bool(0.85) {
                sim.outstanding[rng.gen_range(0..sim.outstanding.len())]
            } else {
                rng.gen_range(1..=n as i64)
            }
        };
        let op = if i == finish_at {
            json!({"a": "finish"})
        } else if x < 42 {
            json!({"a": "next"})
        } else if x < 74 {
            let p = pick(rng, &sim);
            let k = match rng.gen_range(0..5) {
                0 => 0,
                1 | 2 => 1,
                3 => rng.gen_range(0..=n.min(3)),
                _ => rng.gen_range(0..=n),
            };
            let mut c: Vec<i64> = (1..=n as i64).collect();
            c.shuffle(rng);
            c.truncate(k);
            json!({"a": "succ", "p": p, "closer": c})
        } else if x < 86 {
            json!({"a": "fail", "p": pick(rng, &sim)})
        } else {
            json!({"a": "tick", "d": if rng.gen_bool(0.5) { 1 } else { timeout }})
        };
        if sim.apply(&op).is_err() {
            ops.push(op);
            break;
        }
        ops.push(op);
    }
    json!({"kind": kind, "n": n, "par": par, "nres": nres, "timeout": timeout, "pseed": pseed, "seeds": seeds, "ops": ops})
}

/// all environment op sequences of length `len` over a small alphabet for a 3-peer world
fn exhaustive(out: &mut Out, len: usize, kinds: &[&str]) {
    let n = 3i64;
    let mut alphabet: Vec<Value> = vec![json!({"a": "next"}), json!({"a": "tick", "d": 2})];
    for p in 1..=n {
        alphabet.push(json!({"a": "succ", "p": p, "closer": []}));
        alphabet.push(json!({"a": "succ", "p": p, "closer": [1, 2, 3]}));
        alphabet.push(json!({"a": "fail", "p": p}));
    }
    let kk = alphabet.len();
    for kind in kinds {
        for (par, nres, seeds) in [(1usize, 1usize, vec![3i64]), (2, 1, vec![2, 3]), (1, 2, vec![3]), (2, 2, vec![3, 2])] {
            let mut idx = vec![0usize; len];
            loop {
                // always start with a next() so that something is in flight
                let mut ops = vec![json!({"a": "next"})];
                ops.extend(idx.iter().map(|&i| alphabet[i].clone()));
                run(out, &json!({"kind": kind, "n": n, "par": par, "nres": nres, "timeout": 2, "pseed": 7, "seeds": seeds, "ops": ops}));
                let mut j = 0;
                while j < len {
                    idx[j] += 1;
                    if idx[j] < kk {
                        break;
                    }
                    idx[j] = 0;
                    j += 1;
                }
                if j == len {
                    break;
                }
            }
        }
    }
}

pub fn main(a: &vcommon::Args) {
    vcommon::quiet_panics();
    match a.get(0) {
        "replay" => {
            let scheds = vcommon::read_schedules(a.get(1));
            let mut out = Out::create(a.get(2));
            for s in &scheds {
                run(&mut out, s);
            }
            println!("runs={} events={}", out.run, out.events);
            out.finish();
        }
        // random <seed> <runs> <out> [kinds=closest,fixed,disjoint]
        "random" => {
            let seed = a.num(1);
            let runs = a.num(2);
            let mut out = Out::create(a.get(3));
            let kinds = a.kv("kinds").unwrap_or_else(|| "closest".to_string());
            let kinds: Vec<&str> = kinds.split(',').collect();
            let mut rng = vcommon::rng(seed ^ 0x39);
            for i in 0..runs {
                let s = rand_sched(&mut rng, kinds[i as usize % kinds.len()]);
                run(&mut out, &s);
            }
            println!("runs={} events={}", out.run, out.events);
            out.finish();
        }
        // exhaustive <len> <out> [kinds=..]
        "exhaustive" => {
            let mut out = Out::create(a.get(2));
            let kinds = a.kv("kinds").unwrap_or_else(|| "closest".to_string());
            let kinds: Vec<&str> = kinds.split(',').collect();
            exhaustive(&mut out, a.num(1) as usize, &kinds);
            println!("runs={} events={}", out.run, out.events);
            out.finish();
        }
        m => panic!("lookup mode {m}"),
    }
}
