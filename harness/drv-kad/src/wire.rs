//! C44: the real Kademlia wire codec. Messages are built from abstract shapes, sent through the real
//! `ProtocolConfig` upgrade (`Framed<_, Codec<..>>`: req_msg_to_proto / resp_msg_to_proto + prost + length prefix) into
//! an in-memory buffer and read back through the opposite upgrade (proto_to_req_msg / proto_to_resp_msg). Both the
//! expected and the decoded message are projected to small integers; TLC compares them. Arbitrary / mutated bytes are
//! fed to both decoders.
use std::{
    pin::Pin,
    task::Poll,
    time::{Duration, Instant},
};

use futures::{io::Cursor, Sink, Stream};
use libp2p_core::{
    upgrade::{InboundUpgrade, OutboundUpgrade},
    Multiaddr,
};
use libp2p_identity::PeerId;
use libp2p_kad::{
    verif::{KadRequestMsg, KadResponseMsg, ProtoMessage, ProtocolConfig},
    ConnectionType, KadPeer, Record, RecordKey,
};
use libp2p_swarm::StreamProtocol;
use rand::Rng;
use vcommon::{exec::Det, json, Out, Value};

fn peer(i: u64) -> PeerId {
    PeerId::from_bytes(&[0x00, 0x04, b'w', b'r', 0, i as u8]).expect("identity multihash peer id")
}
fn abs_peer(p: &PeerId) -> i64 {
    (0..16).find(|i| &peer(*i) == p).map(|i| i as i64).unwrap_or(-1)
}
fn cfg() -> ProtocolConfig {
    ProtocolConfig::new(StreamProtocol::new("/ipfs/kad/1.0.0"))
}
fn ct(i: i64) -> ConnectionType {
    match i {
        0 => ConnectionType::NotConnected,
        1 => ConnectionType::Connected,
        2 => ConnectionType::CanConnect,
        _ => ConnectionType::CannotConnect,
    }
}
fn ct_abs(c: ConnectionType) -> i64 {
    match c {
        ConnectionType::NotConnected => 0,
        ConnectionType::Connected => 1,
        ConnectionType::CanConnect => 2,
        ConnectionType::CannotConnect => 3,
    }
}
/// address j of peer i; odd j already carries the matching /p2p suffix
fn addr(i: u64, j: u64) -> Multiaddr {
    let a: Multiaddr = format!("/ip4/10.0.{i}.{j}/tcp/4001").parse().unwrap();
    if j % 2 == 1 {
        a.with_p2p(peer(i)).unwrap()
    } else {
        a
    }
}
fn kad_peer(i: u64, naddr: u64, c: i64) -> KadPeer {
    KadPeer { node_id: peer(i), multiaddrs: (0..naddr).map(|j| addr(i, j)).collect(), connection_ty: ct(c) }
}
fn key(len: i64) -> Vec<u8> {
    (0..len).map(|x| 0x40 + x as u8).collect()
}
fn record(s: &Value, t0: Instant) -> Record {
    Record {
        key: RecordKey::from(key(vcommon::n(s, "keylen"))),
        value: vec![0x55; vcommon::n(s, "vlen") as usize],
        publisher: if vcommon::b(s, "haspub") { Some(peer(9)) } else { None },
        // "ttl_ms": a remaining lifetime below one second (the wire carries whole seconds: must go out as 1, never as 0 = "no expiry")
        expires: if let Some(ms) = s.get("ttl_ms").and_then(|x| x.as_u64()) {
            Some(t0 + Duration::from_millis(ms))
        } else if vcommon::n(s, "ttl") > 0 {
            Some(t0 + Duration::from_secs(vcommon::n(s, "ttl") as u64))
        } else {
            None
        },
    }
}
fn peers(n: i64, base: u64, naddr: i64, c: i64) -> Vec<KadPeer> {
    (0..n as u64).map(|i| kad_peer(base + i, naddr as u64, (c + i as i64) % 4)).collect()
}

enum Msg {
    Req(KadRequestMsg),
    Resp(KadResponseMsg),
}

fn build(s: &Value, t0: Instant) -> Msg {
    let kind = vcommon::s(s, "kind");
    let kl = vcommon::n(s, "keylen");
    let naddr = vcommon::n(s, "naddr");
    let c = vcommon::n(s, "ct");
    if vcommon::s(s, "dir") == "req" {
        Msg::Req(match kind.as_str() {
            "Ping" => KadRequestMsg::Ping,
            "FindNode" => KadRequestMsg::FindNode { key: key(kl) },
            "GetProviders" => KadRequestMsg::GetProviders { key: RecordKey::from(key(kl)) },
            "AddProvider" => KadRequestMsg::AddProvider { key: RecordKey::from(key(kl)), provider: kad_peer(1, naddr as u64, c) },
            "GetValue" => KadRequestMsg::GetValue { key: RecordKey::from(key(kl)) },
            "PutValue" => KadRequestMsg::PutValue { record: record(s, t0) },
            k => panic!("driver: kind {k}"),
        })
    } else {
        let nc = vcommon::n(s, "ncloser");
        let np = vcommon::n(s, "nprov");
        Msg::Resp(match kind.as_str() {
            "Pong" => KadResponseMsg::Pong,
            "FindNode" => KadResponseMsg::FindNode { closer_peers: peers(nc, 1, naddr, c) },
            "GetProviders" => KadResponseMsg::GetProviders { closer_peers: peers(nc, 1, naddr, c), provider_peers: peers(np, 5, naddr, c + 1) },
            "GetValue" => KadResponseMsg::GetValue { record: if vcommon::b(s, "hasrec") { Some(record(s, t0)) } else { None }, closer_peers: peers(nc, 1, naddr, c) },
            "PutValue" => KadResponseMsg::PutValue { key: RecordKey::from(key(kl)), value: vec![0x55; vcommon::n(s, "vlen") as usize] },
            k => panic!("driver: kind {k}"),
        })
    }
}

fn p_addr(a: &Multiaddr) -> Value {
    // /ip4/10.0.i.j/tcp/4001[/p2p/..]
    let s = a.to_string();
    let parts: Vec<&str> = s.split('/').collect();
    let ip: Vec<i64> = parts.get(2).map(|x| x.split('.').map(|y| y.parse().unwrap_or(-1)).collect()).unwrap_or_default();
    let p2p = parts.get(5) == Some(&"p2p");
    let who = if p2p { parts.get(6).and_then(|x| x.parse::<PeerId>().ok()).map(|p| abs_peer(&p)).unwrap_or(-1) } else { -2 };
    json!([ip.get(2).copied().unwrap_or(-1), ip.get(3).copied().unwrap_or(-1), who])
}
/// projection of a peer as it must come back: every address ends in /p2p/<its own id>
fn p_peer(p: &KadPeer, normalise: bool) -> Value {
    let addrs: Vec<Value> = p
        .multiaddrs
        .iter()
        .map(|a| if normalise { p_addr(&a.clone().with_p2p(p.node_id).expect("matching p2p")) } else { p_addr(a) })
        .collect();
    json!([abs_peer(&p.node_id), ct_abs(p.connection_ty), addrs])
}
fn p_bytes(b: &[u8]) -> Value {
    json!(b.iter().map(|x| *x as i64).collect::<Vec<_>>())
}
fn p_rec(r: &Record) -> Value {
    json!([p_bytes(r.key.as_ref()), p_bytes(&r.value), r.publisher.as_ref().map(abs_peer).unwrap_or(-2), r.expires.is_some()])
}
fn p_req(m: &KadRequestMsg, norm: bool) -> Value {
    match m {
        KadRequestMsg::Ping => json!({"k": "Ping"}),
        KadRequestMsg::FindNode { key } => json!({"k": "FindNode", "key": p_bytes(key)}),
        KadRequestMsg::GetProviders { key } => json!({"k": "GetProviders", "key": p_bytes(key.as_ref())}),
        KadRequestMsg::AddProvider { key, provider } => json!({"k": "AddProvider", "key": p_bytes(key.as_ref()), "prov": p_peer(provider, norm)}),
        KadRequestMsg::GetValue { key } => json!({"k": "GetValue", "key": p_bytes(key.as_ref())}),
        KadRequestMsg::PutValue { record } => json!({"k": "PutValue", "rec": p_rec(record)}),
    }
}
fn p_resp(m: &KadResponseMsg, norm: bool) -> Value {
    let ps = |v: &Vec<KadPeer>| Value::Array(v.iter().map(|p| p_peer(p, norm)).collect());
    match m {
        KadResponseMsg::Pong => json!({"k": "Pong"}),
        KadResponseMsg::FindNode { closer_peers } => json!({"k": "FindNode", "closer": ps(closer_peers)}),
        KadResponseMsg::GetProviders { closer_peers, provider_peers } => json!({"k": "GetProviders", "closer": ps(closer_peers), "provs": ps(provider_peers)}),
        KadResponseMsg::GetValue { record, closer_peers } => json!({"k": "GetValue", "rec": record.as_ref().map(p_rec).unwrap_or(json!([])), "closer": ps(closer_peers)}),
        KadResponseMsg::PutValue { key, value } => json!({"k": "PutValue", "key": p_bytes(key.as_ref()), "value": p_bytes(value)}),
    }
}
fn expiry_of(m: &Msg) -> Option<Instant> {
    match m {
        Msg::Req(KadRequestMsg::PutValue { record }) => record.expires,
        Msg::Resp(KadResponseMsg::GetValue { record: Some(r), .. }) => r.expires,
        _ => None,
    }
}

/// encode through the real sink side of the upgrade
fn encode(m: &Msg) -> Result<Vec<u8>, String> {
    let det = Det::new();
    let mut cx = det.cx();
    macro_rules! send {
        ($framed:expr, $item:expr) => {{
            let mut f = $framed;
            let mut p = Pin::new(&mut f);
            match p.as_mut().poll_ready(&mut cx) {
                Poll::Ready(Ok(())) => {}
                x => return Err(format!("poll_ready: {x:?}")),
            }
            p.as_mut().start_send($item).map_err(|e| format!("start_send: {e}"))?;
            match p.as_mut().poll_flush(&mut cx) {
                Poll::Ready(Ok(())) => {}
                x => return Err(format!("poll_flush: {x:?}")),
            }
            Ok(f.into_inner().into_inner())
        }};
    }
    match m {
        Msg::Req(r) => {
            let fut = cfg().upgrade_outbound(Cursor::new(Vec::<u8>::new()), StreamProtocol::new("/ipfs/kad/1.0.0"));
            let framed = futures::FutureExt::now_or_never(fut).unwrap().map_err(|e| e.to_string())?;
            send!(framed, r.clone())
        }
        Msg::Resp(r) => {
            let fut = cfg().upgrade_inbound(Cursor::new(Vec::<u8>::new()), StreamProtocol::new("/ipfs/kad/1.0.0"));
            let framed = futures::FutureExt::now_or_never(fut).unwrap().map_err(|e| e.to_string())?;
            send!(framed, r.clone())
        }
    }
}

enum Dec {
    Req(KadRequestMsg),
    Resp(KadResponseMsg),
    Err(String),
    Eof,
    Pending,
}

/// decode through the real stream side of the upgrade
fn decode(bytes: &[u8], as_req: bool) -> Dec {
    let det = Det::new();
    let mut cx = det.cx();
    if as_req {
        let fut = cfg().upgrade_inbound(Cursor::new(bytes.to_vec()), StreamProtocol::new("/ipfs/kad/1.0.0"));
        let mut f = futures::FutureExt::now_or_never(fut).unwrap().unwrap();
        match Pin::new(&mut f).poll_next(&mut cx) {
            Poll::Ready(Some(Ok(m))) => Dec::Req(m),
            Poll::Ready(Some(Err(e))) => Dec::Err(e.to_string()),
            Poll::Ready(None) => Dec::Eof,
            Poll::Pending => Dec::Pending,
        }
    } else {
        let fut = cfg().upgrade_outbound(Cursor::new(bytes.to_vec()), StreamProtocol::new("/ipfs/kad/1.0.0"));
        let mut f = futures::FutureExt::now_or_never(fut).unwrap().unwrap();
        match Pin::new(&mut f).poll_next(&mut cx) {
            Poll::Ready(Some(Ok(m))) => Dec::Resp(m),
            Poll::Ready(Some(Err(e))) => Dec::Err(e.to_string()),
            Poll::Ready(None) => Dec::Eof,
            Poll::Pending => Dec::Pending,
        }
    }
}

fn off_us(t: Instant, t0: Instant) -> i64 {
    let d = t.saturating_duration_since(t0);
    let us = d.as_micros() as i64;
    if Duration::from_micros(us as u64) < d {
        us + 1
    } else {
        us
    }
}

fn roundtrip(shape: &Value) -> Value {
    let mut ev = json!({"m": "rt", "shape": shape});
    let r = vcommon::guard(|| {
        let t0 = Instant::now();
        let m = build(shape, t0);
        let mut ev = json!({});
        // the wire form (type code, connection types, ttl) as the sender's conversion produces it
        let pm: ProtoMessage = match &m {
            Msg::Req(r) => r.clone().into(),
            Msg::Resp(r) => r.clone().into(),
        };
        ev["wtype"] = json!(pm.r#type);
        ev["wconn"] = json!(pm.closer_peers.iter().chain(pm.provider_peers.iter()).map(|p| p.connection as i64).collect::<Vec<_>>());
        ev["wttl"] = json!(pm.record.as_ref().map(|r| r.ttl as i64).unwrap_or(-1));
        ev["exp"] = match &m {
            Msg::Req(r) => p_req(r, true),
            Msg::Resp(r) => p_resp(r, true),
        };
        let bytes = match encode(&m) {
            Ok(b) => b,
            Err(e) => {
                ev["res"] = json!("encode-error");
                ev["msg"] = json!(e);
                return ev;
            }
        };
        ev["len"] = json!(bytes.len());
        let d = decode(&bytes, matches!(m, Msg::Req(_)));
        let t1 = Instant::now();
        let (res, got, eout) = match &d {
            Dec::Req(x) => ("ok", p_req(x, false), expiry_of(&Msg::Req(x.clone()))),
            Dec::Resp(x) => ("ok", p_resp(x, false), expiry_of(&Msg::Resp(x.clone()))),
            Dec::Err(e) => ("err", json!({"k": e}), None),
            Dec::Eof => ("eof", json!({"k": "eof"}), None),
            Dec::Pending => ("pending", json!({"k": "pending"}), None),
        };
        ev["res"] = json!(res);
        ev["got"] = got;
        // expiry: remaining lifetime given (us), decoded expiry offset from t0 (us), bound instant t1
        let ein = expiry_of(&m);
        ev["ein"] = json!(ein.map(|t| off_us(t, t0)).unwrap_or(-1));
        ev["eout"] = json!(eout.map(|t| off_us(t, t0)).unwrap_or(-1));
        ev["t1"] = json!(off_us(t1, t0));
        // the same bytes must not decode as the other direction's message kind silently differently: not checked
        ev
    });
    match r {
        Ok(v) => {
            for (k, x) in v.as_object().unwrap() {
                ev[k] = x.clone();
            }
        }
        Err(m) => ev["panic"] = json!(m),
    }
    ev
}

fn hexs(b: &[u8]) -> String {
    b.iter().map(|x| format!("{x:02x}")).collect()
}
fn unhex(s: &str) -> Vec<u8> {
    (0..s.len() / 2).map(|i| u8::from_str_radix(&s[2 * i..2 * i + 2], 16).unwrap()).collect()
}

/// arbitrary bytes into both decoders; whatever decodes must survive a further round trip unchanged
fn fuzz(bytes: &[u8]) -> Value {
    let mut ev = json!({"m": "fuzz", "hex": hexs(bytes)});
    let r = vcommon::guard(|| {
        let mut o = vec![];
        for as_req in [true, false] {
            let d = decode(bytes, as_req);
            let (res, again) = match d {
                Dec::Req(m) => {
                    let a = encode(&Msg::Req(m.clone())).ok().map(|b| decode(&b, true));
                    ("ok", matches!(a, Some(Dec::Req(ref m2)) if p_req(m2, false) == p_req(&m, true)))
                }
                Dec::Resp(m) => {
                    let a = encode(&Msg::Resp(m.clone())).ok().map(|b| decode(&b, false));
                    ("ok", matches!(a, Some(Dec::Resp(ref m2)) if p_resp(m2, false) == p_resp(&m, true)))
                }
                Dec::Err(_) => ("err", true),
                Dec::Eof => ("eof", true),
                Dec::Pending => ("pending", true),
            };
            o.push(json!([res, again]));
        }
        o
    });
    match r {
        Ok(o) => ev["dec"] = Value::Array(o),
        Err(m) => ev["panic"] = json!(m),
    }
    ev
}

fn sample_frames() -> Vec<Vec<u8>> {
    let t0 = Instant::now();
    let shapes = [
        json!({"dir": "req", "kind": "AddProvider", "keylen": 3, "naddr": 2, "ct": 1, "ncloser": 0, "nprov": 0, "hasrec": false, "haspub": false, "ttl": 0, "vlen": 0}),
        json!({"dir": "req", "kind": "PutValue", "keylen": 3, "naddr": 0, "ct": 0, "ncloser": 0, "nprov": 0, "hasrec": true, "haspub": true, "ttl": 90, "vlen": 2}),
        json!({"dir": "resp", "kind": "GetProviders", "keylen": 0, "naddr": 1, "ct": 2, "ncloser": 2, "nprov": 1, "hasrec": false, "haspub": false, "ttl": 0, "vlen": 0}),
        json!({"dir": "resp", "kind": "GetValue", "keylen": 3, "naddr": 1, "ct": 3, "ncloser": 1, "nprov": 0, "hasrec": true, "haspub": true, "ttl": 5, "vlen": 2}),
        json!({"dir": "req", "kind": "FindNode", "keylen": 3, "naddr": 0, "ct": 0, "ncloser": 0, "nprov": 0, "hasrec": false, "haspub": false, "ttl": 0, "vlen": 0}),
    ];
    shapes.iter().filter_map(|s| encode(&build(s, t0)).ok()).collect()
}

pub fn main(a: &vcommon::Args) {
    vcommon::quiet_panics();
    match a.get(0) {
        // roundtrip <shapes.ndjson> <out>
        "roundtrip" => {
            let shapes = vcommon::read_ndjson(a.get(1));
            let mut out = Out::create(a.get(2));
            for s in &shapes {
                out.ev(roundtrip(s));
            }
            // records with less than a second left, in both record-carrying message kinds
            for ms in [900u64, 600, 300] {
                for (dir, kind) in [("req", "PutValue"), ("resp", "GetValue")] {
                    out.ev(roundtrip(&json!({"dir": dir, "kind": kind, "keylen": 3, "naddr": 1, "ct": 1, "ncloser": 1, "nprov": 0, "hasrec": true, "haspub": true, "ttl": 1, "ttl_ms": ms, "vlen": 2})));
                }
            }
            println!("records={}", out.events);
            out.finish();
        }
        // fuzz <seed> <n> <out>
        "fuzz" => {
            let seed = a.num(1);
            let n = a.num(2);
            let mut out = Out::create(a.get(3));
            let mut rng = vcommon::rng(seed ^ 0x44);
            let frames = sample_frames();
            for f in &frames {
                out.ev(fuzz(f));
                for cut in [0, 1, 2, f.len() / 2, f.len() - 1] {
                    out.ev(fuzz(&f[..cut]));
                }
            }
            for i in 0..n {
                let bytes: Vec<u8> = if i % 3 == 0 {
                    // pure noise with a plausible length prefix
                    let len = rng.gen_range(0..40usize);
                    let mut b = vec![len as u8];
                    b.extend((0..len).map(|_| rng.gen::<u8>()));
                    if rng.gen_bool(0.2) {
                        b[0] = rng.gen();
                    }
                    b
                } else {
                    // mutate a valid frame: flip / overwrite / delete / insert a few bytes
                    let mut b = frames[rng.gen_range(0..frames.len())].clone();
                    for _ in 0..rng.gen_range(1..=3) {
                        let pos = rng.gen_range(0..b.len());
                        match rng.gen_range(0..4) {
                            0 => b[pos] ^= 1 << rng.gen_range(0..8),
                            1 => b[pos] = rng.gen(),
                            2 => {
                                if b.len() > 2 {
                                    b.remove(pos);
                                }
                            }
                            _ => b.insert(pos, rng.gen()),
                        }
                    }
                    b
                };
                out.ev(fuzz(&bytes));
            }
            println!("records={}", out.events);
            out.finish();
        }
        "replay" => {
            let recs = vcommon::read_ndjson(a.get(1));
            let mut out = Out::create(a.get(2));
            for r in &recs {
                if vcommon::s(r, "m") == "rt" {
                    out.ev(roundtrip(&r["shape"]));
                } else {
                    out.ev(fuzz(&unhex(&vcommon::s(r, "hex"))));
                }
            }
            println!("records={}", out.events);
            out.finish();
        }
        m => panic!("wire mode {m}"),
    }
}
