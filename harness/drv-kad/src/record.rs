//! C42 / C43: a real `Behaviour<MemoryStore>` fed with inbound `HandlerEvent::PutRecord` / `AddProvider`
//! (the very events the connection handler produces for inbound requests) through the public
//! `NetworkBehaviour::on_connection_handler_event`, and the real wire conversions
//! (`proto::Message::from(KadRequestMsg)` = req_msg_to_proto/record_to_proto, `KadRequestMsg::try_from` =
//! proto_to_req_msg/record_from_proto). One relation record per case; all instants are reported as
//! microsecond offsets from an instant `t0` taken immediately before the call (`t1`: immediately after,
//! rounded up), so every bound is sound without controlling the clock.
use std::{
    num::NonZeroUsize,
    task::Poll,
    time::{Duration, Instant},
};

use libp2p_core::Multiaddr;
use libp2p_identity::PeerId;
use libp2p_kad::{
    store::{MemoryStore, RecordStore},
    verif::{HandlerEvent, KadRequestMsg, KadResponseMsg, ProtoMessage, RequestId},
    Behaviour, Config, ConnectionType, Event, InboundRequest, KadPeer, ProviderRecord, Record, RecordKey, StoreInserts,
};
use libp2p_swarm::{ConnectionId, NetworkBehaviour, StreamProtocol, ToSwarm};
use rand::Rng;
use vcommon::{exec::Det, json, Out, Value};

fn peer(i: u64) -> PeerId {
    PeerId::from_bytes(&[0x00, 0x04, b'p', b'r', (i >> 8) as u8, i as u8]).expect("identity multihash peer id")
}
fn abs_peer(p: &PeerId) -> i64 {
    (0..64).find(|i| &peer(*i) == p).map(|i| i as i64).unwrap_or(-1)
}

/// signed microseconds of `t` relative to `t0`, rounded up
fn off_us(t: Instant, t0: Instant) -> i64 {
    if t >= t0 {
        let d = t - t0;
        let us = d.as_micros() as i64;
        if Duration::from_micros(us as u64) < d {
            us + 1
        } else {
            us
        }
    } else {
        -((t0 - t).as_micros() as i64)
    }
}
fn at(t0: Instant, us: i64) -> Instant {
    if us >= 0 {
        t0 + Duration::from_micros(us as u64)
    } else {
        t0 - Duration::from_micros((-us) as u64)
    }
}

fn behaviour(ttl_us: Option<i64>, prov_ttl_us: Option<i64>, filter: bool, nb: u64) -> Behaviour<MemoryStore> {
    let mut cfg = Config::new(StreamProtocol::new("/ipfs/kad/1.0.0"));
    cfg.set_record_ttl(ttl_us.map(|u| Duration::from_micros(u as u64)));
    cfg.set_provider_record_ttl(prov_ttl_us.map(|u| Duration::from_micros(u as u64)));
    cfg.set_record_filtering(if filter { StoreInserts::FilterBoth } else { StoreInserts::Unfiltered });
    if nb > 0 {
        cfg.set_replication_factor(NonZeroUsize::new(1).unwrap());
    }
    let mut b = Behaviour::with_config(peer(0), MemoryStore::new(peer(0)), cfg);
    for i in 0..nb {
        let a: Multiaddr = format!("/ip4/10.1.0.{}/tcp/4001", i + 1).parse().unwrap();
        b.add_address(&peer(20 + i), a);
    }
    b
}

/// drain the behaviour's queued events; returns the InboundRequest events
fn drain(b: &mut Behaviour<MemoryStore>) -> Vec<InboundRequest> {
    let det = Det::new();
    let mut v = vec![];
    for _ in 0..64 {
        let mut cx = det.cx();
        match b.poll(&mut cx) {
            Poll::Ready(ToSwarm::GenerateEvent(Event::InboundRequest { request })) => v.push(request),
            Poll::Ready(_) => {}
            Poll::Pending => break,
        }
    }
    v
}

fn key(k: u64) -> RecordKey {
    RecordKey::new(&[b'k', k as u8])
}

/// C42 merge: a received record (expiry rexp or none) under record_ttl (ttl or none)
fn merge_case(rexp: Option<i64>, ttl: Option<i64>, filter: bool, nb: u64) -> Value {
    let base = json!({"m": "merge", "rhas": rexp.is_some(), "rexp": rexp.unwrap_or(0), "thas": ttl.is_some(), "ttl": ttl.unwrap_or(0), "filt": filter, "nb": nb});
    let r = vcommon::guard(|| {
        let mut b = behaviour(ttl, Some(1_000_000), filter, nb);
        let mut ev = base.clone();
        let t0 = Instant::now();
        let mut rec = Record::new(key(1), vec![7u8; 4]);
        rec.publisher = Some(peer(2));
        rec.expires = rexp.map(|u| at(t0, u));
        b.on_connection_handler_event(peer(1), ConnectionId::new_unchecked(1), HandlerEvent::PutRecord { record: rec, request_id: RequestId::verif_new(1) });
        let t1 = Instant::now();
        ev["t1"] = json!(off_us(t1, t0));
        let stored = b.store_mut().get(&key(1)).map(|r| r.into_owned());
        ev["stored"] = json!(stored.is_some());
        let sexp = stored.as_ref().and_then(|r| r.expires);
        ev["shas"] = json!(sexp.is_some());
        ev["sexp"] = json!(sexp.map(|t| off_us(t, t0)).unwrap_or(0));
        // FilterBoth: the record handed to the application instead of being stored
        let mut evrec: Option<Record> = None;
        let mut nput = 0;
        for q in drain(&mut b) {
            if let InboundRequest::PutRecord { record, .. } = q {
                nput += 1;
                if let Some(r) = record {
                    evrec = Some(r);
                }
            }
        }
        ev["nput"] = json!(nput);
        ev["ehas_rec"] = json!(evrec.is_some());
        let eexp = evrec.as_ref().and_then(|r| r.expires);
        ev["ehas"] = json!(eexp.is_some());
        ev["eexp"] = json!(eexp.map(|t| off_us(t, t0)).unwrap_or(0));
        ev
    });
    match r {
        Ok(v) => v,
        Err(m) => {
            let mut v = base;
            v["panic"] = json!(m);
            v
        }
    }
}

/// C42 wire: encode a record with `rem` microseconds left (or no expiry) in a PutValue request / GetValue response
fn wire_case(rem: Option<i64>, resp: bool) -> Value {
    let base = json!({"m": "wire", "rhas": rem.is_some(), "rem": rem.unwrap_or(0), "resp": resp});
    let r = vcommon::guard(|| {
        let mut ev = base.clone();
        let t0 = Instant::now();
        let mut rec = Record::new(key(1), vec![1u8; 3]);
        rec.expires = rem.map(|u| at(t0, u));
        let msg: ProtoMessage = if resp {
            KadResponseMsg::GetValue { record: Some(rec), closer_peers: vec![] }.into()
        } else {
            KadRequestMsg::PutValue { record: rec }.into()
        };
        let pr = msg.record.expect("record present in the encoded message");
        ev["wttl"] = json!(pr.ttl.min(2_000_000_000));
        ev
    });
    match r {
        Ok(v) => v,
        Err(m) => {
            let mut v = base;
            v["panic"] = json!(m);
            v
        }
    }
}

/// C42 decode: a received wire record with ttl seconds
fn dec_case(wttl: u32) -> Value {
    let base = json!({"m": "dec", "wttl": wttl});
    let r = vcommon::guard(|| {
        let mut ev = base.clone();
        let rec = Record::new(key(1), vec![1u8; 3]);
        let mut msg: ProtoMessage = KadRequestMsg::PutValue { record: rec }.into();
        msg.record.as_mut().unwrap().ttl = wttl;
        let t0 = Instant::now();
        let back = KadRequestMsg::try_from(msg);
        let t1 = Instant::now();
        ev["t1"] = json!(off_us(t1, t0));
        match back {
            Ok(KadRequestMsg::PutValue { record }) => {
                ev["ok"] = json!(true);
                ev["ehas"] = json!(record.expires.is_some());
                ev["eexp"] = json!(record.expires.map(|t| off_us(t, t0)).unwrap_or(0));
            }
            _ => ev["ok"] = json!(false),
        }
        ev
    });
    match r {
        Ok(v) => v,
        Err(m) => {
            let mut v = base;
            v["panic"] = json!(m);
            v
        }
    }
}

/// C43: inbound AddProvider(sender, announced provider)
/// peers 1..=3 have an established inbound connection (ids 1..=3) to the behaviour
fn connect_all(b: &mut Behaviour<MemoryStore>) -> Vec<libp2p_swarm::THandler<Behaviour<MemoryStore>>> {
    use libp2p_core::ConnectedPoint;
    use libp2p_swarm::behaviour::{ConnectionEstablished, FromSwarm};
    let mut hs = vec![];
    for i in 1..=3u64 {
        let local: Multiaddr = "/ip4/10.0.0.1/tcp/1".parse().unwrap();
        let remote: Multiaddr = format!("/ip4/10.0.0.{}/tcp/1", 10 + i).parse().unwrap();
        let cid = ConnectionId::new_unchecked(i as usize);
        hs.push(b.handle_established_inbound_connection(cid, peer(i), &local, &remote).expect("accepted"));
        let ep = ConnectedPoint::Listener { local_addr: local, send_back_addr: remote };
        b.on_swarm_event(FromSwarm::ConnectionEstablished(ConnectionEstablished { peer_id: peer(i), connection_id: cid, endpoint: &ep, failed_addresses: &[], other_established: 0 }));
    }
    hs
}

fn addp_case(sender: u64, provider: u64, filter: bool, pre: bool, conn: bool) -> Value {
    let base = json!({"m": "addp", "sender": sender, "provider": provider, "filt": filter, "pre": pre, "conn": conn});
    let r = vcommon::guard(|| {
        let mut b = behaviour(Some(3_600_000_000), Some(3_600_000_000), filter, 0);
        // the announced provider (and the sender) may be peers the node is connected to
        let _handlers = if conn { connect_all(&mut b) } else { vec![] };
        drain(&mut b);
        let mut ev = base.clone();
        if pre {
            // an existing provider record for the same key from an honest third peer
            b.store_mut().add_provider(ProviderRecord::new(key(1), peer(5), vec![])).unwrap();
        }
        let kp = KadPeer { node_id: peer(provider), multiaddrs: vec!["/ip4/10.0.0.9/tcp/1".parse().unwrap()], connection_ty: ConnectionType::Connected };
        b.on_connection_handler_event(peer(sender), ConnectionId::new_unchecked(if conn && sender >= 1 { sender as usize } else { 1 }), HandlerEvent::AddProvider { key: key(1), provider: kp });
        let mut provs: Vec<i64> = b.store_mut().providers(&key(1)).iter().map(|p| abs_peer(&p.provider)).collect();
        provs.sort();
        ev["provs"] = json!(provs);
        let mut other = 0;
        for k in 0..4u64 {
            if k != 1 {
                other += b.store_mut().providers(&key(k)).len();
            }
        }
        ev["other"] = json!(other);
        ev["provided"] = json!(b.store_mut().provided().count());
        let mut nev = 0;
        let mut evprov = -2i64;
        for q in drain(&mut b) {
            if let InboundRequest::AddProvider { record } = q {
                nev += 1;
                if let Some(r) = record {
                    evprov = abs_peer(&r.provider);
                }
            }
        }
        ev["nev"] = json!(nev);
        ev["evprov"] = json!(evprov);
        ev
    });
    match r {
        Ok(v) => v,
        Err(m) => {
            let mut v = base;
            v["panic"] = json!(m);
            v
        }
    }
}

/// C43: inbound PutValue whose publisher is `publ` (0 = local node, -1 = none) while a local record exists (or not)
fn putpub_case(sender: u64, publ: i64, filter: bool, pre: bool) -> Value {
    let base = json!({"m": "putpub", "sender": sender, "pub": publ, "filt": filter, "pre": pre});
    let r = vcommon::guard(|| {
        let mut b = behaviour(None, None, filter, 0);
        let mut ev = base.clone();
        if pre {
            let mut own = Record::new(key(1), vec![1u8; 2]);
            own.publisher = Some(peer(0));
            b.store_mut().put(own).unwrap();
        }
        let mut rec = Record::new(key(1), vec![9u8; 3]);
        rec.publisher = if publ >= 0 { Some(peer(publ as u64)) } else { None };
        b.on_connection_handler_event(peer(sender), ConnectionId::new_unchecked(1), HandlerEvent::PutRecord { record: rec, request_id: RequestId::verif_new(1) });
        let got = b.store_mut().get(&key(1)).map(|r| r.into_owned());
        ev["has"] = json!(got.is_some());
        ev["tag"] = json!(got.as_ref().and_then(|r| r.value.first().copied()).unwrap_or(0));
        ev["len"] = json!(got.as_ref().map(|r| r.value.len()).unwrap_or(0));
        ev["spub"] = json!(got.as_ref().and_then(|r| r.publisher.as_ref().map(abs_peer)).unwrap_or(-1));
        ev["nrec"] = json!(b.store_mut().records().count());
        let mut nev = 0;
        for q in drain(&mut b) {
            if let InboundRequest::PutRecord { .. } = q {
                nev += 1;
            }
        }
        ev["nev"] = json!(nev);
        ev
    });
    match r {
        Ok(v) => v,
        Err(m) => {
            let mut v = base;
            v["panic"] = json!(m);
            v
        }
    }
}

fn replay_one(v: &Value) -> Value {
    let opt = |has: &str, f: &str| if vcommon::b(v, has) { Some(vcommon::n(v, f)) } else { None };
    match vcommon::s(v, "m").as_str() {
        "merge" => merge_case(opt("rhas", "rexp"), opt("thas", "ttl"), vcommon::b(v, "filt"), vcommon::n(v, "nb") as u64),
        "wire" => wire_case(opt("rhas", "rem"), vcommon::b(v, "resp")),
        "dec" => dec_case(vcommon::n(v, "wttl") as u32),
        "addp" => addp_case(vcommon::n(v, "sender") as u64, vcommon::n(v, "provider") as u64, vcommon::b(v, "filt"), vcommon::b(v, "pre"), v.get("conn").and_then(|x| x.as_bool()).unwrap_or(false)),
        "putpub" => putpub_case(vcommon::n(v, "sender") as u64, vcommon::n(v, "pub"), vcommon::b(v, "filt"), vcommon::b(v, "pre")),
        m => panic!("record kind {m}"),
    }
}

const S: i64 = 1_000_000;

pub fn main(a: &vcommon::Args) {
    vcommon::quiet_panics();
    match a.get(0) {
        "replay" => {
            let recs = vcommon::read_ndjson(a.get(1));
            let mut out = Out::create(a.get(2));
            for r in &recs {
                out.ev(replay_one(r));
            }
            println!("records={}", out.events);
            out.finish();
        }
        // lifetimes <seed> <nrand> <out>   (C42)
        "lifetimes" => {
            let seed = a.num(1);
            let nrand = a.num(2);
            let mut out = Out::create(a.get(3));
            let mut rng = vcommon::rng(seed ^ 0x42);
            let rexps = [None, Some(-S / 2), Some(S / 5), Some(999_000), Some(S), Some(3 * S / 2), Some(90 * S), Some(1000 * S)];
            let ttls = [None, Some(S), Some(3 * S / 2), Some(60 * S), Some(1000 * S)];
            for rexp in rexps {
                for ttl in ttls {
                    for filt in [false, true] {
                        for nb in [0u64, 6] {
                            out.ev(merge_case(rexp, ttl, filt, nb));
                        }
                    }
                }
            }
            for rem in [None, Some(-S), Some(0), Some(1), Some(S / 5), Some(600_000), Some(999_000), Some(999_999), Some(S), Some(S + 1), Some(3 * S / 2), Some(2 * S), Some(90 * S), Some(1000 * S)] {
                for resp in [false, true] {
                    out.ev(wire_case(rem, resp));
                }
            }
            for w in [0u32, 1, 2, 60, 1000, 2000] {
                out.ev(dec_case(w));
            }
            for _ in 0..nrand {
                let rnd = |rng: &mut rand::rngs::StdRng| -> Option<i64> {
                    match rng.gen_range(0..6) {
                        0 => None,
                        1 => Some(rng.gen_range(-S..2 * S)),
                        2 => Some(rng.gen_range(1..S)),
                        3 => Some(rng.gen_range(1..5) * S + rng.gen_range(-2..3)),
                        _ => Some(rng.gen_range(0..1000 * S)),
                    }
                };
                let x = rnd(&mut rng);
                let t = rnd(&mut rng).map(|u| u.abs().max(1));
                out.ev(merge_case(x, t, rng.gen_bool(0.3), if rng.gen_bool(0.3) { rng.gen_range(1..8) } else { 0 }));
                out.ev(wire_case(rnd(&mut rng), rng.gen_bool(0.5)));
                out.ev(dec_case(if rng.gen_bool(0.2) { 0 } else { rng.gen_range(0..2000) }));
            }
            println!("records={}", out.events);
            out.finish();
        }
        // inbound <out>   (C43)
        "inbound" => {
            let mut out = Out::create(a.get(1));
            for sender in [0u64, 1, 2] {
                for provider in [0u64, 1, 2, 3] {
                    for filt in [false, true] {
                        for pre in [false, true] {
                            out.ev(addp_case(sender, provider, filt, pre, false));
                            out.ev(addp_case(sender, provider, filt, pre, true));
                        }
                    }
                }
                for publ in [-1i64, 0, 1, 2] {
                    for filt in [false, true] {
                        for pre in [false, true] {
                            out.ev(putpub_case(sender, publ, filt, pre));
                        }
                    }
                }
            }
            println!("records={}", out.events);
            out.finish();
        }
        m => panic!("record mode {m}"),
    }
}
