//! C41: the public `MemoryStore` under operation sequences; after every op the whole store is projected.
//! Abstract record keys 0..K, providers 0..P (provider 0 = the local node), value = `size` bytes of `tag`,
//! provider record content (addresses) identified by `tag`.
use libp2p_core::Multiaddr;
use libp2p_identity::PeerId;
use libp2p_kad::{
    store::{Error, MemoryStore, MemoryStoreConfig, RecordStore},
    ProviderRecord, Record, RecordKey,
};
use rand::Rng;
use vcommon::{json, Out, Value};

fn peer(i: u64) -> PeerId {
    PeerId::from_bytes(&[0x00, 0x04, b'p', b'r', 0, i as u8]).expect("identity multihash peer id")
}
fn key(k: u64) -> RecordKey {
    RecordKey::new(&[b'k', k as u8])
}
fn key_of(k: &RecordKey) -> i64 {
    let b = k.to_vec();
    if b.len() == 2 && b[0] == b'k' {
        b[1] as i64
    } else {
        -1
    }
}
fn addr(tag: u64) -> Multiaddr {
    format!("/ip4/10.0.0.{tag}/tcp/1").parse().unwrap()
}
fn tag_of(a: &[Multiaddr]) -> i64 {
    if a.len() != 1 {
        return -1;
    }
    let s = a[0].to_string();
    s.strip_prefix("/ip4/10.0.0.").and_then(|r| r.strip_suffix("/tcp/1")).and_then(|t| t.parse().ok()).unwrap_or(-1)
}
fn prov_of(p: &PeerId, np: u64) -> i64 {
    (0..np).find(|i| &peer(*i) == p).map(|i| i as i64).unwrap_or(-1)
}

fn project(s: &MemoryStore, nk: u64, np: u64) -> (Value, Value, Value) {
    let mut recs: Vec<(i64, i64, i64)> = s
        .records()
        .map(|r| {
            let t = r.value.first().copied().unwrap_or(0) as i64;
            let uniform = r.value.iter().all(|b| *b as i64 == t);
            (key_of(&r.key), r.value.len() as i64, if uniform { t } else { -1 })
        })
        .collect();
    recs.sort();
    let mut pv = vec![];
    for k in 0..nk {
        let l: Vec<Value> = s.providers(&key(k)).iter().map(|p| json!([prov_of(&p.provider, np), tag_of(&p.addresses), key_of(&p.key)])).collect();
        pv.push(Value::Array(l));
    }
    let mut provided: Vec<(i64, i64, i64)> = s.provided().map(|p| (key_of(&p.key), tag_of(&p.addresses), prov_of(&p.provider, np))).collect();
    provided.sort();
    (json!(recs), Value::Array(pv), json!(provided))
}

fn err(e: &Error) -> &'static str {
    match e {
        Error::MaxRecords => "MaxRecords",
        Error::ValueTooLarge => "ValueTooLarge",
        Error::MaxProvidedKeys => "MaxProvidedKeys",
    }
}

fn run(out: &mut Out, sched: &Value) {
    let nk = vcommon::n(sched, "nk") as u64;
    let np = vcommon::n(sched, "np") as u64;
    let cfg = MemoryStoreConfig {
        max_records: vcommon::n(sched, "maxr") as usize,
        max_value_bytes: vcommon::n(sched, "maxv") as usize,
        max_providers_per_key: vcommon::n(sched, "maxp") as usize,
        max_provided_keys: vcommon::n(sched, "maxk") as usize,
    };
    out.reset_with(json!({"nk": nk, "np": np, "maxr": cfg.max_records, "maxv": cfg.max_value_bytes, "maxp": cfg.max_providers_per_key, "maxk": cfg.max_provided_keys}), sched);
    let mut s = MemoryStore::with_config(peer(0), cfg);
    for op in sched["ops"].as_array().unwrap() {
        let a = vcommon::s(op, "a");
        let r = vcommon::guard(|| {
            let mut ev = json!({"e": a});
            let k = vcommon::n(op, "k") as u64;
            ev["k"] = json!(k);
            match a.as_str() {
                "put" => {
                    let size = vcommon::n(op, "size") as usize;
                    let tag = vcommon::n(op, "tag") as u8;
                    ev["size"] = json!(size);
                    ev["tag"] = json!(tag);
                    let mut rec = Record::new(key(k), vec![tag; size]);
                    rec.publisher = Some(peer(1));
                    ev["res"] = json!(match s.put(rec) {
                        Ok(()) => "ok",
                        Err(e) => err(&e),
                    });
                }
                "get" => {
                    ev["got"] = match s.get(&key(k)) {
                        None => json!([]),
                        Some(r) => {
                            let t = r.value.first().copied().unwrap_or(0);
                            json!([r.value.len(), if r.value.iter().all(|b| *b == t) { t as i64 } else { -1 }, key_of(&r.key)])
                        }
                    };
                }
                "remove" => s.remove(&key(k)),
                "addp" => {
                    let p = vcommon::n(op, "p") as u64;
                    let tag = vcommon::n(op, "tag") as u64;
                    ev["p"] = json!(p);
                    ev["tag"] = json!(tag);
                    let rec = ProviderRecord::new(key(k), peer(p), vec![addr(tag)]);
                    ev["res"] = json!(match s.add_provider(rec) {
                        Ok(()) => "ok",
                        Err(e) => err(&e),
                    });
                }
                "remp" => {
                    let p = vcommon::n(op, "p") as u64;
                    ev["p"] = json!(p);
                    s.remove_provider(&key(k), &peer(p));
                }
                x => panic!("driver: unknown op {x}"),
            }
            let (recs, pv, provided) = project(&s, nk, np);
            ev["recs"] = recs;
            ev["pv"] = pv;
            ev["provided"] = provided;
            ev
        });
        match r {
            Ok(ev) => out.ev(ev),
            Err(m) => {
                out.ev(json!({"e": "panic", "msg": m}));
                break;
            }
        }
    }
}

fn alphabet(nk: u64, np: u64, maxv: u64) -> Vec<Value> {
    let mut v = vec![];
    for k in 0..nk {
        v.push(json!({"a": "put", "k": k, "size": maxv - 1, "tag": 1}));
        v.push(json!({"a": "put", "k": k, "size": 1, "tag": 2}));
        v.push(json!({"a": "get", "k": k}));
        v.push(json!({"a": "remove", "k": k}));
        for p in 0..np {
            v.push(json!({"a": "addp", "k": k, "p": p, "tag": 1}));
            v.push(json!({"a": "remp", "k": k, "p": p}));
        }
        v.push(json!({"a": "addp", "k": k, "p": 0, "tag": 2}));
    }
    v.push(json!({"a": "put", "k": 0, "size": maxv, "tag": 3}));
    v
}

pub fn main(a: &vcommon::Args) {
    vcommon::quiet_panics();
    match a.get(0) {
        "replay" => {
            let scheds = vcommon::read_schedules(a.get(1));
            let mut out = Out::create(a.get(2));
            for s in &scheds {
                run(&mut out, s);
            }
            println!("runs={} events={}", out.run, out.events);
            out.finish();
        }
        // exhaustive <n> <out>: all op sequences of length n over 2 keys / 2 providers with every limit = 1, maxv = 3
        "exhaustive" => {
            let n = a.num(1) as usize;
            let mut out = Out::create(a.get(2));
            let al = alphabet(2, 2, 3);
            let kk = al.len();
            let mut idx = vec![0usize; n];
            loop {
                let ops: Vec<Value> = idx.iter().map(|&i| al[i].clone()).collect();
                run(&mut out, &json!({"nk": 2, "np": 2, "maxr": 1, "maxv": 3, "maxp": 1, "maxk": 1, "ops": ops}));
                let mut j = 0;
                while j < n {
                    idx[j] += 1;
                    if idx[j] < kk {
                        break;
                    }
                    idx[j] = 0;
                    j += 1;
                }
                if j == n {
                    break;
                }
            }
            println!("runs={} events={}", out.run, out.events);
            out.finish();
        }
        "random" => {
            let seed = a.num(1);
            let runs = a.num(2);
            let mut out = Out::create(a.get(3));
            let mut rng = vcommon::rng(seed ^ 0x41);
            for _ in 0..runs {
                let nk = rng.gen_range(2..=4u64);
                let np = rng.gen_range(2..=4u64);
                let maxv = rng.gen_range(2..=5u64);
                let len = rng.gen_range(5..=40);
                let mut ops = vec![];
                for _ in 0..len {
                    let k = rng.gen_range(0..nk);
                    let p = if rng.gen_bool(0.4) { 0 } else { rng.gen_range(0..np) };
                    let x = rng.gen_range(0..100);
                    ops.push(if x < 25 {
                        let size = match rng.gen_range(0..4) {
                            0 => maxv,
                            1 => maxv - 1,
                            2 => maxv + 1,
                            _ => rng.gen_range(0..maxv),
                        };
                        json!({"a": "put", "k": k, "size": size, "tag": rng.gen_range(1..=9)})
                    } else if x < 35 {
                        json!({"a": "get", "k": k})
                    } else if x < 45 {
                        json!({"a": "remove", "k": k})
                    } else if x < 82 {
                        json!({"a": "addp", "k": k, "p": p, "tag": rng.gen_range(1..=9)})
                    } else {
                        json!({"a": "remp", "k": k, "p": p})
                    });
                }
                run(&mut out, &json!({"nk": nk, "np": np, "maxr": rng.gen_range(1..=3), "maxv": maxv, "maxp": rng.gen_range(1..=3), "maxk": rng.gen_range(1..=3), "ops": ops}));
            }
            println!("runs={} events={}", out.run, out.events);
            out.finish();
        }
        m => panic!("store mode {m}"),
    }
}
