//! C37 / C38 / C40: the real `KBucketsTable` (through `libp2p_kad::verif::Table`) and the public key /
//! distance API, driven with small abstract B-bit keys embedded into 256-bit keys.
//!
//! Embedding: abstract bit j of a key lives at bit position `pos[j]` (strictly increasing) of the
//! 256-bit key, all keys are additionally XOR-ed with a fixed 256-bit mask. XOR distance order and the
//! "highest differing bit" are preserved by this map, so bucket `pos[i]` of the real table is abstract
//! bucket `i`. The pending-entry timeout runs on the verif clock shim: one logical time unit = 1 hour of
//! clock offset, so real elapsed time (milliseconds) never crosses a unit boundary.
use std::{num::NonZeroUsize, time::Duration};

use libp2p_kad::{
    verif::{clock, EntryState, Inserted, KeyBytes, Table},
    KBucketDistance, KBucketKey, NodeStatus, U256,
};
use rand::{seq::SliceRandom, Rng};
use vcommon::{json, Out, Value};

const UNIT: Duration = Duration::from_secs(3600);

pub struct Emb {
    pub pos: Vec<usize>,
    pub mask: U256,
    pub mseed: u64,
    base: KBucketKey<Vec<u8>>,
    h: U256,
}

impl Emb {
    pub fn new(pos: Vec<usize>, mseed: u64) -> Self {
        let base = KBucketKey::new(Vec::<u8>::new());
        let h = U256::from_big_endian(base.hashed_bytes());
        let mut mask = U256::zero();
        if mseed != 0 {
            let mut r = vcommon::rng(mseed);
            let mut bytes = [0u8; 32];
            r.fill(&mut bytes[..]);
            mask = U256::from_big_endian(&bytes);
        }
        Emb { pos, mask, mseed, base, h }
    }
    pub fn bits(&self) -> usize {
        self.pos.len()
    }
    fn scatter(&self, k: u64) -> U256 {
        let mut x = U256::zero();
        for (j, p) in self.pos.iter().enumerate() {
            if (k >> j) & 1 == 1 {
                x = x | (U256::one() << *p);
            }
        }
        x
    }
    /// abstract value of a 256-bit pattern that has only embedded bits set
    fn gather(&self, x: U256) -> Option<u64> {
        let mut k = 0u64;
        let mut rest = x;
        for (j, p) in self.pos.iter().enumerate() {
            if x.bit(*p) {
                k |= 1 << j;
                rest = rest ^ (U256::one() << *p);
            }
        }
        if rest.is_zero() {
            Some(k)
        } else {
            None
        }
    }
    pub fn from_u256(&self, x: U256) -> KeyBytes {
        self.base.for_distance(KBucketDistance(self.h ^ x))
    }
    pub fn to_u256(&self, kb: &KeyBytes) -> U256 {
        self.base.distance(kb).0 ^ self.h
    }
    pub fn key(&self, k: u64) -> KeyBytes {
        self.from_u256(self.mask ^ self.scatter(k))
    }
    /// abstract key, or -1 if the real key is outside the embedding
    pub fn abs(&self, kb: &KeyBytes) -> i64 {
        self.gather(self.to_u256(kb) ^ self.mask).map(|k| k as i64).unwrap_or(-1)
    }
    pub fn abs_dist(&self, d: U256) -> i64 {
        self.gather(d).map(|k| k as i64).unwrap_or(-1)
    }
    /// abstract bucket index of a real one
    pub fn abs_idx(&self, i: usize) -> i64 {
        self.pos.iter().position(|p| *p == i).map(|j| j as i64).unwrap_or(-1)
    }
}

fn st(s: &str) -> NodeStatus {
    if s == "C" {
        NodeStatus::Connected
    } else {
        NodeStatus::Disconnected
    }
}
fn sti(s: NodeStatus) -> i64 {
    match s {
        NodeStatus::Connected => 1,
        NodeStatus::Disconnected => 0,
    }
}
fn state_json(s: EntryState) -> Value {
    match s {
        EntryState::Present(x) => json!(["present", sti(x)]),
        EntryState::Pending(x) => json!(["pending", sti(x)]),
        EntryState::Absent => json!(["absent", -1]),
        EntryState::SelfEntry => json!(["self", -1]),
    }
}

fn pos_of(sched: &Value, bits: usize) -> Vec<usize> {
    match sched.get("pos").and_then(|p| p.as_array()) {
        Some(a) => a.iter().map(|x| x.as_u64().unwrap() as usize).collect(),
        None => (0..bits).collect(),
    }
}

/// Project the whole table: embedded buckets (nodes, pending) + number of entries anywhere else.
fn snapshot(t: &Table, e: &Emb) -> (Value, Value, i64) {
    let mut bs = vec![];
    let mut ps = vec![];
    let mut stray = 0i64;
    for i in 0..256usize {
        let (nodes, pending) = t.raw_bucket(i);
        if e.abs_idx(i) < 0 {
            stray += nodes.len() as i64 + pending.is_some() as i64;
        }
    }
    for p in &e.pos {
        let (nodes, pending) = t.raw_bucket(*p);
        bs.push(Value::Array(nodes.iter().map(|(k, s)| json!([e.abs(k), sti(*s)])).collect()));
        ps.push(match pending {
            Some((k, s, ready)) => json!([e.abs(&k), sti(s), ready as i64]),
            None => json!([]),
        });
    }
    (Value::Array(bs), Value::Array(ps), stray)
}

fn run(out: &mut Out, sched: &Value) {
    let bits = vcommon::n(sched, "B") as usize;
    let local = vcommon::n(sched, "local") as u64;
    let cap = vcommon::n(sched, "cap") as usize;
    let timeout = vcommon::n(sched, "timeout") as u32;
    let e = Emb::new(pos_of(sched, bits), sched.get("mseed").and_then(|x| x.as_u64()).unwrap_or(0));
    out.reset_with(json!({"B": bits, "local": local, "cap": cap, "timeout": timeout}), sched);
    let mut t = Table::new(e.key(local), NonZeroUsize::new(cap).unwrap(), UNIT * timeout);
    let mut now: i64 = 0;
    for op in sched["ops"].as_array().unwrap() {
        let a = vcommon::s(op, "a");
        let r = vcommon::guard(|| {
            let mut ev = json!({"e": a});
            match a.as_str() {
                "tick" => {
                    let d = vcommon::n(op, "d");
                    clock::advance(UNIT * d as u32);
                    now += d;
                    ev["d"] = json!(d);
                }
                "ins" => {
                    let k = vcommon::n(op, "k") as u64;
                    let s = vcommon::s(op, "st");
                    ev["k"] = json!(k);
                    ev["st"] = json!(sti(st(&s)));
                    match t.insert(&e.key(k), st(&s)) {
                        Ok(Inserted::Inserted) => ev["res"] = json!("inserted"),
                        Ok(Inserted::Full) => ev["res"] = json!("full"),
                        Ok(Inserted::Pending { disconnected }) => {
                            ev["res"] = json!("pending");
                            ev["dk"] = json!(e.abs(&disconnected));
                        }
                        Err(s) => {
                            ev["res"] = json!("noop");
                            ev["found"] = state_json(s);
                        }
                    }
                }
                "upd" => {
                    let k = vcommon::n(op, "k") as u64;
                    let s = vcommon::s(op, "st");
                    ev["k"] = json!(k);
                    ev["st"] = json!(sti(st(&s)));
                    ev["found"] = state_json(t.update(&e.key(k), st(&s)));
                }
                "rem" => {
                    let k = vcommon::n(op, "k") as u64;
                    ev["k"] = json!(k);
                    ev["found"] = state_json(t.remove(&e.key(k)));
                }
                "get" => {
                    let k = vcommon::n(op, "k") as u64;
                    ev["k"] = json!(k);
                    ev["found"] = state_json(t.entry_state(&e.key(k)));
                }
                "closest" => {
                    let k = vcommon::n(op, "t") as u64;
                    ev["t"] = json!(k);
                    let o: Vec<i64> = t.closest_keys(&e.key(k)).iter().map(|x| e.abs(x)).collect();
                    ev["out"] = json!(o);
                }
                x => panic!("driver: unknown op {x}"),
            }
            let mut ap = vec![];
            while let Some((ins, evi)) = t.take_applied_pending() {
                ap.push(json!([e.abs(&ins), evi.map(|x| e.abs(&x)).unwrap_or(-1)]));
            }
            let (b, p, stray) = snapshot(&t, &e);
            ev["now"] = json!(now);
            ev["ap"] = Value::Array(ap);
            ev["b"] = b;
            ev["p"] = p;
            ev["stray"] = json!(stray);
            ev
        });
        match r {
            Ok(ev) => out.ev(ev),
            Err(m) => {
                out.ev(json!({"e": "panic", "msg": m}));
                break;
            }
        }
    }
    // rewind nothing: the clock offset only grows; pending deadlines are relative to it
}

fn rand_ops(rng: &mut impl Rng, bits: usize, local: u64, len: usize, timeout: i64, closest: u64, hot: bool, cap: usize) -> Vec<Value> {
    let nk = 1u64 << bits;
    let mut ops = vec![];
    if hot && rng.gen_bool(0.4) {
        // directed prefix: fill the farthest bucket with disconnected entries, get a pending entry, then replace the
        // head by removal + insertion so that a pending entry faces a (possibly connected) new head
        let far = |i: u64| (local ^ (nk >> 1)) ^ (i % (nk >> 1));
        let o = rng.gen_range(0..(nk >> 1));
        let cap = cap as u64;
        for i in 0..cap {
            ops.push(json!({"a": "ins", "k": far(o + i), "st": "D"}));
        }
        ops.push(json!({"a": "ins", "k": far(o + cap), "st": "C"}));
        ops.push(json!({"a": "rem", "k": far(o)}));
        if cap > 1 && rng.gen_bool(0.7) {
            ops.push(json!({"a": "upd", "k": far(o + 1), "st": "C"}));
        }
        ops.push(json!({"a": "ins", "k": far(o + cap + 1), "st": if rng.gen_bool(0.8) { "C" } else { "D" }}));
    }
    if hot && ops.is_empty() && rng.gen_bool(0.35) {
        // directed prefix 2 (after missed seeded mutant C37-1): a bucket holding disconnected AND connected entries gets a
        // connected insert that goes pending; the pending entry is then downgraded to disconnected, the timeout elapses
        // and the table is accessed: the applied entry must land among the disconnected ones without disturbing the rest
        let far = |i: u64| (local ^ (nk >> 1)) ^ (i % (nk >> 1));
        let o = rng.gen_range(0..(nk >> 1));
        let cap = cap as u64;
        let nd = rng.gen_range(1..=cap.max(2) - 1).min(cap);
        for i in 0..cap {
            ops.push(json!({"a": "ins", "k": far(o + i), "st": if i < nd { "D" } else { "C" }}));
        }
        ops.push(json!({"a": "ins", "k": far(o + cap), "st": "C"}));
        ops.push(json!({"a": "upd", "k": far(o + cap), "st": "D"}));
        if rng.gen_bool(0.3) {
            ops.push(json!({"a": "upd", "k": far(o + cap - 1), "st": "C"}));
        }
        ops.push(json!({"a": "tick", "d": timeout.max(1)}));
        ops.push(json!({"a": "get", "k": far(o + cap)}));
        ops.push(json!({"a": "get", "k": far(o + cap - 1)}));
    }
    for _ in 0..len {
        // hot runs: (almost) all keys from the farthest bucket, so that it fills up, gets a pending entry, loses and
        // regains members
        let k = if hot && rng.gen_bool(0.9) { (local ^ (nk >> 1)) ^ rng.gen_range(0..(nk >> 1)) } else { rng.gen_range(0..nk) };
        let s = if rng.gen_bool(0.5) { "C" } else { "D" };
        let x = rng.gen_range(0..100);
        ops.push(if x < 38 {
            json!({"a": "ins", "k": k, "st": s})
        } else if x < 62 {
            json!({"a": "upd", "k": k, "st": s})
        } else if x < (if closest == 2 { 68 } else { 72 }) {
            json!({"a": "rem", "k": k})
        } else if x < 86 {
            json!({"a": "tick", "d": if rng.gen_bool(0.5) { 1 } else { timeout.max(1) }})
        } else if closest == 2 && x < 90 {
            json!({"a": "closest", "t": if rng.gen_bool(0.2) { local } else { k }})
        } else if x < 92 || closest == 0 {
            json!({"a": "get", "k": if rng.gen_bool(0.1) { local } else { k }})
        } else {
            json!({"a": "closest", "t": k})
        });
    }
    ops
}

fn rand_pos(rng: &mut impl Rng, bits: usize) -> Vec<usize> {
    match rng.gen_range(0..4) {
        0 => (0..bits).collect(),
        1 => (256 - bits..256).collect(),
        2 => {
            let s = rng.gen_range(0..=256 - bits);
            (s..s + bits).collect()
        }
        _ => {
            let mut v: Vec<usize> = vec![];
            while v.len() < bits {
                let p = rng.gen_range(0..256);
                if !v.contains(&p) {
                    v.push(p);
                }
            }
            v.sort();
            v
        }
    }
}

/// all op sequences of length n over a small alphabet (2 buckets' worth of keys)
fn exhaustive(out: &mut Out, n: usize) {
    // B = 2: keys 0..3, local 0: bucket 0 = {1}, bucket 1 = {2, 3}; cap 1 and 2
    for (cap, timeout) in [(1usize, 1i64), (2, 1)] {
        let mut alphabet: Vec<Value> = vec![];
        for k in [2u64, 3, 1] {
            alphabet.push(json!({"a": "ins", "k": k, "st": "C"}));
            if k != 1 {
                alphabet.push(json!({"a": "ins", "k": k, "st": "D"}));
                alphabet.push(json!({"a": "upd", "k": k, "st": "C"}));
                alphabet.push(json!({"a": "upd", "k": k, "st": "D"}));
            }
        }
        alphabet.push(json!({"a": "rem", "k": 2}));
        alphabet.push(json!({"a": "tick", "d": 1}));
        alphabet.push(json!({"a": "get", "k": 3}));
        let kk = alphabet.len();
        let mut idx = vec![0usize; n];
        loop {
            let ops: Vec<Value> = idx.iter().map(|&i| alphabet[i].clone()).collect();
            let s = json!({"B": 2, "local": 0, "cap": cap, "timeout": timeout, "pos": [254, 255], "mseed": 7, "ops": ops});
            run(out, &s);
            let mut j = 0;
            while j < n {
                idx[j] += 1;
                if idx[j] < kk {
                    break;
                }
                idx[j] = 0;
                j += 1;
            }
            if j == n {
                break;
            }
        }
    }
}

/// C38 relation records: every table (set of stored keys, all connected, nothing pending) over B-bit keys
/// with at most `maxn` entries x every target; one record per (table, target).
fn closest_all(out: &mut Out, bits: usize, maxn: usize, locals: &[u64], pos: Vec<usize>, mseed: u64) {
    let nk = 1u64 << bits;
    let e = Emb::new(pos.clone(), mseed);
    for &local in locals {
        let others: Vec<u64> = (0..nk).filter(|k| *k != local).collect();
        let m = others.len();
        for set in 0u64..(1u64 << m) {
            if (set.count_ones() as usize) > maxn {
                continue;
            }
            let keys: Vec<u64> = (0..m).filter(|i| (set >> i) & 1 == 1).map(|i| others[i]).collect();
            let r = vcommon::guard(|| {
                let mut t = Table::new(e.key(local), NonZeroUsize::new(nk as usize).unwrap(), UNIT);
                for k in &keys {
                    match t.insert(&e.key(*k), NodeStatus::Connected) {
                        Ok(Inserted::Inserted) => {}
                        x => panic!("driver: insert into roomy table failed: {x:?}"),
                    }
                }
                let mut outs = vec![];
                for target in 0..nk {
                    let o: Vec<i64> = t.closest_keys(&e.key(target)).iter().map(|x| e.abs(x)).collect();
                    let o2: Vec<i64> = t.closest(&e.key(target)).iter().map(|x| e.abs(&x.0)).collect();
                    outs.push((target, o, o2));
                }
                outs
            });
            match r {
                Ok(outs) => {
                    for (target, o, o2) in outs {
                        out.ev(json!({"B": bits, "local": local, "keys": keys, "t": target, "out": o, "out2": o2, "pos": pos, "mseed": mseed}));
                    }
                }
                Err(m) => out.ev(json!({"B": bits, "local": local, "keys": keys, "t": -1, "out": [], "out2": [], "panic": m, "pos": pos, "mseed": mseed})),
            }
        }
    }
}

/// C38, tables whose buckets hold more entries than the default bucket size (K_VALUE = 20): 6-bit keys, bucket size 64,
/// seeded key sets with 21..=32 keys in the farthest bucket (and up to 16 / 8 in the next ones) x a handful of targets
fn closest_big(out: &mut Out, rng: &mut impl Rng, nsets: usize, pos: Vec<usize>, mseed: u64) {
    let bits = 6usize;
    let nk = 1u64 << bits;
    let e = Emb::new(pos.clone(), mseed);
    for _ in 0..nsets {
        let local = rng.gen_range(0..nk);
        let mut keys: Vec<u64> = vec![];
        let far: Vec<u64> = (0..nk).filter(|k| (k ^ local) >= 32).collect();
        let n_far = rng.gen_range(21..=32usize);
        let mut f = far.clone();
        f.shuffle(rng);
        keys.extend(f.into_iter().take(n_far));
        for k in 0..nk {
            if k != local && (k ^ local) < 32 && rng.gen_bool(0.4) {
                keys.push(k);
            }
        }
        keys.sort();
        let mut targets: Vec<u64> = vec![local, keys[0], keys[keys.len() - 1]];
        for _ in 0..4 {
            targets.push(rng.gen_range(0..nk));
        }
        let r = vcommon::guard(|| {
            let mut t = Table::new(e.key(local), NonZeroUsize::new(nk as usize).unwrap(), UNIT);
            for k in &keys {
                match t.insert(&e.key(*k), NodeStatus::Connected) {
                    Ok(Inserted::Inserted) => {}
                    x => panic!("driver: insert into roomy table failed: {x:?}"),
                }
            }
            targets
                .iter()
                .map(|&target| {
                    let o: Vec<i64> = t.closest_keys(&e.key(target)).iter().map(|x| e.abs(x)).collect();
                    let o2: Vec<i64> = t.closest(&e.key(target)).iter().map(|x| e.abs(&x.0)).collect();
                    (target, o, o2)
                })
                .collect::<Vec<_>>()
        });
        match r {
            Ok(outs) => {
                for (target, o, o2) in outs {
                    out.ev(json!({"B": bits, "local": local, "keys": keys, "t": target, "out": o, "out2": o2, "pos": pos, "mseed": mseed}));
                }
            }
            Err(m) => out.ev(json!({"B": bits, "local": local, "keys": keys, "t": -1, "out": [], "out2": [], "panic": m, "pos": pos, "mseed": mseed})),
        }
    }
}

fn closest_replay(out: &mut Out, rec: &Value) {
    let bits = vcommon::n(rec, "B") as usize;
    let local = vcommon::n(rec, "local") as u64;
    let pos = pos_of(rec, bits);
    let mseed = rec.get("mseed").and_then(|x| x.as_u64()).unwrap_or(0);
    let e = Emb::new(pos.clone(), mseed);
    let keys: Vec<u64> = rec["keys"].as_array().unwrap().iter().map(|x| x.as_u64().unwrap()).collect();
    let target = vcommon::n(rec, "t").max(0) as u64;
    let r = vcommon::guard(|| {
        let mut t = Table::new(e.key(local), NonZeroUsize::new(1 << bits).unwrap(), UNIT);
        for k in &keys {
            let _ = t.insert(&e.key(*k), NodeStatus::Connected);
        }
        let o: Vec<i64> = t.closest_keys(&e.key(target)).iter().map(|x| e.abs(x)).collect();
        let o2: Vec<i64> = t.closest(&e.key(target)).iter().map(|x| e.abs(&x.0)).collect();
        (o, o2)
    });
    match r {
        Ok((o, o2)) => out.ev(json!({"B": bits, "local": local, "keys": keys, "t": target, "out": o, "out2": o2, "pos": pos, "mseed": mseed})),
        Err(m) => out.ev(json!({"B": bits, "local": local, "keys": keys, "t": -1, "out": [], "out2": [], "panic": m, "pos": pos, "mseed": mseed})),
    }
}

/// C40 records. Abstract triples (a, b, c) of B-bit keys under an embedding: every value the public API
/// returns is mapped back to the abstract domain (or -1 when bits outside the embedding are set).
fn metric_record(e: &Emb, a: u64, b: u64, c: u64, contiguous: bool) -> Value {
    let r = vcommon::guard(|| {
        let (ka, kb, kc) = (e.key(a), e.key(b), e.key(c));
        // `KeyBytes::distance/for_distance` are what `KBucketKey::distance/for_distance` delegate to (the Emb helper
        // itself goes through the `KBucketKey` methods)
        let kd = |x: &KeyBytes, y: &KeyBytes| -> KBucketDistance { x.distance(y) };
        let dab = kd(&ka, &kb);
        let dba = kd(&kb, &ka);
        let dac = kd(&ka, &kc);
        let dbc = kd(&kb, &kc);
        let (sum, ovf) = dab.0.overflowing_add(dbc.0);
        let tri = ovf || dac.0 <= sum;
        let fd = ka.for_distance(dab);
        let il = dab.ilog2().map(|i| e.abs_idx(i as usize)).unwrap_or(-2);
        // bucket of b in a table whose local key is a
        let mut t = Table::new(ka, NonZeroUsize::new(4).unwrap(), UNIT);
        let ins = t.insert(&kb, NodeStatus::Connected);
        let mut bidx = -2i64;
        for i in 0..256 {
            if !t.raw_bucket(i).0.is_empty() {
                bidx = e.abs_idx(i);
            }
        }
        // KBucketsTable::bucket(b): None for the local key, else the bucket whose range holds the distance; reported
        // as the abstract index of the range's lower bound (-2 = None, -3 = a range that is not [2^i, 2^(i+1) - 1] or
        // does not hold the distance)
        let brange = match t.bucket_range(&kb) {
            None => -2i64,
            Some((lo, hi)) => match lo.ilog2() {
                Some(i) if lo.0 == (U256::one() << (i as usize)) && hi.0 == (lo.0 - U256::one()) + lo.0 && lo.0 <= dab.0 && dab.0 <= hi.0 => e.abs_idx(i as usize),
                _ => -3,
            },
        };
        json!({"a": a, "b": b, "c": c, "brange": brange, "dab": e.abs_dist(dab.0), "dba": e.abs_dist(dba.0), "dac": e.abs_dist(dac.0),
               "dbc": e.abs_dist(dbc.0), "tri": tri, "fd": e.abs(&fd), "il": il, "bidx": bidx,
               "insok": matches!(ins, Ok(Inserted::Inserted)), "self": matches!(ins, Err(EntryState::SelfEntry)),
               "B": e.bits(), "contig": contiguous, "pos": e.pos, "mseed": e.mseed})
    });
    match r {
        Ok(v) => v,
        Err(m) => json!({"a": a, "b": b, "c": c, "panic": m, "B": e.bits(), "contig": contiguous, "pos": e.pos, "mseed": e.mseed}),
    }
}

fn metric(out: &mut Out, bits: usize, seed: u64, nrand: usize) {
    let nk = 1u64 << bits;
    let mut rng = vcommon::rng(seed ^ 0x40);
    let mut embs: Vec<(Emb, bool)> = vec![
        (Emb::new((0..bits).collect(), 0), true),
        (Emb::new((100..100 + bits).collect(), 11), true),
        (Emb::new((256 - bits..256).collect(), 12), true),
    ];
    embs.push((Emb::new(rand_pos(&mut rng, bits), 13 + seed), false));
    for (e, contig) in &embs {
        for a in 0..nk {
            for b in 0..nk {
                for c in 0..nk {
                    out.ev(metric_record(e, a, b, c, *contig));
                }
            }
        }
    }
    // wide records: random and edge 256-bit keys; only the relational laws, evaluated with U256 arithmetic
    let edge = |rng: &mut rand::rngs::StdRng| -> U256 {
        match rng.gen_range(0..8) {
            0 => U256::zero(),
            1 => U256::MAX,
            2 => U256::one() << rng.gen_range(0..256),
            3 => (U256::one() << rng.gen_range(1..256)) - 1,
            4 => U256::MAX << rng.gen_range(0..256),
            _ => {
                let mut b = [0u8; 32];
                rng.fill(&mut b[..]);
                U256::from_big_endian(&b)
            }
        }
    };
    for i in 0..nrand {
        let (xa, mut xb, xc) = (edge(&mut rng), edge(&mut rng), edge(&mut rng));
        if i % 7 == 0 {
            xb = xa;
        }
        out.ev(wide_record(xa, xb, xc));
    }
}

fn hex(x: U256) -> String {
    format!("{x:x}")
}

fn wide_record(xa: U256, xb: U256, xc: U256) -> Value {
    let e = Emb::new(vec![], 0);
    let r = vcommon::guard(|| {
        let (ka, kb, kc) = (e.from_u256(xa), e.from_u256(xb), e.from_u256(xc));
        let dab = ka.distance(&kb);
        let dba = kb.distance(&ka);
        let dac = ka.distance(&kc);
        let dbc = kb.distance(&kc);
        let (sum, ovf) = dab.0.overflowing_add(dbc.0);
        let fd = ka.for_distance(dab);
        let il = dab.ilog2();
        let ilok = match il {
            None => dab.0.is_zero(),
            Some(i) => i < 256 && dab.0.bit(i as usize) && (i == 255 || (dab.0 >> (i as usize + 1)).is_zero()),
        };
        let mut t = Table::new(ka, NonZeroUsize::new(4).unwrap(), UNIT);
        let ins = t.insert(&kb, NodeStatus::Connected);
        let mut bidx = -1i64;
        for j in 0..256 {
            if !t.raw_bucket(j).0.is_empty() {
                bidx = j as i64;
            }
        }
        let brange = match t.bucket_range(&kb) {
            None => -1i64,
            Some((lo, hi)) => match lo.ilog2() {
                Some(i) if lo.0 == (U256::one() << (i as usize)) && hi.0 == (lo.0 - U256::one()) + lo.0 && lo.0 <= dab.0 && dab.0 <= hi.0 => i as i64,
                _ => -3,
            },
        };
        json!({"wide": true, "brange": brange, "eq": xa == xb, "zero": dab.0.is_zero(), "sym": dab == dba, "tri": ovf || dac.0 <= sum,
               "uni": (ka.for_distance(dab) == kb), "fdinv": fd == kb && ka.distance(&fd) == dab,
               "xor": dab.0 == (xa ^ xb), "ilok": ilok, "il": il.map(|x| x as i64).unwrap_or(-1), "bidx": bidx,
               "self": matches!(ins, Err(EntryState::SelfEntry)),
               "other_dist_differs": xb == xc || dab != dac,
               "xa": hex(xa), "xb": hex(xb), "xc": hex(xc)})
    });
    match r {
        Ok(v) => v,
        Err(m) => json!({"wide": true, "panic": m, "xa": hex(xa), "xb": hex(xb), "xc": hex(xc)}),
    }
}

fn metric_replay(out: &mut Out, rec: &Value) {
    if rec.get("wide").is_some() {
        let g = |k: &str| U256::from_str_radix(&vcommon::s(rec, k), 16).expect("hex");
        out.ev(wide_record(g("xa"), g("xb"), g("xc")));
    } else {
        let bits = vcommon::n(rec, "B") as usize;
        let e = Emb::new(pos_of(rec, bits), rec.get("mseed").and_then(|x| x.as_u64()).unwrap_or(0));
        out.ev(metric_record(&e, vcommon::n(rec, "a") as u64, vcommon::n(rec, "b") as u64, vcommon::n(rec, "c") as u64, vcommon::b(rec, "contig")));
    }
}

pub fn main(a: &vcommon::Args) {
    vcommon::quiet_panics();
    match a.get(0) {
        "replay" => {
            let scheds = vcommon::read_schedules(a.get(1));
            let mut out = Out::create(a.get(2));
            for s in &scheds {
                run(&mut out, s);
            }
            println!("runs={} events={}", out.run, out.events);
            out.finish();
        }
        "exhaustive" => {
            let mut out = Out::create(a.get(2));
            exhaustive(&mut out, a.num(1) as usize);
            println!("runs={} events={}", out.run, out.events);
            out.finish();
        }
        "random" => {
            let seed = a.num(1);
            let runs = a.num(2);
            let mut out = Out::create(a.get(3));
            let closest = a.kv_num("closest", 1);
            let mut rng = vcommon::rng(seed);
            for _ in 0..runs {
                let hot = rng.gen_bool(0.5);
                let bits = if hot { rng.gen_range(3..=4usize) } else { rng.gen_range(2..=4usize) };
                let local = rng.gen_range(0..(1u64 << bits));
                let cap: usize = if hot { rng.gen_range(1..=2) } else { rng.gen_range(1..=3) };
                let timeout = rng.gen_range(0..=2);
                let len = if hot { rng.gen_range(8..=30) } else { rng.gen_range(4..=30) };
                let pos = rand_pos(&mut rng, bits);
                let s = json!({"B": bits, "local": local, "cap": cap, "timeout": timeout, "pos": pos, "mseed": rng.gen_range(0..1000u64),
                               "ops": rand_ops(&mut rng, bits, local, len, timeout, closest, hot, cap)});
                run(&mut out, &s);
            }
            println!("runs={} events={}", out.run, out.events);
            out.finish();
        }
        // closest <bits> <maxn> <seed> <out>
        "closest" => {
            let bits = a.num(1) as usize;
            let maxn = a.num(2) as usize;
            let seed = a.num(3);
            let mut out = Out::create(a.get(4));
            let mut rng = vcommon::rng(seed ^ 0x38);
            let nk = 1u64 << bits;
            let all: Vec<u64> = (0..nk).collect();
            let some = [0u64, rng.gen_range(1..nk)];
            let all = if a.kv_num("locals", 0) == 2 { some.to_vec() } else { all };
            // bottom embedding first: only there the real bucket 0 (which holds at most one key) is in use
            closest_all(&mut out, bits, maxn, if bits <= 3 { &all } else { &some }, (0..bits).collect(), 0);
            closest_all(&mut out, bits.min(3), maxn, &[rng.gen_range(0..(1u64 << bits.min(3)))], (256 - bits.min(3)..256).collect(), seed + 2);
            closest_all(&mut out, bits.min(3), maxn, &[rng.gen_range(0..(1u64 << bits.min(3)))], rand_pos(&mut rng, bits.min(3)), seed + 1);
            closest_all(&mut out, 2, 3, &[0, 1, 2, 3], vec![0, 1], 0);
            let nbig = a.kv_num("big", 12) as usize;
            closest_big(&mut out, &mut rng, nbig, (0..6).collect(), 0);
            closest_big(&mut out, &mut rng, nbig, (250..256).collect(), seed + 3);
            println!("records={}", out.events);
            out.finish();
        }
        "closest-replay" => {
            let recs = vcommon::read_ndjson(a.get(1));
            let mut out = Out::create(a.get(2));
            for r in &recs {
                closest_replay(&mut out, r);
            }
            println!("records={}", out.events);
            out.finish();
        }
        // metric <bits> <seed> <nrand> <out>
        "metric" => {
            let mut out = Out::create(a.get(4));
            metric(&mut out, a.num(1) as usize, a.num(2), a.num(3) as usize);
            println!("records={}", out.events);
            out.finish();
        }
        "metric-replay" => {
            let recs = vcommon::read_ndjson(a.get(1));
            let mut out = Out::create(a.get(2));
            for r in &recs {
                metric_replay(&mut out, r);
            }
            println!("records={}", out.events);
            out.finish();
        }
        m => panic!("kbucket mode {m}"),
    }
}
