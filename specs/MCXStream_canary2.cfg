CONSTANTS NO = 3 DialBounded = FALSE ForwardAll = FALSE
INIT Init
NEXT Next
INVARIANTS Resolves
