CONSTANTS
  Conns = {1, 2}
  Buf = 1
  NEv = 3
  AnyToAll = TRUE
INIT Init
NEXT Next
INVARIANT Targeted InOrder QueuedOnce
