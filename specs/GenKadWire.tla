---- MODULE GenKadWire ----
(* C44 stimulus generator: the shapes of Kademlia wire messages (kind x key presence x peer-list lengths x address
   counts x connection types x record presence / publisher / ttl / value length). One REPLAY line per shape. *)
EXTENDS Naturals, TLC, Json
VARIABLE x
Sh(dir, kind, keylen, naddr, ct, ncloser, nprov, hasrec, haspub, ttl, vlen) ==
  [dir |-> dir, kind |-> kind, keylen |-> keylen, naddr |-> naddr, ct |-> ct, ncloser |-> ncloser, nprov |-> nprov,
   hasrec |-> hasrec, haspub |-> haspub, ttl |-> ttl, vlen |-> vlen]
KeyLens == {0, 3}
Recs == {<<kl, vl, hp, tt>> : kl \in KeyLens, vl \in {0, 2}, hp \in BOOLEAN, tt \in {0, 5, 90}}
Shapes ==
  {Sh("req", "Ping", 0, 0, 0, 0, 0, FALSE, FALSE, 0, 0)}
  \cup {Sh("req", k, kl, 0, 0, 0, 0, FALSE, FALSE, 0, 0) : k \in {"FindNode", "GetProviders", "GetValue"}, kl \in KeyLens}
  \cup {Sh("req", "AddProvider", kl, na, c, 0, 0, FALSE, FALSE, 0, 0) : kl \in KeyLens, na \in 0..2, c \in 0..3}
  \cup {Sh("req", "PutValue", r[1], 0, 0, 0, 0, TRUE, r[3], r[4], r[2]) : r \in Recs}
  \cup {Sh("resp", "Pong", 0, 0, 0, 0, 0, FALSE, FALSE, 0, 0)}
  \cup {Sh("resp", "FindNode", 0, na, c, nc, 0, FALSE, FALSE, 0, 0) : na \in 0..2, c \in 0..3, nc \in 0..2}
  \cup {Sh("resp", "GetProviders", 0, na, c, nc, np, FALSE, FALSE, 0, 0) : na \in {0, 2}, c \in {0, 2}, nc \in 0..2, np \in 0..2}
  \cup {Sh("resp", "GetValue", r[1], 1, 1, nc, 0, TRUE, r[3], r[4], r[2]) : r \in Recs, nc \in {0, 1}}
  \cup {Sh("resp", "GetValue", 0, 1, 2, nc, 0, FALSE, FALSE, 0, 0) : nc \in {0, 2}}
  \cup {Sh("resp", "PutValue", kl, 0, 0, 0, 0, FALSE, FALSE, 0, vl) : kl \in KeyLens, vl \in {0, 2}}
ASSUME \A s \in Shapes : PrintT(<<"REPLAY", ToJson(s)>>)
Init == x = 0
Next == FALSE /\ x' = x
====
