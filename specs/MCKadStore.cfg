CONSTANTS
  Keys = {1, 2}
  Provs = {0, 1, 2}
  Local = 0
  Tags = {1, 2}
  Sizes = {1, 2, 3}
  MaxRecords = 1
  MaxValue = 3
  MaxProviders = 2
  MaxProvKeys = 2
  SkipProvidedOnReplace = FALSE
  SizeGt = FALSE
INIT Init
NEXT Next
INVARIANT MapLike
INVARIANT Bounded
INVARIANT ProvidersBounded
INVARIANT ProvidedInSync
