---- MODULE CopyLoop ----
(* C49: transcription of protocols/relay/src/copy_future.rs (CopyFuture::poll + forward_data).
   Direction d = 0 forwards src -> dst, d = 1 forwards dst -> src.  Each direction has a BufReader
   (capacity Buf) between the incoming pipe and the outgoing pipe.  The k-th byte a client writes in
   a direction is identified with its position k.  One poll of the future is the action sequence
   Poll; (Check; Fwd(0); Fwd(1); Decide)+ during which the environment does not move (a poll is one
   critical section); between polls the environment writes, delivers, closes, grants write budget,
   or lets the Delay fire. *)
EXTENDS Naturals, Sequences
CONSTANTS N,          \* bytes a client may write per direction
          Buf,        \* BufReader capacity
          Max,        \* max_circuit_bytes (0 = unlimited)
          W,          \* largest write budget the environment grants at once
          CountBoth   \* TRUE = the code; FALSE = canary: budget counted for direction 0 only
VARIABLES sent,       \* [d -> bytes written by the client]
          closed,     \* [d -> client closed its write side]
          avail,      \* [d -> bytes made readable to the relay (transport chunking)]
          taken,      \* [d -> bytes the BufReader has pulled from the transport]
          rbuf,       \* [d -> BufReader content (byte identities)]
          out,        \* [d -> byte identities written to the outgoing pipe]
          eofout,     \* [d -> outgoing pipe closed by the loop]
          wb,         \* [d -> bytes the outgoing pipe accepts before returning Pending]
          bytes,      \* bytes_sent
          pc, st, res, fired, stalled
vars == <<sent, closed, avail, taken, rbuf, out, eofout, wb, bytes, pc, st, res, fired, stalled>>
D == {0, 1}
Min(a, b) == IF a < b THEN a ELSE b
Total == Len(out[0]) + Len(out[1])

Init == /\ sent = [d \in D |-> 0] /\ closed = [d \in D |-> FALSE] /\ avail = [d \in D |-> 0]
        /\ taken = [d \in D |-> 0] /\ rbuf = [d \in D |-> <<>>] /\ out = [d \in D |-> <<>>]
        /\ eofout = [d \in D |-> FALSE] /\ wb = [d \in D |-> 0] /\ bytes = 0
        /\ pc = "idle" /\ st = [d \in D |-> "none"] /\ res = "run" /\ fired = FALSE /\ stalled = FALSE

(* ---------------- environment (only between polls) ---------------- *)
EnvOK == pc = "idle" /\ res = "run"
loopvars == <<taken, rbuf, out, eofout, bytes, pc, st, res>>
ClientWrite(d) == /\ EnvOK /\ ~closed[d] /\ \E k \in 1..N : sent[d] + k <= N /\ sent' = [sent EXCEPT ![d] = @ + k]
                  /\ stalled' = FALSE /\ UNCHANGED <<closed, avail, wb, fired>> /\ UNCHANGED loopvars
ClientClose(d) == /\ EnvOK /\ ~closed[d] /\ closed' = [closed EXCEPT ![d] = TRUE]
                  /\ stalled' = FALSE /\ UNCHANGED <<sent, avail, wb, fired>> /\ UNCHANGED loopvars
Deliver(d) == /\ EnvOK /\ \E k \in 1..N : avail[d] + k <= sent[d] /\ avail' = [avail EXCEPT ![d] = @ + k]
              /\ stalled' = FALSE /\ UNCHANGED <<sent, closed, wb, fired>> /\ UNCHANGED loopvars
Grant(d) == /\ EnvOK /\ \E k \in 1..W : wb[d] + k <= W /\ wb' = [wb EXCEPT ![d] = @ + k]
            /\ stalled' = FALSE /\ UNCHANGED <<sent, closed, avail, fired>> /\ UNCHANGED loopvars
Fire == /\ EnvOK /\ ~fired /\ fired' = TRUE /\ stalled' = FALSE
        /\ UNCHANGED <<sent, closed, avail, wb>> /\ UNCHANGED loopvars
EofVisible(d) == closed[d] /\ avail[d] = sent[d] /\ taken[d] = avail[d]

(* ---------------- CopyFuture::poll ---------------- *)
envvars == <<sent, closed, avail, fired>>
Poll == /\ pc = "idle" /\ res = "run" /\ pc' = "check" /\ stalled' = FALSE
        /\ UNCHANGED <<taken, rbuf, out, eofout, wb, bytes, st, res>> /\ UNCHANGED envvars
Check == /\ pc = "check"
         /\ IF Max > 0 /\ bytes > Max THEN res' = "errbytes" /\ pc' = "end" ELSE pc' = "fwd0" /\ UNCHANGED res
         /\ UNCHANGED <<taken, rbuf, out, eofout, wb, bytes, st, stalled>> /\ UNCHANGED envvars
(* forward_data for direction d *)
Fwd(d) ==
  /\ pc = (IF d = 0 THEN "fwd0" ELSE "fwd1")
  /\ pc' = (IF d = 0 THEN "fwd1" ELSE "decide")
  /\ LET fill  == IF rbuf[d] # <<>> THEN rbuf[d]                       \* poll_fill_buf: buffered data first
                  ELSE [i \in 1..Min(Buf, avail[d] - taken[d]) |-> taken[d] + i]
         ntaken == IF rbuf[d] # <<>> THEN taken[d] ELSE taken[d] + Len(fill)
     IN IF fill = <<>> /\ ~EofVisible(d)
        THEN /\ st' = [st EXCEPT ![d] = "pending"]                     \* source Pending (flush dst, ignore)
             /\ UNCHANGED <<taken, rbuf, out, eofout, wb, bytes>>
        ELSE IF fill = <<>>
        THEN /\ st' = [st EXCEPT ![d] = "done"]                        \* EOF: flush + close destination
             /\ eofout' = [eofout EXCEPT ![d] = TRUE]
             /\ UNCHANGED <<taken, rbuf, out, wb, bytes>>
        ELSE IF wb[d] = 0
        THEN /\ st' = [st EXCEPT ![d] = "pending"]                     \* poll_write Pending: data stays buffered
             /\ rbuf' = [rbuf EXCEPT ![d] = fill] /\ taken' = [taken EXCEPT ![d] = ntaken]
             /\ UNCHANGED <<out, eofout, wb, bytes>>
        ELSE LET k == Min(Len(fill), wb[d]) IN
             /\ out' = [out EXCEPT ![d] = @ \o SubSeq(fill, 1, k)]
             /\ rbuf' = [rbuf EXCEPT ![d] = SubSeq(fill, k + 1, Len(fill))]   \* consume(i)
             /\ taken' = [taken EXCEPT ![d] = ntaken]
             /\ wb' = [wb EXCEPT ![d] = @ - k]
             /\ bytes' = IF CountBoth \/ d = 0 THEN bytes + k ELSE bytes
             /\ st' = [st EXCEPT ![d] = "progressed"]
             /\ UNCHANGED eofout
  /\ UNCHANGED <<res, stalled>> /\ UNCHANGED envvars
Decide ==
  /\ pc = "decide"
  /\ IF st[0] = "done" /\ st[1] = "done" THEN res' = "ok" /\ pc' = "end" /\ UNCHANGED stalled
     ELSE IF st[0] = "progressed" \/ st[1] = "progressed" THEN pc' = "check" /\ UNCHANGED <<res, stalled>>
     ELSE IF fired THEN res' = "timeout" /\ pc' = "end" /\ UNCHANGED stalled
     ELSE pc' = "idle" /\ stalled' = TRUE /\ UNCHANGED res
  /\ UNCHANGED <<taken, rbuf, out, eofout, wb, bytes, st>> /\ UNCHANGED envvars

Next == \/ \E d \in D : ClientWrite(d) \/ ClientClose(d) \/ Deliver(d) \/ Grant(d) \/ Fwd(d)
        \/ Fire \/ Poll \/ Check \/ Decide
Spec == Init /\ [][Next]_vars

(* ---------------- properties (C49) ---------------- *)
Good(s) == \A i \in 1..Len(s) : s[i] = i
Prefix == \A d \in D : Good(out[d]) /\ Len(out[d]) <= sent[d]
Bound == Max > 0 => Total <= Max + 2 * Buf
OkComplete == res = "ok" => /\ \A d \in D : closed[d] /\ Len(out[d]) = sent[d] /\ eofout[d]
                            /\ (Max > 0 => Total <= Max)
ErrJustified == (res = "errbytes" => Max > 0 /\ Total > Max) /\ (res = "timeout" => fired)
StalledWithin == stalled => /\ (Max > 0 => Total <= Max)
                            /\ ~fired
                            /\ \A d \in D : wb[d] > 0 => Len(out[d]) = avail[d] /\ (closed[d] /\ avail[d] = sent[d] => eofout[d])
EofAfterAll == \A d \in D : eofout[d] => closed[d] /\ Len(out[d]) = sent[d]

(* refinement of the ordered pipe-or-fail *)
Failed == res \in {"errbytes", "timeout"}
bsStatus == [d \in D |-> IF eofout[d] THEN "eof" ELSE IF Failed THEN "err" ELSE IF closed[d] THEN "closing" ELSE "open"]
BS == INSTANCE ByteStream WITH Dirs <- D, MaxLen <- N, MaxChunk <- N, sent <- sent, delivered <- out, status <- bsStatus
Refines == BS!BSRef
====
