---- MODULE Relay ----
(* C47 component spec: admission of reservations and circuits by relay::Behaviour (protocols/relay/src/behaviour.rs),
   one action per handler event the behaviour reacts to.
     conns  : open connections <<peer, j>>
     active : connections the behaviour counts as holding a reservation (Reservation::Active, set at admission)
     held   : connections whose handler really holds a reservation (ReservationReqAccepted .. TimedOut / closed)
     circ   : CircuitsTracker: records [n, s, sc, d, dc, st] with st \in {"accepting", "accepted"}
   Canary switches transcribe the code before the repair (DESIGN 7-14):
     OffByOne   : per-peer limits compared with > instead of >=
     NoDstCheck : the per-peer circuit limit is applied to the source only *)
EXTENDS Naturals, FiniteSets, TLC
CONSTANTS Peers, MaxRes, MaxResPerPeer, MaxCirc, MaxCircPerPeer, MaxN, OffByOne, NoDstCheck
VARIABLES conns, active, held, circ, nextN
vars == <<conns, active, held, circ, nextN>>
Conn == Peers \X {0, 1}
Init == conns = {} /\ active = {} /\ held = {} /\ circ = {} /\ nextN = 1
ActiveOf(p) == {c \in active : c[1] = p}
CircOf(p) == {x \in circ : x.s = p \/ x.d = p}
Over(n, lim) == IF OffByOne THEN n > lim ELSE n >= lim
Establish(c) == c \notin conns /\ conns' = conns \cup {c} /\ UNCHANGED <<active, held, circ, nextN>>
Close(c) == /\ c \in conns /\ conns' = conns \ {c} /\ active' = active \ {c} /\ held' = held \ {c}
            /\ circ' = {x \in circ : x.sc # c /\ x.dc # c} /\ UNCHANGED nextN
(* ReservationReqReceived{renewed} followed by the handler's ReservationReqAccepted when admitted *)
Reserve(c) ==
  /\ c \in conns
  /\ LET renewed == c \in held
         deny == (~renewed /\ Over(Cardinality(ActiveOf(c[1])), MaxResPerPeer)) \/ Cardinality(active) >= MaxRes IN
     IF deny THEN UNCHANGED <<active, held>>
     ELSE active' = active \cup {c} /\ held' = held \cup {c}
  /\ UNCHANGED <<conns, circ, nextN>>
(* the accept of an admitted reservation fails in the handler: the behaviour keeps counting it *)
ReserveAcceptFails(c) ==
  /\ c \in conns /\ c \notin held
  /\ LET deny == Over(Cardinality(ActiveOf(c[1])), MaxResPerPeer) \/ Cardinality(active) >= MaxRes IN
     active' = IF deny THEN active ELSE active \cup {c}
  /\ UNCHANGED <<conns, held, circ, nextN>>
TimedOut(c) == c \in held /\ held' = held \ {c} /\ active' = active \ {c} /\ UNCHANGED <<conns, circ, nextN>>
CircuitReq(c, d) ==
  /\ c \in conns /\ c[1] # d /\ nextN <= MaxN
  /\ LET s == c[1]
         deny == \/ Over(Cardinality(CircOf(s)), MaxCircPerPeer)
                 \/ (~NoDstCheck /\ Over(Cardinality(CircOf(d)), MaxCircPerPeer))
                 \/ Cardinality(circ) >= MaxCirc
                 \/ ActiveOf(d) = {} IN
     IF deny THEN UNCHANGED <<circ, nextN>>
     ELSE \E dc \in ActiveOf(d) :
            /\ circ' = circ \cup {[n |-> nextN, s |-> s, sc |-> c, d |-> d, dc |-> dc, st |-> "accepting"]}
            /\ nextN' = nextN + 1
  /\ UNCHANGED <<conns, active, held>>
CircuitAccepted(x) == /\ x \in circ /\ x.st = "accepting"
                      /\ circ' = (circ \ {x}) \cup {[x EXCEPT !.st = "accepted"]} /\ UNCHANGED <<conns, active, held, nextN>>
CircuitGone(x) == x \in circ /\ circ' = circ \ {x} /\ UNCHANGED <<conns, active, held, nextN>>   \* denied / failed / closed
Next == \/ \E c \in Conn : Establish(c) \/ Close(c) \/ Reserve(c) \/ ReserveAcceptFails(c) \/ TimedOut(c)
        \/ \E c \in Conn, d \in Peers : CircuitReq(c, d)
        \/ \E x \in circ : CircuitAccepted(x) \/ CircuitGone(x)
Spec == Init /\ [][Next]_vars
(* the statement, on what is really held (handler truth) and on what the behaviour counts *)
ResLimits == /\ Cardinality(held) <= MaxRes /\ \A p \in Peers : Cardinality({c \in held : c[1] = p}) <= MaxResPerPeer
             /\ Cardinality(active) <= MaxRes /\ \A p \in Peers : Cardinality(ActiveOf(p)) <= MaxResPerPeer
CircLimits == Cardinality(circ) <= MaxCirc /\ \A p \in Peers : Cardinality(CircOf(p)) <= MaxCircPerPeer
HeldIsCounted == held \subseteq active /\ active \subseteq conns
CircuitsOnOpenConns == \A x \in circ : x.sc \in conns /\ x.dc \in conns
====
