---- MODULE Pnet ----
(* C19 (pnet): transcription of transports/pnet/src/crypt_writer.rs (CryptWriter::poll_write /
   poll_flush / poll_flush_buf) and PnetOutput::poll_read, one direction.
   XSalsa20 is a stream cipher: a byte is decrypted correctly iff its keystream position at
   encryption equals the reader's position at decryption.  A wire byte is <<id, ks>>: id = position
   of the plaintext byte in the written stream, ks = keystream position used to encrypt it. *)
EXTENDS Naturals, Sequences
CONSTANTS N,         \* bytes the application writes
          W,         \* largest budget of the inner writer
          DropTail   \* FALSE = the code; TRUE = canary: unflushed tail dropped when the inner writer is Pending
VARIABLES sent, enc, buf, wb, wire, fed, delivered, flushed
vars == <<sent, enc, buf, wb, wire, fed, delivered, flushed>>
Min(a, b) == IF a < b THEN a ELSE b
Init == sent = 0 /\ enc = 0 /\ buf = <<>> /\ wb = 0 /\ wire = <<>> /\ fed = 0 /\ delivered = <<>> /\ flushed = TRUE

(* poll_flush_buf: write as much of b as the inner writer accepts; result <<rest, written>> *)
FlushBuf(b) == LET k == Min(Len(b), wb) IN <<SubSeq(b, k + 1, Len(b)), SubSeq(b, 1, k)>>

(* poll_write(buf of k bytes) *)
Write(k) ==
  /\ sent + k <= N
  /\ LET f1 == FlushBuf(buf) IN
     IF f1[1] # <<>>                                        \* old buffer not completely flushed: Pending
     THEN /\ buf' = f1[1] /\ wire' = wire \o f1[2] /\ wb' = wb - Len(f1[2])
          /\ UNCHANGED <<sent, enc, fed, delivered, flushed>>
     ELSE LET nb   == [j \in 1..k |-> <<sent + j, enc + j>>]     \* encrypt k bytes into the (empty) buffer
              wb1  == wb - Len(f1[2])
              k2   == Min(k, wb1)                             \* immediate flush attempt
          IN /\ sent' = sent + k /\ enc' = enc + k
             /\ wire' = wire \o f1[2] \o SubSeq(nb, 1, k2)
             /\ wb' = wb1 - k2
             /\ buf' = IF DropTail THEN <<>> ELSE SubSeq(nb, k2 + 1, k)
             /\ flushed' = (k2 = k)
             /\ UNCHANGED <<fed, delivered>>
Flush == /\ LET f == FlushBuf(buf) IN
              /\ buf' = f[1] /\ wire' = wire \o f[2] /\ wb' = wb - Len(f[2]) /\ flushed' = (f[1] = <<>>)
         /\ UNCHANGED <<sent, enc, fed, delivered>>
Grant == \E k \in 1..W : wb + k <= W /\ wb' = wb + k /\ UNCHANGED <<sent, enc, buf, wire, fed, delivered, flushed>>
(* transport chunk + PnetOutput::poll_read: k more wire bytes reach the reader, decrypted by position *)
Read == \E k \in 1..N : /\ fed + k <= Len(wire) /\ fed' = fed + k
           /\ delivered' = delivered \o [j \in 1..k |-> IF wire[fed + j][2] = fed + j THEN wire[fed + j][1] ELSE 0]
           /\ UNCHANGED <<sent, enc, buf, wb, wire, flushed>>
Next == (\E k \in 1..N : Write(k)) \/ Flush \/ Grant \/ Read
Spec == Init /\ [][Next]_vars

Good(s) == \A j \in 1..Len(s) : s[j] = j
Prefix == Good(delivered) /\ Len(delivered) <= sent
Complete == (buf = <<>> /\ fed = Len(wire)) => Len(delivered) = sent      \* transparent at quiescence
BS == INSTANCE ByteStream WITH Dirs <- {0}, MaxLen <- N, MaxChunk <- N,
        sent <- [d \in {0} |-> sent], delivered <- [d \in {0} |-> delivered], status <- [d \in {0} |-> "open"]
Refines == BS!BSRef
====
