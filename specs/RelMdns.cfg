INIT Init
NEXT Next
