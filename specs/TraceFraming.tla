---- MODULE TraceFraming ----
(* C57 / C31 trace validation.  Property-level specification of a streaming decoder for
   length-prefixed frames: whatever the real decoder does internally, every recorded result of
   `Decoder::decode` must be allowed by the STATEMENT, given only what has been fed so far.

   reset : codec, limit, maxpub, maxctl, early (C57: reject as soon as the declared length is
           known), slack (max buffered bytes beyond `limit` tolerated for an incomplete frame),
           frames = sequence of [s, h, n, t, id, npub, nsub, nctl, ctl, dsum]  (s/t = start/end
           offset in the stream, h = prefix bytes, n = payload bytes, the rest = content
           fingerprint and the quantities the publish/control limits talk about);
           total = stream length (bytes after the last frame are junk)
   feed  : n more bytes appended to the decoder's buffer
   dec   : r = "none" | "err" | "item" (+ used = bytes the call consumed, and the fingerprint of
           the decoded item: id, npub, nsub, nctl, dsum)
   end   : end of the run (the driver decodes until none/err after the last feed)

   MustAccept(f): within every limit  =>  must be delivered once completely fed.
   MustReject(f): payload longer than `limit`  =>  never delivered; error at the latest when
                  completely fed (early: as soon as the prefix is fed).
   Frames that only exceed the publish/control limits may be rejected or not (the statement
   does not say) - but never before their prefix is known.                                   *)
EXTENDS TraceIO, FiniteSets
VARIABLES l, fed, idx, status, quiet, C
vars == <<l, fed, idx, status, quiet, C>>
R == Rec[l]
NoCfg == [limit |-> 0, maxpub |-> 0, maxctl |-> 0, early |-> FALSE, slack |-> 0, total |-> 0, frames |-> <<>>]
Init == l = 1 /\ fed = 0 /\ idx = 1 /\ status = "end" /\ quiet = TRUE /\ C = NoCfg /\ InitReg

F == C.frames
NF == Len(F)
InJunk == idx > NF                      \* all announced frames consumed: the rest of the stream is junk, anything but a panic goes
Cur == F[idx]
MustAccept(f) == f.n <= C.limit /\ f.npub <= C.maxpub /\ f.ctl <= C.maxctl
MustReject(f) == f.n > C.limit
PrefixFed == fed >= Cur.s + Cur.h
AllFed == fed >= Cur.t

WellFormed(c) == /\ \A i \in 1..Len(c.frames) : LET f == c.frames[i] IN
                        /\ f.t = f.s + f.h + f.n /\ f.h >= 1
                        /\ f.s = (IF i = 1 THEN 0 ELSE c.frames[i - 1].t)
                 /\ c.total >= (IF Len(c.frames) = 0 THEN 0 ELSE c.frames[Len(c.frames)].t)

Reset == /\ R.e = "reset" /\ status = "end"
         /\ LET c == [limit |-> R.limit, maxpub |-> R.maxpub, maxctl |-> R.maxctl, early |-> R.early,
                      slack |-> R.slack, total |-> R.total, frames |-> R.frames] IN
            WellFormed(c) /\ C' = c
         /\ fed' = 0 /\ idx' = 1 /\ status' = "ok" /\ quiet' = TRUE
Feed == /\ R.e = "feed" /\ status = "ok" /\ R.n >= 1 /\ fed + R.n <= C.total
        /\ fed' = fed + R.n /\ quiet' = FALSE /\ UNCHANGED <<idx, status, C>>
DecNone == /\ R.e = "dec" /\ R.r = "none" /\ status = "ok"
           /\ (\/ InJunk
               \/ /\ ~InJunk
                  /\ ~AllFed                                              \* a completely fed frame is delivered or rejected, never withheld
                  /\ ~(C.early /\ MustReject(Cur) /\ PrefixFed)            \* C57: reject before buffering the payload
                  /\ fed - Cur.s <= C.limit + C.slack) = TRUE              \* never waits with more than a maximal frame buffered
           /\ quiet' = TRUE /\ UNCHANGED <<fed, idx, status, C>>
DecErr == /\ R.e = "dec" /\ R.r = "err" /\ status = "ok"
          /\ (InJunk \/ (~InJunk /\ ~MustAccept(Cur) /\ PrefixFed)) = TRUE           \* only a frame outside the limits, and only once its length is known
          /\ status' = "err" /\ quiet' = TRUE /\ UNCHANGED <<fed, idx, C>>
Same(f) == /\ R.id = f.id /\ R.used = f.h + f.n /\ R.npub = f.npub /\ R.nsub = f.nsub /\ R.nctl = f.nctl /\ R.dsum = f.dsum
DecItem == /\ R.e = "dec" /\ R.r = "item" /\ status = "ok"
           /\ \/ InJunk /\ UNCHANGED idx
              \/ /\ ~InJunk /\ AllFed /\ ~MustReject(Cur) /\ Same(Cur)      \* exactly the next encoded message, in order
                 /\ idx' = idx + 1
           /\ quiet' = FALSE /\ UNCHANGED <<fed, status, C>>
End == /\ R.e = "end" /\ status \in {"ok", "err"}
       /\ status = "ok" => quiet /\ fed = C.total                          \* the driver fed everything and decoded to quiescence
       /\ status' = "end" /\ UNCHANGED <<fed, idx, quiet, C>>
Next == l <= NRec /\ l' = l + 1 /\ (Reset \/ Feed \/ DecNone \/ DecErr \/ DecItem \/ End)
Spec == Init /\ [][Next]_vars
(* redundant with the guards, stated as invariants for the evidence: *)
Delivered == (status = "end" /\ ~InJunk /\ l > 1) => ~MustAccept(Cur)      \* a run ends before a frame only if that frame had to go
Progress == Mark(l)
====
