CONSTANTS
  Streams = {1, 2}
  Split = 2
  MaxBytes = 3
  Fifo = TRUE
  Demux = FALSE
  OwnerWrites = TRUE
INIT Init
NEXT Next
INVARIANT InOrderOwnBytes Delivered EofAfterCloseAndAll
