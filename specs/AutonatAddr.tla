---- MODULE AutonatAddr ----
(* C50: when may an AutoNAT server dial an address for a requester?  Abstract multiaddr = sequence of
   <<kind, val>>; val of an IP component: "obs" (an IP the server observed for the requester) or "other"; of /p2p:
   "req" (the requester) or "other".
     - it has an IP component, every IP component equals the observed IP, and no DNS name is present (a DNS
       host component would make the transport dial whatever the name resolves to),
     - no relay hop (/p2p-circuit),
     - every /p2p names the requester and the address ends with /p2p/<requester>. *)
EXTENDS Naturals, Sequences
IsIp(c) == c[1] \in {"ip4", "ip6"}
IsDns(c) == c[1] \in {"dns", "dns4", "dns6", "dnsaddr"}
DialOK(a) ==
  /\ Len(a) >= 2
  /\ \E i \in 1..Len(a) : IsIp(a[i])
  /\ \A i \in 1..Len(a) : /\ (IsIp(a[i]) => a[i][2] = "obs")
                          /\ ~IsDns(a[i])
                          /\ a[i][1] # "p2p-circuit"
                          /\ (a[i][1] = "p2p" => a[i][2] = "req")
  /\ a[Len(a)][1] = "p2p" /\ a[Len(a)][2] = "req"
====
