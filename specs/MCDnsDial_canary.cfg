CONSTANTS
  NamesN = 2
  HostsN = 1
  Ips = 1
  MaxLookups = 3
  MaxAttempts = 2
  MaxTxt = 2
  WithForeign = FALSE
  LookupOffByOne = TRUE
  NoSuffixFilter = FALSE
  EmptyPanics = FALSE
INIT Init
NEXT Next
INVARIANT Bounded OnlyResolved SuffixOK NoPanic
