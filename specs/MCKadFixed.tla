---- MODULE MCKadFixed ----
EXTENDS KadFixed
MCList == <<1, 2, 1, 3, 4, 2>>
====
