CONSTANTS
  Names = {a, b, c}
  Bad = bad
  MaxLen = 3
  CountShortcut = TRUE
INIT Init
NEXT Next
INVARIANT FoldMatches
