---- MODULE RelMdns ----
(* C55 relation validation.  Record kinds (see harness/drv-mdns):
   response: adv = advertised addresses [id, len = bytes of "dnsaddr=<addr>/p2p/<peer>", ascii, plain],
             packets = what build_query_response produced, each parsed again by the real parser.
     Post: no panic; every packet <= 9000 bytes and parses as a response; every decoded peer is the advertising
           peer; no decoded address is foreign (-1); the bag of decoded addresses contains every advertised address
           that fits a TXT string (len <= 255) and is ASCII, may contain fitting non-ASCII ones (the builder
           documents that it excludes non-ASCII text), and contains nothing else.
   fuzz: parsing arbitrary bytes: Post: no panic. *)
EXTENDS TraceIO, FiniteSets
VARIABLE x
SetOf(q) == {q[i] : i \in 1..Len(q)}
RECURSIVE Flat(_)
Flat(ss) == IF ss = <<>> THEN <<>> ELSE Head(ss) \o Flat(Tail(ss))
Decoded(r) == Flat([i \in 1..Len(r.packets) |-> Flat([j \in 1..Len(r.packets[i].peers) |-> r.packets[i].peers[j].addrs])])
Count(s, v) == Cardinality({i \in 1..Len(s) : s[i] = v})
AdvCount(r, id, P(_)) == Cardinality({i \in 1..Len(r.adv) : r.adv[i].id = id /\ P(r.adv[i])})
Must(a) == a.len <= 255 /\ a.ascii
May(a) == a.len <= 255
Why(r) ==
  IF Has(r, "panic") THEN "panic"
  ELSE IF r.kind = "fuzz" THEN (IF r.panics = <<>> THEN "ok" ELSE "panic while parsing")
  ELSE IF \E i \in 1..Len(r.packets) : r.packets[i].size > 9000 THEN "packet larger than 9000 bytes"
  ELSE IF \E i \in 1..Len(r.packets) : r.packets[i].parsed # "response" THEN "packet does not parse as a response"
  ELSE IF \E i \in 1..Len(r.packets) : \E j \in 1..Len(r.packets[i].peers) : ~r.packets[i].peers[j].self THEN "address attributed to another peer"
  ELSE LET d == Decoded(r) ids == {r.adv[i].id : i \in 1..Len(r.adv)} IN
       IF \E k \in 1..Len(d) : d[k] \notin ids THEN "decoded an address that was not advertised"
       ELSE IF \E id \in ids : Count(d, id) < AdvCount(r, id, Must) THEN "advertised address missing from the decoded set"
       ELSE IF \E id \in ids : Count(d, id) > AdvCount(r, id, May) THEN "address decoded more often than advertised / although it does not fit"
       ELSE IF Len(r.packets) = 0 THEN "no packet"
       ELSE "ok"
Post(r) == Why(r) = "ok"
ASSUME PrintT(<<"CHECKED", ToJson([n |-> NRec])>>)
ASSUME \A i \in 1..NRec : Post(Rec[i]) \/ PrintT(<<"BAD", ToJson([line |-> i, why |-> Why(Rec[i])])>>)
Init == x = 0
Next == FALSE /\ x' = x
====
