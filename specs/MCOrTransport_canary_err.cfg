SPECIFICATION Spec
CONSTANTS
  Addrs <- A6
  Ids = {1, 2}
  Sup <- SupTab
  Disabled <- NoneOff
  Budget = 2
  Wait = 9
  Fair = FALSE
  TryNextAfterError = TRUE
  DropOwner = FALSE
  SwapTag = FALSE
INVARIANT RouteFirst
INVARIANT OwnerStable
INVARIANT NoLossNoDup
PROPERTY Surfaced
