CONSTANTS
  Conns = {1, 2}
  Buf = 1
  NEv = 3
  AnyToAll = FALSE
INIT Init
NEXT Next
INVARIANT Targeted InOrder QueuedOnce
