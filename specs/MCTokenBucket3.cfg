CONSTANTS
  Ids = {1, 2}
  Limit = 3
  Interval = 2
  MaxTime = 8
  RefillFull = FALSE
INIT Init
NEXT Next
CONSTRAINT Bound
INVARIANT WindowLaw IdleAccepts
