CONSTANTS
  Ids = {1, 2}
  Limit = 3
  Interval = 3
  MaxTime = 12
  RefillFull = FALSE
INIT Init
NEXT Next
CONSTRAINT Bound
INVARIANT WindowLaw IdleAccepts
