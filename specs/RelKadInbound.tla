---- MODULE RelKadInbound ----
(* C43 relation over records produced by a REAL Behaviour<MemoryStore> fed with inbound handler events (driver:
   drv-kad record inbound). Peers are small ints, 0 = the local node, 5 = an honest third party whose provider
   record may already be stored (pre).
     addp   : ADD_PROVIDER from `sender` announcing `provider`: afterwards provs = providers stored for the key
     putpub : PUT_VALUE from `sender` with publisher `pub` (-1 none) while (pre) a local record <<tag 1, len 2, publisher 0>>
              exists; the incoming record is <<tag 9, len 3>> *)
EXTENDS TraceIO, Integers, FiniteSets
VARIABLE x
SetOf(s) == {s[j] : j \in 1..Len(s)}
Legit(r) == r.provider = r.sender /\ r.provider # 0
AddP(r) ==
  LET before == IF r.pre THEN {5} ELSE {} IN
  /\ r.other = 0 /\ r.provided = 0
  /\ Len(r.provs) = Cardinality(SetOf(r.provs))
  /\ IF Legit(r) /\ ~r.filt THEN SetOf(r.provs) = before \cup {r.provider} /\ r.nev = 1
     ELSE /\ SetOf(r.provs) = before                                   \* nothing stored
          /\ IF Legit(r) THEN r.nev = 1 /\ r.evprov = r.provider       \* FilterBoth: handed to the application instead
             ELSE r.nev = 0
PutPub(r) ==
  /\ r.nrec = (IF r.has THEN 1 ELSE 0)
  /\ IF r.pub = 0
     THEN \* publisher = local node: the local record never changes, nothing is stored, no event
          /\ r.has = r.pre /\ (r.pre => r.tag = 1 /\ r.len = 2 /\ r.spub = 0) /\ r.nev = 0
     ELSE IF r.filt THEN r.has = r.pre /\ (r.pre => r.tag = 1 /\ r.len = 2 /\ r.spub = 0) /\ r.nev = 1
     ELSE r.has /\ r.tag = 9 /\ r.len = 3 /\ r.spub = r.pub /\ r.nev = 1
Post(r) == ~Has(r, "panic") /\ (IF r.m = "addp" THEN AddP(r) ELSE r.m = "putpub" /\ PutPub(r))
ASSUME PrintT(<<"CHECKED", ToJson([n |-> NRec])>>)
ASSUME \A i \in 1..NRec : Post(Rec[i]) \/ PrintT(<<"BAD", ToJson([line |-> i, why |-> IF Rec[i].m = "addp" THEN "provider record accepted from / refused to the wrong peer" ELSE "put with local publisher changed the store (or a foreign one did not)"])>>)
Init == x = 0
Next == FALSE /\ x' = x
====
