---- MODULE KBucket ----
(* Kademlia routing table with B-bit keys: transcription of protocols/kad/src/kbucket.rs (KBucketsTable::entry,
   ClosestBucketsIter, ClosestIter) and kbucket/bucket.rs (KBucket::insert/update/remove/apply_pending).
   C37: Capacity, RightBucketUnique, LruOrder, EvictionRule.  C38: ClosestOK.  (C40 laws: MCKadMetric.) *)
EXTENDS Naturals, Sequences, FiniteSets, TLC
CONSTANTS B, Local, Cap, Timeout, MaxTime,
          Bucket0Twice,     \* canary for C38: the bucket walk emits bucket 0 unconditionally when zoom-in ends (the defect fixed in /repo)
          ApplyConnected,   \* canary for C37: apply_pending evicts the first entry even when it is connected
          ApplyEarly        \* canary for C37: apply_pending does not wait for the timeout
Keys == 0..(2^B - 1)
Mod2(a) == a - 2 * (a \div 2)
RECURSIVE Xor(_, _)
Xor(a, b) == IF a = 0 THEN b ELSE IF b = 0 THEN a ELSE Mod2(Mod2(a) + Mod2(b)) + 2 * Xor(a \div 2, b \div 2)
RECURSIVE Ilog2(_)
Ilog2(d) == IF d <= 1 THEN 0 ELSE 1 + Ilog2(d \div 2)        \* only used for d > 0
Bit(d, i) == Mod2(d \div (2^i)) = 1
BIdx(k) == Ilog2(Xor(Local, k))                                \* bucket index of key k # Local

NoPending == [key |-> Local, st |-> "none", at |-> 0]
VARIABLES nodes,    \* bucket index -> sequence of keys (least recently updated first within each status class)
          fc,       \* bucket index -> 1-based position of the first connected node, Len+1 if none
          pend,     \* bucket index -> pending node or NoPending
          now,      \* logical time
          lastK     \* key most recently inserted / status-updated (Local = none): must sit at the recent end of its class
vars == <<nodes, fc, pend, now, lastK>>
Idx == 0..(B - 1)
Init == /\ nodes = [i \in Idx |-> <<>>] /\ fc = [i \in Idx |-> 1] /\ pend = [i \in Idx |-> NoPending]
        /\ now = 0 /\ lastK = Local

Pos(s, k) == IF \E p \in 1..Len(s) : s[p] = k THEN CHOOSE p \in 1..Len(s) : s[p] = k ELSE 0
Del(s, p) == SubSeq(s, 1, p - 1) \o SubSeq(s, p + 1, Len(s))
Ins(s, p, k) == SubSeq(s, 1, p - 1) \o <<k>> \o SubSeq(s, p, Len(s))
Status(i, p) == IF p >= fc[i] THEN "C" ELSE "D"

(* KBucket::insert on explicit bucket state <<s, f, pd>>; returns <<s', f', pd', result>> *)
InsertB(s, f, pd, k, st) ==
  IF st = "C" THEN
     IF Len(s) >= Cap THEN (IF f = 1 \/ pd.st # "none" THEN <<s, f, pd, "Full">> ELSE <<s, f, [key |-> k, st |-> "C", at |-> now + Timeout], "Pending">>)
     ELSE <<Append(s, k), f, pd, "Inserted">>
  ELSE IF Len(s) >= Cap THEN <<s, f, pd, "Full">> ELSE <<Ins(s, f, k), f + 1, pd, "Inserted">>
(* KBucket::apply_pending *)
ApplyB(s, f, pd) ==
  IF pd.st = "none" \/ (pd.at > now /\ ~ApplyEarly) THEN <<s, f, pd>>
  ELSE IF Len(s) >= Cap THEN
          IF f = 1 THEN (IF ApplyConnected THEN <<Append(Tail(s), pd.key), 1, NoPending>> ELSE <<s, f, NoPending>>)   \* LRU node is connected: pending is dropped
          ELSE IF pd.st = "C" THEN <<Append(Tail(s), pd.key), f - 1, NoPending>>   \* evict LRU disconnected, append as most recent connected
          ELSE <<Ins(Tail(s), f - 1, pd.key), f, NoPending>>
       ELSE LET r == InsertB(s, f, NoPending, pd.key, pd.st) IN <<r[1], r[2], NoPending>>

Touch(i) == <<nodes[i], fc[i], pend[i]>>
Due(i) == ApplyB(nodes[i], fc[i], pend[i]) # <<nodes[i], fc[i], pend[i]>>
(* KBucketsTable::entry()/iter()/closest(): every access first applies the bucket's pending node; modelled as its own step,
   and the operations below are enabled only once that step has been taken *)
Apply(i) == /\ Due(i)
            /\ LET a == ApplyB(nodes[i], fc[i], pend[i]) IN
               /\ nodes' = [nodes EXCEPT ![i] = a[1]] /\ fc' = [fc EXCEPT ![i] = a[2]] /\ pend' = [pend EXCEPT ![i] = a[3]]
               /\ lastK' = IF Pos(a[1], pend[i].key) > 0 THEN pend[i].key ELSE Local
            /\ UNCHANGED now

Insert(k, st) ==
  /\ k # Local
  /\ ~Due(BIdx(k))
  /\ LET i == BIdx(k) a == Touch(i) IN
     /\ Pos(a[1], k) = 0 /\ a[3].key # k
     /\ LET r == InsertB(a[1], a[2], a[3], k, st) IN
        /\ nodes' = [nodes EXCEPT ![i] = r[1]] /\ fc' = [fc EXCEPT ![i] = r[2]] /\ pend' = [pend EXCEPT ![i] = r[3]]
        /\ lastK' = IF r[4] = "Inserted" THEN k ELSE Local
  /\ UNCHANGED now
Update(k, st) ==
  /\ k # Local
  /\ ~Due(BIdx(k))
  /\ LET i == BIdx(k) a == Touch(i) p == Pos(a[1], k) IN
     /\ p > 0
     /\ LET wasC == p >= a[2]
            s1 == Del(a[1], p)
            f1 == IF wasC THEN a[2] ELSE a[2] - 1
            pd1 == IF p = 1 /\ st = "C" THEN NoPending ELSE a[3]
            r == InsertB(s1, f1, pd1, k, st) IN
        /\ nodes' = [nodes EXCEPT ![i] = r[1]] /\ fc' = [fc EXCEPT ![i] = r[2]] /\ pend' = [pend EXCEPT ![i] = r[3]]
        /\ lastK' = k
  /\ UNCHANGED now
Remove(k) ==
  /\ k # Local
  /\ ~Due(BIdx(k))
  /\ LET i == BIdx(k) a == Touch(i) p == Pos(a[1], k) IN
     /\ p > 0
     /\ nodes' = [nodes EXCEPT ![i] = Del(a[1], p)] /\ fc' = [fc EXCEPT ![i] = IF p >= a[2] THEN a[2] ELSE a[2] - 1]
     /\ pend' = [pend EXCEPT ![i] = a[3]]
  /\ lastK' = Local /\ UNCHANGED now
Tick == now < MaxTime /\ now' = now + 1 /\ UNCHANGED <<nodes, fc, pend, lastK>>
Next == (\E i \in Idx : Apply(i)) \/ (\E k \in Keys, st \in {"C", "D"} : Insert(k, st) \/ Update(k, st)) \/ (\E k \in Keys : Remove(k)) \/ Tick
Spec == Init /\ [][Next]_vars

(* ---- C37 ---- *)
AllKeys == UNION {{nodes[i][p] : p \in 1..Len(nodes[i])} : i \in Idx}
Capacity == \A i \in Idx : Len(nodes[i]) <= Cap /\ fc[i] \in 1..(Len(nodes[i]) + 1)
RightBucketUnique == /\ Local \notin AllKeys
                     /\ \A i \in Idx : \A p \in 1..Len(nodes[i]) : BIdx(nodes[i][p]) = i /\ \A q \in 1..Len(nodes[i]) : q # p => nodes[i][q] # nodes[i][p]
LruOrder == lastK # Local => LET i == BIdx(lastK) p == Pos(nodes[i], lastK) IN
              p > 0 /\ (IF p >= fc[i] THEN p = Len(nodes[i]) ELSE p = fc[i] - 1)      \* most recent of its status class
EvictionRule == [][\A i \in Idx : \A k \in Keys :
                     (Pos(nodes[i], k) > 0 /\ Pos(nodes'[i], k) = 0 /\ pend[i].st # "none" /\ Pos(nodes'[i], pend[i].key) > 0 /\ Pos(nodes[i], pend[i].key) = 0 /\ Len(nodes[i]) >= Cap)
                       => (nodes[i][1] = k /\ fc[i] > 1 /\ pend[i].at <= now')]_vars

(* ---- C38: closest-key enumeration ---- *)
RECURSIVE DownBits(_, _)
DownBits(d, i) == IF i = 0 THEN <<>> ELSE (IF Bit(d, i - 1) THEN <<i - 1>> ELSE <<>>) \o DownBits(d, i - 1)       \* set bits below i, descending
RECURSIVE UpZeros(_, _)
UpZeros(d, i) == IF i >= B THEN <<>> ELSE (IF ~Bit(d, i) THEN <<i>> ELSE <<>>) \o UpZeros(d, i + 1)              \* unset bits from i upward, ascending
BucketWalk(d) == LET start == IF d = 0 THEN 0 ELSE Ilog2(d)
                     down == DownBits(d, start)
                     zero == IF Bucket0Twice THEN <<0>> ELSE (IF start = 0 \/ Bit(d, 0) THEN <<>> ELSE <<0>>) IN
                 <<start>> \o down \o zero \o UpZeros(d, 1)
RECURSIVE SortByDist(_, _)
SortByDist(S, t) == IF S = {} THEN <<>> ELSE LET m == CHOOSE x \in S : \A y \in S : Xor(t, x) <= Xor(t, y) IN <<m>> \o SortByDist(S \ {m}, t)
SetOf(s) == {s[p] : p \in 1..Len(s)}
RECURSIVE Concat(_, _)
Concat(walk, t) == IF walk = <<>> THEN <<>> ELSE SortByDist(SetOf(nodes[Head(walk)]), t) \o Concat(Tail(walk), t)
Closest(t) == Concat(BucketWalk(Xor(Local, t)), t)
ClosestOK == (\A i \in Idx : ~Due(i)) => \A t \in Keys : Closest(t) = SortByDist(AllKeys, t)
Bound == TRUE
====
