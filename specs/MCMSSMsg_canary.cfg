CONSTANTS
  MaxProtocols = 3
  MaxFrame = 9
  CheckBefore = FALSE
INIT Init
NEXT Next
INVARIANT RoundTrip RejectTooMany RejectNoSlash PrefixAtMostTwo
