---- MODULE TraceGossipNet ----
(* C27 trace validation (property level) of a network of real gossipsub routers whose links the driver plays.
   State rebuilt from the events: who published which message, which node has delivered which message to its
   application, from which neighbours a node has received a message so far.  Judged per step:
     DeliveredOnce       a node's application receives a given message at most once,
     NotToPublisher      and never the message it published itself;
     NoCopyToSource      no node queues a copy of a message for the message's source;
     NoCopyBack          no node queues a copy for a neighbour it has (already, or in this very step) received
                         that message from -- unless that neighbour asked for it with an IWANT carried by the RPC
                         being processed (gossip repair is not forwarding);
   and at `end` (the driver has alternated heartbeats at all nodes and delivery to quiescence n+2 times; only
   when the network was formed and stayed so: the driver ran heartbeat rounds to a mesh fixed point before the
   first publish (due), and no connection, subscription, GRAFT or PRUNE happened after the first publish (churn);
   a peer that is grafted after its neighbour received a message gets neither the forward nor the gossip, which is
   gossipsub's design, not a router defect -- "a connected network of nodes subscribed to a topic"):
     EveryoneGotIt       every node other than the publisher has delivered every successfully published message.
   Which peers a router picks (mesh, gossip targets, flood or mesh publish) is never predicted. *)
EXTENDS TraceIO, FiniteSets, Integers
VARIABLES l, n, src, got, from, churn, bad, asked
vars == <<l, n, src, got, from, churn, bad, asked>>
R == Rec[l]
Range(s) == {s[i] : i \in 1..Len(s)}
MaxMsg == 8
MsgIds == 1..MaxMsg
Nodes == 0..(n - 1)
Init == l = 1 /\ n = 0 /\ src = <<>> /\ got = <<>> /\ from = <<>> /\ churn = FALSE /\ bad = {} /\ asked = <<>> /\ InitReg
Reset == /\ R.e = "reset" /\ n' = R.n
         /\ src' = [m \in MsgIds |-> -1]
         /\ got' = [x \in 0..(R.n - 1) |-> {}]
         /\ from' = [x \in 0..(R.n - 1) |-> [m \in MsgIds |-> {}]]
         /\ bad' = {} /\ churn' = FALSE
         /\ asked' = [x \in 0..(R.n - 1) |-> {}]
(* the node acting in this step, the neighbour whose RPC it processes (or -1), the messages that RPC carries *)
Actor == IF R.e = "dlv" THEN R.b ELSE IF R.e \in {"pub", "hb", "sub"} THEN R.n ELSE -1
NewSrc == IF R.e = "pub" /\ R.res THEN [src EXCEPT ![R.k] = R.n] ELSE src
NewFrom == IF R.e = "dlv" THEN [from EXCEPT ![R.b] = [m \in MsgIds |-> IF m \in Range(R.msgs) THEN @[m] \cup {R.a} ELSE @[m]]] ELSE from
Got == IF Has(R, "got") THEN R.got ELSE <<>>
Snd == IF R.e = "conn" THEN {} ELSE Range(R.snd)          \* <<to, msg>> queued by Actor (conn: two actors, handshake only)
(* IWANTs a node has been sent so far (the answer may be queued in the same step, or leave the node's send queue later
   when the link is slow): asked[x] = set of <<requesting neighbour, message>> *)
NewAsked == IF R.e = "dlv" THEN [asked EXCEPT ![R.b] = @ \cup {<<R.a, R.iwant[i]>> : i \in 1..Len(R.iwant)}] ELSE asked
Asked(to, m) == Actor >= 0 /\ <<to, m>> \in NewAsked[Actor]
Violations ==
     (IF \E i \in 1..Len(Got) : Got[i] \in got[Actor] \/ \E j \in 1..Len(Got) : j # i /\ Got[j] = Got[i] THEN {"delivered twice"} ELSE {})
  \cup (IF \E i \in 1..Len(Got) : NewSrc[Got[i]] = Actor THEN {"delivered to publisher"} ELSE {})
  \cup (IF \E s \in Snd : NewSrc[s[2]] = s[1] THEN {"copy to source"} ELSE {})
  \* (copies leaving a held-back send queue were queued at an unknown earlier time: the copy-back clause cannot be judged for them)
  \cup (IF ~Has(R, "release") /\ \E s \in Snd : s[1] \in NewFrom[Actor][s[2]] /\ ~Asked(s[1], s[2]) THEN {"copy back"} ELSE {})
  \cup (IF R.e = "conn" /\ R.snd # <<>> THEN {"message copy on handshake"} ELSE {})
Step == /\ R.e \in {"conn", "sub", "pub", "hb", "dlv"}
        /\ src' = NewSrc /\ from' = NewFrom /\ asked' = NewAsked
        /\ got' = IF Got = <<>> THEN got ELSE [got EXCEPT ![Actor] = @ \cup Range(Got)]
        /\ bad' = Violations
        /\ churn' = (churn \/ ((\E m \in MsgIds : src[m] >= 0) /\ (R.e \in {"conn", "sub"} \/ (R.e = "dlv" /\ R.gr + R.pr > 0))))
        /\ UNCHANGED n
End == /\ R.e = "end"
       /\ bad' = IF ~R.due \/ churn \/ (R.quiet /\ \A m \in MsgIds : src[m] >= 0 => \A x \in Nodes \ {src[m]} : m \in got[x]) THEN {} ELSE {"someone missed a message"}
       /\ UNCHANGED <<n, src, got, from, churn, asked>>
Next == l <= NRec /\ l' = l + 1 /\ (Reset \/ Step \/ End)
Spec == Init /\ [][Next]_vars
Progress == Mark(l)
DeliveredOnce == "delivered twice" \notin bad
NotToPublisher == "delivered to publisher" \notin bad
NoCopyToSource == "copy to source" \notin bad
NoCopyBack == "copy back" \notin bad /\ "message copy on handshake" \notin bad
EveryoneGotIt == "someone missed a message" \notin bad
====
