CONSTANTS
  Lens = {0, 1, 2, 3, 4, 5, 6, 7}
  MaxFrames = 4
  Limit = 4
  Wide = 3
  MaxHdr = 2
  Variant = "gs"
INIT Init
NEXT Next
INVARIANTS OutIsPrefix BufIsTail AcceptGood NoSpuriousError RejectOversize BoundedBuffer ErrIsFirstBad AllDelivered
