CONSTANTS NO = 3 DialBounded = FALSE ForwardAll = TRUE
INIT Init
NEXT Next
INVARIANTS Resolves OnePlace RightPeer
