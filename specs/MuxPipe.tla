---- MODULE MuxPipe ----
(* C24: two muxer endpoints at frame granularity (mplex send + receive path; yamux has the same
   shape at this level: tagged data frames on one FIFO connection per direction, per-substream
   receive buffers, half-close).  Each substream s is opened by Owner(s); byte k written by endpoint e
   on s is the number k (1, 2, ..), so ByteStream refinement reads: rd[e][s] is a prefix of
   1..sent[1-e][s], EOF only after the writer's close and after all bytes.
   poll_write_stream splits at Split; the receiver either hands a frame straight to the reader or
   buffers it (`buf.push`) and later takes the OLDEST (`buf.remove(0)`); canaries: Fifo = FALSE takes
   the newest (`buf.pop()`), Demux = FALSE files a data frame under another substream id. *)
EXTENDS Naturals, Sequences, FiniteSets, TLC
CONSTANTS Streams, Split, MaxBytes, Fifo, Demux, OwnerWrites
E == {0, 1}
Owner(s) == IF s = 1 THEN 0 ELSE 1            \* stream 1 opened by endpoint 0, the others by endpoint 1
VARIABLES wire,      \* [E -> Seq(frame)] : wire[e] = frames sent by e, not yet read by 1-e;  frame = <<kind, s, lo, hi>>
          known,     \* [E -> SUBSET Streams] : substreams in e's table
          buf,       \* [E -> [Streams -> Seq(<<lo,hi>>)]] : buffered data frames
          cur,       \* [E -> [Streams -> <<lo,hi>>]] : Substream::current_data (lo > hi: empty)
          sent,      \* [E -> [Streams -> Nat]] : bytes written so far
          rd,        \* [E -> [Streams -> Nat]] : bytes read so far must be exactly 1..rd
          bad,       \* a read returned a byte that was not the next one of this substream/direction
          wclosed,   \* [E -> SUBSET Streams] : e half-closed s
          rclosed,   \* [E -> SUBSET Streams] : e has processed the peer's Close for s
          eof        \* [E -> SUBSET Streams]
vars == <<wire, known, buf, cur, sent, rd, bad, wclosed, rclosed, eof>>
Z == [e \in E |-> [s \in Streams |-> 0]]
Init == /\ wire = [e \in E |-> <<>>] /\ known = [e \in E |-> {}] /\ buf = [e \in E |-> [s \in Streams |-> <<>>]]
        /\ cur = [e \in E |-> [s \in Streams |-> <<1, 0>>]] /\ sent = Z /\ rd = Z /\ bad = FALSE
        /\ wclosed = [e \in E |-> {}] /\ rclosed = [e \in E |-> {}] /\ eof = [e \in E |-> {}]
Open(s) == LET e == Owner(s) IN
  /\ s \notin known[e] /\ known' = [known EXCEPT ![e] = @ \cup {s}]
  /\ wire' = [wire EXCEPT ![e] = Append(@, <<"open", s, 1, 0>>)]
  /\ UNCHANGED <<buf, cur, sent, rd, bad, wclosed, rclosed, eof>>
(* poll_write_stream: at most Split bytes become one data frame *)
Write(e, s) == \E n \in 1..Split :
  /\ s \in known[e] /\ s \notin wclosed[e] /\ sent[e][s] + n <= MaxBytes
  /\ wire' = [wire EXCEPT ![e] = Append(@, <<"data", s, sent[e][s] + 1, sent[e][s] + n>>)]
  /\ sent' = [sent EXCEPT ![e][s] = @ + n]
  /\ UNCHANGED <<known, buf, cur, rd, bad, wclosed, rclosed, eof>>
Close(e, s) ==
  /\ s \in known[e] /\ s \notin wclosed[e] /\ wclosed' = [wclosed EXCEPT ![e] = @ \cup {s}]
  /\ wire' = [wire EXCEPT ![e] = Append(@, <<"close", s, 1, 0>>)]
  /\ UNCHANGED <<known, buf, cur, sent, rd, bad, rclosed, eof>>
Other(s) == IF Demux THEN s ELSE CHOOSE t \in Streams : t # s
(* any poll of endpoint e takes the next frame off the connection and files it *)
Recv(e) ==
  /\ wire[1 - e] # <<>>
  /\ LET f == Head(wire[1 - e])  s == f[2] IN
     /\ wire' = [wire EXCEPT ![1 - e] = Tail(@)]
     /\ IF f[1] = "open" THEN known' = [known EXCEPT ![e] = @ \cup {s}] /\ UNCHANGED <<buf, rclosed>>
        ELSE IF f[1] = "data" THEN
             /\ buf' = IF Other(s) \in known[e] /\ Other(s) \notin rclosed[e] THEN [buf EXCEPT ![e][Other(s)] = Append(@, <<f[3], f[4]>>)] ELSE buf
             /\ UNCHANGED <<known, rclosed>>
        ELSE rclosed' = [rclosed EXCEPT ![e] = @ \cup {s}] /\ UNCHANGED <<known, buf>>
  /\ UNCHANGED <<cur, sent, rd, bad, wclosed, eof>>
(* Substream::poll_read: from current_data, else the next buffered frame becomes current_data *)
Read(e, s) ==
  /\ s \in known[e] /\ s \notin eof[e]
  /\ IF cur[e][s][1] <= cur[e][s][2]
     THEN \E n \in 1..(cur[e][s][2] - cur[e][s][1] + 1) :
            /\ bad' = (bad \/ cur[e][s][1] # rd[e][s] + 1)
            /\ rd' = [rd EXCEPT ![e][s] = @ + n]
            /\ cur' = [cur EXCEPT ![e][s] = <<cur[e][s][1] + n, cur[e][s][2]>>]
            /\ UNCHANGED <<buf, eof>>
     ELSE IF buf[e][s] # <<>>
     THEN /\ cur' = [cur EXCEPT ![e][s] = IF Fifo THEN Head(buf[e][s]) ELSE buf[e][s][Len(buf[e][s])]]
          /\ buf' = [buf EXCEPT ![e][s] = IF Fifo THEN Tail(@) ELSE SubSeq(@, 1, Len(@) - 1)]
          /\ UNCHANGED <<rd, bad, eof>>
     ELSE /\ s \in rclosed[e] /\ eof' = [eof EXCEPT ![e] = @ \cup {s}] /\ UNCHANGED <<buf, cur, rd, bad>>
  /\ UNCHANGED <<wire, known, sent, wclosed, rclosed>>
(* state-space control: with OwnerWrites only the opener of a substream writes on it and closes it
   (both endpoints own a substream, so both directions and both id roles are exercised) *)
MayWrite(e, s) == OwnerWrites => e = Owner(s)
Next == \/ \E s \in Streams : Open(s)
        \/ \E e \in E, s \in Streams : (MayWrite(e, s) /\ (Write(e, s) \/ Close(e, s))) \/ Read(e, s)
        \/ \E e \in E : Recv(e)
Spec == Init /\ [][Next]_vars
(* ---- ByteStream refinement per substream and direction ---- *)
InOrderOwnBytes == ~bad
Delivered == \A e \in E, s \in Streams : rd[e][s] <= sent[1 - e][s]
EofAfterCloseAndAll == \A e \in E, s \in Streams : s \in eof[e] => (s \in wclosed[1 - e] /\ rd[e][s] = sent[1 - e][s])
====
