---- MODULE TraceDcutr ----
(* X04 trace validation (property level) of libp2p-dcutr: real Behaviour + real relayed handlers, the driver
   (harness/drv-xdcutr) plays the Swarm and the remote peers.  The state is rebuilt from the recorded stimuli
   (cand, conn, close, open, rx, in_open, dialres); every record the component produces (want_open, tx, hev, dial,
   cmd_connect, event, book) must be the one the statement of Dcutr.tla demands next (variable ob = the
   obligation; a stimulus is only accepted when nothing is owed, so outputs that are missing, duplicated, out of
   order or addressed to the wrong connection leave a line unmatched).

     cands       our external address candidates, least recently reported first (keys: address number, +1000 when
                 it carries a foreign /p2p), bounded by 20
     cn[c]       connection slot c: kind (rin = relayed, we listen and therefore initiate; rout = relayed, we
                 dialed; din/dout/dial = direct), peer, up, snap (candidates handed to its handler), att (hole-punch
                 dials made for it), fin (final Event reported), wants (outbound substream requests not answered),
                 oph (outbound handshake: "wait" = CONNECT sent), act/iph/iaddrs (the inbound stream in charge)
     dl[d]       dial d requested by the behaviour: from (relayed slot), st
     direct      slots of established direct connections
   Statement (see Dcutr.tla): P1 DialOnlyAfterHandshake, P2 Roles, P3 AttemptsBounded / RetryThenGiveUp,
   P4 EventsFaithful (Ok only for an established connection the behaviour dialed, one Err per failed upgrade),
   P5 Candidates (non-relayed, end with /p2p/local, at most 20, most recently reported first),
   P6 Bookkeeping (direct_connections = established direct connections), H1-H3 handshake order and replacement of an
   unfinished inbound stream by a newer one. *)
EXTENDS TraceIO, FiniteSets, Integers
VARIABLES l, max, cands, cn, ns, dl, nd, direct, ob
vars == <<l, max, cands, cn, ns, dl, nd, direct, ob>>
Slots == 0..99
NoConn == [kind |-> "none", p |-> -1, up |-> FALSE, snap |-> <<>>, att |-> 0, fin |-> FALSE, wants |-> 0,
           oph |-> "idle", act |-> -1, iph |-> "dead", iaddrs |-> <<>>]
NoDial == [from |-> -1, st |-> "none"]
None == [k |-> "none", c |-> -1, s |-> -1, t |-> "", addrs |-> <<>>, a2 |-> <<>>, p |-> -1]
Ob(k, c, s, t, addrs, a2, p) == [k |-> k, c |-> c, s |-> s, t |-> t, addrs |-> addrs, a2 |-> a2, p |-> p]
Init == /\ l = 1 /\ max = 3 /\ cands = <<>> /\ cn = [c \in Slots |-> NoConn] /\ ns = 0
        /\ dl = [d \in Slots |-> NoDial] /\ nd = 0 /\ direct = {} /\ ob = None /\ InitReg
R == Rec[l]
Free == ob.k = "none"

RECURSIVE Rev(_)
Rev(s) == IF s = <<>> THEN <<>> ELSE Append(Rev(Tail(s)), Head(s))
Without(s, x) == SelectSeq(s, LAMBDA y : y # x)
(* addresses a remote advertises: unparseable and relayed ones are dropped, order kept *)
Usable(a) == a \notin {"relay", "bad"}
F(s) == SelectSeq(s, Usable)
Keys(as) == [i \in 1..Len(as) |-> as[i].k + 1000 * as[i].o]
Relayed(c) == cn[c].kind \in {"rin", "rout"}

Reset == /\ R.e = "reset" /\ Free /\ max' = R.max /\ cands' = <<>> /\ cn' = [c \in Slots |-> NoConn] /\ ns' = 0
         /\ dl' = [d \in Slots |-> NoDial] /\ nd' = 0 /\ direct' = {} /\ ob' = None

(* P5: relayed candidates are ignored; the others are kept in LRU order, at most 20 *)
Cand == /\ R.e = "cand" /\ Free
        /\ LET key == R.k + (IF R.f = 3 THEN 1000 ELSE 0)
               moved == Append(Without(cands, key), key) IN
           cands' = IF R.f = 2 THEN cands ELSE IF Len(moved) > 20 THEN Tail(moved) ELSE moved
        /\ UNCHANGED <<max, cn, ns, dl, nd, direct, ob>>

Conn == /\ R.e = "conn" /\ Free /\ R.c = ns /\ ns' = ns + 1
        /\ cn' = [cn EXCEPT ![R.c] = [NoConn EXCEPT !.kind = R.kind, !.p = R.p, !.up = TRUE,
                                                     !.snap = IF R.kind \in {"rin", "rout"} THEN Rev(cands) ELSE <<>>]]
        /\ direct' = IF R.kind \in {"din", "dout"} THEN direct \cup {R.c} ELSE direct
        (* the listener of a relayed connection initiates the upgrade at once (attempt 1) *)
        /\ ob' = IF R.kind = "rin" THEN Ob("want_open", R.c, -1, "", <<>>, <<>>, R.p) ELSE None
        /\ UNCHANGED <<max, cands, dl, nd>>

WantOpen == /\ R.e = "want_open" /\ ob.k = "want_open" /\ R.c = ob.c
            /\ cn' = [cn EXCEPT ![R.c].wants = @ + 1] /\ ob' = None
            /\ UNCHANGED <<max, cands, ns, dl, nd, direct>>

(* the Swarm answers an outbound substream request *)
Open == /\ R.e = "open" /\ Free /\ cn[R.c].up /\ cn[R.c].wants > 0
        /\ cn' = [cn EXCEPT ![R.c].wants = @ - 1]
        /\ ob' = IF R.r = "ok" THEN Ob("tx", R.c, -1, "connect", cn[R.c].snap, <<>>, cn[R.c].p)
                 ELSE Ob("hev", R.c, -1, "out_fail", <<>>, <<>>, cn[R.c].p)
        /\ UNCHANGED <<max, cands, ns, dl, nd, direct>>

(* everything our side writes: CONNECT carries exactly the candidates handed to the handler (P5) *)
Tx == /\ R.e = "tx" /\ ob.k = "tx" /\ R.c = ob.c /\ R.s = ob.s /\ R.t = ob.t
      /\ Len(R.addrs) = Len(ob.addrs)
      /\ (\A i \in 1..Len(R.addrs) : ~R.addrs[i].circ /\ R.addrs[i].last_local /\ R.addrs[i].nl = 1) = TRUE
      /\ Keys(R.addrs) = ob.addrs
      /\ IF R.t = "connect" /\ R.s = -1 THEN cn' = [cn EXCEPT ![R.c].oph = "wait"] /\ ob' = None
         ELSE IF R.t = "connect" THEN cn' = [cn EXCEPT ![R.c].iph = "replied"] /\ ob' = None
         ELSE cn' = cn /\ ob' = Ob("hev", R.c, -1, "out_neg", ob.a2, <<>>, ob.p)     \* SYNC sent, then negotiated
      /\ UNCHANGED <<max, cands, ns, dl, nd, direct>>

(* the remote writes on the outbound stream (H3) *)
RxOut == /\ R.e = "rx" /\ R.s = -1 /\ Free
         /\ IF cn[R.c].up /\ cn[R.c].oph = "wait"
            THEN /\ cn' = [cn EXCEPT ![R.c].oph = "idle"]
                 /\ ob' = IF R.m = "connect" /\ Len(R.addrs) > 0
                          THEN Ob("tx", R.c, -1, "sync", <<>>, F(R.addrs), cn[R.c].p)
                          ELSE Ob("hev", R.c, -1, "out_fail", <<>>, <<>>, cn[R.c].p)
            ELSE cn' = cn /\ ob' = None
         /\ UNCHANGED <<max, cands, ns, dl, nd, direct>>

(* the remote opens a DCUtR stream on a relayed connection we dialed: it takes over from an unfinished one (H2) *)
InOpen == /\ R.e = "in_open" /\ Free /\ cn[R.c].up /\ cn[R.c].kind = "rout"
          /\ cn' = [cn EXCEPT ![R.c].act = R.s, ![R.c].iph = "new", ![R.c].iaddrs = <<>>]
          /\ ob' = None /\ UNCHANGED <<max, cands, ns, dl, nd, direct>>

RxIn == /\ R.e = "rx" /\ R.s >= 0 /\ Free
        /\ LET x == cn[R.c] IN
           IF ~x.up \/ R.s # x.act \/ x.iph = "dead" THEN cn' = cn /\ ob' = None
           ELSE IF x.iph = "new" THEN
                  IF R.m = "connect" /\ Len(R.addrs) > 0
                  THEN cn' = [cn EXCEPT ![R.c].iaddrs = F(R.addrs)] /\ ob' = Ob("tx", R.c, R.s, "connect", x.snap, <<>>, x.p)
                  ELSE cn' = [cn EXCEPT ![R.c].iph = "dead"] /\ ob' = Ob("hev", R.c, -1, "in_fail", <<>>, <<>>, x.p)
           ELSE (* replied: only SYNC completes the handshake *)
                  /\ cn' = [cn EXCEPT ![R.c].iph = "dead"]
                  /\ ob' = IF R.m = "sync" THEN Ob("hev", R.c, -1, "in_neg", x.iaddrs, <<>>, x.p)
                           ELSE Ob("hev", R.c, -1, "in_fail", <<>>, <<>>, x.p)
        /\ UNCHANGED <<max, cands, ns, dl, nd, direct>>

(* what a handler reports: exactly once, then the behaviour reacts (P1, P4) *)
Hev == /\ R.e = "hev" /\ ob.k = "hev" /\ R.c = ob.c /\ R.k = ob.t
       /\ (R.k \in {"in_neg", "out_neg"} => R.addrs = ob.addrs)
       /\ ob' = CASE R.k = "out_neg" -> Ob("dial", R.c, -1, "listener", ob.addrs, <<>>, ob.p)
                  [] R.k = "in_neg" -> Ob("dial", R.c, -1, "dialer", ob.addrs, <<>>, ob.p)
                  [] R.k = "out_fail" -> Ob("event_err", R.c, -1, "outbound", <<>>, <<>>, ob.p)
                  [] OTHER -> Ob("event_err", R.c, -1, "inbound", <<>>, <<>>, ob.p)
       /\ UNCHANGED <<max, cands, cn, ns, dl, nd, direct>>

(* P1/P2/P3: a dial only after a completed handshake on a relayed connection, to that connection's peer, with the
   advertised addresses, role override iff we initiated, at most max per initiating connection *)
Dial == /\ R.e = "dial" /\ ob.k = "dial" /\ R.d = nd /\ nd' = nd + 1
        /\ R.p = ob.p /\ R.addrs = ob.addrs /\ R.role = ob.t /\ R.always
        /\ Relayed(ob.c)
        /\ (ob.t = "listener" => cn[ob.c].att < max /\ ~cn[ob.c].fin)
        /\ cn' = IF ob.t = "listener" THEN [cn EXCEPT ![ob.c].att = @ + 1] ELSE cn
        /\ dl' = [dl EXCEPT ![R.d] = [from |-> ob.c, st |-> "pending"]]
        /\ ob' = None /\ UNCHANGED <<max, cands, ns, direct>>

(* the Swarm resolves a dial.  "deny" = a behaviour composed after this one refused the established connection:
   it never counts as established *)
DialRes == /\ R.e = "dialres" /\ Free /\ dl[R.d].st = "pending"
           /\ LET from == dl[R.d].from   x == cn[dl[R.d].from] IN
              IF R.r = "ok"
              THEN /\ R.c = ns /\ ns' = ns + 1 /\ direct' = direct \cup {R.c}
                   /\ cn' = [cn EXCEPT ![R.c] = [NoConn EXCEPT !.kind = "dial", !.p = x.p, !.up = TRUE],
                                       ![from].fin = (x.kind = "rin") \/ @]
                   /\ dl' = [dl EXCEPT ![R.d].st = "ok"]
                   /\ ob' = Ob("event_ok", R.c, -1, "", <<>>, <<>>, x.p)
              ELSE /\ ns' = IF R.r = "deny" THEN ns + 1 ELSE ns
                   /\ (R.r = "deny" => R.c = ns)
                   /\ direct' = direct
                   /\ dl' = [dl EXCEPT ![R.d].st = "fail"]
                   /\ IF x.kind = "rin" /\ ~x.fin
                      THEN IF x.att < max THEN cn' = cn /\ ob' = Ob("cmd", from, -1, "", <<>>, <<>>, x.p)
                           ELSE cn' = [cn EXCEPT ![from].fin = TRUE] /\ ob' = Ob("event_err", from, -1, "attempts", <<>>, <<>>, x.p)
                      ELSE cn' = cn /\ ob' = None
           /\ nd' = nd /\ UNCHANGED <<max, cands>>

(* P3: the retry is a new Connect command to the same relayed connection *)
Cmd == /\ R.e = "cmd_connect" /\ ob.k = "cmd" /\ R.c = ob.c /\ R.p = ob.p /\ R.open = cn[R.c].up
       /\ ob' = IF cn[R.c].up THEN Ob("want_open", R.c, -1, "", <<>>, <<>>, ob.p) ELSE None
       /\ UNCHANGED <<max, cands, cn, ns, dl, nd, direct>>

EventOk == /\ R.e = "event" /\ R.ok /\ ob.k = "event_ok" /\ R.c = ob.c /\ R.p = ob.p
           /\ ob' = None /\ UNCHANGED <<max, cands, cn, ns, dl, nd, direct>>
EventErr == /\ R.e = "event" /\ ~R.ok /\ ob.k = "event_err" /\ R.err = ob.t /\ R.p = ob.p
            /\ cn' = IF ob.t = "outbound" THEN [cn EXCEPT ![ob.c].fin = TRUE] ELSE cn
            /\ ob' = None /\ UNCHANGED <<max, cands, ns, dl, nd, direct>>

Close == /\ R.e = "close" /\ Free /\ cn[R.c].up
         /\ cn' = [cn EXCEPT ![R.c].up = FALSE, ![R.c].wants = 0, ![R.c].oph = "idle", ![R.c].iph = "dead"]
         /\ direct' = direct \ {R.c} /\ ob' = None
         /\ UNCHANGED <<max, cands, ns, dl, nd>>

(* P6: the behaviour's direct_connections table *)
Book == /\ R.e = "book" /\ Free /\ R.unknown = 0
        /\ {R.direct[i] : i \in 1..Len(R.direct)} = direct /\ Len(R.direct) = Cardinality(direct)
        /\ UNCHANGED <<max, cands, cn, ns, dl, nd, direct, ob>>

(* end of a run: nothing may be owed *)
End == R.e = "end" /\ Free /\ UNCHANGED <<max, cands, cn, ns, dl, nd, direct, ob>>

Next == l <= NRec /\ l' = l + 1 /\
        (Reset \/ Cand \/ Conn \/ WantOpen \/ Open \/ Tx \/ RxOut \/ InOpen \/ RxIn \/ Hev \/ Dial \/ DialRes \/ Cmd
         \/ EventOk \/ EventErr \/ Close \/ Book \/ End)
Spec == Init /\ [][Next]_vars
(* P3 as a state invariant: never more than max hole-punch dials for one initiating relayed connection *)
AttemptsBounded == \A c \in Slots : cn[c].att <= max
Progress == Mark(l)
====
