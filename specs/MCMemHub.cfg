CONSTANTS NP = 2 NT = 2 MaxL = 2 MaxD = 2 GuardRemove = TRUE DropFrees = TRUE
INIT Init
NEXT Next
INVARIANTS Reachable NoLeak DialPortsFreed PortExclusive IncomingAtDialed QueuedOnce NotRedelivered ClosedOnce
