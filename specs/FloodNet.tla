---- MODULE FloodNet ----
(* X07: a network of floodsub routers (protocols/floodsub/src/layer.rs), implementation-shaped.

   What a user of floodsub relies on (crate docs, Config::subscribe_local_messages, the comments on `received`,
   subscribe / unsubscribe / publish*, and the floodsub part of the libp2p pubsub specification):
     DeliverOnce      a node's application gets Event::Message for a message at most once
     OnlySubscribed   ... and only while the node is subscribed to one of the message's topics
     NoEcho           a message is never sent back to the peer it was received from
     ForwardOnce      a node sends a given message to a given peer at most once
     NoSelfDelivery   the publisher's application sees its own message exactly once at publish time with
                      subscribe_local_messages (if it is subscribed) and never otherwise
     Announced        (action property) subscribe / unsubscribe change the subscription set iff they return TRUE and
                      then queue exactly one announcement per connected peer; this is structural in Subscribe/Unsubscribe
                      below and is checked on the real code by the trace specification (TraceFloodNet).

   The model: every pair of Nodes is connected; partial views (tgt) are complete except for the pairs NoView, and
   the pairs LateView are added later by AddView (add_node_to_partial_view, which announces all current topics); `view[a][b]` is what a was told about b; links carry announcements and message
   copies, in order or (Reorder: every floodsub RPC is its own substream) in any order; `recv` is the received-cache.

   Named deviations of the code from the candidate statements:
     - the message's SOURCE is not excluded when forwarding (go-libp2p excludes it); harmless because of recv;
     - dedup is on the whole message, not on (source, seqno): a look-alike with the same source and sequence number
       but other data is delivered as a second message (the pubsub specification identifies messages by from + seqno);
     - ReannounceOnAddNode: add_node_to_partial_view for a connected peer re-sends ALL current topics, also those the
       peer already got through subscribe(); the receiver's view is idempotent but its application sees
       Event::Subscribed again (so Subscribed is "at least once", not "exactly once", per peer and topic);
     - announcements (subscribe / unsubscribe) go to every CONNECTED peer, messages only to connected peers of the
       partial view;
     - RememberOwn = FALSE is the code before the fix in /repo: publish_many_inner remembered the published message
       only if the publisher was subscribed to one of its topics, so after publish_any + a later subscribe the message
       came back, was delivered to the publisher's own application and was flooded a second time
       (NoSelfDelivery and ForwardOnce violated: canary config MCFloodNet_canary_own.cfg). *)
EXTENDS Naturals, Sequences, FiniteSets, TLC
CONSTANTS Nodes, Topics, Msgs, Slm,     \* Slm: nodes with subscribe_local_messages
          NoView,                       \* ordered pairs <<a, b>>: b is NOT in a's partial view (all others are, from the start)
          LateView,                     \* ordered pairs added later by add_node_to_partial_view (AddView)
          SubBudget,                    \* bound on the number of subscribe / unsubscribe calls
          MaxLink,                      \* bound on the queue of one link (CONSTRAINT)
          Reorder,                      \* TRUE: any RPC of a link may be delivered next
          RememberOwn,                  \* TRUE: the publisher always records its message in recv (fixed code)
          NoDedup,                      \* canary: the received-cache is not consulted
          EchoBack                      \* canary: forwarding does not skip the propagation source
VARIABLES subs, tgt, view, link, recv, dl, sent, pubd, src, mtop, bad, nsub
vars == <<subs, tgt, view, link, recv, dl, sent, pubd, src, mtop, bad, nsub>>
Others(n) == Nodes \ {n}
Init == /\ subs = [n \in Nodes |-> {}] /\ nsub = 0
        /\ tgt = [n \in Nodes |-> {q \in Others(n) : <<n, q>> \notin (NoView \cup LateView)}]
        /\ view = [a \in Nodes |-> [b \in Nodes |-> {}]]
        /\ link = [a \in Nodes |-> [b \in Nodes |-> <<>>]]
        /\ recv = [n \in Nodes |-> {}]
        /\ dl = [n \in Nodes |-> [k \in Msgs |-> 0]]
        /\ sent = [a \in Nodes |-> [b \in Nodes |-> [k \in Msgs |-> 0]]]
        /\ pubd = {} /\ src = [k \in Msgs |-> CHOOSE n \in Nodes : TRUE] /\ mtop = [k \in Msgs |-> {}]
        /\ bad = {}
(* append item x to the links n -> q for q in Q *)
Push(L, n, Q, x) == [a \in Nodes |-> [b \in Nodes |-> IF a = n /\ b \in Q THEN Append(L[a][b], x) ELSE L[a][b]]]
RECURSIVE PushAll(_, _, _, _)
PushAll(L, n, q, ts) == IF ts = {} THEN L ELSE LET t == CHOOSE t \in ts : TRUE IN PushAll(Push(L, n, {q}, <<"s", t, 1>>), n, q, ts \ {t})

AddView(a, b) == /\ <<a, b>> \in LateView /\ b \notin tgt[a] /\ tgt' = [tgt EXCEPT ![a] = @ \cup {b}]
                 /\ link' = PushAll(link, a, b, subs[a])
                 /\ UNCHANGED <<subs, view, recv, dl, sent, pubd, src, mtop, bad, nsub>>
Subscribe(n, t) == /\ nsub < SubBudget /\ nsub' = nsub + 1
                   /\ t \notin subs[n] /\ subs' = [subs EXCEPT ![n] = @ \cup {t}]
                   /\ link' = Push(link, n, Others(n), <<"s", t, 1>>)
                   /\ UNCHANGED <<tgt, view, recv, dl, sent, pubd, src, mtop, bad>>
Unsubscribe(n, t) == /\ nsub < SubBudget /\ nsub' = nsub + 1
                     /\ t \in subs[n] /\ subs' = [subs EXCEPT ![n] = @ \ {t}]
                     /\ link' = Push(link, n, Others(n), <<"s", t, 0>>)
                     /\ UNCHANGED <<tgt, view, recv, dl, sent, pubd, src, mtop, bad>>
Interested(n, ts) == {q \in Others(n) \cap tgt[n] : (view[n][q] \cap ts) # {}}
Bump(S, n, Q, k) == [a \in Nodes |-> [b \in Nodes |-> [m \in Msgs |-> IF a = n /\ b \in Q /\ m = k /\ S[a][b][m] < 2 THEN S[a][b][m] + 1 ELSE S[a][b][m]]]]
Publish(n, k, ts, any) ==
  /\ k \notin pubd /\ ts # {} /\ pubd' = pubd \cup {k} /\ src' = [src EXCEPT ![k] = n] /\ mtop' = [mtop EXCEPT ![k] = ts]
  /\ LET selfsub == (subs[n] \cap ts) # {}
         go == any \/ selfsub
         Q == IF go THEN Interested(n, ts) ELSE {} IN
     /\ recv' = IF selfsub \/ RememberOwn THEN [recv EXCEPT ![n] = @ \cup {k}] ELSE recv
     /\ dl' = IF selfsub /\ n \in Slm THEN [dl EXCEPT ![n][k] = @ + 1] ELSE dl
     /\ link' = Push(link, n, Q, <<"m", k>>)
     /\ sent' = Bump(sent, n, Q, k)
  /\ UNCHANGED <<subs, tgt, view, bad, nsub>>
Without(s, i) == SubSeq(s, 1, i - 1) \o SubSeq(s, i + 1, Len(s))
Deliver(a, b, i) ==
  /\ i \in 1..Len(link[a][b]) /\ (Reorder \/ i = 1)
  /\ LET x == link[a][b][i]  L == [link EXCEPT ![a][b] = Without(@, i)] IN
     IF x[1] = "s" THEN
       /\ view' = [view EXCEPT ![b][a] = IF x[3] = 1 THEN @ \cup {x[2]} ELSE @ \ {x[2]}]
       /\ link' = L /\ UNCHANGED <<subs, tgt, recv, dl, sent, pubd, src, mtop, bad, nsub>>
     ELSE LET k == x[2]  dup == k \in recv[b] /\ ~NoDedup
              subd == (subs[b] \cap mtop[k]) # {}
              Q == IF dup THEN {} ELSE {q \in Interested(b, mtop[k]) : EchoBack \/ q # a} IN
       /\ recv' = [recv EXCEPT ![b] = @ \cup {k}]
       /\ dl' = IF ~dup /\ subd /\ dl[b][k] < 2 THEN [dl EXCEPT ![b][k] = @ + 1] ELSE dl
       /\ link' = Push(L, b, Q, <<"m", k>>)
       /\ sent' = Bump(sent, b, Q, k)
       /\ bad' = bad \cup (IF a \in Q THEN {"echo"} ELSE {})
       /\ UNCHANGED <<subs, tgt, view, pubd, src, mtop, nsub>>
Next == \/ \E a \in Nodes, b \in Nodes : a # b /\ AddView(a, b)
        \/ \E n \in Nodes, t \in Topics : Subscribe(n, t) \/ Unsubscribe(n, t)
        \/ \E n \in Nodes, k \in Msgs, ts \in SUBSET Topics, any \in BOOLEAN : Publish(n, k, ts, any)
        \/ \E a \in Nodes, b \in Nodes, i \in 1..MaxLink : a # b /\ Deliver(a, b, i)
Spec == Init /\ [][Next]_vars
Bounded == \A a \in Nodes, b \in Nodes : Len(link[a][b]) <= MaxLink
(* ---- X07 ---- *)
DeliverOnce == \A n \in Nodes, k \in Msgs : dl[n][k] <= 1
NoEcho == "echo" \notin bad
ForwardOnce == \A a \in Nodes, b \in Nodes, k \in Msgs : sent[a][b][k] <= 1
NoSelfDelivery == \A k \in pubd : dl[src[k]][k] <= (IF src[k] \in Slm THEN 1 ELSE 0)
(* OnlySubscribed as an action property: a delivery happens only in a step in whose pre-state the node is subscribed *)
OnlySubscribed == [][\A n \in Nodes, k \in Msgs : dl'[n][k] > dl[n][k] => (subs[n] \cap mtop'[k]) # {}]_vars
====
