CONSTANTS
  Streams = {1, 2}
  MaxSub = 2
  MaxBuf = 1
  Block = TRUE
  DataPer = 3
  GeLimit = TRUE
  DropClears = TRUE
  ResetKeeps = TRUE
INIT Init
NEXT Next
INVARIANT SubstreamLimit HandedInTable AppLimit BufferLimit RefusedNeverHanded RefusedGetsReset NoDeadBlock InOrder NoLossWhenBlocking EofOnlyAfterDrain
