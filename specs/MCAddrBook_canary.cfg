CONSTANTS
  Ls = {1}
  As = {a, b}
  NoContains = TRUE
INIT Init
NEXT Next
INVARIANT ListenersView ClosedCarriesRemaining ExternalView
CONSTRAINT Small
