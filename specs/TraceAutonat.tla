---- MODULE TraceAutonat ----
(* C50 (server clause) trace validation, property level.  dial = a ToSwarm::Dial emitted by the server for
   requester p with the listed addresses; dialres = the Swarm reports the result of the oldest dial-back to p.
     running[p] = dial-backs to p started and not yet resolved      started[p] = dial-backs started in the run
   Statement: every dialed address is DialOK (relative to the IPs of p's open connections at that moment), the dial
   carries at least one address, no dial-back to p starts while another one to p is running, and within the
   throttle period (= the whole run) at most tp dial-backs per peer and tg in total are started.
   Which requests are refused is not constrained. *)
EXTENDS TraceIO, AutonatAddr, FiniteSets
VARIABLES l, lim, running, started
vars == <<l, lim, running, started>>
Peers == 0..7
Zero == [p \in Peers |-> 0]
Init == l = 1 /\ lim = [tp |-> 0, tg |-> 0] /\ running = Zero /\ started = Zero /\ InitReg
R == Rec[l]
Sum(f) == f[0] + f[1] + f[2] + f[3] + f[4] + f[5] + f[6] + f[7]
Reset == R.e = "reset" /\ lim' = [tp |-> R.tp, tg |-> R.tg] /\ running' = Zero /\ started' = Zero
Dial == /\ R.e = "dial"
        /\ Len(R.addrs) >= 1
        /\ (\A i \in 1..Len(R.addrs) : DialOK(R.addrs[i])) = TRUE
        /\ running[R.p] = 0                                  \* at most one dial-back per peer
        /\ started[R.p] + 1 <= lim.tp                        \* per-peer throttle
        /\ Sum(started) + 1 <= lim.tg                        \* global throttle
        /\ running' = [running EXCEPT ![R.p] = 1] /\ started' = [started EXCEPT ![R.p] = @ + 1]
        /\ UNCHANGED lim
DialRes == /\ R.e = "dialres" /\ running' = [running EXCEPT ![R.p] = 0] /\ UNCHANGED <<lim, started>>
Other == /\ R.e \in {"conn", "close", "outconn", "req", "probe_req", "probe_ok", "probe_err"}
         /\ UNCHANGED <<lim, running, started>>
Next == l <= NRec /\ l' = l + 1 /\ (Reset \/ Dial \/ DialRes \/ Other)
Spec == Init /\ [][Next]_vars
Progress == Mark(l)
====
