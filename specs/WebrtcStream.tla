---- MODULE WebrtcStream ----
(* C56.  misc/webrtc-utils/src/stream.rs + stream/state.rs + stream/drop_listener.rs transcribed:
   `State`, the four barriers, `handle_inbound_flag`, the poll_* loops (one action per poll call, each
   action runs the loop to its return), the `Framed` sink's write buffer (high-water mark, flush),
   the `DropListener` (RESET on non-graceful drop).  One or two streams; in the paired configuration
   everything a stream flushes arrives on the peer's inbound wire, and the environment may inject
   arbitrary frames, close the inbound direction (EOF) and block / unblock the outbound direction.

   Property monitors are PROTOCOL-level (what was received / completed), not the State value:
     mon[s].fin   a FIN, RESET frame or EOF was consumed by s (remote closed s's read half)
     mon[s].stop  a STOP_SENDING or RESET frame was consumed by s (remote closed s's write half)
     mon[s].rst   a RESET frame was consumed by s
     mon[s].rd / mon[s].wr   poll_close_read / poll_close returned Ok (local close completed)
   Canary constants (each breaks one guard):
     BarrierBug   read_barrier lets ReadClosed through
     ResetLoose   the close barriers answer BrokenPipe instead of ConnectionReset after a reset
     LoseFlagInClosing   handle_inbound_flag ignores FIN while ClosingWrite{read_closed: false} (the code
                  before the C56 repair): the read half stays "open" forever                          *)
EXTENDS Naturals, Sequences, FiniteSets, TLC
CONSTANTS Streams, Paired, MaxOps, MaxWire, BarrierBug, ResetLoose, LoseFlagInClosing,
          LocalOps, EnvOps, Frames     \* the alphabet (subsets of the letters below) explored by this configuration
VARIABLES st,        \* s -> [k, a, b]   k: Open|ReadClosed|WriteClosed|ClosingRead|ClosingWrite|BothClosed
                     \*                  a: other-half-closed flag (Closing*) / reset flag (BothClosed); b: Requested|MessageSent|-
          rbuf,      \* s -> 0 | 1 (one byte left of a small frame) | 2 (rest of a big frame)   (Stream::read_buffer)
          wire,      \* s -> inbound frames not yet consumed: "data" | "big" | "fin" | "stop" | "reset"
          eof,       \* s -> inbound direction closed by the environment
          obuf,      \* s -> frames encoded into the Framed write buffer, not yet written to the channel
          blocked,   \* s -> the channel accepts no bytes from s (poll_write Pending)
          live,      \* s -> Stream not dropped
          notif,     \* s -> drop_notifier still present (no graceful close yet)
          dl,        \* s -> DropListener: "idle" | "flushing" (RESET encoded, channel blocked) | "done"
          wrote,     \* s -> what s put on the channel: [fin, stop, rst : 0..2, daf : BOOLEAN (data after FIN)]
          mon,       \* s -> protocol-level monitors (see above)
          last,      \* [s, op, res, rst] of the latest local operation
          ops, bad
vars == <<st, rbuf, wire, eof, obuf, blocked, live, notif, dl, wrote, mon, last, ops, bad>>

S(k, a, b) == [k |-> k, a |-> a, b |-> b]
IsFlag(f) == f \in {"fin", "stop", "reset"}
IsData(f) == f \in {"data", "big"}
Peer(s) == 1 - s

Init ==
  /\ st = [s \in Streams |-> S("Open", FALSE, "-")]
  /\ rbuf = [s \in Streams |-> 0]
  /\ wire = [s \in Streams |-> <<>>]
  /\ eof = [s \in Streams |-> FALSE]
  /\ obuf = [s \in Streams |-> <<>>]
  /\ blocked = [s \in Streams |-> FALSE]
  /\ live = [s \in Streams |-> TRUE]
  /\ notif = [s \in Streams |-> TRUE]
  /\ dl = [s \in Streams |-> "idle"]
  /\ wrote = [s \in Streams |-> [fin |-> 0, stop |-> 0, rst |-> 0, daf |-> FALSE]]
  /\ mon = [s \in Streams |-> [fin |-> FALSE, stop |-> FALSE, rst |-> FALSE, rd |-> FALSE, wr |-> FALSE]]
  /\ last = [s |-> 0, op |-> "none", res |-> "ok", rst |-> FALSE]
  /\ ops = 0 /\ bad = FALSE

(* ---- State::handle_inbound_flag ------------------------------------------------------------------ *)
OnFlag(x, f) ==
  IF f = "reset" THEN S("BothClosed", TRUE, "-")
  ELSE IF f = "fin" /\ x.k = "Open" THEN S("ReadClosed", FALSE, "-")
  ELSE IF f = "fin" /\ x.k = "WriteClosed" THEN S("BothClosed", FALSE, "-")
  ELSE IF ~LoseFlagInClosing /\ f = "fin" /\ x.k = "ClosingWrite" /\ ~x.a THEN S("ClosingWrite", TRUE, x.b)
  ELSE IF f = "stop" /\ x.k = "Open" THEN S("WriteClosed", FALSE, "-")
  ELSE IF f = "stop" /\ x.k = "ReadClosed" THEN S("BothClosed", FALSE, "-")
  ELSE x
ReadBarrier(x) == IF x.k \in {"Open", "WriteClosed"} \/ (x.k = "ClosingWrite" /\ ~x.a) \/ (BarrierBug /\ x.k = "ReadClosed") THEN "ok"
                  ELSE IF x.k = "BothClosed" /\ x.a THEN "ConnectionReset" ELSE "BrokenPipe"
WriteBarrier(x) == IF x.k \in {"Open", "ReadClosed"} \/ (x.k = "ClosingRead" /\ ~x.a) THEN "ok"
                   ELSE IF x.k = "BothClosed" /\ x.a THEN "ConnectionReset" ELSE "BrokenPipe"

(* consuming one inbound frame: state + monitors *)
MonOn(m, f) == [m EXCEPT !.fin = @ \/ f \in {"fin", "reset", "eof"}, !.stop = @ \/ f \in {"stop", "reset"}, !.rst = @ \/ f = "reset"]

(* ---- Framed sink ------------------------------------------------------------------------------- *)
Big(b) == \E i \in 1..Len(b) : b[i] = "big"            \* buffer length >= high-water mark (MAX_DATA_LEN)
(* poll_ready: [ok, ob, sent] *)
SinkReady(b, blk) == IF ~Big(b) THEN [ok |-> TRUE, ob |-> b, sent |-> <<>>]
                     ELSE IF blk THEN [ok |-> FALSE, ob |-> b, sent |-> <<>>]
                     ELSE [ok |-> TRUE, ob |-> <<>>, sent |-> b]
SinkFlush(b, blk) == IF b = <<>> THEN [ok |-> TRUE, ob |-> b, sent |-> <<>>]
                     ELSE IF blk THEN [ok |-> FALSE, ob |-> b, sent |-> <<>>]
                     ELSE [ok |-> TRUE, ob |-> <<>>, sent |-> b]
RECURSIVE FoldOut(_, _)
FoldOut(w, fs) == IF fs = <<>> THEN w ELSE
  LET f == Head(fs) Cap(n) == IF n >= 2 THEN 2 ELSE n + 1 IN
  FoldOut([fin |-> IF f = "fin" THEN Cap(w.fin) ELSE w.fin, stop |-> IF f = "stop" THEN Cap(w.stop) ELSE w.stop,
           rst |-> IF f = "reset" THEN Cap(w.rst) ELSE w.rst, daf |-> w.daf \/ (IsData(f) /\ w.fin > 0)], Tail(fs))
(* frames `fs` leave stream s for the channel *)
Emit(s, fs) == /\ wrote' = [wrote EXCEPT ![s] = FoldOut(@, fs)]
               /\ IF Paired /\ fs # <<>> THEN wire' = [wire EXCEPT ![Peer(s)] = @ \o fs] ELSE wire' = wire
(* same, but s also consumed its own inbound wire down to w *)
EmitAnd(s, fs, w) == /\ wrote' = [wrote EXCEPT ![s] = FoldOut(@, fs)]
                     /\ IF Paired /\ fs # <<>> THEN wire' = [wire EXCEPT ![Peer(s)] = @ \o fs, ![s] = w]
                        ELSE wire' = [wire EXCEPT ![s] = w]

Count == ops < MaxOps /\ ops' = ops + 1
Local(s) == s \in Streams /\ live[s] /\ Count
Done(s, op, res) == last' = [s |-> s, op |-> op, res |-> res, rst |-> mon[s].rst]   \* rst: a RESET had been consumed BEFORE this operation

(* ---- AsyncRead::poll_read (small = 1-byte destination buffer) ------------------------------------ *)
PollRead(s, small) ==
  LET op == IF small THEN "read1" ELSE "read"
      left(avail) == IF ~small THEN 0 ELSE IF avail = "one" THEN 0 ELSE IF avail = "two" THEN 1 ELSE 2   \* read_buffer after copying
  IN
  /\ Local(s)
  /\ UNCHANGED <<eof, obuf, blocked, live, notif, dl, wrote, bad>>
  /\ IF ReadBarrier(st[s]) # "ok" THEN Done(s, op, ReadBarrier(st[s])) /\ UNCHANGED <<st, rbuf, wire, mon>>
     ELSE IF rbuf[s] > 0 THEN Done(s, op, "ok") /\ rbuf' = [rbuf EXCEPT ![s] = left(IF @ = 2 THEN "many" ELSE "one")] /\ UNCHANGED <<st, wire, mon>>
     ELSE IF wire[s] = <<>> THEN
            IF eof[s] THEN /\ st' = [st EXCEPT ![s] = OnFlag(@, "fin")] /\ mon' = [mon EXCEPT ![s] = MonOn(@, "eof")]
                           /\ Done(s, op, "eof") /\ UNCHANGED <<rbuf, wire>>
            ELSE Done(s, op, "pending") /\ UNCHANGED <<st, rbuf, wire, mon>>
     ELSE LET f == Head(wire[s]) IN
          /\ wire' = [wire EXCEPT ![s] = Tail(@)]
          /\ IF IsData(f) THEN /\ rbuf' = [rbuf EXCEPT ![s] = left(IF f = "big" THEN "many" ELSE "two")]   \* small frame = 2 bytes
                               /\ Done(s, op, "ok") /\ UNCHANGED <<st, mon>>
             ELSE /\ st' = [st EXCEPT ![s] = OnFlag(@, f)] /\ mon' = [mon EXCEPT ![s] = MonOn(@, f)]
                  /\ Done(s, op, "eof") /\ UNCHANGED rbuf

(* ---- AsyncWrite::poll_write ---------------------------------------------------------------------- *)
RECURSIVE Drain(_, _, _)
(* while state = ReadClosed: consume inbound frames (flags handled, data dropped); [st, w, m] *)
Drain(x, w, m) == IF x.k = "ReadClosed" /\ w # <<>>
                  THEN Drain(IF IsFlag(Head(w)) THEN OnFlag(x, Head(w)) ELSE x, Tail(w), IF IsFlag(Head(w)) THEN MonOn(m, Head(w)) ELSE m)
                  ELSE [st |-> x, w |-> w, m |-> m]
PollWrite(s, big) ==
  LET op == IF big THEN "bigwrite" ELSE "write"
      d == Drain(st[s], wire[s], mon[s])
      wb == WriteBarrier(d.st)
      pr == SinkReady(obuf[s], blocked[s])
  IN
  /\ Local(s)
  /\ UNCHANGED <<rbuf, eof, blocked, live, notif, dl, bad>>
  /\ st' = [st EXCEPT ![s] = d.st] /\ mon' = [mon EXCEPT ![s] = d.m]
  /\ IF wb # "ok" THEN Done(s, op, wb) /\ EmitAnd(s, <<>>, d.w) /\ UNCHANGED obuf
     ELSE IF ~pr.ok THEN Done(s, op, "pending") /\ EmitAnd(s, <<>>, d.w) /\ UNCHANGED obuf
     ELSE /\ Done(s, op, "ok") /\ EmitAnd(s, pr.sent, d.w)
          /\ obuf' = [obuf EXCEPT ![s] = Append(pr.ob, IF big THEN "big" ELSE "data")]

PollFlush(s) ==
  LET fl == SinkFlush(obuf[s], blocked[s]) IN
  /\ Local(s)
  /\ UNCHANGED <<st, rbuf, eof, blocked, live, notif, dl, mon, bad>>
  /\ obuf' = [obuf EXCEPT ![s] = fl.ob] /\ Emit(s, fl.sent)
  /\ Done(s, "flush", IF fl.ok THEN "ok" ELSE "pending")

(* ---- poll_close / poll_close_read: barrier, send flag, flush, finish ------------------------------ *)
CloseHalf(s, wr) ==
  LET op == IF wr THEN "close" ELSE "close_read"
      mine == IF wr THEN "ClosingWrite" ELSE "ClosingRead"
      other == IF wr THEN "ClosingRead" ELSE "ClosingWrite"
      doneK == IF wr THEN "WriteClosed" ELSE "ReadClosed"
      otherDone == IF wr THEN "ReadClosed" ELSE "WriteClosed"
      x0 == st[s]
      x1 == IF x0.k = "Open" THEN S(mine, FALSE, "Requested")
            ELSE IF x0.k = otherDone THEN S(mine, TRUE, "Requested") ELSE x0
  IN
  /\ Local(s)
  /\ UNCHANGED <<rbuf, eof, blocked, live, dl>>
  /\ IF x1.k = doneK THEN Done(s, op, "ok") /\ UNCHANGED <<st, obuf, wire, wrote, notif, mon, bad>>
     ELSE IF x1.k = mine THEN
       LET pr == SinkReady(obuf[s], blocked[s])
           sendNow == x1.b = "Requested" /\ pr.ok
           stuck == x1.b = "Requested" /\ ~pr.ok
           ob1 == IF sendNow THEN Append(pr.ob, IF wr THEN "fin" ELSE "stop") ELSE obuf[s]
           sent1 == IF sendNow THEN pr.sent ELSE <<>>
           x2 == IF sendNow THEN S(mine, x1.a, "MessageSent") ELSE x1
           fl == SinkFlush(ob1, blocked[s])
       IN
       IF stuck THEN Done(s, op, "pending") /\ st' = [st EXCEPT ![s] = x1] /\ UNCHANGED <<obuf, wire, wrote, notif, mon, bad>>
       ELSE IF ~fl.ok THEN /\ Done(s, op, "pending") /\ st' = [st EXCEPT ![s] = x2] /\ obuf' = [obuf EXCEPT ![s] = ob1]
                           /\ Emit(s, sent1) /\ UNCHANGED <<notif, mon, bad>>
       ELSE /\ Done(s, op, "ok")
            /\ st' = [st EXCEPT ![s] = IF x2.a THEN S("BothClosed", FALSE, "-") ELSE S(doneK, FALSE, "-")]
            /\ obuf' = [obuf EXCEPT ![s] = <<>>] /\ Emit(s, sent1 \o fl.sent)
            /\ mon' = [mon EXCEPT ![s] = IF wr THEN [@ EXCEPT !.wr = TRUE] ELSE [@ EXCEPT !.rd = TRUE]]
            /\ IF wr THEN notif' = [notif EXCEPT ![s] = FALSE] /\ bad' = (bad \/ ~notif[s])    \* .expect("to not close twice")
               ELSE UNCHANGED <<notif, bad>>
     ELSE /\ UNCHANGED <<st, obuf, wire, wrote, notif, mon, bad>>
          /\ Done(s, op, IF x1.k = "BothClosed" /\ x1.a /\ ~ResetLoose THEN "ConnectionReset"
                         ELSE IF x1.k = other /\ ~x1.a THEN "Other" ELSE "BrokenPipe")

(* ---- drop + DropListener ------------------------------------------------------------------------- *)
Drop(s) ==
  /\ Local(s) /\ live' = [live EXCEPT ![s] = FALSE]
  /\ obuf' = [obuf EXCEPT ![s] = <<>>]                       \* unflushed frames die with the Stream's Framed
  /\ UNCHANGED <<st, rbuf, eof, blocked, notif, mon, bad, last>>
  /\ IF ~notif[s] THEN dl' = [dl EXCEPT ![s] = "done"] /\ UNCHANGED <<wire, wrote>>
     ELSE IF blocked[s] THEN dl' = [dl EXCEPT ![s] = "flushing"] /\ UNCHANGED <<wire, wrote>>
     ELSE dl' = [dl EXCEPT ![s] = "done"] /\ Emit(s, <<"reset">>)

(* ---- environment --------------------------------------------------------------------------------- *)
Inject(s, f) == /\ s \in Streams /\ Count /\ ~eof[s] /\ wire' = [wire EXCEPT ![s] = Append(@, f)]
                /\ UNCHANGED <<st, rbuf, eof, obuf, blocked, live, notif, dl, wrote, mon, last, bad>>
Eof(s) == /\ s \in Streams /\ Count /\ ~eof[s] /\ eof' = [eof EXCEPT ![s] = TRUE]
          /\ UNCHANGED <<st, rbuf, wire, obuf, blocked, live, notif, dl, wrote, mon, last, bad>>
Block(s) == /\ s \in Streams /\ Count /\ ~blocked[s] /\ blocked' = [blocked EXCEPT ![s] = TRUE]
            /\ UNCHANGED <<st, rbuf, wire, eof, obuf, live, notif, dl, wrote, mon, last, bad>>
Unblock(s) == /\ s \in Streams /\ Count /\ blocked[s] /\ blocked' = [blocked EXCEPT ![s] = FALSE]
              /\ UNCHANGED <<st, rbuf, eof, obuf, live, notif, mon, last, bad>>
              /\ IF dl[s] = "flushing" THEN dl' = [dl EXCEPT ![s] = "done"] /\ Emit(s, <<"reset">>)
                 ELSE UNCHANGED <<dl, wire, wrote>>

(* one schedule letter = [a, s, f] *)
AllLocal == {"read", "read1", "write", "bigwrite", "flush", "close", "close_read", "drop"}
AllEnv == {"eof", "block", "unblock"}
AllFrames == {"data", "big", "fin", "stop", "reset"}
ASSUME LocalOps \subseteq AllLocal /\ EnvOps \subseteq AllEnv /\ Frames \subseteq AllFrames
Letters == [a : LocalOps \cup EnvOps, s : Streams, f : {"-"}] \cup [a : {"inject"}, s : Streams, f : Frames]
Do(x) == CASE x.a = "read" -> PollRead(x.s, FALSE)
           [] x.a = "read1" -> PollRead(x.s, TRUE)
           [] x.a = "write" -> PollWrite(x.s, FALSE)
           [] x.a = "bigwrite" -> PollWrite(x.s, TRUE)
           [] x.a = "flush" -> PollFlush(x.s)
           [] x.a = "close" -> CloseHalf(x.s, TRUE)
           [] x.a = "close_read" -> CloseHalf(x.s, FALSE)
           [] x.a = "drop" -> Drop(x.s)
           [] x.a = "eof" -> Eof(x.s)
           [] x.a = "block" -> Block(x.s)
           [] x.a = "unblock" -> Unblock(x.s)
           [] x.a = "inject" -> Inject(x.s, x.f)
Next == \E x \in Letters : Do(x)
Spec == Init /\ [][Next]_vars
WireBound == \A s \in Streams : Len(wire[s]) <= MaxWire /\ Len(obuf[s]) <= MaxWire

(* ---- properties ---------------------------------------------------------------------------------- *)
Guarded == {"read", "read1", "write", "bigwrite", "close", "close_read"}
NoBadTransition == ~bad
(* a read delivers data only while the read half is open (no FIN/RESET/EOF consumed, no completed close_read) *)
ReadOnlyWhileOpen == (last.op \in {"read", "read1"} /\ last.res = "ok") => (~mon[last.s].fin /\ ~mon[last.s].rd)
(* a write is accepted only while the write half is open *)
WriteOnlyWhileOpen == (last.op \in {"write", "bigwrite"} /\ last.res = "ok") => (~mon[last.s].stop /\ ~mon[last.s].wr)
NoDataAfterFin == \A s \in Streams : ~wrote[s].daf
FlagsSentOnce == \A s \in Streams : wrote[s].fin <= 1 /\ wrote[s].stop <= 1 /\ wrote[s].rst <= 1
(* once a RESET was consumed, every guarded operation fails with ConnectionReset *)
AfterReset == (last.rst /\ last.op \in Guarded) => last.res = "ConnectionReset"
ResetIsFinal == [][\A s \in Streams : (st[s].k = "BothClosed" /\ st[s].a) => st'[s] = st[s]]_vars
====
