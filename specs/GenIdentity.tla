---- MODULE GenIdentity ----
(* C20 grid generator: code x declared length x shape. *)
EXTENDS Identity, TLC, Json
VARIABLE x
ASSUME \A c \in Codes, n \in GridLens, s \in {"exact", "short", "long"} :
         (s = "short" /\ n = 0) \/ PrintT(<<"REPLAY", ToJson([code |-> c, len |-> n, shape |-> s])>>)
Init == x = 0
Next == FALSE /\ x' = x
====
