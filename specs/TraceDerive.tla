---- MODULE TraceDerive ----
(* C58: a NetworkBehaviour derived over three fields (b1, b2, b3 = probe behaviours) composes them faithfully.
   - every FromSwarm event reaches every field, in field order, with the same content
   - connection-management callbacks are asked field by field and stop at the first denial; the connection is
     denied iff some field denied
   - handler events are routed back to the field whose handler produced them; a field's NotifyHandler reaches its own handler
   - the addresses dialed = explicit addresses + (when extending) the union of all fields' addresses *)
EXTENDS TraceIO, FiniteSets, Integers
VARIABLES l, tri, round, expect, estAsked
vars == <<l, tri, round, expect, estAsked>>
Ids == 1..24
R == Rec[l]
NoTri == [next |-> 0]
NoRound == [next |-> 0]
Fwd == {"cbConnEstablished", "cbConnClosed", "cbDialFailure", "cbListenFailure", "cbNewListener", "cbNewListenAddr", "cbExpiredListenAddr",
        "cbListenerError", "cbListenerClosed", "cbNewExternalAddrCandidate", "cbExternalAddrConfirmed", "cbExternalAddrExpired",
        "cbNewExternalAddrOfPeer", "cbAddressChange"}
Dec == {"cbPendingOut", "cbPendingIn", "cbEstIn", "cbEstOut"}
Stage(e) == IF e \in {"cbPendingOut", "cbPendingIn"} THEN "pend" ELSE "est"
K(b) == CASE b = "b1" -> 1 [] b = "b2" -> 2 [] OTHER -> 3
Payload(r) == [k \in DOMAIN r \ {"b"} |-> r[k]]
SeqToSet(s) == {s[i] : i \in 1..Len(s)}
Sum3(ls) == IF Len(ls) = 3 THEN Len(ls[1]) + Len(ls[2]) + Len(ls[3]) ELSE 0
Init == l = 1 /\ InitReg /\ tri = NoTri /\ round = NoRound /\ expect = [i \in Ids |-> "none"] /\ estAsked = [i \in Ids |-> FALSE]
Reset == R.e = "reset" /\ tri' = NoTri /\ round' = NoRound /\ expect' = [i \in Ids |-> "none"] /\ estAsked' = [i \in Ids |-> FALSE]

Forward ==
  /\ R.e \in Fwd /\ round = NoRound
  /\ LET k == K(R.b) IN
     /\ IF k = 1 THEN tri = NoTri ELSE (tri.next = k /\ tri.p = Payload(R))          \* same event, next field, nothing in between
     /\ tri' = IF k = 3 THEN NoTri ELSE [next |-> k + 1, p |-> Payload(R)]
     /\ (k = 1 /\ R.e \in {"cbDialFailure", "cbListenFailure"}) =>
           ((expect[R.id] = "deny" => R.kind = "Denied") /\ (R.kind = "Denied" => expect[R.id] = "deny"))   \* denied iff some field denied
     /\ (k = 1 /\ R.e = "cbConnEstablished") => (expect[R.id] # "deny" /\ estAsked[R.id])                    \* all three fields agreed
  /\ UNCHANGED <<round, expect, estAsked>>

Decision ==
  /\ R.e \in Dec /\ tri = NoTri
  /\ LET k == K(R.b) st == Stage(R.e) IN
     /\ IF k = 1 THEN round = NoRound
        ELSE (round.next = k /\ round.id = R.id /\ round.stage = st)                  \* fields are asked in order, only while nobody denied
     /\ round' = IF R.deny \/ k = 3 THEN NoRound ELSE [next |-> k + 1, id |-> R.id, stage |-> st]
     /\ expect' = [expect EXCEPT ![R.id] = IF R.deny THEN "deny" ELSE IF k = 3 THEN "nodeny" ELSE @]
     /\ estAsked' = [estAsked EXCEPT ![R.id] = IF st = "est" /\ k = 3 /\ ~R.deny THEN TRUE ELSE @]
  /\ UNCHANGED tri

Others ==
  /\ R.e \notin Fwd /\ R.e \notin Dec /\ R.e # "reset"
  /\ tri = NoTri /\ round = NoRound
  /\ (R.e = "dialRet") => ((expect[R.id] = "deny") <=> (R.res = "Denied"))
  /\ (R.e = "swarmEvent" /\ R.kind = "incoming") => expect[R.id] # "deny"
  /\ (R.e = "dial" /\ R.res = "ok") =>
        LET want == (SeqToSet(R.addrs) \cup (IF R.extend THEN UNION {SeqToSet(R.beh_addrs[i]) : i \in 1..Len(R.beh_addrs)} ELSE {})) \ {100} IN
        SeqToSet(R.dialed_abs) = want /\ Len(R.dialed_abs) = Cardinality(want)
  /\ (R.e = "hpoc") =>    \* direct call of handle_pending_outbound_connection: denied iff a field denied, else the concatenation of all fields' lists
        /\ R.denied = (expect[R.id] = "deny")
        /\ (~R.denied => (SeqToSet(R.ret) = UNION {SeqToSet(R.beh_addrs[i]) : i \in 1..Len(R.beh_addrs)}
                          /\ Len(R.ret) = Sum3(R.beh_addrs)))
  /\ (R.e = "cbHandlerEvent" /\ Has(R.ev, "from")) => R.ev.from = R.b                  \* routed back to the producing field
  /\ (R.e = "hEvent" /\ Has(R.ev, "to")) => R.ev.to = R.b                              \* a field's notification reaches its own handler
  /\ expect' = IF R.e = "dialRet" \/ R.e = "hpoc" \/ (R.e = "swarmEvent" /\ R.kind = "incoming") THEN [expect EXCEPT ![R.id] = "none"] ELSE expect
  /\ UNCHANGED <<tri, round, estAsked>>
Next == l <= NRec /\ l' = l + 1 /\ (Reset \/ Forward \/ Decision \/ Others)
Progress == Mark(l)
====
