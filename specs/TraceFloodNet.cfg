INIT Init
NEXT Next
INVARIANT TypeOK
CONSTRAINT Progress
POSTCONDITION Accepted
