---- MODULE Rendezvous ----
(* C51 component spec: rendezvous::server::Registrations (protocols/rendezvous/src/server.rs), one action per
   method: add / remove / get (cookies) / poll (a registration's expiry timer fires).
   Implementation-shaped state: registrations_for_peer (a bijection (peer, ns) <-> id), registrations (id -> entry),
   one timer per id ever added, the cookie cache reduced to the most recent cookie.
   Today = TRUE transcribes the admission test and the refresh handling before the repair (DESIGN 7-16): the
   refresh is counted against the per-peer limit, the total limit is tested with >, and the superseded entry
   stays in registrations until its own timer fires. It is the canary of this model. *)
EXTENDS Naturals, FiniteSets, TLC
CONSTANTS Peers, Namespaces, MaxId, MinTtl, MaxTtl, MaxPerPeer, MaxTotal, Today
VARIABLES rfp,         \* <<peer, ns>> -> id of the current registration, 0 if none   (registrations_for_peer)
          store,       \* id -> <<peer, ns>> for ids in registrations, <<>> otherwise
          timers,      \* ids whose expiry timer is still pending (next_expiry)
          cookie,      \* set of ids already returned under the most recent cookie
          nextId,
          lastGet,     \* ids returned by the last get (observable)
          spurious     \* an ExpiredRegistration was emitted for an id that was not current (observable)
vars == <<rfp, store, timers, cookie, nextId, lastGet, spurious>>
Ids == 1..MaxId
Keys == Peers \X Namespaces
Cur == {k \in Keys : rfp[k] # 0}
OfPeer(p) == {k \in Cur : k[1] = p}
Stored == {i \in Ids : store[i] # <<>>}
Init == /\ rfp = [k \in Keys |-> 0] /\ store = [i \in Ids |-> <<>>] /\ timers = {} /\ cookie = {}
        /\ nextId = 1 /\ lastGet = {} /\ spurious = FALSE
Add(p, n, ttl) ==
  /\ nextId \in Ids
  /\ LET k == <<p, n>>
         refresh == rfp[k] # 0
         okTtl == ttl >= MinTtl /\ ttl <= MaxTtl
         okLim == IF Today
                  THEN Cardinality(OfPeer(p)) < MaxPerPeer /\ ~(Cardinality(Cur) > MaxTotal)
                  ELSE refresh \/ (Cardinality(OfPeer(p)) < MaxPerPeer /\ Cardinality(Cur) < MaxTotal) IN
     IF okTtl /\ okLim
     THEN /\ rfp' = [rfp EXCEPT ![k] = nextId]
          /\ store' = [i \in Ids |-> IF i = nextId THEN k
                                     ELSE IF refresh /\ ~Today /\ i = rfp[k] THEN <<>> ELSE store[i]]
          /\ timers' = timers \cup {nextId} /\ nextId' = nextId + 1
     ELSE UNCHANGED <<rfp, store, timers, nextId>>
  /\ lastGet' = {} /\ UNCHANGED <<cookie, spurious>>
Remove(p, n) ==
  /\ rfp[<<p, n>>] # 0
  /\ store' = [store EXCEPT ![rfp[<<p, n>>]] = <<>>] /\ rfp' = [rfp EXCEPT ![<<p, n>>] = 0]
  /\ lastGet' = {} /\ UNCHANGED <<timers, cookie, nextId, spurious>>
Fire(i) ==                   \* Registrations::poll: the Delay of id i has elapsed
  /\ i \in timers /\ timers' = timers \ {i}
  /\ cookie' = cookie \ {i}
  /\ rfp' = [k \in Keys |-> IF rfp[k] = i THEN 0 ELSE rfp[k]]
  /\ store' = [store EXCEPT ![i] = <<>>]
  /\ spurious' = (spurious \/ (store[i] # <<>> /\ \A k \in Keys : rfp[k] # i))
  /\ lastGet' = {} /\ UNCHANGED nextId
Get(useCookie, ns) ==        \* ns = 0: all namespaces
  /\ LET prior == IF useCookie THEN cookie ELSE {}
         ids == {rfp[k] : k \in {x \in Cur : ns = 0 \/ x[2] = ns}} \ prior IN
     /\ lastGet' = ids /\ cookie' = prior \cup ids
  /\ UNCHANGED <<rfp, store, timers, nextId, spurious>>
Next == \/ \E p \in Peers, n \in Namespaces, t \in {MinTtl - 1, MinTtl, MaxTtl, MaxTtl + 1} : Add(p, n, t)
        \/ \E p \in Peers, n \in Namespaces : Remove(p, n)
        \/ \E i \in Ids : Fire(i)
        \/ \E u \in BOOLEAN, n \in Namespaces \cup {0} : Get(u, n)
Spec == Init /\ [][Next]_vars
(* the statement *)
PerPeerLimit == \A p \in Peers : Cardinality(OfPeer(p)) <= MaxPerPeer
TotalLimit == Cardinality(Cur) <= MaxTotal
DiscoverOnlyCurrent == \A i \in lastGet : store[i] # <<>> /\ rfp[store[i]] = i /\ i \in timers
NoOrphans == \A i \in Stored : rfp[store[i]] = i          \* a superseded registration does not linger
NoSpuriousExpiry == ~spurious
RefreshAlwaysAllowed ==
  \A k \in Keys : (rfp[k] # 0 /\ nextId \in Ids) => ENABLED (Add(k[1], k[2], MinTtl) /\ rfp'[k] = nextId)
====
