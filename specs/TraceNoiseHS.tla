---- MODULE TraceNoiseHS ----
(* C16 trace validation (property level).  One run = one handshake between real noise::Config
   endpoints with an adversary action applied by the driver's relay.
     reset(attack, cp, prologue)  cp = "peer": A's counterpart on the wire is B (bytes only tampered
                                  with); cp = "M": both A and B talk to an endpoint run by M with M's keys
     hs(side, res, peer)          side in {A, B, Ma, Mb, Mx}; res = done | err | pending; peer = name of the
                                  identity the side reports (A, B, M, other)
     link(side, ok)               bytes written by `side` after the handshake decrypt at its counterpart
   Statement: a side that completes reports exactly the party it ran the key exchange with: with byte
   tampering only that can be nobody but the honest peer; with M terminating the handshakes it is M.
   With an identity splice (attack = splice: M keeps its own static key but sends X's identity key and/or a
   signature that is not M's signature over M's static key) the victim either fails or reports M, never X.
   A handshake in which one message was replaced by the corresponding message of an earlier session between the same
   parties (attack = replay: message 2 replayed to A, message 1 or 3 to B) does not complete on the side that was fed it.  A handshake never stays pending after EOF.  Differing prologues: nobody completes.  Without any
   attack both complete and the transport keys match (anti-vacuity). *)
EXTENDS TraceIO
VARIABLES l, attack, cp, prologue, dn
vars == <<l, attack, cp, prologue, dn>>
Init == l = 1 /\ attack = "none" /\ cp = "peer" /\ prologue = "same" /\ dn = {} /\ InitReg
R == Rec[l]
Counterpart(side) == IF side = "A" THEN (IF cp = "M" THEN "M" ELSE "B")
                     ELSE IF side = "B" THEN (IF cp = "M" THEN "M" ELSE "A")
                     ELSE IF side = "Mb" THEN "A" ELSE "B"
Reset == R.e = "reset" /\ attack' = (IF R.attack = "replay" THEN (IF R.sched.msg = 2 THEN "replayA" ELSE "replayB") ELSE R.attack) /\ cp' = R.cp /\ prologue' = R.prologue /\ dn' = {}
Hs == /\ R.e = "hs"
      /\ R.res \in {"done", "err"}                                  \* never pending after EOF
      /\ (R.res = "done" /\ R.side # "Mx" => R.peer = Counterpart(R.side))   \* exactly the remote identity (Mx = adversary's own endpoint)
      /\ (R.res = "done" => prologue = "same")                      \* prologue mismatch fails
      /\ (attack \in {"none", "mitm"} => R.res = "done")            \* untampered bytes: must complete
      /\ ((attack = "replayA" /\ R.side = "A") \/ (attack = "replayB" /\ R.side = "B") => R.res = "err")   \* the side that was fed a message
                                                                     \* recorded in an earlier session never completes (fresh ephemeral keys)
      /\ dn' = IF R.res = "done" THEN dn \cup {R.side} ELSE dn
      /\ UNCHANGED <<attack, cp, prologue>>
Link == /\ R.e = "link" /\ R.side \in dn
        /\ (attack \in {"none", "mitm"} => R.ok)
        /\ UNCHANGED <<attack, cp, prologue, dn>>
End == /\ R.e = "end"
       /\ (attack \in {"none", "mitm"} => {"A", "B"} \subseteq dn)
       /\ UNCHANGED <<attack, cp, prologue, dn>>
Next == l <= NRec /\ l' = l + 1 /\ (Reset \/ Hs \/ Link \/ End)
Spec == Init /\ [][Next]_vars
Progress == Mark(l)
====
