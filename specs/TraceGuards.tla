---- MODULE TraceGuards ----
(* C52 (connection limits) and C53 (allow / block lists): property-level trace spec over a real Swarm whose
   derived behaviour contains the guard behaviour and a probe (b1). The connection state is rebuilt from
   the probe's callbacks and the driver's commands; the guards are the statements. *)
EXTENDS TraceIO, FiniteSets, Integers
VARIABLES l, cfg, pendDir, pendPeer, estPeer, estDir, banned, mustClose
vars == <<l, cfg, pendDir, pendPeer, estPeer, estDir, banned, mustClose>>
Ids == 1..40
R == Rec[l]
NoCfg == [suite |-> "none"]
Init == /\ l = 1 /\ InitReg /\ cfg = NoCfg /\ pendDir = [i \in Ids |-> "none"] /\ pendPeer = [i \in Ids |-> -1]
        /\ estPeer = [i \in Ids |-> -1] /\ estDir = [i \in Ids |-> "none"] /\ banned = {} /\ mustClose = {}
SeqToSet(s) == {s[i] : i \in 1..Len(s)}
Reset == /\ R.e = "reset" /\ cfg' = R
         /\ pendDir' = [i \in Ids |-> "none"] /\ pendPeer' = [i \in Ids |-> -1]
         /\ estPeer' = [i \in Ids |-> -1] /\ estDir' = [i \in Ids |-> "none"]
         /\ banned' = IF R.suite = "allow" THEN (0..3) \ SeqToSet(R.allowed) ELSE {}
         /\ mustClose' = {}
Dial == R.e = "dial" /\ pendPeer' = [pendPeer EXCEPT ![R.id] = R.peer] /\ UNCHANGED <<cfg, pendDir, estPeer, estDir, banned, mustClose>>
DialRet == /\ R.e = "dialRet"
           /\ pendDir' = IF R.res = "ok" THEN [pendDir EXCEPT ![R.id] = "out"] ELSE pendDir
           /\ UNCHANGED <<cfg, pendPeer, estPeer, estDir, banned, mustClose>>
Incoming == /\ R.e = "swarmEvent" /\ R.kind = "incoming"
            /\ pendDir' = [pendDir EXCEPT ![R.id] = "in"] /\ UNCHANGED <<cfg, pendPeer, estPeer, estDir, banned, mustClose>>
Fail == /\ R.e \in {"cbDialFailure", "cbListenFailure"}
        /\ pendDir' = [pendDir EXCEPT ![R.id] = "none"] /\ UNCHANGED <<cfg, pendPeer, estPeer, estDir, banned, mustClose>>
Est == /\ R.e = "cbConnEstablished"
       /\ (cfg.suite \in {"block", "allow"} => R.peer \notin banned) = TRUE     \* C53: never established while blocked / not allowed
       /\ pendDir' = [pendDir EXCEPT ![R.id] = "none"]
       /\ estPeer' = [estPeer EXCEPT ![R.id] = R.peer] /\ estDir' = [estDir EXCEPT ![R.id] = R.dir]
       /\ UNCHANGED <<cfg, pendPeer, banned, mustClose>>
Closed == /\ R.e = "cbConnClosed"
          /\ estPeer' = [estPeer EXCEPT ![R.id] = -1] /\ estDir' = [estDir EXCEPT ![R.id] = "none"]
          /\ UNCHANGED <<cfg, pendDir, pendPeer, banned, mustClose>>
ListChange == /\ R.e \in {"block", "unblock"}
              /\ banned' = IF R.e = "block" THEN banned \cup {R.peer} ELSE banned \ {R.peer}
              \* connections that exist when a peer becomes blocked / disallowed must be closed (even if it is unblocked again before the next poll)
              /\ mustClose' = IF R.e = "block" /\ R.res THEN mustClose \cup {i \in Ids : estPeer[i] = R.peer} ELSE mustClose
              /\ UNCHANGED <<cfg, pendDir, pendPeer, estPeer, estDir>>
Byp == IF Has(cfg, "bypass") THEN cfg.bypass ELSE -5
Lim(k) == IF Has(cfg, k) THEN cfg[k] ELSE 1000
Card(S) == Cardinality(S)
LimitsOK ==
  /\ Card({i \in Ids : pendDir[i] = "in"}) <= Lim("max_pi")
  /\ Card({i \in Ids : pendDir[i] = "out" /\ pendPeer[i] # Byp}) <= Lim("max_po")
  /\ Card({i \in Ids : estDir[i] = "in" /\ estPeer[i] # Byp}) <= Lim("max_ei")
  /\ Card({i \in Ids : estDir[i] = "out" /\ estPeer[i] # Byp}) <= Lim("max_eo")
  /\ Card({i \in Ids : estPeer[i] # -1 /\ estPeer[i] # Byp}) <= Lim("max_e")
  /\ \A p \in 0..3 : p # Byp => Card({i \in Ids : estPeer[i] = p}) <= Lim("max_pp")
Snap == /\ R.e = "snap"
        /\ ((cfg.suite = "limits") =>
              /\ LimitsOK
              \* the Swarm's own counters (no peer breakdown): binding when no peer is bypassed
              /\ (~Has(cfg, "bypass") => /\ R.pi <= Lim("max_pi") /\ R.po <= Lim("max_po") /\ R.ei <= Lim("max_ei")
                                          /\ R.eo <= Lim("max_eo") /\ R.established <= Lim("max_e"))) = TRUE
        /\ UNCHANGED <<cfg, pendDir, pendPeer, estPeer, estDir, banned, mustClose>>
Polled == /\ R.e = "polled"
          \* C53: at quiescence no established connection to a blocked / not allowed peer remains
          /\ ((R.q /\ cfg.suite \in {"block", "allow"}) => ((\A i \in Ids : estPeer[i] = -1 \/ estPeer[i] \notin banned) /\ (\A i \in mustClose : estPeer[i] = -1))) = TRUE
          /\ UNCHANGED <<cfg, pendDir, pendPeer, estPeer, estDir, banned, mustClose>>
Skip == /\ \/ R.e \in {"envIncoming", "envDial", "envUpgrade", "failMux", "close", "disconnect", "behClose", "behCloseAll", "keepAlive", "end",
                       "cbNewListener", "cbNewListenAddr", "cbExpiredListenAddr", "cbListenerError", "cbListenerClosed", "cbAddressChange", "cbOther",
                       "hLocalProto", "hRemoteProto", "emitQueued", "bEmit", "hEvent", "emitF", "hEmit", "hRequestOut", "hStream", "ranTask"}
           \/ (R.e = "swarmEvent" /\ R.kind # "incoming")
        /\ UNCHANGED <<cfg, pendDir, pendPeer, estPeer, estDir, banned, mustClose>>
Next == l <= NRec /\ l' = l + 1 /\ (Reset \/ Dial \/ DialRet \/ Incoming \/ Fail \/ Est \/ Closed \/ ListChange \/ Snap \/ Polled \/ Skip)
Progress == Mark(l)
====
