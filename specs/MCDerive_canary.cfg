CONSTANTS
  N = 3
  Events = {e1, e2}
  MaxLen = 3
  FirstOnly = TRUE
INIT Init
NEXT Next
INVARIANT AllFieldsSeeAll DenyIffSomeDenies AskedInOrder RoutedBack
