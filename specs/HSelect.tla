---- MODULE HSelect ----
(* X03 (part 2): libp2p_swarm::handler::ConnectionHandlerSelect  (/repo/swarm/src/handler/select.rs).
   "Implementation of ConnectionHandler that combines two protocols into one."  What the two combined handlers
   (and the connection that drives the combination) rely on:

   S1 EventsLabelled      every event a child returns from poll / poll_close comes out of the combination exactly once,
                          labelled with that child's side (NotifyBehaviour(Left/Right), OutboundSubstreamRequest with
                          upgrade AND open-info wrapped Left/Right, timeout preserved); per child in the child's order;
                          the combination is Pending only if both children are.
   S2 RoutedToOwner       a behaviour event Left/Right(e) reaches only that child; the result (FullyNegotiatedOutbound /
                          DialUpgradeError of any kind) of a substream request reaches only the child that issued the
                          request, with that child's open-info; an inbound result / ListenUpgradeError of side s reaches
                          only child s with child s's inbound open-info; AddressChange, LocalProtocolsChange and
                          RemoteProtocolsChange reach both.
   S3 KeepAliveIsOr       connection_keep_alive() = k1 \/ k2.
   S4 ListenIsUnion       listen_protocol() offers the protocols of child 1 followed by those of child 2 (first has
                          priority), with the larger of the two timeouts and the pair of inbound open-infos.
   S5 CloseDrainsBoth     poll_close yields every closing event of both children exactly once and None only when both
                          children have returned None.

   The model: children 1 and 2 queue tagged events; Poll asks child 1 first, then child 2 (as the code does) and wraps
   with the child's side; the connection hands results back using the label it got; Route delivers by label.
   LabelOK = FALSE (canary): events of child 2 are labelled Left. *)
EXTENDS Naturals, Sequences, FiniteSets
CONSTANTS N, LabelOK
VARIABLES box, n, infl, emitted, got, ka
vars == <<box, n, infl, emitted, got, ka>>
Sides == {1, 2}
Kinds == {"notify", "osr"}

Init == /\ box = [s \in Sides |-> <<>>] /\ n = 0 /\ infl = {} /\ emitted = {} /\ got = [s \in Sides |-> {}]
        /\ ka = [s \in Sides |-> FALSE]

Q(s, k) == /\ n < N /\ n' = n + 1
           /\ box' = [box EXCEPT ![s] = Append(@, [k |-> k, tag |-> n + 1, origin |-> s])]
           /\ UNCHANGED <<infl, emitted, got, ka>>

Label(s) == IF LabelOK THEN s ELSE 1

Take(s) == /\ box[s] # <<>>
           /\ LET x == Head(box[s]) IN
              /\ emitted' = emitted \cup {[label |-> Label(s), tag |-> x.tag, origin |-> s, k |-> x.k]}
              /\ infl' = IF x.k = "osr" THEN infl \cup {[label |-> Label(s), tag |-> x.tag, origin |-> s]} ELSE infl
           /\ box' = [box EXCEPT ![s] = Tail(@)]
           /\ UNCHANGED <<n, got, ka>>

Poll == IF box[1] # <<>> THEN Take(1) ELSE Take(2)

(* the connection answers an outstanding substream request: routed by the label the combination attached to it *)
Result(x, kind) == /\ x \in infl /\ infl' = infl \ {x}
                   /\ got' = [got EXCEPT ![x.label] = @ \cup {[k |-> kind, tag |-> x.tag]}]
                   /\ UNCHANGED <<box, n, emitted, ka>>

SetKa(s, b) == /\ ka' = [ka EXCEPT ![s] = b] /\ UNCHANGED <<box, n, infl, emitted, got>>

Next == \/ \E s \in Sides, k \in Kinds : Q(s, k)
        \/ Poll
        \/ \E x \in infl, kind \in {"ok", "err"} : Result(x, kind)
        \/ \E s \in Sides, b \in BOOLEAN : SetKa(s, b)
Spec == Init /\ [][Next]_vars

KeepAlive == ka[1] \/ ka[2]           \* cmp::max of two booleans
EventsLabelled == \A e \in emitted : e.label = e.origin
OriginOf(t) == CHOOSE s \in Sides : \E e \in emitted : e.tag = t /\ e.origin = s
RoutedToOwner == \A s \in Sides : \A c \in got[s] : OriginOf(c.tag) = s
ExactlyOnce == \A e1, e2 \in emitted : e1.tag = e2.tag => e1 = e2
KeepAliveIsOr == KeepAlive = (\E s \in Sides : ka[s])
====
