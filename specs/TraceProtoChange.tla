---- MODULE TraceProtoChange ----
(* C11 property-level trace spec: folding the Local/RemoteProtocolsChange events a handler receives.
   advertise - the handler's listen_protocol() now advertises `list` = <<name, valid>> pairs (duplicates possible)
   report    - the handler reported remote protocols added / removed (valid names only)
   hLocalProto / hRemoteProto - Added/Removed events delivered to the handler
   quiescent - the connection was polled to quiescence: the folds must equal the truth *)
EXTENDS TraceIO, FiniteSets
VARIABLES l, adv, foldL, remote, foldR
vars == <<l, adv, foldL, remote, foldR>>
R == Rec[l]
SeqToSet(s) == {s[i] : i \in 1..Len(s)}
Valid(lst) == {lst[i][1] : i \in {j \in 1..Len(lst) : lst[j][2]}}
Init == l = 1 /\ adv = {} /\ foldL = {} /\ remote = {} /\ foldR = {} /\ InitReg
Reset == R.e = "reset" /\ adv' = {} /\ foldL' = {} /\ remote' = {} /\ foldR' = {}
Advertise == R.e = "advertise" /\ adv' = Valid(R.list) /\ UNCHANGED <<foldL, remote, foldR>>
Report == /\ R.e = "report"
          /\ remote' = IF R.added THEN remote \cup SeqToSet(R.list) ELSE remote \ SeqToSet(R.list)
          /\ UNCHANGED <<adv, foldL, foldR>>
Local == /\ R.e = "hLocalProto"
         /\ foldL' = IF R.kind = "added" THEN foldL \cup SeqToSet(R.protos) ELSE foldL \ SeqToSet(R.protos)
         /\ UNCHANGED <<adv, remote, foldR>>
Remote == /\ R.e = "hRemoteProto"
          /\ foldR' = IF R.kind = "added" THEN foldR \cup SeqToSet(R.protos) ELSE foldR \ SeqToSet(R.protos)
          /\ UNCHANGED <<adv, foldL, remote>>
Quiescent == R.e = "quiescent" /\ foldL = adv /\ foldR = remote /\ UNCHANGED <<adv, foldL, remote, foldR>>
Next == l <= NRec /\ l' = l + 1 /\ (Reset \/ Advertise \/ Report \/ Local \/ Remote \/ Quiescent)
Progress == Mark(l)
====
