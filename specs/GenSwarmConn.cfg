CONSTANTS
  Ids = {1, 2, 3, 4}
  Peers = {p1, p2}
  Local = local
  NoPeer = nopeer
  Canary = "none"
  Depth = 24
  PeerOne = p1
INIT GInit
NEXT GNext
INVARIANT Emit
