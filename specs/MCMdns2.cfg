CONSTANTS
  Lens = {80, 255, 256}
  Kinds = {"plain", "quoted", "nonascii"}
  MaxAddrs = 8
  RecBudget = 331
  HdrBudget = 104
  QuoteBug = FALSE
  Truncate = FALSE
INIT Init
NEXT Next
INVARIANT PacketFits Exact
