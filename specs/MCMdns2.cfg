CONSTANTS
  Lens = {80, 255, 256}
  Kinds = {"plain", "quoted", "nonascii"}
  MaxAddrs = 8
  RecBudget = 333
  StaleLenByte = FALSE
  Truncate = FALSE
INIT Init
NEXT Next
INVARIANT PacketFits Exact
