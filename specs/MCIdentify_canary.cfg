CONSTANTS
  NoKeyCheck = TRUE
  AnySigner = FALSE
  NoP2pFilter = FALSE
INIT Init
NEXT Next
INVARIANT OnlyAuthenticatedKey
INVARIANT RecordOnlyIfSignedBySamePeer
INVARIANT NoForeignPeerAddr
