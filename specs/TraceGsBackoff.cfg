INIT Init
NEXT Next
INVARIANT NeverShortened
INVARIANT Forgotten
CONSTRAINT Progress
POSTCONDITION Accepted
