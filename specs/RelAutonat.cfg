INIT Init
NEXT Next
