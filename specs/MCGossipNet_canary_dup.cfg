SPECIFICATION Spec
CONSTANTS
  Nodes <- N3
  Msgs <- M1
  SrcOf <- Src1
  FloodPublish = TRUE
  EchoBack = FALSE
  NoDupCache = TRUE
INVARIANT AtMostOnce
INVARIANT NotToPublisher
INVARIANT NeverBackOrToSource
CONSTRAINT Bounded
PROPERTY EveryoneGetsIt
