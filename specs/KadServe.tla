---- MODULE KadServe ----
(* X06: the Kademlia record store and its users - MemoryStore (protocols/kad/src/record/store/memory.rs) behind
   Behaviour's handling of inbound PUT_VALUE / GET_VALUE / ADD_PROVIDER / GET_PROVIDERS (behaviour.rs:
   record_received, provider_received, provider_peers, the HandlerEvent::GetRecord arm), implementation-shaped,
   with an abstract integer clock.

   What a user relies on (docs of MemoryStoreConfig, StoreInserts, Config::set_record_ttl / set_provider_record_ttl,
   Record::expires, the Kademlia paper's caching rule quoted in record_received):
     Bounds               never more than MaxRecords records / MaxProviders providers per key / MaxProvKeys provider keys
     ProvidedSync         provided() = the local node's provider records that are in providers(key)
     NeverServeExpired    a reply to GET_VALUE / GET_PROVIDERS never contains an expired record / provider
     StoredOnlyUnfiltered inbound records and providers reach the store only with StoreInserts::Unfiltered; with
                          FilterBoth they are surfaced to the application exactly once instead
     TtlNeverExtended     a stored record never expires later than the sender said, nor later than now + record_ttl
                          at the time it was received; the local bound halves for every node beyond the replication
                          factor that lies between the local node and the key
     OneReply             PUT_VALUE / GET_VALUE / GET_PROVIDERS are answered exactly once, ADD_PROVIDER never
     LegitProvider        a provider record is accepted only from the provider itself and never for the local node;
                          a PUT_VALUE naming the local node as publisher changes nothing

   Named deviations from the candidate statements (the code documents them):
     FullListIgnoresNew   when a key already has MaxProviders providers a NEW provider is ignored (and reported as
                          success) - the kept providers are the first ones, not the closest to the key;
     KeysNotRecords       max_provided_keys bounds the number of KEYS with any provider, not only the local node's.
   Canaries: ServeExpired (GET without the expiry test), StoreFiltered (FilterBoth still stores), MergeMax (the larger
   expiry prevails), NoSourceCheck (ADD_PROVIDER from a third party), ResetFallsThrough (the refusal of a PUT_VALUE
   is followed by the ordinary acknowledgement as well). *)
EXTENDS Naturals, FiniteSets, TLC
CONSTANTS Keys, Peers, Local, MaxRecords, MaxProviders, MaxProvKeys,
          Ttl, PTtl,           \* record_ttl / provider_record_ttl in clock units, 0 = none
          K,                   \* replication factor
          Filter,              \* StoreInserts::FilterBoth
          MaxTime,
          ServeExpired, StoreFiltered, MergeMax, NoSourceCheck, ResetFallsThrough
None == 99
Exps == (0..(MaxTime + Ttl)) \cup {None}
VARIABLES now,
          recs,       \* key -> None or expiry (None = 99 would be ambiguous: records are [has |-> , exp |-> ])
          provs,      \* key -> set of <<provider, expiry>>
          provided,   \* set of <<key, expiry>>
          allowed,    \* ghost: key -> the latest expiry the statement allows for the stored record
          replies, surfaced,  \* number of replies / application events caused by the last request
          bad
vars == <<now, recs, provs, provided, allowed, replies, surfaced, bad>>
NoRec == [has |-> FALSE, exp |-> 0]
Init == /\ now = 0 /\ recs = [k \in Keys |-> NoRec] /\ provs = [k \in Keys |-> {}] /\ provided = {}
        /\ allowed = [k \in Keys |-> None] /\ replies = 1 /\ surfaced = 0 /\ bad = {}
Expired(e) == e # None /\ now >= e
MinE(a, b) == IF a = None THEN b ELSE IF b = None THEN a ELSE IF a < b THEN a ELSE b
MaxE(a, b) == IF a = None \/ b = None THEN None ELSE IF a < b THEN b ELSE a
NumRecords == Cardinality({k \in Keys : recs[k].has})
Tick == now < MaxTime /\ now' = now + 1 /\ replies' = 1 /\ surfaced' = 0 /\ UNCHANGED <<recs, provs, provided, allowed, bad>>

(* record_received *)
PutValue(from, k, rexp, pub, between) ==
  LET shift == IF between > K THEN between - K ELSE 0
      localexp == IF Ttl = 0 THEN None ELSE now + (Ttl \div (2 ^ shift))
      exp == IF MergeMax THEN MaxE(rexp, localexp) ELSE MinE(rexp, localexp)
      okexp == MinE(rexp, IF Ttl = 0 THEN None ELSE now + Ttl) IN
  /\ UNCHANGED <<now, provs, provided>>
  /\ IF pub = Local \/ Expired(exp) THEN replies' = 1 /\ surfaced' = 0 /\ UNCHANGED <<recs, allowed, bad>>      \* PutRecordRes only
     ELSE IF Filter /\ ~StoreFiltered THEN replies' = 1 /\ surfaced' = 1 /\ UNCHANGED <<recs, allowed, bad>>
     ELSE IF ~recs[k].has /\ NumRecords >= MaxRecords                                                         \* HandlerIn::Reset; return
          THEN replies' = (IF ResetFallsThrough THEN 2 ELSE 1) /\ surfaced' = 0 /\ UNCHANGED <<recs, allowed, bad>>
     ELSE /\ recs' = [recs EXCEPT ![k] = [has |-> TRUE, exp |-> exp]]
          /\ allowed' = [allowed EXCEPT ![k] = okexp]
          /\ replies' = 1 /\ surfaced' = 1
          /\ bad' = bad \cup (IF Filter THEN {"stored-filtered"} ELSE {})
(* HandlerEvent::GetRecord *)
GetValue(from, k) ==
  /\ replies' = 1 /\ surfaced' = 1 /\ UNCHANGED <<now, provs, provided>>
  /\ IF recs[k].has /\ Expired(recs[k].exp) /\ ~ServeExpired
     THEN recs' = [recs EXCEPT ![k] = NoRec] /\ allowed' = [allowed EXCEPT ![k] = None] /\ UNCHANGED bad
     ELSE /\ bad' = bad \cup (IF recs[k].has /\ Expired(recs[k].exp) THEN {"served-expired"} ELSE {})
          /\ UNCHANGED <<recs, allowed>>
(* MemoryStore::add_provider *)
StoreAdd(k, p, e) ==
  IF provs[k] = {} /\ Cardinality({x \in Keys : provs[x] # {}}) >= MaxProvKeys THEN UNCHANGED <<provs, provided>>
  ELSE IF \E x \in provs[k] : x[1] = p
       THEN LET old == CHOOSE x \in provs[k] : x[1] = p IN
            /\ provs' = [provs EXCEPT ![k] = (@ \ {old}) \cup {<<p, e>>}]
            /\ provided' = IF p = Local THEN (provided \ {<<k, old[2]>>}) \cup {<<k, e>>} ELSE provided
  ELSE IF Cardinality(provs[k]) >= MaxProviders THEN UNCHANGED <<provs, provided>>          \* FullListIgnoresNew
  ELSE /\ provs' = [provs EXCEPT ![k] = @ \cup {<<p, e>>}]
       /\ provided' = IF p = Local THEN provided \cup {<<k, e>>} ELSE provided
(* HandlerEvent::AddProvider + provider_received *)
AddProvider(from, k, p) ==
  /\ replies' = 0 /\ UNCHANGED <<now, recs, allowed>>
  /\ IF (p # from /\ ~NoSourceCheck) \/ p = Local THEN surfaced' = 0 /\ UNCHANGED <<provs, provided, bad>>
     ELSE IF Filter THEN surfaced' = 1 /\ UNCHANGED <<provs, provided, bad>>
     ELSE /\ StoreAdd(k, p, IF PTtl = 0 THEN None ELSE now + PTtl)
          /\ surfaced' = 1
          /\ bad' = bad \cup (IF p # from THEN {"third-party-provider"} ELSE {})
(* the local node starts providing (store_mut().add_provider of its own record) *)
Provide(k, e) == /\ StoreAdd(k, Local, e) /\ replies' = 1 /\ surfaced' = 0 /\ UNCHANGED <<now, recs, allowed, bad>>
Unprovide(k) == /\ \E x \in provs[k] : x[1] = Local
                /\ LET old == CHOOSE x \in provs[k] : x[1] = Local IN
                   provs' = [provs EXCEPT ![k] = @ \ {old}] /\ provided' = provided \ {<<k, old[2]>>}
                /\ replies' = 1 /\ surfaced' = 0 /\ UNCHANGED <<now, recs, allowed, bad>>
(* provider_peers *)
GetProviders(from, k) ==
  /\ replies' = 1 /\ surfaced' = 1 /\ UNCHANGED <<now, recs, allowed>>
  /\ LET dead == {x \in provs[k] : Expired(x[2])} IN
     IF ServeExpired THEN bad' = bad \cup (IF dead # {} THEN {"served-expired"} ELSE {}) /\ UNCHANGED <<provs, provided>>
     ELSE /\ provs' = [provs EXCEPT ![k] = @ \ dead]
          /\ provided' = provided \ {<<k, x[2]>> : x \in {y \in dead : y[1] = Local}}
          /\ UNCHANGED bad
Next == \/ Tick
        \/ \E f \in Peers, k \in Keys, e \in Exps, own \in BOOLEAN, b \in {0, K + 1, K + 2} : PutValue(f, k, e, IF own THEN Local ELSE f, b)
        \/ \E f \in Peers, k \in Keys : GetValue(f, k) \/ GetProviders(f, k)
        \/ \E f \in Peers, k \in Keys, p \in Peers \cup {Local} : AddProvider(f, k, p)
        \/ \E k \in Keys, e \in {None, 1} : Provide(k, e)
        \/ \E k \in Keys : Unprovide(k)
Spec == Init /\ [][Next]_vars
(* ---- X06 ---- *)
Bounds == /\ NumRecords <= MaxRecords /\ \A k \in Keys : Cardinality(provs[k]) <= MaxProviders
          /\ Cardinality({k \in Keys : provs[k] # {}}) <= MaxProvKeys /\ Cardinality(provided) <= MaxProvKeys
ProvidedSync == provided = UNION {{<<k, x[2]>> : x \in {y \in provs[k] : y[1] = Local}} : k \in Keys}
NeverServeExpired == "served-expired" \notin bad
StoredOnlyUnfiltered == "stored-filtered" \notin bad
LegitProvider == "third-party-provider" \notin bad /\ \A k \in Keys : \A x \in provs[k] : x[1] = Local => <<k, x[2]>> \in provided
TtlNeverExtended == \A k \in Keys : recs[k].has => (allowed[k] = None \/ (recs[k].exp # None /\ recs[k].exp <= allowed[k]))
OneReply == replies <= 1 /\ surfaced <= 1
====
