---- MODULE KadMetric ----
(* C40: the XOR metric on B-bit keys (kbucket/key.rs: KeyBytes::distance, for_distance, Distance::ilog2; kbucket.rs:
   BucketIndex::new). One state per triple (a, b, c); the invariants are the laws of the statement. *)
EXTENDS Naturals, TLC
CONSTANTS B,
          PlusForDistance,   \* canary: for_distance computes self + d (mod 2^B) instead of self xor d
          IlogOff            \* canary: ilog2 = number of significant bits (off by one)
Keys == 0..(2^B - 1)
Mod2(a) == a - 2 * (a \div 2)
RECURSIVE Xor(_, _)
Xor(a, b) == IF a = 0 THEN b ELSE IF b = 0 THEN a ELSE Mod2(Mod2(a) + Mod2(b)) + 2 * Xor(a \div 2, b \div 2)
RECURSIVE SigBits(_)
SigBits(d) == IF d = 0 THEN 0 ELSE 1 + SigBits(d \div 2)                 \* 256 - leading_zeros
Distance(a, b) == Xor(a, b)
ForDistance(a, d) == IF PlusForDistance THEN (a + d) - (2^B) * ((a + d) \div (2^B)) ELSE Xor(a, d)
Ilog2(d) == IF IlogOff THEN SigBits(d) ELSE SigBits(d) - 1               \* only for d > 0 (None for d = 0)
BucketIndex(d) == Ilog2(d)
VARIABLES a, b, c
Init == a \in Keys /\ b \in Keys /\ c \in Keys
Next == FALSE /\ UNCHANGED <<a, b, c>>
Identity == (Distance(a, b) = 0) = (a = b)
Symmetry == Distance(a, b) = Distance(b, a)
Triangle == Distance(a, c) <= Distance(a, b) + Distance(b, c)
Unidirectional == (Distance(a, b) = Distance(a, c)) => b = c
ForDistanceInverse == ForDistance(a, Distance(a, b)) = b /\ Distance(a, ForDistance(a, c)) = c
HighestBit == a # b => LET d == Distance(a, b) i == BucketIndex(d) IN 2^i <= d /\ d < 2^(i + 1)
====
