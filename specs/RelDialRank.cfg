INIT Init
NEXT Next
