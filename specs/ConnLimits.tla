---- MODULE ConnLimits ----
(* misc/connection-limits: the behaviour's own sets and check_limit guards, composed with the pool's
   pending/established lifecycle. C52. Canary Strict = FALSE uses `>` instead of `>=` in check_limit. *)
EXTENDS Naturals, FiniteSets, TLC
CONSTANTS Conns, Peers, Bypass, MaxPI, MaxPO, MaxEI, MaxEO, MaxE, MaxPP, Strict
VARIABLES pendIn, pendOut, est     \* pendIn: set of conns; pendOut: conn -> expected peer; est: conn -> <<peer, dir>>
vars == <<pendIn, pendOut, est>>
NoneP == CHOOSE x : x \notin Peers
Init == pendIn = {} /\ pendOut = [c \in {} |-> NoneP] /\ est = [c \in {} |-> <<NoneP, "in">>]
Used == pendIn \cup DOMAIN pendOut \cup DOMAIN est
Over(limit, cur) == IF Strict THEN cur >= limit ELSE cur > limit
CntOut == Cardinality({c \in DOMAIN pendOut : pendOut[c] # Bypass})
CntE(d) == Cardinality({c \in DOMAIN est : est[c][2] = d /\ est[c][1] # Bypass})
CntAll == Cardinality({c \in DOMAIN est : est[c][1] # Bypass})
CntP(p) == Cardinality({c \in DOMAIN est : est[c][1] = p})
Ext(f, k, v) == [x \in DOMAIN f \cup {k} |-> IF x = k THEN v ELSE f[x]]
Drop(f, k) == [x \in DOMAIN f \ {k} |-> f[x]]
PendingIn(c) == c \notin Used /\ ~Over(MaxPI, Cardinality(pendIn)) /\ pendIn' = pendIn \cup {c} /\ UNCHANGED <<pendOut, est>>
PendingOut(c, p) == c \notin Used /\ (p = Bypass \/ ~Over(MaxPO, CntOut)) /\ pendOut' = Ext(pendOut, c, p) /\ UNCHANGED <<pendIn, est>>
Admit(p, d) == p = Bypass \/ (~Over(IF d = "in" THEN MaxEI ELSE MaxEO, CntE(d)) /\ ~Over(MaxPP, CntP(p)) /\ ~Over(MaxE, CntAll))
EstIn(c, p) == /\ c \in pendIn /\ pendIn' = pendIn \ {c}
               /\ IF Admit(p, "in") THEN est' = Ext(est, c, <<p, "in">>) ELSE UNCHANGED est
               /\ UNCHANGED pendOut
EstOut(c, p) == /\ c \in DOMAIN pendOut /\ pendOut' = Drop(pendOut, c)
                /\ IF Admit(p, "out") THEN est' = Ext(est, c, <<p, "out">>) ELSE UNCHANGED est
                /\ UNCHANGED pendIn
Fail(c) == \/ c \in pendIn /\ pendIn' = pendIn \ {c} /\ UNCHANGED <<pendOut, est>>
           \/ c \in DOMAIN pendOut /\ pendOut' = Drop(pendOut, c) /\ UNCHANGED <<pendIn, est>>
Close(c) == c \in DOMAIN est /\ est' = Drop(est, c) /\ UNCHANGED <<pendIn, pendOut>>
Next == \E c \in Conns : PendingIn(c) \/ Fail(c) \/ Close(c) \/ \E p \in Peers : PendingOut(c, p) \/ EstIn(c, p) \/ EstOut(c, p)
LimitsHold == /\ Cardinality(pendIn) <= MaxPI /\ CntOut <= MaxPO /\ CntE("in") <= MaxEI /\ CntE("out") <= MaxEO /\ CntAll <= MaxE
              /\ \A p \in Peers : p # Bypass => CntP(p) <= MaxPP
====
