---- MODULE RelTlsCert ----
(* C18 relation over the records of the real certificate::parse.
   struct records: the outcome must equal the rule of TlsCertRule on the abstract description the
   certificate was built from, and an accepted certificate reports the host key of its extension.
   mut records (byte mutations of a certificate from the real generator for host H): acceptance is
   only allowed with the unchanged peer id; the unmutated certificate must be accepted.
   A panic violates both. *)
EXTENDS TraceIO, TlsCertRule
VARIABLE x
Abs(s) == [selfSigned |-> s.selfSigned, valid |-> s.valid, exts |-> s.exts]
Post(r) ==
  IF r.kind = "struct"
  THEN /\ r.res \in {"accept", "reject"}
       /\ (r.res = "accept") = Accept(Abs(r.spec))
       /\ (r.res = "accept" => r.peer = PeerOf(Abs(r.spec)))
  ELSE /\ r.res \in {"accept", "reject"}
       /\ (r.res = "accept" => r.peer = "H")
       /\ (r.m.op = "none" => r.res = "accept")
ASSUME PrintT(<<"CHECKED", ToJson([n |-> NRec])>>)
ASSUME \A i \in 1..NRec : Post(Rec[i]) \/ PrintT(<<"BAD", ToJson([line |-> i, why |-> "certificate acceptance rule / peer id binding"])>>)
Init == x = 0
Next == FALSE /\ x' = x
====
