---- MODULE RelAutonat ----
(* C50 (address clause) as a relation: every address the real filter_valid_addrs lets through (= handed to
   ToSwarm::Dial) must be DialOK (module AutonatAddr).  Nothing is required about which demanded addresses are
   dropped. *)
EXTENDS TraceIO, AutonatAddr
VARIABLE x
Post(r) == ~Has(r, "panic") /\ \A i \in 1..Len(r.out) : DialOK(r.out[i])
ASSUME PrintT(<<"CHECKED", ToJson([n |-> NRec])>>)
ASSUME \A i \in 1..NRec : Post(Rec[i]) \/ PrintT(<<"BAD", ToJson([line |-> i, why |-> "dial-back address not DialOK"])>>)
Init == x = 0
Next == FALSE /\ x' = x
====
