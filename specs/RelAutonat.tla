---- MODULE RelAutonat ----
(* C50 (address clause) as a relation over abstract multiaddrs = sequences of <<kind, val>>; val of an IP
   component: "obs" (the IP the server observed for the requester) or "other"; of /p2p: "req" (the requester) or
   "other".  Every address the real filter_valid_addrs lets through (= handed to ToSwarm::Dial) must be DialOK:
     - it has an IP component, every IP component equals the observed IP, and no DNS name is present (a DNS
       host component would make the transport dial whatever the name resolves to),
     - no relay hop (/p2p-circuit),
     - every /p2p names the requester and the address ends with /p2p/<requester>.
   Nothing is required about which demanded addresses are dropped. *)
EXTENDS TraceIO
VARIABLE x
IsIp(c) == c[1] \in {"ip4", "ip6"}
IsDns(c) == c[1] \in {"dns", "dns4", "dns6", "dnsaddr"}
DialOK(a) ==
  /\ Len(a) >= 2
  /\ \E i \in 1..Len(a) : IsIp(a[i])
  /\ \A i \in 1..Len(a) : /\ (IsIp(a[i]) => a[i][2] = "obs")
                          /\ ~IsDns(a[i])
                          /\ a[i][1] # "p2p-circuit"
                          /\ (a[i][1] = "p2p" => a[i][2] = "req")
  /\ a[Len(a)][1] = "p2p" /\ a[Len(a)][2] = "req"
Post(r) == ~Has(r, "panic") /\ \A i \in 1..Len(r.out) : DialOK(r.out[i])
ASSUME PrintT(<<"CHECKED", ToJson([n |-> NRec])>>)
ASSUME \A i \in 1..NRec : Post(Rec[i]) \/ PrintT(<<"BAD", ToJson([line |-> i, why |-> "dial-back address not DialOK"])>>)
Init == x = 0
Next == FALSE /\ x' = x
====
