CONSTANTS
  Limit = 2
  NFrames = 3
  Lens = {0, 2, 3}
  Types = {0, 1, 4, 7}
  EarlyCheck = TRUE
INIT Init
NEXT Next
INVARIANT TypeOK OutIsPrefix NoSpuriousError RoundTrip RejectBeforeBuffering BoundedBuffer UnknownTypeRejected
