INIT Init
NEXT Next
