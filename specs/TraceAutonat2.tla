---- MODULE TraceAutonat2 ----
(* X05 trace validation (property level) of the AutoNAT v2 server: real server::Behaviour + real dial_request /
   dial_back handlers + real wire codec; the driver (harness/drv-xautonat2) plays the Swarm and the clients.
   Stimuli: conn, close, req, data, dialres, back_open, back_resp, back_close.  Server outputs: data_req, dial,
   back_want, dialback, resp, event.  State is rebuilt from the records; the guards are the statement of Autonat2.tla:
     A1 OneDialPerRequest      at most one dial per request, exactly one address, one of the request's addresses, to the
                               requester, over a new port (PortUse::New), PeerCondition::Always
     A2 AmplificationProtection a dial to an address whose IP differs from the observed IP only after a DialDataRequest
                               (30000..100000 bytes) for that very address was answered with at least that many bytes;
                               whenever data was demanded, no dial before it has arrived
     A3 Nonce                  the DialBack carries the nonce of the request the dial serves; one DialBack per dial
     A4 ExactlyOneResponse     at most one DialResponse per request; at the end of a run every well-formed DialRequest
                               whose client is still connected and has done its part has got one
     A5 FaithfulResponse       status OK only after a dial, addrIdx = the dialed address, dialStatus OK iff the DialBack
                               was delivered and acknowledged, E_DIAL_ERROR iff the dial failed, E_DIAL_BACK_ERROR only
                               if connected but the dial-back failed; refusals / rejections only without a dial
     A6 FaithfulEvent          Event: client, all_addrs, tested_addr = the request's, data_amount = what was demanded and
                               received (0 if nothing was demanded), result Ok only if the response was written
   Not constrained: WHICH of the request's addresses is chosen (Autonat2.tla names the deviation ChooseLast), and
   demanding data although the IP is the observed one (stricter than required). *)
EXTENDS TraceIO, FiniteSets, Integers
VARIABLES l, cl, rq, dl, nr, nd
vars == <<l, cl, rq, dl, nr, nd>>
S == 0..79
NoCl == [p |-> -1, up |-> FALSE]
NoRq == [c |-> -1, p |-> -1, first |-> "", nonce |-> -1, kinds |-> <<>>, need |-> 0, ridx |-> -1, got |-> 0, viol |-> FALSE,
         dial |-> -1, tidx |-> -1, out |-> "none", resp |-> 0, ev |-> 0]
NoDl == [s |-> -1, st |-> "none", wants |-> 0, sent |-> 0]
Init == l = 1 /\ cl = [c \in S |-> NoCl] /\ rq = [s \in S |-> NoRq] /\ dl = [d \in S |-> NoDl] /\ nr = 0 /\ nd = 0 /\ InitReg
R == Rec[l]
SameIp(k) == k \in {"obs", "obsip"}

Reset == R.e = "reset" /\ cl' = [c \in S |-> NoCl] /\ rq' = [s \in S |-> NoRq] /\ dl' = [d \in S |-> NoDl] /\ nr' = 0 /\ nd' = 0
Conn == R.e = "conn" /\ cl' = [cl EXCEPT ![R.c] = [p |-> R.p, up |-> TRUE]] /\ UNCHANGED <<rq, dl, nr, nd>>
Close == R.e = "close" /\ cl' = [cl EXCEPT ![R.c].up = FALSE] /\ UNCHANGED <<rq, dl, nr, nd>>
Req == /\ R.e = "req" /\ R.s = nr /\ nr' = nr + 1 /\ cl[R.c].up /\ cl[R.c].p = R.p
       /\ rq' = [rq EXCEPT ![R.s] = [NoRq EXCEPT !.c = R.c, !.p = R.p, !.first = R.first, !.nonce = R.nonce, !.kinds = R.addrs]]
       /\ UNCHANGED <<cl, dl, nd>>

(* A2: the server demands data for one address of the request, once, 30k..100k bytes *)
DataReq == /\ R.e = "data_req" /\ R.s < nr
           /\ LET x == rq[R.s] IN
              /\ x.first = "dial" /\ x.need = 0 /\ x.dial = -1 /\ x.resp = 0
              /\ R.idx < Len(x.kinds) /\ R.n >= 30000 /\ R.n <= 100000
           /\ rq' = [rq EXCEPT ![R.s].need = R.n, ![R.s].ridx = R.idx]
           /\ UNCHANGED <<cl, dl, nr, nd>>
Data == /\ R.e = "data" /\ R.s < nr
        /\ rq' = [rq EXCEPT ![R.s].got = @ + R.bytes, ![R.s].viol = @ \/ (R.mode \in {"dial", "junk", "eof"})]
        /\ UNCHANGED <<cl, dl, nr, nd>>

(* A1, A2: the dial-back dial *)
DialGuard(s, i) ==
  LET x == rq[s] IN
  /\ s < nr /\ x.first = "dial" /\ x.dial = -1 /\ x.resp = 0 /\ x.p = R.p
  /\ i >= 0 /\ i < Len(x.kinds)
  /\ (IF R.obsc >= 0 THEN x.c = R.obsc /\ x.kinds[i + 1] = "obs" ELSE x.kinds[i + 1] # "obs")
  /\ (x.ridx >= 0 => i = x.ridx)
  /\ (~SameIp(x.kinds[i + 1]) => x.need > 0)
  /\ (x.need > 0 => x.got >= x.need)
Dial == /\ R.e = "dial" /\ R.d = nd /\ nd' = nd + 1
        /\ R.n = 1 /\ R.newport /\ R.always /\ ~R.override
        /\ \E s \in (IF R.obsc >= 0 THEN 0..(nr - 1) ELSE {R.s}), i \in (IF R.obsc >= 0 THEN 0..7 ELSE {R.i}) :
              /\ DialGuard(s, i) = TRUE
              /\ rq' = [rq EXCEPT ![s].dial = R.d, ![s].tidx = i]
              /\ dl' = [dl EXCEPT ![R.d] = [NoDl EXCEPT !.s = s, !.st = "pending"]]
        /\ UNCHANGED <<cl, nr>>

SetOut(s, o) == [rq EXCEPT ![s].out = IF @ = "none" THEN o ELSE @]
DialRes == /\ R.e = "dialres" /\ dl[R.d].st = "pending"
           /\ IF R.r = "ok" THEN dl' = [dl EXCEPT ![R.d].st = "up"] /\ rq' = rq
              ELSE dl' = [dl EXCEPT ![R.d].st = "failed"] /\ rq' = SetOut(dl[R.d].s, "dialfail")
           /\ UNCHANGED <<cl, nr, nd>>
(* A3: one dial-back stream per dial-back connection *)
BackWant == /\ R.e = "back_want" /\ dl[R.d].st = "up" /\ dl[R.d].wants = 0
            /\ dl' = [dl EXCEPT ![R.d].wants = 1] /\ UNCHANGED <<cl, rq, nr, nd>>
BackOpen == /\ R.e = "back_open" /\ dl[R.d].st = "up" /\ dl[R.d].wants = 1
            /\ IF R.r = "ok" THEN dl' = [dl EXCEPT ![R.d].st = "opened"] /\ rq' = rq
               ELSE /\ dl' = [dl EXCEPT ![R.d].st = "nostream"]
                    /\ rq' = SetOut(dl[R.d].s, IF R.r = "io" THEN "broken" ELSE "backfail")
            /\ UNCHANGED <<cl, nr, nd>>
DialBack == /\ R.e = "dialback" /\ dl[R.d].st = "opened" /\ dl[R.d].sent = 0
            /\ R.nonce = rq[dl[R.d].s].nonce
            /\ dl' = [dl EXCEPT ![R.d].sent = 1] /\ UNCHANGED <<cl, rq, nr, nd>>
BackResp == /\ R.e = "back_resp" /\ dl[R.d].st = "opened" /\ dl[R.d].sent = 1
            /\ dl' = [dl EXCEPT ![R.d].st = "answered"]
            /\ rq' = SetOut(dl[R.d].s, IF R.m = "ok" THEN "ok" ELSE "backfail")
            /\ UNCHANGED <<cl, nr, nd>>
BackClose == /\ R.e = "back_close" /\ dl[R.d].st \in {"up", "opened", "answered", "nostream"}
             /\ dl' = [dl EXCEPT ![R.d].st = "closed"] /\ rq' = SetOut(dl[R.d].s, "broken")
             /\ UNCHANGED <<cl, nr, nd>>

(* A4, A5 *)
RespGuard(x) ==
  /\ x.resp = 0 /\ cl[x.c].up
  /\ CASE R.status = 200 -> /\ x.dial >= 0 /\ R.idx = x.tidx /\ x.out # "none"
                            /\ ((R.ds = 200) <=> (x.out = "ok")) /\ ((R.ds = 100) <=> (x.out = "dialfail"))
                            /\ (R.ds = 101 => x.out \in {"backfail", "broken"}) /\ R.ds \in {100, 101, 200}
       [] R.status \in {100, 101} -> x.dial = -1 /\ R.ds = 0
       [] R.status = 0 -> R.ds = 0 /\ (x.first # "dial" \/ x.viol \/ x.out = "broken")
       [] OTHER -> FALSE
Resp == /\ R.e = "resp" /\ R.s < nr /\ RespGuard(rq[R.s]) = TRUE
        /\ rq' = [rq EXCEPT ![R.s].resp = 1] /\ UNCHANGED <<cl, dl, nr, nd>>

(* A6 *)
LocIs(loc, s, i) == IF rq[s].kinds[i + 1] = "obs" THEN loc.obsc = rq[s].c ELSE loc.s = s /\ loc.i = i
EventGuard(s) ==
  LET x == rq[s] IN
  /\ s < nr /\ x.ev = 0 /\ x.p = R.p
  /\ (R.ok => x.resp = 1)
  /\ IF x.first = "dial" /\ Len(x.kinds) > 0
     THEN /\ Len(R.all) = Len(x.kinds) /\ \A k \in 1..Len(x.kinds) : LocIs(R.all[k], s, k - 1)
          /\ (x.resp = 1 => R.ok)
          /\ \E i \in 0..(Len(x.kinds) - 1) : /\ LocIs(R, s, i)
                                              /\ (x.dial >= 0 => i = x.tidx) /\ (x.ridx >= 0 => i = x.ridx)
          /\ IF x.need = 0 THEN R.data = 0 ELSE R.data <= x.got /\ (x.dial >= 0 => R.data >= x.need)
     ELSE /\ x.dial = -1 /\ R.obsc = x.c /\ Len(R.all) = 0 /\ R.data = 0
Event == /\ R.e = "event"
         /\ \E s \in 0..(nr - 1) : EventGuard(s) = TRUE /\ rq' = [rq EXCEPT ![s].ev = 1]
         /\ UNCHANGED <<cl, dl, nr, nd>>

(* A4 at the end of a run (the driver has failed the pending dials and closed the dial-back connections) *)
Settled(x) == x.need = 0 \/ x.got >= x.need \/ x.viol
End == /\ R.e = "end"
       /\ (\A s \in 0..(nr - 1) : (rq[s].first = "dial" /\ cl[rq[s].c].up /\ Settled(rq[s])) => rq[s].resp = 1 /\ rq[s].ev = 1) = TRUE
       /\ UNCHANGED <<cl, rq, dl, nr, nd>>

Next == l <= NRec /\ l' = l + 1 /\
        (Reset \/ Conn \/ Close \/ Req \/ DataReq \/ Data \/ Dial \/ DialRes \/ BackWant \/ BackOpen \/ DialBack \/ BackResp
         \/ BackClose \/ Resp \/ Event \/ End)
Spec == Init /\ [][Next]_vars
Progress == Mark(l)
====
