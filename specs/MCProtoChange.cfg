CONSTANTS
  Names = {a, b, c}
  Bad = bad
  MaxLen = 3
  CountShortcut = FALSE
INIT Init
NEXT Next
INVARIANT FoldMatches
