CONSTANTS
  VerifySig = FALSE
  SamePrologue = TRUE
SPECIFICATION Spec
INVARIANT AuthOK
