---- MODULE Plaintext ----
(* C19 (plaintext): transcription of transports/plaintext/src/handshake.rs + Output::poll_read.
   The remote sends its Exchange (X wire units) immediately followed by application bytes; the
   transport delivers in arbitrary chunks; the handshake reads whatever is available into the
   Framed read buffer, decodes the Exchange once complete, checks it, and hands the rest of the
   read buffer over to the Output. *)
EXTENDS Naturals, Sequences
CONSTANTS X,          \* wire units of the Exchange message
          T,          \* application bytes the remote writes
          HandOver    \* TRUE = the code; FALSE = canary: read buffer dropped at the end of the handshake
VARIABLES flags,      \* [idMatches, keyOK, idOK] of the remote's Exchange
          written,    \* application bytes written by the remote so far (after its Exchange)
          fed,        \* wire units (Exchange + app bytes) the transport has made readable
          taken,      \* wire units pulled from the socket by the local side
          rbuf,       \* Framed read buffer / Output.read_buffer (app byte identities)
          hs,         \* "run" | "ok" | "err"
          delivered
vars == <<flags, written, fed, taken, rbuf, hs, delivered>>
Bool == {TRUE, FALSE}
Init == /\ flags \in [idMatches : Bool, keyOK : Bool, idOK : Bool]
        /\ written = 0 /\ fed = 0 /\ taken = 0 /\ rbuf = <<>> /\ hs = "run" /\ delivered = <<>>
RemoteWrite == hs # "err" /\ \E k \in 1..T : written + k <= T /\ written' = written + k /\ UNCHANGED <<flags, fed, taken, rbuf, hs, delivered>>
Feed == \E k \in 1..(X + T) : fed + k <= X + written /\ fed' = fed + k /\ UNCHANGED <<flags, written, taken, rbuf, hs, delivered>>
(* app byte identities contained in wire units a+1..b *)
App(a, b) == [j \in 1..(IF b > X THEN b - (IF a > X THEN a ELSE X) ELSE 0) |-> (IF a > X THEN a ELSE X) - X + j]
(* one poll of the handshake future: read all that is readable, decode if complete *)
HsPoll == /\ hs = "run" /\ fed > taken
          /\ taken' = fed
          /\ IF fed >= X
             THEN /\ hs' = IF flags.idMatches /\ flags.keyOK /\ flags.idOK THEN "ok" ELSE "err"
                  /\ rbuf' = IF HandOver THEN App(0, fed) ELSE <<>>
             ELSE UNCHANGED <<hs, rbuf>>
          /\ UNCHANGED <<flags, written, fed, delivered>>
(* Output::poll_read: buffered bytes first, then the socket *)
Read == /\ hs = "ok"
        /\ IF rbuf # <<>>
           THEN \E k \in 1..Len(rbuf) : delivered' = delivered \o SubSeq(rbuf, 1, k) /\ rbuf' = SubSeq(rbuf, k + 1, Len(rbuf)) /\ UNCHANGED taken
           ELSE /\ fed > taken /\ \E k \in 1..(fed - taken) : delivered' = delivered \o App(taken, taken + k) /\ taken' = taken + k
                /\ UNCHANGED rbuf
        /\ UNCHANGED <<flags, written, fed, hs>>
Next == RemoteWrite \/ Feed \/ HsPoll \/ Read
Spec == Init /\ [][Next]_vars
Good(s) == \A j \in 1..Len(s) : s[j] = j
Prefix == Good(delivered) /\ Len(delivered) <= written
Outcome == /\ (hs = "ok" => flags.idMatches /\ flags.keyOK /\ flags.idOK)
           /\ (hs = "err" => ~(flags.idMatches /\ flags.keyOK /\ flags.idOK))
Complete == (hs = "ok" /\ rbuf = <<>> /\ taken = X + written) => Len(delivered) = written
BS == INSTANCE ByteStream WITH Dirs <- {1}, MaxLen <- T, MaxChunk <- T,
        sent <- [d \in {1} |-> written], delivered <- [d \in {1} |-> delivered],
        status <- [d \in {1} |-> IF hs = "err" THEN "err" ELSE "open"]
Refines == BS!BSRef
====
