CONSTANTS
  InitC = {1, 2}
  RespC = {3}
  Max = 2
  MaxDials = 4
  RetryUnbounded = FALSE
  EarlyOk = FALSE
INIT Start
NEXT Next
INVARIANT AttemptsBounded
INVARIANT AtMostOneFinal
INVARIANT OkOnlyEstablished
INVARIANT Bookkeeping
INVARIANT OnePendingPerInit
INVARIANT NoWorkAfterFinal
INVARIANT RolesRight
