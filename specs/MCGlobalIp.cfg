CONSTANTS
  DropShared = FALSE
  WideLinkLocal = FALSE
  OldStd = FALSE
INIT Init
NEXT Next
INVARIANT CodeMatchesRegistry
