CONSTANTS
  List <- MCList
  Par = 2
  NoDecOnFailure = TRUE
INIT Init
NEXT Next
INVARIANT CounterExact
INVARIANT Bound
INVARIANT FinishedMeansDone
INVARIANT StuckFree
PROPERTY IssueBelowPar
