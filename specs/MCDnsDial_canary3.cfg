CONSTANTS
  NamesN = 1
  HostsN = 1
  Ips = 1
  MaxLookups = 3
  MaxAttempts = 2
  MaxTxt = 2
  WithForeign = FALSE
  LookupOffByOne = FALSE
  NoSuffixFilter = FALSE
  EmptyPanics = TRUE
INIT Init
NEXT Next
INVARIANT Bounded OnlyResolved SuffixOK NoPanic
