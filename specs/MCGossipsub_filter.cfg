SPECIFICATION Spec
CONSTANTS
  Peers = {p1, p2}
  Explicit = {}
  Flood = {p2}
  Topics = {t1, t2}
  Allowed = {t1}
  MaxSubs = 1
  MeshLow = 1
  MeshN = 2
  MeshHigh = 2
  MaxConns = 1
  PerTopicNotify = FALSE
  FanoutReplace = FALSE
  GraftSkipsFilter = FALSE
  GraftIgnoresKind = FALSE
INVARIANT MeshEligible
INVARIANT HandlerView
INVARIANT HandlersOfOpenConns
INVARIANT FilterBound
PROPERTY AddedOnlyIfEligible
PROPERTY GraftRespectsHigh
PROPERTY FanoutKept
