---- MODULE RelKadRecord ----
(* C42 relation over records produced by the REAL code (driver: drv-kad record lifetimes). All instants are microsecond
   offsets from an instant t0 taken just before the call; t1 = offset of an instant taken just after (rounded up), so
   "now + ttl" as computed inside the call is at most t1 + ttl.
     merge : inbound PutRecord carrying expiry rexp (rhas) under record_ttl = ttl (thas): the stored record (stored, shas,
             sexp) or, with StoreInserts::FilterBoth, the record handed to the application (ehas_rec, ehas, eexp)
     wire  : record with rem microseconds left encoded by record_to_proto -> wttl (seconds; 0 = does not expire)
     dec   : wire ttl wttl decoded by record_from_proto -> expiry eexp *)
EXTENDS TraceIO, Integers
VARIABLE x
S == 1000000
Lifetime(r, has, exp) == /\ has => (r.rhas => exp <= r.rexp) /\ (r.thas => exp <= r.t1 + r.ttl)
                         /\ ~has => ~r.rhas /\ ~r.thas
Merge(r) == /\ r.stored => Lifetime(r, r.shas, r.sexp)
            /\ r.ehas_rec => Lifetime(r, r.ehas, r.eexp)
            /\ r.filt => ~r.stored
            \* a live record from a peer is stored (or, filtered, handed to the application); only asserted where the
            \* configured TTL cannot have shrunk to zero (whole seconds, halved per node beyond k: nb = 0, ttl >= 1 s)
            /\ LET live == (~r.rhas \/ r.rexp > r.t1) /\ (~r.thas \/ (r.nb = 0 /\ r.ttl >= S)) IN
               /\ (~r.filt /\ live) => r.stored
               /\ (r.filt /\ live) => r.ehas_rec
Wire(r) == /\ ~r.rhas => r.wttl = 0
           /\ r.rhas => r.wttl >= 1 /\ (r.wttl = 1 \/ (r.wttl <= 2000 /\ r.wttl * S <= r.rem + (S - 1)))
Dec(r) == /\ r.ok
          /\ r.wttl = 0 => ~r.ehas
          /\ r.wttl > 0 => r.ehas /\ r.eexp <= r.t1 + r.wttl * S
Post(r) == ~Has(r, "panic") /\ (IF r.m = "merge" THEN Merge(r) ELSE IF r.m = "wire" THEN Wire(r) ELSE r.m = "dec" /\ Dec(r))
Why(r) == IF Has(r, "panic") THEN "panic" ELSE IF r.m = "merge" THEN "stored expiry exceeds the peer's / the configured one, or lost"
          ELSE IF r.m = "wire" THEN "wire ttl: expiring record encoded as non-expiring, or lifetime extended" ELSE "decoded expiry"
ASSUME PrintT(<<"CHECKED", ToJson([n |-> NRec])>>)
ASSUME \A i \in 1..NRec : Post(Rec[i]) \/ PrintT(<<"BAD", ToJson([line |-> i, why |-> Why(Rec[i])])>>)
Init == x = 0
Next == FALSE /\ x' = x
====
