---- MODULE TraceMplexFraming ----
(* C25 trace validation (property level).  A run feeds the byte stream described by the `reset`
   line (frame descriptors with byte offsets; `bad` = "" | "big" (declared length > 1 MiB) |
   "type" (unknown frame type 7)) to the REAL mplex decoder in the recorded chunks.
   The statement, as guards:
     out   only the next expected frame, only once all its bytes were fed, equal to the encoded
           frame with the role mirrored (Open frames carry no role: the remote is the dialer);
     none  only while the next frame is incomplete - and for an oversize frame only while its
           header (id/type varint + length varint) is incomplete: it must be rejected BEFORE any
           payload byte is needed;
     err   only at a bad frame (never a spurious error), not before its first byte was fed;
     enc   the real encoder accepts exactly payloads <= 1 MiB and emits header + payload bytes.
   Garbage runs (arbitrary bytes): any sequence of out/none/err is fine (a `panic` line matches
   nothing), but an emitted frame can never carry more than 1 MiB. *)
EXTENDS TraceIO
VARIABLES l, fr, got, fed, st, garbage, total
vars == <<l, fr, got, fed, st, garbage, total>>
R == Rec[l]
MaxFrame == 1048576
Flip(r) == IF r = "D" THEN "L" ELSE "D"
Init == l = 1 /\ fr = <<>> /\ got = 0 /\ fed = 0 /\ st = "ok" /\ garbage = FALSE /\ total = 0 /\ InitReg
Reset == /\ R.e = "reset" /\ fr' = R.frames /\ got' = 0 /\ fed' = 0 /\ st' = "ok"
         /\ garbage' = R.garbage /\ total' = R.total
         /\ R.max = MaxFrame
Enc == /\ R.e = "enc" /\ UNCHANGED <<fr, got, fed, st, garbage, total>>
       /\ IF R.res = "ok" THEN /\ R.i <= Len(fr) /\ fr[R.i].len <= MaxFrame
                               /\ R.n = fr[R.i].end - fr[R.i].start
                               /\ R.n = (fr[R.i].hend - fr[R.i].start) + fr[R.i].len
                               /\ fr[R.i].hend - fr[R.i].start \in 2..14
          ELSE R.n > MaxFrame                  \* refused: only an oversize payload
Feed == /\ R.e = "feed" /\ R.n >= 1 /\ fed' = fed + R.n /\ fed' <= total
        /\ UNCHANGED <<fr, got, st, garbage, total>>
HasNext == got < Len(fr)
Nx == fr[got + 1]
Out == /\ R.e = "out" /\ st = "ok"
       /\ IF garbage THEN R.len <= MaxFrame /\ UNCHANGED got
          ELSE /\ HasNext /\ Nx.bad = "" /\ Nx.complete /\ fed >= Nx.end
               /\ R.k = Nx.k /\ R.num = Nx.num
               /\ R.rrole = Nx.role /\ R.lrole = Flip(Nx.role)
               /\ R.len = (IF Nx.k = "Data" THEN Nx.len ELSE 0) /\ R.fp = Nx.fp
               /\ got' = got + 1
       /\ UNCHANGED <<fr, fed, st, garbage, total>>
NoneOk == IF garbage \/ ~HasNext THEN TRUE
          ELSE IF Nx.bad = "big" THEN fed < Nx.hend
          ELSE fed < Nx.end \/ ~Nx.complete
None == /\ R.e = "none" /\ st = "ok" /\ NoneOk
        /\ UNCHANGED <<fr, got, fed, st, garbage, total>>
ErrOk == IF garbage THEN TRUE ELSE IF ~HasNext THEN FALSE ELSE Nx.bad # "" /\ fed > Nx.start
Err == /\ R.e = "err" /\ st = "ok" /\ st' = "err" /\ ErrOk
       /\ UNCHANGED <<fr, got, fed, garbage, total>>
Post == R.e = "post" /\ st = "err" /\ UNCHANGED <<fr, got, fed, st, garbage, total>>
End == /\ R.e = "end" /\ R.fed = fed /\ (st = "ok" => fed = total)
       /\ UNCHANGED <<fr, got, fed, st, garbage, total>>
Next == l <= NRec /\ l' = l + 1 /\ (Reset \/ Enc \/ Feed \/ Out \/ None \/ Err \/ Post \/ End)
Spec == Init /\ [][Next]_vars
Progress == Mark(l)
====
