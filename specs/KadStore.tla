---- MODULE KadStore ----
(* MemoryStore (protocols/kad/src/record/store/memory.rs), implementation-shaped: `records` map, per-key provider
   lists (SmallVec, insertion order), and the separately maintained `provided` set of the local node's provider
   records. Ghost variable `last` = what a plain map would hold. C41. *)
EXTENDS Naturals, Sequences, FiniteSets, TLC
CONSTANTS Keys, Provs, Local, Tags, Sizes, MaxRecords, MaxValue, MaxProviders, MaxProvKeys,
          SkipProvidedOnReplace,   \* canary: in-place update of the local node's record leaves `provided` stale
          SizeGt                   \* canary: value-size test uses > instead of >=
None == <<>>
VARIABLES records,    \* key -> None | <<size, tag>>
          providers,  \* key -> sequence of <<provider, tag>>     (key absent from the map = empty sequence)
          provided,   \* set of <<key, tag>>
          last        \* ghost: key -> None | <<size, tag>>  (latest accepted put, None after remove)
vars == <<records, providers, provided, last>>
Init == records = [k \in Keys |-> None] /\ providers = [k \in Keys |-> <<>>] /\ provided = {} /\ last = [k \in Keys |-> None]
NumRecords == Cardinality({k \in Keys : records[k] # None})
NumProvKeys == Cardinality({k \in Keys : providers[k] # <<>>})
TooLarge(sz) == IF SizeGt THEN sz > MaxValue ELSE sz >= MaxValue
Put(k, sz, tg) ==
  /\ IF TooLarge(sz) THEN UNCHANGED <<records, last>>
     ELSE IF records[k] = None /\ NumRecords >= MaxRecords THEN UNCHANGED <<records, last>>
     ELSE records' = [records EXCEPT ![k] = <<sz, tg>>] /\ last' = [last EXCEPT ![k] = <<sz, tg>>]
  /\ UNCHANGED <<providers, provided>>
Remove(k) == records' = [records EXCEPT ![k] = None] /\ last' = [last EXCEPT ![k] = None] /\ UNCHANGED <<providers, provided>>
PosOf(s, p) == IF \E i \in 1..Len(s) : s[i][1] = p THEN CHOOSE i \in 1..Len(s) : s[i][1] = p ELSE 0
AddProvider(k, p, tg) ==
  /\ UNCHANGED <<records, last>>
  /\ IF providers[k] = <<>> /\ NumProvKeys = MaxProvKeys THEN UNCHANGED <<providers, provided>>
     ELSE LET s == providers[k]  i == PosOf(s, p) IN
          IF i > 0 THEN /\ providers' = [providers EXCEPT ![k] = [s EXCEPT ![i] = <<p, tg>>]]
                        /\ provided' = IF p = Local /\ ~SkipProvidedOnReplace THEN (provided \ {<<k, s[i][2]>>}) \cup {<<k, tg>>} ELSE provided
          ELSE IF Len(s) = MaxProviders THEN UNCHANGED <<providers, provided>>
          ELSE /\ providers' = [providers EXCEPT ![k] = Append(s, <<p, tg>>)]
               /\ provided' = IF p = Local THEN provided \cup {<<k, tg>>} ELSE provided
RemoveProvider(k, p) ==
  /\ UNCHANGED <<records, last>>
  /\ LET s == providers[k]  i == PosOf(s, p) IN
     IF i = 0 THEN UNCHANGED <<providers, provided>>
     ELSE /\ providers' = [providers EXCEPT ![k] = SubSeq(s, 1, i - 1) \o SubSeq(s, i + 1, Len(s))]
          /\ provided' = IF p = Local THEN provided \ {<<k, s[i][2]>>} ELSE provided
Next == \/ \E k \in Keys, sz \in Sizes, tg \in Tags : Put(k, sz, tg)
        \/ \E k \in Keys : Remove(k)
        \/ \E k \in Keys, p \in Provs, tg \in Tags : AddProvider(k, p, tg)
        \/ \E k \in Keys, p \in Provs : RemoveProvider(k, p)
Spec == Init /\ [][Next]_vars
(* ---- C41 ---- *)
MapLike == records = last                                                   \* put replaces, get = latest put, remove deletes
Bounded == NumRecords <= MaxRecords /\ \A k \in Keys : records[k] # None => records[k][1] < MaxValue
ProvidersBounded == \A k \in Keys : /\ Len(providers[k]) <= MaxProviders
                                    /\ \A i, j \in 1..Len(providers[k]) : i # j => providers[k][i][1] # providers[k][j][1]
ProvidedInSync == provided = {<<k, providers[k][i][2]>> : <<k, i>> \in {<<k2, i2>> \in Keys \X (1..MaxProviders) : i2 <= Len(providers[k2]) /\ providers[k2][i2][1] = Local}}
====
