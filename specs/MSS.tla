---- MODULE MSS ----
(* multistream-select negotiation at message granularity (dialer_select.rs, listener_select.rs, negotiated.rs),
   grown from the design prototype (DESIGN.md Appendix F): every dialer list up to MaxLen, every listener set
   and both versions are explored from the initial states.  The lazy dialer settles optimistically on its LAST
   protocol.  Byte-level chunking of the frames is exercised on the real code by the C14 driver. *)
EXTENDS Naturals, Sequences, FiniteSets, TLC
CONSTANTS Protos,      \* protocol alphabet
          MaxLen,      \* dialer lists of length 0..MaxLen over Protos (all explored from the initial states)
          NData,       \* application chunks each side writes once it holds a Negotiated stream
          SetLastNa    \* TRUE: the code (listener remembers that it just sent `na`); FALSE: canary
VARIABLES PD,          \* dialer's protocol list (sequence, may be empty)   - chosen in Init, never changes
          PL,          \* set of protocols the listener supports           - chosen in Init
          Lazy         \* TRUE = Version::V1Lazy                             - chosen in Init
VARIABLES d,           \* dialer control state
          di,          \* index into PD of the proposal in flight
          dbuf,        \* dialer's unflushed negotiation frames
          dres,        \* "none" | Ok(p) | "failed" | "error"
          l, lres, lastNa,
          cDL, cLD,    \* channels (sequences of messages), dialer->listener and listener->dialer
          dW, lW,      \* number of app chunks written so far by dialer / listener
          dR, lR       \* app chunks read so far (sequences) by dialer / listener
vars == <<d, di, dbuf, dres, l, lres, lastNa, cDL, cLD, dW, lW, dR, lR>>
cfg == <<PD, PL, Lazy>>
R(k) == [k |-> k, p |-> "-"]
Ok(p) == [k |-> "ok", p |-> p]
Hdr == <<"hdr">>   Na == <<"na">>   P(p) == <<"proto", p>>   Data(n) == <<"data", n>>

Lists == UNION {[1..n -> Protos] : n \in 0..MaxLen}
Init == /\ PD \in Lists /\ PL \in SUBSET Protos /\ Lazy \in BOOLEAN
        /\ d = "SendHeader" /\ di = 0 /\ dbuf = <<>> /\ dres = R("none")
        /\ l = "RecvHeader" /\ lres = R("none") /\ lastNa = FALSE
        /\ cDL = <<>> /\ cLD = <<>> /\ dW = 0 /\ lW = 0 /\ dR = <<>> /\ lR = <<>>

(* ---------------- dialer ---------------- *)
DSendHeader == /\ d = "SendHeader"
               /\ IF Len(PD) = 0 THEN d' = "Done" /\ dres' = R("failed") /\ UNCHANGED <<di, dbuf>>
                  ELSE d' = "SendProtocol" /\ di' = 1 /\ dbuf' = Append(dbuf, Hdr) /\ UNCHANGED dres
               /\ UNCHANGED <<l, lres, lastNa, cDL, cLD, dW, lW, dR, lR>>
DSendProtocol == /\ d = "SendProtocol"
                 /\ dbuf' = Append(dbuf, P(PD[di]))
                 /\ IF di < Len(PD) \/ ~Lazy THEN d' = "Flush" /\ UNCHANGED dres
                    ELSE d' = "Expecting" /\ dres' = Ok(PD[di])          \* optimistic: Negotiated::expecting, frames still unflushed
                 /\ UNCHANGED <<di, l, lres, lastNa, cDL, cLD, dW, lW, dR, lR>>
DFlush == /\ d = "Flush" /\ cDL' = cDL \o dbuf /\ dbuf' = <<>> /\ d' = "Await"
          /\ UNCHANGED <<di, dres, l, lres, lastNa, cLD, dW, lW, dR, lR>>
DAwait == /\ d = "Await" /\ cLD # <<>>
          /\ LET m == Head(cLD) IN
             /\ cLD' = Tail(cLD)
             /\ IF m = Hdr THEN UNCHANGED <<d, di, dres>>
                ELSE IF m = P(PD[di]) THEN d' = "Completed" /\ dres' = Ok(PD[di]) /\ UNCHANGED di
                ELSE IF m = Na THEN (IF di < Len(PD) THEN d' = "SendProtocol" /\ di' = di + 1 /\ UNCHANGED dres
                                     ELSE d' = "Done" /\ dres' = R("failed") /\ UNCHANGED di)
                ELSE d' = "Done" /\ dres' = R("error") /\ UNCHANGED di
          /\ UNCHANGED <<dbuf, l, lres, lastNa, cDL, dW, lW, dR, lR>>
DAwaitEof == /\ d = "Await" /\ cLD = <<>> /\ l = "Done" /\ lres.k \in {"failed", "error"}     \* listener dropped the stream
             /\ d' = "Done" /\ dres' = R("failed") /\ UNCHANGED <<di, dbuf, l, lres, lastNa, cDL, cLD, dW, lW, dR, lR>>
(* application I/O on the dialer's Negotiated stream *)
DWrite == /\ d \in {"Expecting", "Completed"} /\ dW < NData
          /\ cDL' = cDL \o dbuf \o <<Data(dW + 1)>> /\ dbuf' = <<>> /\ dW' = dW + 1      \* pending negotiation frames go out first
          /\ UNCHANGED <<d, di, dres, l, lres, lastNa, cLD, dR, lW, lR>>
DRead == /\ d \in {"Expecting", "Completed"}
         /\ IF d = "Expecting"
            THEN /\ cDL' = cDL \o dbuf /\ dbuf' = <<>>                                   \* reading flushes, then drives the negotiation
                 /\ IF cLD = <<>> THEN UNCHANGED <<d, dres, cLD, dR>>
                    ELSE LET m == Head(cLD) IN
                         /\ cLD' = Tail(cLD) /\ UNCHANGED dR
                         /\ IF m = Hdr THEN UNCHANGED <<d, dres>>
                            ELSE IF m = P(PD[di]) THEN d' = "Completed" /\ UNCHANGED dres
                            ELSE d' = "Done" /\ dres' = R("failed")                          \* learns of the failure on this read
            ELSE /\ cLD # <<>> /\ Head(cLD)[1] = "data"
                 /\ dR' = Append(dR, Head(cLD)[2]) /\ cLD' = Tail(cLD) /\ UNCHANGED <<d, dres, cDL, dbuf>>
         /\ UNCHANGED <<di, l, lres, lastNa, dW, lW, lR>>

(* ---------------- listener ---------------- *)
LStep == /\ l \in {"RecvHeader", "RecvMessage"} /\ cDL # <<>>
         /\ LET m == Head(cDL) IN
            /\ cDL' = Tail(cDL)
            /\ IF l = "RecvHeader"
               THEN IF m = Hdr THEN l' = "RecvMessage" /\ cLD' = Append(cLD, Hdr) /\ UNCHANGED <<lres, lastNa>>
                    ELSE l' = "Done" /\ lres' = R("error") /\ UNCHANGED <<cLD, lastNa>>
               ELSE IF m[1] = "proto"
                    THEN IF m[2] \in PL THEN l' = "Completed" /\ lres' = Ok(m[2]) /\ cLD' = Append(cLD, m) /\ lastNa' = FALSE
                         ELSE cLD' = Append(cLD, Na) /\ lastNa' = SetLastNa /\ UNCHANGED <<l, lres>>
                    ELSE l' = "Done" /\ lres' = (IF lastNa THEN R("failed") ELSE R("error")) /\ UNCHANGED <<cLD, lastNa>>   \* garbage (e.g. early app data)
         /\ UNCHANGED <<d, di, dbuf, dres, dW, lW, dR, lR>>
LEof == /\ l \in {"RecvHeader", "RecvMessage"} /\ cDL = <<>> /\ dbuf = <<>> /\ d = "Done"       \* dialer gave up and dropped the stream
        /\ l' = "Done" /\ lres' = R("failed") /\ UNCHANGED <<d, di, dbuf, dres, lastNa, cDL, cLD, dW, lW, dR, lR>>
LWrite == /\ l = "Completed" /\ lW < NData /\ cLD' = Append(cLD, Data(lW + 1)) /\ lW' = lW + 1
          /\ UNCHANGED <<d, di, dbuf, dres, l, lres, lastNa, cDL, dW, dR, lR>>
LRead == /\ l = "Completed" /\ cDL # <<>> /\ Head(cDL)[1] = "data"
         /\ lR' = Append(lR, Head(cDL)[2]) /\ cDL' = Tail(cDL)
         /\ UNCHANGED <<d, di, dbuf, dres, l, lres, lastNa, cLD, dW, lW, dR>>

Step == DSendHeader \/ DSendProtocol \/ DFlush \/ DAwait \/ DAwaitEof \/ DWrite \/ DRead \/ LStep \/ LEof \/ LWrite \/ LRead
Next == Step /\ UNCHANGED cfg
Spec == Init /\ [][Next]_<<vars, cfg>> /\ WF_vars(Next)

(* ---------------- properties ---------------- *)
Common == {i \in 1..Len(PD) : PD[i] \in PL}
First == IF Common = {} THEN "none" ELSE PD[CHOOSE i \in Common : \A j \in Common : i <= j]
Agreement == /\ lres.k = "ok" => lres = Ok(First)
             /\ (d = "Completed") => dres = Ok(First)
NoneInCommon == First = "none" => /\ lres.k \in {"none", "failed"}                               \* never a protocol error, never a success
                                 /\ d # "Completed"
                                 /\ (~Lazy => dres.k \in {"none", "failed"})
Seq1(n) == [i \in 1..n |-> i]
Prefix(a, b) == Len(a) <= Len(b) /\ \A i \in 1..Len(a) : a[i] = b[i]
Transparent == Prefix(lR, Seq1(dW)) /\ Prefix(dR, Seq1(lW))
Quiescent == ~ENABLED Next
Complete == Quiescent => /\ (First # "none" => (lres = Ok(First) /\ (d = "Completed" \/ (Lazy /\ d = "Expecting" /\ cLD # <<>>)) ))
                         /\ (d = "Completed" /\ l = "Completed" => lR = Seq1(dW))
====
