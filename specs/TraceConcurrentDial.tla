---- MODULE TraceConcurrentDial ----
(* C08 property-level trace spec: one dial over n distinct addresses (0..n-1) with factor k.
   cdial    - Swarm::dial returned; `dialed` = addresses handed to Transport::dial
   sample   - after a command: attempts in flight (future polled, not completed/dropped), started, #transport calls
   complete - the driver resolved attempt `slot` (ok / error); applied = the future was still open
   result   - ConnectionEstablished{address, concurrent_dial_errors} or OutgoingConnectionError{Transport(errors)} *)
EXTENDS TraceIO, FiniteSets, Integers
VARIABLES l, n, k, okSet, failSet, result
vars == <<l, n, k, okSet, failSet, result>>
R == Rec[l]
SeqToSet(s) == {s[i] : i \in 1..Len(s)}
NoDup(s) == Len(s) = Cardinality(SeqToSet(s))
Addrs == 0..(n - 1)
Init == l = 1 /\ n = 0 /\ k = 1 /\ okSet = {} /\ failSet = {} /\ result = "none" /\ InitReg
Reset == R.e = "reset" /\ n' = R.n /\ k' = R.k /\ okSet' = {} /\ failSet' = {} /\ result' = "none"
CDial == /\ R.e = "cdial" /\ R.res = "ok"
         /\ NoDup(R.dialed) /\ SeqToSet(R.dialed) = Addrs             \* every address handed to the transport exactly once
         /\ UNCHANGED <<n, k, okSet, failSet, result>>
Sample == /\ R.e = "sample"
          /\ Len(R.inflight) <= k                                      \* at most k transport dials in flight
          /\ SeqToSet(R.started) \subseteq Addrs /\ NoDup(R.started)
          /\ R.ncalls = n                                              \* no address is dialed a second time later on
          /\ UNCHANGED <<n, k, okSet, failSet, result>>
Complete == /\ R.e = "complete"
            /\ okSet' = IF R.applied /\ R.ok THEN okSet \cup {R.slot} ELSE okSet
            /\ failSet' = IF R.applied /\ ~R.ok THEN failSet \cup {R.slot} ELSE failSet
            /\ UNCHANGED <<n, k, result>>
Result == /\ R.e = "result" /\ result = "none"                         \* exactly one outcome
          /\ NoDup(R.errors)
          /\ IF R.ok THEN /\ R.addr \in okSet                          \* success only through an address that succeeded
                          /\ SeqToSet(R.errors) \subseteq failSet
                          /\ result' = "ok"
             ELSE /\ R.err = "Transport"
                  /\ SeqToSet(R.errors) = Addrs                        \* every attempted address exactly once in the errors
                  /\ failSet = Addrs /\ okSet = {}
                  /\ result' = "failed"
          /\ UNCHANGED <<n, k, okSet, failSet>>
End == /\ R.e = "end"
       /\ (okSet # {} => result = "ok") /\ (okSet = {} => result = "failed")   \* succeeds iff an attempted address succeeds
       /\ UNCHANGED <<n, k, okSet, failSet, result>>
Next == l <= NRec /\ l' = l + 1 /\ (Reset \/ CDial \/ Sample \/ Complete \/ Result \/ End)
Progress == Mark(l)
====
