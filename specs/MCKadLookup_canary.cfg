CONSTANTS
  N = 5
  Par = 2
  NumRes = 2
  PeerTimeout = 2
  MaxTime = 3
  Seeds = {3, 5}
  CapGt = TRUE
INIT Init
NEXT Next
INVARIANT CounterExact
INVARIANT InFlightBound
INVARIANT NoCloserLeft
INVARIANT FinishedOnlyWhenDone
INVARIANT StuckFree
INVARIANT AllTimedOutFinishes
PROPERTY IssueWithinCapacity
PROPERTY IterBound
