CONSTANTS
  Protos = {"a", "b", "c"}
  MaxLen = 3
  NData = 2
  SetLastNa = TRUE
INIT Init
NEXT Next
INVARIANT Agreement NoneInCommon Transparent Complete
