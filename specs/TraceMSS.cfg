INIT Init
NEXT Next
INVARIANT Agreement
CONSTRAINT Progress
POSTCONDITION Accepted
