---- MODULE KadFixed ----
(* FixedPeersIter (protocols/kad/src/query/peers/fixed.rs): a fixed list of peers (duplicates possible) handed out with
   bounded parallelism. C39 (fixed iterator). *)
EXTENDS Naturals, Sequences, FiniteSets, TLC
CONSTANTS List,      \* the peer list, e.g. <<1, 2, 1, 3>>  (MCKadFixed.tla)
          Par,
          NoDecOnFailure   \* canary: on_failure forgets to decrement num_waiting (iterator gets stuck at capacity)
Peers == {List[i] : i \in 1..Len(List)}
VARIABLES rest,    \* backlog still to emit
          st,      \* peer -> "none" | "Waiting" | "Failed" | "Succeeded"
          nw, mode, last
vars == <<rest, st, nw, mode, last>>
Init == rest = List /\ st = [p \in Peers |-> "none"] /\ nw = 0 /\ mode = "Waiting" /\ last = "none"
RECURSIVE Skip(_)
Skip(s) == IF s # <<>> /\ st[Head(s)] # "none" THEN Skip(Tail(s)) ELSE s      \* duplicates are skipped
CallNext ==
  /\ mode = "Waiting"
  /\ IF nw >= Par THEN last' = "capacity" /\ UNCHANGED <<rest, st, nw, mode>>
     ELSE LET s == Skip(rest) IN
          IF s = <<>> THEN /\ rest' = <<>> /\ UNCHANGED <<st, nw>>
                           /\ IF nw = 0 THEN mode' = "Finished" /\ last' = "finished" ELSE mode' = mode /\ last' = "waiting"
          ELSE /\ rest' = Tail(s) /\ st' = [st EXCEPT ![Head(s)] = "Waiting"] /\ nw' = nw + 1 /\ last' = "issue" /\ UNCHANGED mode
Answer(p, ok) ==
  /\ mode = "Waiting" /\ st[p] = "Waiting"
  /\ st' = [st EXCEPT ![p] = IF ok THEN "Succeeded" ELSE "Failed"]
  /\ nw' = IF ~ok /\ NoDecOnFailure THEN nw ELSE nw - 1
  /\ last' = "none" /\ UNCHANGED <<rest, mode>>
Next == CallNext \/ \E p \in Peers, ok \in BOOLEAN : Answer(p, ok)
Spec == Init /\ [][Next]_vars
CounterExact == nw = Cardinality({p \in Peers : st[p] = "Waiting"})
Bound == nw <= Par
IssueBelowPar == [][last' = "issue" => nw < Par]_vars
EachOnce == \A p \in Peers : st[p] # "none" => TRUE
FinishedMeansDone == mode = "Finished" => rest = <<>> /\ \A p \in Peers : st[p] \in {"Failed", "Succeeded"}
(* termination: when nothing is in flight, a call either hands out a peer or finishes *)
StuckFree == (mode = "Waiting" /\ \A p \in Peers : st[p] # "Waiting") => (nw < Par)
====
