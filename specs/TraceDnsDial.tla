---- MODULE TraceDnsDial ----
(* C23 trace validation (property level, REAL limits 32 / 16).  One run = one dial.  Rebuilt from the events:
     lookups   number of resolver calls, accepted = number of dials the inner transport accepted
     W         the set of addresses legally derivable from the dialed address with the answers the resolver
               has served so far (ground truth logged by the scripted resolver itself):
                 /dns,/dns4,/dns6 component  -> replaced by a served IP of the right family
                 /dnsaddr component          -> prefix ++ a, for a served TXT address a that ENDS WITH the
                                                remaining suffix of the address being resolved
   The statement forbids: more than 32 lookups; more than 16 accepted inner dials; handing the inner transport an
   address that still has a DNS component or that is not in W (unresolved / foreign / suffix-less); a panic (no
   action for `panic`); a run without `done`.  Order, selection and number of dials are otherwise free. *)
EXTENDS TraceIO, FiniteSets
VARIABLES l, W, lookups, accepted, open, err
vars == <<l, W, lookups, accepted, open, err>>
MaxLookups == 32
MaxAttempts == 16
DnsKinds == {"dns", "dns4", "dns6", "dnsaddr"}
Init == l = 1 /\ W = {} /\ lookups = 0 /\ accepted = 0 /\ open = FALSE /\ err = "ok" /\ InitReg
R == Rec[l]
SetOf(q) == {q[i] : i \in 1..Len(q)}
(* index of the first DNS component, 0 if none *)
FirstDns(a) == IF \E i \in 1..Len(a) : a[i][1] \in DnsKinds
               THEN CHOOSE i \in 1..Len(a) : a[i][1] \in DnsKinds /\ \A j \in 1..(i - 1) : a[j][1] \notin DnsKinds
               ELSE 0
EndsWith(a, s) == Len(a) >= Len(s) /\ SubSeq(a, Len(a) - Len(s) + 1, Len(a)) = s
KindOf(t) == CASE t = "ip" -> "dns" [] t = "a" -> "dns4" [] t = "aaaa" -> "dns6" [] t = "txt" -> "dnsaddr"
Fam(t) == CASE t = "ip" -> {"ip4", "ip6"} [] t = "a" -> {"ip4"} [] t = "aaaa" -> {"ip6"} [] OTHER -> {}
(* addresses derivable from w by one resolution of its first DNS component with the answer in record r *)
Expand(w, r) ==
  LET i == FirstDns(w) IN
  IF i = 0 \/ w[i][1] # KindOf(r.t) \/ w[i][2] # r.n THEN {}
  ELSE LET pre == SubSeq(w, 1, i - 1) suf == SubSeq(w, i + 1, Len(w)) IN
       IF r.t = "txt" THEN {pre \o a : a \in {x \in SetOf(r.txts) : EndsWith(x, suf)}}
       ELSE {pre \o <<ip>> \o suf : ip \in {x \in SetOf(r.ips) : x[1] \in Fam(r.t)}}
Reset == /\ R.e = "reset" /\ ~open
         /\ W' = {R.sched.dial} /\ lookups' = 0 /\ accepted' = 0 /\ open' = TRUE /\ err' = "ok"
Lookup == /\ R.e = "lookup" /\ open
          /\ lookups' = lookups + 1
          /\ W' = W \cup UNION {Expand(w, R) : w \in W}
          /\ err' = IF lookups + 1 > MaxLookups THEN "LookupBound" ELSE "ok"
          /\ UNCHANGED <<accepted, open>>
InnerDial == /\ R.e = "innerDial" /\ open
             /\ accepted' = IF R.res = "accepted" THEN accepted + 1 ELSE accepted
             /\ err' = IF FirstDns(R.addr) # 0 THEN "NoDnsLeak"
                       ELSE IF R.addr \notin W THEN "OnlyResolvedSuffixed"
                       ELSE IF accepted' > MaxAttempts THEN "AttemptBound" ELSE "ok"
             /\ UNCHANGED <<W, lookups, open>>
Done == /\ R.e = "done" /\ open /\ R.res \in {"ok", "err"}
        /\ open' = FALSE /\ err' = "ok" /\ UNCHANGED <<W, lookups, accepted>>
Next == l <= NRec /\ l' = l + 1 /\ (Reset \/ Lookup \/ InnerDial \/ Done)
Spec == Init /\ [][Next]_vars
LookupBound == err # "LookupBound"
AttemptBound == err # "AttemptBound"
NoDnsLeak == err # "NoDnsLeak"
OnlyResolvedSuffixed == err # "OnlyResolvedSuffixed"
Progress == Mark(l)
====
