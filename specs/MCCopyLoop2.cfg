CONSTANTS
  N = 3
  Buf = 1
  Max = 1
  W = 2
  CountBoth = TRUE
SPECIFICATION Spec
INVARIANT Prefix Bound OkComplete ErrJustified StalledWithin EofAfterAll
PROPERTY Refines
