CONSTANTS
  Streams = {0, 1}
  Paired = TRUE
  MaxOps = 4
  MaxWire = 2
  BarrierBug = FALSE
  ResetLoose = FALSE
  LoseFlagInClosing = FALSE
  LocalOps = {"read", "read1", "write", "bigwrite", "flush", "close", "close_read", "drop"}
  EnvOps = {"eof", "block", "unblock"}
  Frames = {"data", "big", "fin", "stop", "reset"}
INIT GInit
NEXT GNext
VIEW GView
CONSTRAINT WireBound
ACTION_CONSTRAINT EmitEdge
