CONSTANTS
  ForgetDenied = TRUE
  Reqs = {1, 2, 3}
  Conns = {1, 2, 3}
  Inb = {1, 2}
INIT Init
NEXT Next
INVARIANT AtMostOnce
INVARIANT OnlyForSent
INVARIANT ExactlyOnceAtQuiescence
INVARIANT TrackedWhileOwned
