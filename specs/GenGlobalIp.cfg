INIT Init
NEXT Next
