INIT Init
NEXT Next
INVARIANT WindowInv
CONSTRAINT Progress
POSTCONDITION Accepted
