CONSTANTS
  Limit = 2
  NFrames = 2
  Lens = {0, 1, 2, 3}
  Types = {0, 1, 4, 7}
  EarlyCheck = FALSE
INIT Init
NEXT Next
INVARIANT TypeOK OutIsPrefix NoSpuriousError RoundTrip RejectBeforeBuffering BoundedBuffer UnknownTypeRejected
