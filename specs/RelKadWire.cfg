INIT Init
NEXT Next
