CONSTANTS
  NamesN = 2
  HostsN = 1
  Ips = 1
  MaxLookups = 3
  MaxAttempts = 2
  MaxTxt = 2
  WithForeign = TRUE
  LookupOffByOne = FALSE
  NoSuffixFilter = FALSE
  EmptyPanics = FALSE
SPECIFICATION Spec
INVARIANT Bounded OnlyResolved SuffixOK NoPanic
PROPERTY Terminates
