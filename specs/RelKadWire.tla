---- MODULE RelKadWire ----
(* C44 relation over records produced by the REAL wire codec (driver: drv-kad wire).
   rt   : a message built from `shape` was encoded by the real Sink side and decoded by the real Stream side of the
          protocol upgrade. exp / got = projections of the expected and of the decoded message (peer ids, connection types,
          addresses [i, j, owner of the /p2p suffix], key / value bytes, publisher, expiry present); wtype / wconn / wttl =
          message type code, connection codes and record ttl of the protobuf form. Addresses come back with the /p2p
          suffix of their peer appended (normalisation done by the decoder; the expected projection includes it). The
          expiry travels as whole seconds: eout within [ein - 1 s, ein + elapsed].
   fuzz : arbitrary / mutated bytes fed to the request and to the response decoder: never a panic; what decodes
          re-encodes to something that decodes to the same message. *)
EXTENDS TraceIO, Integers
VARIABLE x
S == 1000000
TypeCode(k) == CASE k = "PutValue" -> 0 [] k = "GetValue" -> 1 [] k = "AddProvider" -> 2 [] k = "GetProviders" -> 3
                 [] k = "FindNode" -> 4 [] k \in {"Ping", "Pong"} -> 5
Mod4(a) == a - 4 * (a \div 4)
ConnCodes(s) ==
  IF s.dir = "req" THEN (IF s.kind = "AddProvider" THEN <<s.ct>> ELSE <<>>)
  ELSE [i \in 1..(s.ncloser + s.nprov) |-> IF i <= s.ncloser THEN Mod4(s.ct + i - 1) ELSE Mod4(s.ct + 1 + (i - s.ncloser) - 1)]
HasRecord(s) == (s.dir = "req" /\ s.kind = "PutValue") \/ (s.dir = "resp" /\ s.kind = "GetValue" /\ s.hasrec)
SameSeq(a, b) == DOMAIN a = DOMAIN b /\ \A i \in DOMAIN a : a[i] = b[i]
Rt(r) ==
  LET s == r.shape IN
  /\ r.res = "ok"
  /\ r.got = r.exp                                                   \* decodes to the same message
  /\ r.wtype = TypeCode(s.kind)
  /\ SameSeq(r.wconn, ConnCodes(s))
  /\ IF HasRecord(s) /\ Has(s, "ttl_ms") THEN r.wttl = 1 /\ r.ein >= 0 /\ r.eout >= 0      \* less than a second left: sent as 1 s, still expiring
     ELSE IF HasRecord(s) /\ s.ttl > 0 THEN /\ r.wttl >= 1 /\ r.wttl <= s.ttl
                                      /\ r.ein >= 0 /\ r.eout >= 0 /\ r.eout >= r.ein - S /\ r.eout <= r.ein + r.t1
     ELSE IF HasRecord(s) THEN r.wttl = 0 /\ r.eout = -1
     ELSE IF s.dir = "resp" /\ s.kind = "PutValue" THEN r.wttl = 0 /\ r.eout = -1      \* (response echoes key/value in a record)
     ELSE r.wttl = -1 /\ r.eout = -1
Fuzz(r) == \A i \in 1..Len(r.dec) : r.dec[i][1] \in {"ok", "err", "eof", "pending"} /\ r.dec[i][2]
Post(r) == ~Has(r, "panic") /\ (IF r.m = "rt" THEN Rt(r) ELSE r.m = "fuzz" /\ Fuzz(r))
ASSUME PrintT(<<"CHECKED", ToJson([n |-> NRec])>>)
ASSUME \A i \in 1..NRec : Post(Rec[i]) \/ PrintT(<<"BAD", ToJson([line |-> i, why |-> IF Rec[i].m = "rt" THEN "round trip" ELSE "decoder on arbitrary bytes"])>>)
Init == x = 0
Next == FALSE /\ x' = x
====
