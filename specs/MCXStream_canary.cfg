CONSTANTS NO = 3 DialBounded = TRUE ForwardAll = TRUE
INIT Init
NEXT Next
INVARIANTS Resolves
