---- MODULE KeepAlive ----
(* Idle-shutdown logic of swarm::connection::Connection::poll (connection.rs, compute_new_shutdown). Probe for C10. *)
EXTENDS Naturals, TLC
CONSTANTS Timeout, MaxTime, MaxStreams,
          NoReset        \* canary: the shutdown timer is not cleared when the connection becomes busy
VARIABLES negIn, negOut, requested, active, ka, shut, now, closed, idleSince,
          dirty          \* something changed since the last poll (every change wakes the connection task, so time cannot pass while dirty)
\* shut = 0: Shutdown::None; shut = t+1: Shutdown::Later firing at instant t  (Asap is Later(now) with Timeout = 0)
vars == <<negIn, negOut, requested, active, ka, shut, now, closed, idleSince, dirty>>
Busy == negIn + negOut + requested + active > 0
Idle == ~Busy /\ ~ka
Init == negIn = 0 /\ negOut = 0 /\ requested = 0 /\ active = 0 /\ ka = TRUE /\ shut = 0 /\ now = 0 /\ closed = FALSE /\ idleSince = 0 /\ dirty = TRUE
Total == negIn + negOut + requested + active
(* environment: streams come and go, the handler flips keep-alive, time passes *)
Env == /\ ~closed
       /\ \/ (Total < MaxStreams /\ requested' = requested + 1 /\ UNCHANGED <<negIn, negOut, active, ka>>)        \* handler requests an outbound stream
          \/ (requested > 0 /\ requested' = requested - 1 /\ negOut' = negOut + 1 /\ UNCHANGED <<negIn, active, ka>>)  \* muxer opened it
          \/ (Total < MaxStreams /\ negIn' = negIn + 1 /\ UNCHANGED <<negOut, requested, active, ka>>)             \* inbound stream arrives
          \/ (negOut > 0 /\ negOut' = negOut - 1 /\ active' = active + 1 /\ UNCHANGED <<negIn, requested, ka>>)     \* negotiation done: handler holds the stream
          \/ (negIn > 0 /\ negIn' = negIn - 1 /\ active' = active + 1 /\ UNCHANGED <<negOut, requested, ka>>)
          \/ (negOut > 0 /\ negOut' = negOut - 1 /\ UNCHANGED <<negIn, requested, active, ka>>)                    \* negotiation failed
          \/ (active > 0 /\ active' = active - 1 /\ UNCHANGED <<negIn, negOut, requested, ka>>)                    \* stream dropped (or ignore_for_keep_alive)
          \/ (ka' = ~ka /\ UNCHANGED <<negIn, negOut, requested, active>>)
       /\ dirty' = TRUE /\ UNCHANGED <<shut, now, closed, idleSince>>
Tick == ~closed /\ ~dirty /\ now < MaxTime /\ now' = now + 1 /\ idleSince' = (IF Idle THEN idleSince ELSE now + 1)
        /\ UNCHANGED <<negIn, negOut, requested, active, ka, shut, closed, dirty>>
(* one pass of Connection::poll over the shutdown section *)
Poll == /\ ~closed
        /\ IF ~Busy
           THEN LET s1 == IF ka THEN 0 ELSE (IF shut # 0 /\ Timeout # 0 THEN shut ELSE now + Timeout + 1) IN
                IF s1 # 0 /\ now >= s1 - 1 THEN closed' = TRUE /\ shut' = s1 ELSE closed' = FALSE /\ shut' = s1
           ELSE shut' = (IF NoReset THEN shut ELSE 0) /\ UNCHANGED closed
        /\ idleSince' = (IF Idle THEN idleSince ELSE now)     \* monitor: last instant at which a poll observed the connection not idle
        /\ dirty' = FALSE /\ UNCHANGED <<negIn, negOut, requested, active, ka, now>>
Next == Env \/ Tick \/ Poll
Spec == Init /\ [][Next]_vars /\ WF_vars(Poll) /\ WF_vars(Tick)
NeverClosedWhileBusy == closed => Idle
NotBeforeTimeout == closed => now - idleSince >= Timeout          \* idle continuously for at least the timeout
====
