SPECIFICATION Spec
CONSTANTS
  Nodes = {1, 2, 3}
  Topics = {1}
  Msgs = {1}
  Slm = {2}
  NoView <- None
  LateView <- None
  SubBudget = 3
  MaxLink = 2
  Reorder = TRUE
  RememberOwn = FALSE
  NoDedup = FALSE
  EchoBack = FALSE
INVARIANT DeliverOnce
INVARIANT NoEcho
INVARIANT ForwardOnce
INVARIANT NoSelfDelivery
PROPERTY OnlySubscribed
CONSTRAINT Bounded
