INIT Init
NEXT Next
INVARIANT C36_TrackedAllowed
INVARIANT C36_TrackedCount
INVARIANT C36_OverlongRejected
INVARIANT C36_AllOrNothing
INVARIANT C36_OnlyRequested
CONSTRAINT Progress
POSTCONDITION Accepted
