INIT Init
NEXT Next
