---- MODULE RelEnvelope ----
(* C21 relation validation of the records produced by `drv-core envelope`. *)
EXTENDS Envelope, TraceIO
VARIABLE x
Why(r) ==
  IF Has(r, "panic") THEN "panic"
  ELSE IF r.kind = "sig" THEN
    IF ~r.ok THEN "a genuine signature does not verify"
    ELSE IF r.other_key \/ r.other_type THEN "signature verifies under a different key"
    ELSE IF r.accepted_flips # <<>> THEN "a changed message or signature still verifies"
    ELSE IF r.trunc \/ r.ext \/ r.empty \/ r.msg_ext THEN "a truncated / extended signature or message still verifies"
    ELSE "ok"
  ELSE IF r.kind = "env" THEN
    IF r.accepted # AcceptEnv(r) THEN (IF r.accepted THEN "envelope accepted although a field is not the signed / expected one" ELSE "genuine envelope rejected")
    ELSE IF ~r.same THEN "accepted envelope returns a different payload or key"
    ELSE "ok"
  ELSE IF r.kind = "prec" THEN
    IF r.accepted # AcceptRec(r) THEN (IF r.accepted THEN "peer record accepted with foreign domain / type / key / peer id" ELSE "genuine peer record rejected")
    ELSE IF ~r.fields_ok THEN "accepted peer record has different content"
    ELSE "ok"
  ELSE IF r.kind = "prec_rt" THEN (IF r.same_ok /\ r.cross_rejected THEN "ok" ELSE "PeerRecord::new does not round-trip / is accepted by the other API")
  ELSE IF r.kind = "mut" THEN
    IF r.different # <<>> THEN "a mutated envelope is accepted as a different record"
    ELSE IF r.rejected + r.identical # r.mutants THEN "inconsistent mutation counts"
    ELSE "ok"
  ELSE "unknown record"
ASSUME PrintT(<<"CHECKED", ToJson([n |-> NRec])>>)
ASSUME \A i \in 1..NRec : Why(Rec[i]) = "ok" \/ PrintT(<<"BAD", ToJson([line |-> i, why |-> Why(Rec[i])])>>)
Init == x = 0
Next == FALSE /\ x' = x
====
