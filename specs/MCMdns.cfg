CONSTANTS
  Lens = {255}
  Kinds = {"plain", "quoted"}
  MaxAddrs = 60
  RecBudget = 333
  StaleLenByte = FALSE
  Truncate = FALSE
INIT Init
NEXT Next
INVARIANT PacketFits Exact
