CONSTANTS
  Lens = {255}
  Kinds = {"plain", "quoted"}
  MaxAddrs = 60
  RecBudget = 331
  HdrBudget = 104
  QuoteBug = FALSE
  Truncate = FALSE
INIT Init
NEXT Next
INVARIANT PacketFits Exact
