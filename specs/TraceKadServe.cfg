INIT Init
NEXT Next
INVARIANT Bounds
INVARIANT Unique
INVARIANT ProvidedSync
CONSTRAINT Progress
POSTCONDITION Accepted
