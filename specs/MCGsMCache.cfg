CONSTANTS
  Ids = {1, 2}
  Topics = {1, 2}
  Peers = {1}
  H = 3
  G = 2
  MaxShifts = 5
  MaxCount = 2
  Mode = "purge"
INIT Init
NEXT Next
CONSTRAINT Bounded
INVARIANTS GossipExact KeptExactly IwantOnly CountsCleared
