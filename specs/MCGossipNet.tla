---- MODULE MCGossipNet ----
EXTENDS GossipNet
N3 == {1, 2, 3}
N4 == {1, 2, 3, 4}
M1 == {1}
M2 == {1, 2}
Src1 == (1 :> 1)
Src2 == (1 :> 1) @@ (2 :> 3)
====
