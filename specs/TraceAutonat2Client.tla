---- MODULE TraceAutonat2Client ----
(* X05 (client part) trace validation, property level: the real AutoNAT v2 client::Behaviour with its real
   dial_request / dial_back handlers and codec; the driver (harness/drv-xautonat2 client) plays the Swarm and the
   servers.  Stimuli: cand, conn, close, tick, open, srv, back_in.  Client outputs: cmd, want_open, tx_req, tx_data,
   back_ack, confirmed, event.
     sc[k]  how often candidate k was reported; st[k] its test status (untested / pending / failed / confirmed)
     cq[c]  candidates of the probes commanded on connection c whose stream is not open yet (oldest first)
     rq[q]  request q on the wire: connection, server, candidate, nonce, data demand, bytes sent, back (a DialBack with
            its nonce was acknowledged), cls (outcome: live / retry / failed / confirmed / stuck)
   Statement (Autonat2Client.tla):
     C1 ConfirmOnlyProven   ExternalAddrConfirmed(a) only after a DialBack carrying the nonce of the request for a was
                            received and acknowledged AND the server answered that request with status OK, dialStatus
                            OK for a; exactly once, together with Event Ok
     C2 NonceCheck          a DialBack is acknowledged (DialBackResponse OK) only if its nonce is that of a probe in
                            progress and was not received before; then it is acknowledged at once
     C3 CostBounded         data is sent only for a demand naming an address of the request and 30000..100000 bytes:
                            exactly that many, at most 4096 per message
     C4 ProbeDiscipline     a probe only for a reported candidate that is untested, only to an outbound connection whose
                            peer announced the dial-request protocol, one address per request, a fresh nonce per
                            request, at most max_candidates per round, more often reported candidates first
     C5 FaithfulEvent       Event Err(unreachable) exactly for requests the server answered with E_DIAL_ERROR /
                            E_DIAL_BACK_ERROR; bytes_sent = what was sent; server = the peer asked *)
EXTENDS TraceIO, FiniteSets, Integers
VARIABLES l, maxc, sc, st, cn, cq, rq, nq, tk, owed
vars == <<l, maxc, sc, st, cn, cq, rq, nq, tk, owed>>
K == 0..15
S == 0..79
NoCn == [p |-> -1, out |-> FALSE, sup |-> FALSE, up |-> FALSE]
NoRq == [c |-> -1, p |-> -1, k |-> -1, nonce |-> -1, ph |-> "none", need |-> 0, sent |-> 0, back |-> FALSE, cls |-> "none",
         conf |-> 0, ev |-> 0]
NoOwed == [c |-> -1, b |-> -1, nonce |-> -1]
Init == /\ l = 1 /\ maxc = 10 /\ sc = [k \in K |-> 0] /\ st = [k \in K |-> "untested"] /\ cn = [c \in S |-> NoCn]
        /\ cq = [c \in S |-> <<>>] /\ rq = [q \in S |-> NoRq] /\ nq = 0 /\ tk = -1 /\ owed = NoOwed /\ InitReg
R == Rec[l]
Free == owed.c = -1

Reset == /\ R.e = "reset" /\ Free /\ maxc' = R.maxc /\ sc' = [k \in K |-> 0] /\ st' = [k \in K |-> "untested"]
         /\ cn' = [c \in S |-> NoCn] /\ cq' = [c \in S |-> <<>>] /\ rq' = [q \in S |-> NoRq] /\ nq' = 0 /\ tk' = -1 /\ owed' = NoOwed
Cand == /\ R.e = "cand" /\ Free /\ sc' = [sc EXCEPT ![R.k] = @ + 1] /\ tk' = -1
        /\ UNCHANGED <<maxc, st, cn, cq, rq, nq, owed>>
Conn == /\ R.e = "conn" /\ Free /\ cn' = [cn EXCEPT ![R.c] = [p |-> R.p, out |-> R.out, sup |-> R.sup, up |-> TRUE]] /\ tk' = -1
        /\ UNCHANGED <<maxc, sc, st, cq, rq, nq, owed>>
(* a closed connection takes its probes with it (their candidates stay "pending": named deviation StuckOnClose) *)
Close == /\ R.e = "close" /\ Free /\ cn' = [cn EXCEPT ![R.c].up = FALSE] /\ cq' = [cq EXCEPT ![R.c] = <<>>] /\ tk' = -1
         /\ rq' = [q \in S |-> IF rq[q].c = R.c /\ rq[q].cls = "live" THEN [rq[q] EXCEPT !.cls = "dead"] ELSE rq[q]]
         /\ UNCHANGED <<maxc, sc, st, nq, owed>>
Tick == R.e = "tick" /\ Free /\ tk' = 0 /\ UNCHANGED <<maxc, sc, st, cn, cq, rq, nq, owed>>

(* C4: the probing round commands probes *)
CmdGuard ==
  /\ tk >= 0 /\ tk < maxc /\ R.open
  /\ cn[R.c].up /\ cn[R.c].out /\ cn[R.c].sup /\ cn[R.c].p = R.p
  /\ R.k \in K /\ sc[R.k] > 0 /\ st[R.k] = "untested"
  /\ \A k2 \in K : (sc[k2] > 0 /\ st[k2] = "untested") => sc[k2] <= sc[R.k]
Cmd == /\ R.e = "cmd" /\ Free /\ CmdGuard = TRUE
       /\ tk' = tk + 1 /\ st' = [st EXCEPT ![R.k] = "pending"] /\ cq' = [cq EXCEPT ![R.c] = Append(@, R.k)]
       /\ UNCHANGED <<maxc, sc, cn, rq, nq, owed>>
WantOpen == R.e = "want_open" /\ Free /\ tk' = -1 /\ UNCHANGED <<maxc, sc, st, cn, cq, rq, nq, owed>>
(* the Swarm answers the oldest substream request of the connection *)
Open == /\ R.e = "open" /\ Free /\ Len(cq[R.c]) > 0
        /\ IF R.r = "ok" THEN st' = st /\ cq' = cq
           ELSE st' = [st EXCEPT ![Head(cq[R.c])] = "untested"] /\ cq' = [cq EXCEPT ![R.c] = Tail(@)]    \* tried again later
        /\ tk' = -1 /\ UNCHANGED <<maxc, sc, cn, rq, nq, owed>>
TxReq == /\ R.e = "tx_req" /\ Free /\ R.q = nq /\ nq' = nq + 1
         /\ Len(cq[R.c]) > 0 /\ R.addrs = <<Head(cq[R.c])>>                       \* one address, the commanded candidate
         /\ R.nonce = nq                                                           \* a nonce never used before
         /\ cn[R.c].up /\ cn[R.c].p = R.p
         /\ cq' = [cq EXCEPT ![R.c] = Tail(@)]
         /\ rq' = [rq EXCEPT ![R.q] = [NoRq EXCEPT !.c = R.c, !.p = R.p, !.k = Head(cq[R.c]), !.nonce = R.nonce, !.ph = "wait1", !.cls = "live"]]
         /\ tk' = -1 /\ UNCHANGED <<maxc, sc, st, cn, owed>>

(* what the server writes, and the outcome it must have *)
Outcome(x, status, idx, ds) ==
  IF status # 200 \/ idx # 0 \/ ds \notin {100, 101, 200} THEN "retry"
  ELSE IF ds # 200 THEN "failed" ELSE IF x.back THEN "confirmed" ELSE "stuck"
NewSt(cls, old) == CASE cls = "retry" -> "untested" [] cls = "failed" -> "failed" [] cls = "confirmed" -> "confirmed" [] OTHER -> old
Srv == /\ R.e = "srv" /\ Free /\ R.q < nq
       /\ LET x == rq[R.q] IN
          IF x.cls # "live" THEN rq' = rq /\ st' = st
          ELSE IF R.m = "data_req" THEN
                 IF x.ph = "wait1" /\ R.idx = 0 /\ R.n >= 30000 /\ R.n <= 100000
                 THEN rq' = [rq EXCEPT ![R.q].ph = "wait2", ![R.q].need = R.n] /\ st' = st
                 ELSE rq' = [rq EXCEPT ![R.q].cls = "retry"] /\ st' = [st EXCEPT ![x.k] = "untested"]
          ELSE IF R.m = "resp" THEN
                 LET cls == Outcome(x, R.status, R.idx, R.ds) IN
                 rq' = [rq EXCEPT ![R.q].cls = cls] /\ st' = [st EXCEPT ![x.k] = NewSt(cls, @)]
          ELSE rq' = [rq EXCEPT ![R.q].cls = "retry"] /\ st' = [st EXCEPT ![x.k] = "untested"]
       /\ tk' = -1 /\ UNCHANGED <<maxc, sc, cn, cq, nq, owed>>
(* C3 *)
TxData == /\ R.e = "tx_data" /\ Free /\ R.q >= 0 /\ R.q < nq
          /\ rq[R.q].ph = "wait2" /\ R.maxframe <= 4096 /\ R.total = rq[R.q].sent + R.bytes /\ R.total <= rq[R.q].need
          /\ rq' = [rq EXCEPT ![R.q].sent = R.total]
          /\ tk' = -1 /\ UNCHANGED <<maxc, sc, st, cn, cq, nq, owed>>

(* C2 *)
Pending(q) == q < nq /\ rq[q].cls \in {"live", "stuck", "dead"} /\ ~rq[q].back
BackIn == /\ R.e = "back_in" /\ Free
          /\ owed' = IF R.nonce >= 0 /\ Pending(R.nonce) THEN [c |-> R.c, b |-> R.b, nonce |-> R.nonce] ELSE NoOwed
          /\ tk' = -1 /\ UNCHANGED <<maxc, sc, st, cn, cq, rq, nq>>
BackAck == /\ R.e = "back_ack" /\ owed.c = R.c /\ owed.b = R.b /\ owed.nonce = R.nonce /\ R.status = 0
           /\ rq' = [rq EXCEPT ![R.nonce].back = TRUE] /\ owed' = NoOwed
           /\ tk' = -1 /\ UNCHANGED <<maxc, sc, st, cn, cq, nq>>

(* C1, C5 *)
Confirmed == /\ R.e = "confirmed" /\ Free
             /\ \E q \in 0..(nq - 1) : /\ rq[q].k = R.k /\ rq[q].cls = "confirmed" /\ rq[q].conf = 0 /\ rq[q].back
                                       /\ rq' = [rq EXCEPT ![q].conf = 1]
             /\ tk' = -1 /\ UNCHANGED <<maxc, sc, st, cn, cq, nq, owed>>
Event == /\ R.e = "event" /\ Free
         /\ \E q \in 0..(nq - 1) : /\ rq[q].k = R.k /\ rq[q].p = R.p /\ rq[q].ev = 0
                                   /\ IF R.ok THEN rq[q].cls = "confirmed" /\ rq[q].conf = 1 ELSE rq[q].cls = "failed"
                                   /\ R.bytes = rq[q].need /\ rq[q].sent = rq[q].need
                                   /\ rq' = [rq EXCEPT ![q].ev = 1]
         /\ tk' = -1 /\ UNCHANGED <<maxc, sc, st, cn, cq, nq, owed>>
(* end of a run: every verdict was reported *)
End == /\ R.e = "end" /\ Free
       /\ (\A q \in 0..(nq - 1) : /\ rq[q].cls = "confirmed" => rq[q].conf = 1 /\ rq[q].ev = 1
                                  /\ rq[q].cls = "failed" => rq[q].ev = 1
                                  /\ rq[q].ph = "wait2" => rq[q].sent = rq[q].need) = TRUE
       /\ tk' = -1 /\ UNCHANGED <<maxc, sc, st, cn, cq, rq, nq, owed>>

Next == l <= NRec /\ l' = l + 1 /\
        (Reset \/ Cand \/ Conn \/ Close \/ Tick \/ Cmd \/ WantOpen \/ Open \/ TxReq \/ Srv \/ TxData \/ BackIn \/ BackAck
         \/ Confirmed \/ Event \/ End)
Spec == Init /\ [][Next]_vars
Progress == Mark(l)
====
