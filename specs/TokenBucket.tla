---- MODULE TokenBucket ----
(* relay::behaviour::rate_limiter::GenericRateLimiter transcribed (refill schedule + buckets); C48.
   RefillFull = TRUE is the canary: a due refill restores the whole bucket instead of
   elapsed/interval tokens, which breaks the window law. *)
EXTENDS Naturals, Sequences, FiniteSets, TLC, TokenBucketProps
CONSTANTS Ids, Limit, Interval, MaxTime, RefillFull
VARIABLES bal,        \* id -> tokens, or Limit + 1 meaning "no bucket" (= full)
          sched,      \* refill schedule: sequence of <<lastRefill, id>>
          now, acc    \* acc: id -> sequence of acceptance instants (history, bounded by time)
vars == <<bal, sched, now, acc>>
NoB == Limit + 1
Init == bal = [i \in Ids |-> NoB] /\ sched = <<>> /\ now = 0 /\ acc = [i \in Ids |-> <<>>]
RECURSIVE Refill(_, _)
Refill(b, s) == IF s = <<>> \/ now - Head(s)[1] < Interval THEN <<b, s>>
                ELSE LET id == Head(s)[2]
                         nb == IF RefillFull THEN Limit ELSE b[id] + ((now - Head(s)[1]) \div Interval) IN
                     IF nb < Limit THEN Refill([b EXCEPT ![id] = nb], Append(Tail(s), <<now, id>>))
                     ELSE Refill([b EXCEPT ![id] = NoB], Tail(s))
TryNext(i) == LET r == Refill(bal, sched) b == r[1] s == r[2] IN
  /\ IF b[i] = NoB THEN bal' = [b EXCEPT ![i] = Limit - 1] /\ sched' = Append(s, <<now, i>>) /\ acc' = [acc EXCEPT ![i] = Append(@, now)]
     ELSE IF b[i] > 0 THEN bal' = [b EXCEPT ![i] = @ - 1] /\ sched' = s /\ acc' = [acc EXCEPT ![i] = Append(@, now)]
     ELSE bal' = b /\ sched' = s /\ UNCHANGED acc
  /\ UNCHANGED now
Tick == now < MaxTime /\ now' = now + 1 /\ UNCHANGED <<bal, sched, acc>>
Next == (\E i \in Ids : TryNext(i)) \/ Tick
Spec == Init /\ [][Next]_vars
Bound == \A i \in Ids : Len(acc[i]) <= 6
WindowLaw == \A i \in Ids : WindowLawOf(acc[i], Limit, Interval)
IdleAccepts == \A i \in Ids : IdleOf(acc[i], now, Limit, Interval) => ENABLED (TryNext(i) /\ acc'[i] # acc[i])
====
