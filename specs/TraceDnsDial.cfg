INIT Init
NEXT Next
INVARIANT LookupBound AttemptBound NoDnsLeak OnlyResolvedSuffixed
CONSTRAINT Progress
POSTCONDITION Accepted
