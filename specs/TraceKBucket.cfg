INIT Init
NEXT Next
INVARIANT Capacity
INVARIANT RightBucketUnique
INVARIANT LruOrder
CONSTRAINT Progress
POSTCONDITION Accepted
