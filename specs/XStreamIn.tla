---- MODULE XStreamIn ----
(* X01, inbound half (T1 UniqueRegistration, T2 OfferedIsRegistered, T3 DeliveredOnceToOwner of XStream.tla).
   Model of Shared.supported_inbound_protocols: protocol -> mpsc::Sender (capacity: one message, the sender's own slot),
   garbage-collected lazily (`retain(!is_closed)`) in accept() and in listen_protocol(); Handler::listen_protocol and
   Shared::on_inbound_stream.  Stream ids are <<protocol, n>>.
   GcOnListen = FALSE (canary): listen_protocol does not drop closed entries, a deregistered protocol stays offered. *)
EXTENDS Naturals, Sequences, FiniteSets
CONSTANTS NS, GcOnListen
VARIABLES entry, nlive, buf, got, neg, n, badOffer, lostIdle
vars == <<entry, nlive, buf, got, neg, n, badOffer, lostIdle>>
Protos == {1, 2}

Init == /\ entry = [p \in Protos |-> "none"] /\ nlive = [p \in Protos |-> 0] /\ buf = [p \in Protos |-> <<>>]
        /\ got = [p \in Protos |-> {}] /\ neg = {} /\ n = 0 /\ badOffer = FALSE /\ lostIdle = FALSE

Gc(e) == [p \in Protos |-> IF e[p] = "closed" THEN "none" ELSE e[p]]

(* Control::accept *)
Accept(p) == LET e == Gc(entry) IN
             IF e[p] = "open"
             THEN entry' = e /\ UNCHANGED <<nlive, buf, got, neg, n, badOffer, lostIdle>>            \* AlreadyRegistered
             ELSE /\ entry' = [e EXCEPT ![p] = "open"] /\ nlive' = [nlive EXCEPT ![p] = @ + 1]
                  /\ buf' = [buf EXCEPT ![p] = <<>>] /\ UNCHANGED <<got, neg, n, badOffer, lostIdle>>
(* drop(IncomingStreams): the receiver is gone, the map entry stays until the next gc *)
DropInc(p) == /\ nlive[p] > 0 /\ nlive' = [nlive EXCEPT ![p] = @ - 1]
              /\ entry' = [entry EXCEPT ![p] = "closed"] /\ buf' = [buf EXCEPT ![p] = <<>>]
              /\ UNCHANGED <<got, neg, n, badOffer, lostIdle>>
(* an inbound substream: Handler::listen_protocol, the remote asks for p *)
Offer(p) == /\ n < NS
            /\ LET e == IF GcOnListen THEN Gc(entry) ELSE entry
                   offered == {x \in Protos : e[x] # "none"} IN
               /\ entry' = e
               /\ badOffer' = (badOffer \/ offered # {x \in Protos : nlive[x] > 0})
               /\ IF p \in offered THEN neg' = neg \cup {<<p, n + 1>>} /\ n' = n + 1 ELSE UNCHANGED <<neg, n>>
            /\ UNCHANGED <<nlive, buf, got, lostIdle>>
(* FullyNegotiatedInbound -> Shared::on_inbound_stream *)
Deliver(s) == /\ s \in neg /\ neg' = neg \ {s}
              /\ LET p == s[1] IN
                 IF entry[p] = "open" /\ Len(buf[p]) < 1
                 THEN buf' = [buf EXCEPT ![p] = Append(@, s)] /\ UNCHANGED <<entry, lostIdle>>
                 ELSE /\ UNCHANGED buf
                      /\ entry' = IF entry[p] = "closed" THEN [entry EXCEPT ![p] = "none"] ELSE entry
                      /\ lostIdle' = (lostIdle \/ (nlive[p] > 0 /\ buf[p] = <<>>))
              /\ UNCHANGED <<nlive, got, n, badOffer>>
Recv(p) == /\ nlive[p] > 0 /\ buf[p] # <<>>
           /\ got' = [got EXCEPT ![p] = @ \cup {Head(buf[p])}] /\ buf' = [buf EXCEPT ![p] = Tail(@)]
           /\ UNCHANGED <<entry, nlive, neg, n, badOffer, lostIdle>>

Next == \E p \in Protos : Accept(p) \/ DropInc(p) \/ Offer(p) \/ Recv(p)
        \/ \E s \in neg : Deliver(s)
Spec == Init /\ [][Next]_vars

UniqueRegistration == \A p \in Protos : nlive[p] <= 1
EntryIsLive == \A p \in Protos : (entry[p] = "open") = (nlive[p] = 1)
OfferedIsRegistered == ~badOffer
ToOwnerOnly == \A p \in Protos : (\A s \in got[p] : s[1] = p) /\ (\A k \in 1..Len(buf[p]) : buf[p][k][1] = p)
AtMostOnce == \A p \in Protos : \A k \in 1..Len(buf[p]) : buf[p][k] \notin got[p] /\ buf[p][k] \notin neg
NotLostWhenIdle == ~lostIdle
====
