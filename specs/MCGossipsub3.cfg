SPECIFICATION Spec
CONSTANTS
  Peers = {p1, p2, p3}
  Explicit = {p3}
  Flood = {}
  Topics = {t1, t2}
  Allowed = {t1, t2}
  MaxSubs = 2
  MeshLow = 1
  MeshN = 2
  MeshHigh = 3
  MaxConns = 1
  PerTopicNotify = FALSE
  FanoutReplace = FALSE
  GraftSkipsFilter = FALSE
  GraftIgnoresKind = FALSE
INVARIANT MeshEligible
INVARIANT HandlerView
INVARIANT HandlersOfOpenConns
INVARIANT FilterBound
PROPERTY AddedOnlyIfEligible
PROPERTY GraftRespectsHigh
PROPERTY FanoutKept
