---- MODULE MCFloodNet ----
EXTENDS FloodNet
None == {}
NV13 == {<<1, 3>>}
LV21 == {<<2, 1>>}
====
