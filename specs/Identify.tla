---- MODULE Identify ----
(* C46 component spec: what identify keeps and reports for ONE connection whose authenticated peer is "A"
   (protocol.rs TryFrom<proto::Identify> for Info / PushInfo, handler.rs handle_incoming_info + push merge,
   behaviour.rs multiaddr_matches_peer_id).  A message is chosen nondeterministically from the grid
   kind x key x record x address sets; addresses are <<origin, owner>> with origin \in {"plain", "rec"} and owner =
   the peer named by the final /p2p ("none" if absent).
   Canaries: NoKeyCheck (handle_incoming_info accepts any key), AnySigner (a record is used whoever signed it),
   NoP2pFilter (behaviour keeps addresses naming another peer). *)
EXTENDS Naturals, FiniteSets, TLC
CONSTANTS NoKeyCheck, AnySigner, NoP2pFilter
VARIABLES info,       \* handler.remote_info: [key, addrs, rec] or NoInfo
          reported,   \* last Event::Received info, or NoInfo
          authRec     \* ghost: a record validly signed by A was received
vars == <<info, reported, authRec>>
Keys == {"A", "B"}
Owners == {"none", "A", "B"}
NoInfo == [key |-> "none", addrs |-> {}, rec |-> "none"]
PlainSets == SUBSET ({"plain"} \X Owners)
RecSets == SUBSET ({"rec"} \X Owners)
Init == info = NoInfo /\ reported = NoInfo /\ authRec = FALSE
Filter(as) == IF NoP2pFilter THEN as ELSE {a \in as : a[2] \in {"none", "A"}}
Accept(i) == IF NoKeyCheck \/ i.key = "A"
             THEN info' = i /\ reported' = [i EXCEPT !.addrs = Filter(i.addrs)]
             ELSE UNCHANGED <<info, reported>>
(* identify response: key (mandatory), record signed by rec \in {"none","A","B","tampered"} *)
Identify(key, rec, plain, recaddrs) ==
  /\ LET recUsed == rec \in Keys /\ (AnySigner \/ rec = key)          \* record's peer id = the message's key
         i == [key |-> key, addrs |-> IF recUsed THEN recaddrs ELSE plain, rec |-> IF recUsed THEN rec ELSE "none"] IN
     Accept(i)
  /\ authRec' = (authRec \/ (rec = "A"))
(* push: missing fields keep the old value; the record field of a push is ignored *)
Push(key, plain) ==
  /\ info # NoInfo
  /\ LET i == [info EXCEPT !.key = IF key = "none" THEN @ ELSE key, !.addrs = IF plain = {} THEN @ ELSE plain] IN
     Accept(i)
  /\ UNCHANGED authRec
Next == \/ \E k \in Keys, r \in Keys \cup {"none", "tampered"}, p \in PlainSets, ra \in RecSets : Identify(k, r, p, ra)
        \/ \E k \in Keys \cup {"none"}, p \in PlainSets : Push(k, p)
Spec == Init /\ [][Next]_vars
(* the statement *)
OnlyAuthenticatedKey == reported # NoInfo => reported.key = "A"
RecordOnlyIfSignedBySamePeer == \A a \in reported.addrs : a[1] = "rec" => authRec
NoForeignPeerAddr == \A a \in reported.addrs : a[2] # "B"
====
