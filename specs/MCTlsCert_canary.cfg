CONSTANTS
  MaxExt = 2
  KeepLast = TRUE
SPECIFICATION Spec
INVARIANT RuleOK
