CONSTANTS
  N = 7
  W = 5
  DropTail = FALSE
SPECIFICATION Spec
INVARIANT Prefix Complete
PROPERTY Refines
