INIT Init
NEXT Next
INVARIANT PairingOK
CONSTRAINT Progress
POSTCONDITION Accepted
