CONSTANTS
  Peers = {0, 1}
  Addrs = {0, 1}
  PeerCap = 1
  RecCap = 2
  MaxFailed = 1
  RemoveOnDialError = TRUE
  IgnoreForce = FALSE
  EntryOverflow = FALSE
  SilentAuto = FALSE
INIT GInit
NEXT GNext
VIEW GView
ACTION_CONSTRAINT EmitEdge
