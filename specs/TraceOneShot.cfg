INIT Init
NEXT Next
INVARIANT Bounded
CONSTRAINT Progress
POSTCONDITION Accepted
