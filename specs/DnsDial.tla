---- MODULE DnsDial ----
(* C23.  transports/dns/src/lib.rs `do_dial` transcribed: the `unresolved` LIFO worklist, `dns_lookups`,
   `dial_attempts`, resolve() outcomes (Err / One / Many / Addrs), the /dnsaddr suffix filter and TXT cap, the
   inner transport's three reactions (refuses the address synchronously = not counted, accepts and fails,
   accepts and succeeds).  The resolver's data is an arbitrary record graph fixed in the initial state:
     txt[n]  (for /dnsaddr names n)  a set of TXT entries: <<"n", j, sfx>> = /dnsaddr/j..., <<"h", j, sfx>> = /dns4/j...,
             <<"ip", k, sfx>> = a resolved address; sfx = the entry ends with the dialed address's suffix
     host[j] (for /dns4 names j)     an error or an answer with a set of IPs, possibly EMPTY (no usable record)
   cycles, fan-out, empty and partial answers included.  Limits are scaled constants.
   Canaries: LookupOffByOne (limit tested with >), NoSuffixFilter, EmptyPanics (the `expect` on an empty
   answer of the code before the C23 repair). *)
EXTENDS Naturals, Sequences, FiniteSets, TLC
CONSTANTS NamesN, HostsN, Ips, MaxLookups, MaxAttempts, MaxTxt, WithForeign,
          LookupOffByOne, NoSuffixFilter, EmptyPanics
VARIABLES txt, host,    \* the record graph
          stack,        \* `unresolved` (LIFO): <<"n", j>> | <<"h", j>> | <<"ip", k, sfx>>
          lookups, attempts, calls, dialed, done, panicked
vars == <<txt, host, stack, lookups, attempts, calls, dialed, done, panicked>>
Nm == 1..NamesN
Hs == 1..HostsN
Sfx == IF WithForeign THEN BOOLEAN ELSE {TRUE}
Item == ({"n"} \X Nm \X {TRUE}) \cup ({"h"} \X Hs \X {TRUE}) \cup ({"ip"} \X (1..Ips) \X Sfx)
Init == /\ txt \in [Nm -> SUBSET Item]
        /\ host \in [Hs -> [k : {"err"}, ips : {{}}] \cup [k : {"ans"}, ips : SUBSET (1..Ips)]]
        /\ stack = <<<<"n", 1>>>> /\ lookups = 0 /\ attempts = 0 /\ calls = 0 /\ dialed = {} /\ done = FALSE /\ panicked = FALSE
RECURSIVE SetToSeq(_)
SetToSeq(S) == IF S = {} THEN <<>> ELSE LET x == CHOOSE y \in S : TRUE IN <<x>> \o SetToSeq(S \ {x})
Take(S, n) == IF Cardinality(S) <= n THEN S ELSE CHOOSE T \in SUBSET S : Cardinality(T) = n
Top == stack[Len(stack)]
Rest == SubSeq(stack, 1, Len(stack) - 1)
AtLimit == IF LookupOffByOne THEN lookups > MaxLookups ELSE lookups = MaxLookups
Lookup ==
  /\ ~done /\ stack # <<>> /\ Top[1] \in {"n", "h"}
  /\ UNCHANGED <<txt, host, attempts, calls, dialed, done>>
  /\ IF AtLimit THEN stack' = Rest /\ UNCHANGED <<lookups, panicked>>            \* TooManyLookups, keep draining
     ELSE /\ lookups' = lookups + 1
          /\ IF Top[1] = "n" THEN
               LET ok == {e \in txt[Top[2]] : e[3] \/ NoSuffixFilter}                 \* a.ends_with(&suffix)
                   kept == Take(ok, MaxTxt)
               IN /\ stack' = Rest \o SetToSeq({IF e[1] = "ip" THEN e ELSE <<e[1], e[2]>> : e \in kept})
                  /\ UNCHANGED panicked
             ELSE IF host[Top[2]].k = "err" THEN stack' = Rest /\ UNCHANGED panicked
             ELSE IF host[Top[2]].ips = {} THEN
                    IF EmptyPanics THEN panicked' = TRUE /\ stack' = Rest
                    ELSE stack' = Rest /\ UNCHANGED panicked                          \* treated like a resolution error
             ELSE /\ stack' = Rest \o SetToSeq({<<"ip", k, TRUE>> : k \in host[Top[2]].ips})
                  /\ UNCHANGED panicked
Dial ==
  /\ ~done /\ stack # <<>> /\ Top[1] = "ip"
  /\ UNCHANGED <<txt, host, lookups, panicked>>
  /\ stack' = Rest /\ calls' = calls + 1 /\ dialed' = dialed \cup {Top}
  /\ \E r \in {"refused", "failed", "ok"} :
        /\ attempts' = IF r = "refused" THEN attempts ELSE attempts + 1
        /\ done' = (r = "ok" \/ Rest = <<>> \/ attempts' = MaxAttempts)
Finish == ~done /\ stack = <<>> /\ done' = TRUE /\ UNCHANGED <<txt, host, stack, lookups, attempts, calls, dialed, panicked>>
Next == Lookup \/ Dial \/ Finish
Spec == Init /\ [][Next]_vars /\ WF_vars(Next)
Bounded == lookups <= MaxLookups /\ attempts <= MaxAttempts
OnlyResolved == \A a \in dialed : a[1] = "ip"
SuffixOK == \A a \in dialed : a[3]
NoPanic == ~panicked
Terminates == <>done
====
