INIT Init
NEXT Next
INVARIANT ReadOnlyWhileOpen WriteOnlyWhileOpen AfterReset
CONSTRAINT Progress
POSTCONDITION Accepted
