INIT Init
NEXT Next
INVARIANT SubstreamLimit BufferLimit AppLimit
CONSTRAINT Progress
POSTCONDITION Accepted
