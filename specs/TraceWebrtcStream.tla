---- MODULE TraceWebrtcStream ----
(* C56 trace validation (property level).  The abstract state is rebuilt only from what is observable at
   the stream's public API and on the channel:
     inb[s]    frames that appeared on the channel towards s, in order (decoded from the channel bytes by the driver)
     kc[s]     number of inbound frames s has PROVABLY consumed: a read that delivered data of frame i proves
               frames 1..i consumed; a read that returned Pending proves everything available was consumed; a read
               that returned Ok(0) while the read half was never closed locally proves the next non-data frame
               consumed (a stream may only report end-of-data after it saw a flag / EOF, and it sees frames in order)
     rdDone/wrDone[s]   poll_close_read / poll_close returned Ok
     rstSeen[s]         an operation of s already failed with ConnectionReset while a RESET frame had arrived
     outFin[s]          s itself put a FIN on the channel
   The statement forbids:
     ReadOnlyWhileOpen   a read delivers data although the read half is closed: close_read completed, or the data
                         sits behind a FIN / RESET / EOF on the inbound channel
     WriteOnlyWhileOpen  a write is accepted although the write half is closed: close completed, a STOP_SENDING /
                         RESET is provably consumed; or a data frame follows the stream's own FIN on the channel
     AfterReset          once the reset is known to the stream (see ResetKnown) a read / write / close /
                         close_read returns anything but ConnectionReset
   Everything else (Pending, error kinds before a reset, flush results, which flags are sent) is unconstrained.
   A panic event has no action => rejected. *)
EXTENDS TraceIO, FiniteSets
VARIABLES l, inb, kc, rdDone, rdTouched, wrDone, rstSeen, outFin, err
vars == <<l, inb, kc, rdDone, rdTouched, wrDone, rstSeen, outFin, err>>
Sides == {0, 1}
Fresh == /\ inb' = [s \in Sides |-> <<>>] /\ kc' = [s \in Sides |-> 0]
         /\ rdDone' = [s \in Sides |-> FALSE] /\ rdTouched' = [s \in Sides |-> FALSE] /\ wrDone' = [s \in Sides |-> FALSE]
         /\ rstSeen' = [s \in Sides |-> FALSE] /\ outFin' = [s \in Sides |-> FALSE] /\ err' = "ok"
Init == /\ l = 1 /\ inb = [s \in Sides |-> <<>>] /\ kc = [s \in Sides |-> 0]
        /\ rdDone = [s \in Sides |-> FALSE] /\ rdTouched = [s \in Sides |-> FALSE] /\ wrDone = [s \in Sides |-> FALSE]
        /\ rstSeen = [s \in Sides |-> FALSE] /\ outFin = [s \in Sides |-> FALSE] /\ err = "ok" /\ InitReg
R == Rec[l]
Closers == {"fin", "reset", "eof", "findata"}
Carries == {"data", "findata"}
Guarded == {"read", "read1", "write", "bigwrite", "close", "close_read"}
HasReset(s) == \E i \in 1..Len(inb[s]) : inb[s][i].k = "reset"
ResetKnown(s) == rstSeen[s] \/ \E i \in 1..kc[s] : inb[s][i].k = "reset"
StopKnown(s) == \E i \in 1..kc[s] : inb[s][i].k \in {"stop", "reset"}
(* positions at which data tagged t may legally be delivered to s: a data-carrying frame with no closing frame before it *)
LegalPos(s, t) == {i \in 1..Len(inb[s]) : inb[s][i].k \in Carries /\ inb[s][i].tag = t /\ \A j \in 1..(i - 1) : inb[s][j].k \notin Closers}
AnyPos(s, t) == {i \in 1..Len(inb[s]) : inb[s][i].k \in Carries /\ inb[s][i].tag = t}
Max(S) == CHOOSE x \in S : \A y \in S : y <= x
SetOf(q) == {q[i] : i \in 1..Len(q)}

Reset == R.e = "reset" /\ Fresh
Wire == /\ R.e = "wire"
        /\ inb' = [inb EXCEPT ![R.to] = Append(@, [k |-> R.k, tag |-> R.tag])]
        /\ LET from == 1 - R.to IN
           /\ outFin' = [outFin EXCEPT ![from] = @ \/ (R.src = "stream" /\ R.k \in {"fin", "findata"})]
           /\ err' = IF R.src = "stream" /\ R.k = "data" /\ outFin[from] THEN "WriteOnlyWhileOpen" ELSE "ok"
        /\ UNCHANGED <<kc, rdDone, rdTouched, wrDone, rstSeen>>
Env == /\ R.e \in {"env", "dl"}
       /\ IF R.e = "env" /\ R.a = "eof" THEN inb' = [inb EXCEPT ![R.s] = Append(@, [k |-> "eof", tag |-> 0])] ELSE UNCHANGED inb
       /\ err' = "ok" /\ UNCHANGED <<kc, rdDone, rdTouched, wrDone, rstSeen, outFin>>
Op == /\ R.e = "op"
      /\ LET s == R.s
             isRead == R.op \in {"read", "read1"}
             isWrite == R.op \in {"write", "bigwrite"}
             tags == IF Has(R, "tags") THEN SetOf(R.tags) ELSE {}
             delivered == isRead /\ R.res = "ok"
             pos == UNION {AnyPos(s, t) : t \in tags}
             nextFlag == {j \in (kc[s] + 1)..Len(inb[s]) : inb[s][j].k # "data"}
             sawEnd == isRead /\ R.res = "eof" /\ ~rdTouched[s] /\ nextFlag # {}
         IN
         /\ err' = IF ResetKnown(s) /\ R.op \in Guarded /\ R.res # "ConnectionReset" THEN "AfterReset"
                   ELSE IF delivered /\ (rdDone[s] \/ \E t \in tags : LegalPos(s, t) = {}) THEN "ReadOnlyWhileOpen"
                   ELSE IF isWrite /\ R.res = "ok" /\ (wrDone[s] \/ StopKnown(s)) THEN "WriteOnlyWhileOpen"
                   ELSE "ok"
         /\ kc' = [kc EXCEPT ![s] = IF isRead /\ R.res = "pending" THEN Len(inb[s])
                                    ELSE IF sawEnd THEN CHOOSE j \in nextFlag : \A k \in nextFlag : j <= k
                                    ELSE IF delivered /\ pos # {} /\ Max(pos) > @ THEN Max(pos) ELSE @]
         /\ rdDone' = [rdDone EXCEPT ![s] = @ \/ (R.op = "close_read" /\ R.res = "ok")]
         /\ rdTouched' = [rdTouched EXCEPT ![s] = @ \/ R.op = "close_read"]
         /\ wrDone' = [wrDone EXCEPT ![s] = @ \/ (R.op = "close" /\ R.res = "ok")]
         /\ rstSeen' = [rstSeen EXCEPT ![s] = @ \/ (R.res = "ConnectionReset" /\ HasReset(s))]
         /\ UNCHANGED <<inb, outFin>>
Next == l <= NRec /\ l' = l + 1 /\ (Reset \/ Wire \/ Env \/ Op)
Spec == Init /\ [][Next]_vars
ReadOnlyWhileOpen == err # "ReadOnlyWhileOpen"
WriteOnlyWhileOpen == err # "WriteOnlyWhileOpen"
AfterReset == err # "AfterReset"
Progress == Mark(l)
====
