CONSTANTS
  Protos = {"a", "b", "c"}
  MaxLen = 2
  NData = 2
  SetLastNa = FALSE
INIT Init
NEXT Next
INVARIANT Agreement NoneInCommon Transparent Complete
