---- MODULE MCOrTransport ----
EXTENDS OrTransport
A6 == 1..6
SupTab == (0 :> (1 :> "ok" @@ 2 :> "no" @@ 3 :> "ok" @@ 4 :> "no" @@ 5 :> "err" @@ 6 :> "no")) @@
          (1 :> (1 :> "no" @@ 2 :> "ok" @@ 3 :> "ok" @@ 4 :> "no" @@ 5 :> "ok" @@ 6 :> "err"))
NoneOff == {}
LeftOff == {0}
RightOff == {1}
====
