---- MODULE ReqResp ----
(* C45 component spec: request-response Behaviour + the Swarm's delivery of its commands
   (protocols/request-response/src/lib.rs).  One remote peer, several connections.  The behaviour's view
   (connected, pending_outbound_requests, per-connection pending sets) is kept separate from the pool's view
   (sconn, with the closing phase in which NotifyHandler commands are lost).
   ConnDenied: another behaviour of the composed NetworkBehaviour denies a connection AFTER this behaviour has
   created (and preloaded) its handler in handle_established_*_connection; the behaviour only sees
   DialFailure / ListenFailure {Denied} with the connection id.  ForgetDenied = FALSE transcribes the code before
   the repair (the failure is ignored, the connection entry and the preloaded requests stay): it is the canary. *)
EXTENDS Naturals, Sequences, FiniteSets, TLC
CONSTANTS ForgetDenied, Reqs, Conns, Inb            \* outbound request ids (1..R), connection ids, inbound request ids
VARIABLES sent,          \* outbound ids handed out by send_request so far
          connected,     \* sequence of connection ids the behaviour believes established (self.connected[peer])
          pendDial,      \* pending_outbound_requests[peer]
          pendOut,       \* conn -> pending_outbound_responses
          pendIn,        \* conn -> pending_inbound_responses
          cmdQ,          \* behaviour's pending_events towards the swarm: <<"dial">> | <<"notify", c, r>>
          dialing,       \* a dial to the peer is in flight in the swarm's pool
          sconn,         \* conn -> "none" | "est" | "closing" | "gone"   (pool's view)
          owned,         \* conn -> outbound requests the handler has received
          inbSeen,       \* conn -> inbound requests the handler reported (Event::Request)
          outc, inc      \* id -> number of terminal events emitted to the application
vars == <<sent, connected, pendDial, pendOut, pendIn, cmdQ, dialing, sconn, owned, inbSeen, outc, inc>>
Init == /\ sent = {} /\ connected = <<>> /\ pendDial = {} /\ pendOut = [c \in Conns |-> {}] /\ pendIn = [c \in Conns |-> {}]
        /\ cmdQ = <<>> /\ dialing = FALSE /\ sconn = [c \in Conns |-> "none"] /\ owned = [c \in Conns |-> {}]
        /\ inbSeen = [c \in Conns |-> {}] /\ outc = [r \in Reqs |-> 0] /\ inc = [i \in Inb |-> 0]
Bump(f, S) == [x \in DOMAIN f |-> IF x \in S THEN f[x] + 1 ELSE f[x]]
Min(S) == CHOOSE x \in S : \A y \in S : x <= y

Send ==
  /\ Reqs \ sent # {}
  /\ LET r == Min(Reqs \ sent) IN
     /\ sent' = sent \cup {r}
     /\ IF connected # <<>>
        THEN LET c == connected[(r - Len(connected) * (r \div Len(connected))) + 1] IN
             /\ pendOut' = [pendOut EXCEPT ![c] = @ \cup {r}] /\ cmdQ' = Append(cmdQ, <<"notify", c, r>>) /\ UNCHANGED pendDial
        ELSE /\ pendDial' = pendDial \cup {r} /\ cmdQ' = Append(cmdQ, <<"dial", 0, 0>>) /\ UNCHANGED pendOut
  /\ UNCHANGED <<connected, pendIn, dialing, sconn, owned, inbSeen, outc, inc>>

(* the swarm takes the next command of the behaviour *)
SwarmCmd ==
  /\ cmdQ # <<>>
  /\ LET m == Head(cmdQ) IN
     /\ cmdQ' = Tail(cmdQ)
     /\ IF m[1] = "dial"
        THEN /\ dialing' = (dialing \/ ~(\E c \in Conns : sconn[c] \in {"est", "closing"}))     \* DisconnectedAndNotDialing; a false condition => DialFailure ignored by the behaviour
             /\ UNCHANGED owned
        ELSE /\ owned' = IF sconn[m[2]] = "est" THEN [owned EXCEPT ![m[2]] = @ \cup {m[3]}] ELSE owned    \* dropped if closing / gone
             /\ UNCHANGED dialing
  /\ UNCHANGED <<sent, connected, pendDial, pendOut, pendIn, sconn, inbSeen, outc, inc>>

DialFails == /\ dialing /\ dialing' = FALSE
             /\ outc' = Bump(outc, pendDial) /\ pendDial' = {}                   \* OutboundFailure::DialFailure for each queued request
             /\ UNCHANGED <<sent, connected, pendOut, pendIn, cmdQ, sconn, owned, inbSeen, inc>>
(* a connection is established: by our dial, or inbound at any time *)
ConnEstablished(c, byDial) ==
  /\ sconn[c] = "none" /\ (byDial => dialing)
  /\ sconn' = [sconn EXCEPT ![c] = "est"] /\ dialing' = IF byDial THEN FALSE ELSE dialing
  /\ connected' = Append(connected, c)
  /\ pendOut' = [pendOut EXCEPT ![c] = pendDial] /\ owned' = [owned EXCEPT ![c] = pendDial] /\ pendDial' = {}     \* preload_new_handler
  /\ UNCHANGED <<sent, pendIn, cmdQ, inbSeen, outc, inc>>
ConnDenied(c, byDial) ==
  /\ sconn[c] = "none" /\ (byDial => dialing)
  /\ sconn' = [sconn EXCEPT ![c] = "gone"] /\ dialing' = IF byDial THEN FALSE ELSE dialing
  /\ IF ForgetDenied
     THEN /\ outc' = Bump(outc, pendDial) /\ pendDial' = {}              \* the preloaded requests fail, the entry is dropped
          /\ UNCHANGED <<connected, pendOut>>
     ELSE /\ connected' = Append(connected, c) /\ pendOut' = [pendOut EXCEPT ![c] = pendDial] /\ pendDial' = {}
          /\ UNCHANGED outc
  /\ UNCHANGED <<sent, pendIn, cmdQ, owned, inbSeen, inc>>
(* the handler reports the outcome of an outbound request it owns *)
HandlerOut(c, r) ==
  /\ sconn[c] = "est" /\ r \in owned[c]
  /\ owned' = [owned EXCEPT ![c] = @ \ {r}]
  /\ IF r \in pendOut[c] THEN outc' = Bump(outc, {r}) /\ pendOut' = [pendOut EXCEPT ![c] = @ \ {r}]
     ELSE UNCHANGED <<outc, pendOut>>
  /\ UNCHANGED <<sent, connected, pendDial, pendIn, cmdQ, dialing, sconn, inbSeen, inc>>
(* inbound side *)
InbRequest(c, i) ==
  /\ sconn[c] = "est" /\ i \notin UNION {inbSeen[x] : x \in Conns}
  /\ inbSeen' = [inbSeen EXCEPT ![c] = @ \cup {i}] /\ pendIn' = [pendIn EXCEPT ![c] = @ \cup {i}]
  /\ UNCHANGED <<sent, connected, pendDial, pendOut, cmdQ, dialing, sconn, owned, outc, inc>>
InbOutcome(c, i) ==       \* ResponseSent | ResponseOmission | InboundTimeout | InboundStreamFailed
  /\ sconn[c] = "est" /\ i \in inbSeen[c] /\ i \in pendIn[c]
  /\ pendIn' = [pendIn EXCEPT ![c] = @ \ {i}] /\ inc' = Bump(inc, {i})
  /\ UNCHANGED <<sent, connected, pendDial, pendOut, cmdQ, dialing, sconn, owned, inbSeen, outc>>
(* close: first the pool marks the connection closing (commands are dropped), later the behaviour sees ConnectionClosed *)
StartClosing(c) == /\ sconn[c] = "est" /\ sconn' = [sconn EXCEPT ![c] = "closing"]
                   /\ UNCHANGED <<sent, connected, pendDial, pendOut, pendIn, cmdQ, dialing, owned, inbSeen, outc, inc>>
ConnClosed(c) ==
  /\ sconn[c] = "closing" /\ sconn' = [sconn EXCEPT ![c] = "gone"]
  /\ connected' = SelectSeq(connected, LAMBDA x : x # c)
  /\ outc' = Bump(outc, pendOut[c]) /\ inc' = Bump(inc, pendIn[c])
  /\ pendOut' = [pendOut EXCEPT ![c] = {}] /\ pendIn' = [pendIn EXCEPT ![c] = {}] /\ owned' = [owned EXCEPT ![c] = {}]
  /\ UNCHANGED <<sent, pendDial, cmdQ, dialing, inbSeen>>
Next == \/ Send \/ SwarmCmd \/ DialFails
        \/ \E c \in Conns : ConnEstablished(c, TRUE) \/ ConnEstablished(c, FALSE) \/ StartClosing(c) \/ ConnClosed(c)
        \/ \E c \in Conns : ConnDenied(c, TRUE) \/ ConnDenied(c, FALSE)
        \/ \E c \in Conns, r \in Reqs : HandlerOut(c, r)
        \/ \E c \in Conns, i \in Inb : InbRequest(c, i) \/ InbOutcome(c, i)
Spec == Init /\ [][Next]_vars

AtMostOnce == (\A r \in Reqs : outc[r] <= 1) /\ (\A i \in Inb : inc[i] <= 1)
OnlyForSent == \A r \in Reqs : outc[r] > 0 => r \in sent
Quiescent == cmdQ = <<>> /\ ~dialing /\ \A c \in Conns : sconn[c] \in {"none", "gone"}
ExactlyOnceAtQuiescence == Quiescent => (\A r \in sent : outc[r] = 1) /\ (\A c \in Conns : \A i \in inbSeen[c] : inc[i] = 1)
TrackedWhileOwned == \A c \in Conns : owned[c] \subseteq pendOut[c]
====
