CONSTANTS
  N = 2
  Buf = 1
  Max = 0
  W = 2
  CountBoth = TRUE
SPECIFICATION Spec
INVARIANT Prefix Bound OkComplete ErrJustified StalledWithin EofAfterAll
PROPERTY Refines
