---- MODULE RelGlobalIp ----
(* C22 relation validation.  Every record is an observation of the REAL global_only::Transport::dial:
     {"v":4|6,"from":[segs],"to":[segs],"res":"pass"|"refuse"}   the same result for every address from..to
                                                                 (single probes have from = to)
     {"v":0,"kind":..,"res":..}                                   first component is not an IP address
   Post: a non-IP address is refused; for an interval, the registry class at `from` and at every class boundary
   inside the interval must be compatible with the observed result (MUST_REFUSE => refuse, MUST_PASS => pass). *)
EXTENDS GlobalIp, TraceIO
VARIABLE x
Critical(r) == {r.from} \cup {b \in Boundaries(r.v) : Lt(r.from, b) /\ Le(b, r.to)}
BadPoints(r) == {p \in Critical(r) : ~Compatible(Class(r.v, p), r.res)}
Post(r) == IF r.v = 0 THEN r.res = "refuse"
           ELSE Len(r.from) = NSeg(r.v) /\ Le(r.from, r.to) /\ BadPoints(r) = {}
Why(r) == IF r.v = 0 THEN "non-IP address must be refused"
          ELSE IF BadPoints(r) = {} THEN "malformed record"
          ELSE LET p == CHOOSE p \in BadPoints(r) : TRUE IN Class(r.v, p)
ASSUME Sane(4) /\ Sane(6)
ASSUME PrintT(<<"CHECKED", ToJson([n |-> NRec])>>)
ASSUME \A i \in 1..NRec : Post(Rec[i]) \/ PrintT(<<"BAD", ToJson([line |-> i, why |-> Why(Rec[i])])>>)
Init == x = 0
Next == FALSE /\ x' = x
====
