CONSTANTS N = 4 LabelOK = TRUE
INIT Init
NEXT Next
INVARIANTS EventsLabelled RoutedToOwner ExactlyOnce KeepAliveIsOr
