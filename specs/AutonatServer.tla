---- MODULE AutonatServer ----
(* C50 component spec: admission of dial-back requests by the autonat v1 server
   (protocols/autonat/src/v1/behaviour/as_server.rs: resolve_inbound_request, handle_event, on_outbound_connection, on_outbound_dial_error).
     ongoing   : peers with an entry in ongoing_inbound
     alive     : peers whose inbound request (response channel) is still open
     inflight  : peers -> number of dial-backs the Swarm is still running
     throttled : number of throttle entries per peer (period longer than the run)
   Canaries: NoOngoingTest (the "dial-back already ongoing" test removed) and ForgetOnFailure (the entry is dropped
   when the inbound request fails although the dial is still in flight - the code before the repair). *)
EXTENDS Naturals, FiniteSets, TLC
CONSTANTS Peers, PeerMax, GlobalMax, NoOngoingTest, ForgetOnFailure
VARIABLES ongoing, alive, inflight, throttled
vars == <<ongoing, alive, inflight, throttled>>
Init == ongoing = {} /\ alive = {} /\ inflight = [p \in Peers |-> 0] /\ throttled = [p \in Peers |-> 0]
RECURSIVE SumOver(_)
SumOver(Q) == IF Q = {} THEN 0 ELSE LET q == CHOOSE x \in Q : TRUE IN throttled[q] + SumOver(Q \ {q})
Total == SumOver(Peers)
(* a dial request with at least one valid address arrives from p *)
Request(p) ==
  /\ LET refuse == (~NoOngoingTest /\ p \in ongoing) \/ Total >= GlobalMax \/ throttled[p] >= PeerMax IN
     IF refuse THEN UNCHANGED vars
     ELSE /\ ongoing' = ongoing \cup {p} /\ alive' = alive \cup {p}
          /\ inflight' = [inflight EXCEPT ![p] = @ + 1] /\ throttled' = [throttled EXCEPT ![p] = @ + 1]
(* the requester's connection closes / the request times out: InboundFailure *)
InboundFailure(p) ==
  /\ p \in alive /\ alive' = alive \ {p}
  /\ ongoing' = IF ForgetOnFailure THEN ongoing \ {p} ELSE ongoing
  /\ UNCHANGED <<inflight, throttled>>
(* the Swarm reports the result of a dial-back (success or failure): the entry is removed, the response sent *)
DialResolved(p) ==
  /\ inflight[p] > 0 /\ inflight' = [inflight EXCEPT ![p] = @ - 1]
  /\ ongoing' = ongoing \ {p} /\ alive' = alive \ {p}
  /\ UNCHANGED throttled
Next == \E p \in Peers : Request(p) \/ InboundFailure(p) \/ DialResolved(p)
Spec == Init /\ [][Next]_vars
OneDialBackPerPeer == \A p \in Peers : inflight[p] <= 1
PerPeerThrottle == \A p \in Peers : throttled[p] <= PeerMax
GlobalThrottle == Total <= GlobalMax
====
