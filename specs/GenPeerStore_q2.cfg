CONSTANTS
  Peers = {0, 1, 2}
  Addrs = {0, 1}
  PeerCap = 2
  RecCap = 1
  MaxFailed = 1
  RemoveOnDialError = TRUE
  IgnoreForce = FALSE
  EntryOverflow = FALSE
  SilentAuto = FALSE
INIT GInit
NEXT GNext
VIEW GView
ACTION_CONSTRAINT EmitEdge
