CONSTANTS
  Streams = {0}
  Paired = FALSE
  MaxOps = 7
  MaxWire = 2
  BarrierBug = FALSE
  ResetLoose = FALSE
  LoseFlagInClosing = FALSE
  LocalOps = {"read", "write", "close", "close_read", "drop"}
  EnvOps = {"block", "unblock"}
  Frames = {"data", "fin", "stop", "reset"}
INIT GInit
NEXT GNext
VIEW GView
CONSTRAINT WireBound
ACTION_CONSTRAINT EmitEdge
