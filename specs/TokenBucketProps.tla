---- MODULE TokenBucketProps ----
(* C48 stated over the acceptance history of one identity: `a` = sequence of acceptance instants. *)
EXTENDS Naturals, Sequences
WindowLawOf(a, limit, interval) ==
  \A x, y \in 1..Len(a) : x <= y => (y - x + 1) <= limit + ((a[y] - a[x]) \div interval)
IdleOf(a, t, limit, interval) == a = <<>> \/ t - a[Len(a)] >= limit * interval
====
