---- MODULE KadRecord ----
(* C42: record lifetimes. Transcription of the two computations
     Behaviour::record_received   stored expiry = merge(expiry given by the peer, now + record_ttl)       (behaviour.rs)
     record_to_proto              wire ttl (whole seconds, 0 = "does not expire") from the remaining lifetime (protocol.rs)
     record_from_proto            expiry from a received wire ttl
   over Option values (None = 0 - 1 is avoided: None is the string-free encoding [has |-> FALSE, v |-> 0]).
   Time in milliseconds. The state space is just the input grid (one state per input); invariants = the statement. *)
EXTENDS Integers, TLC
CONSTANTS MaxMs,          \* inputs range over 0..MaxMs step StepMs
          StepMs,
          OrMinMerge,     \* canary: `rec.or(cfg).min(cfg)` with None < Some(_)  (the defect fixed in /repo)
          FloorTtl        \* canary: ttl = remaining.as_secs() without the 1 s floor (the defect fixed in /repo)
None == [has |-> FALSE, v |-> 0]
Some(x) == [has |-> TRUE, v |-> x]
Grid == {i * StepMs : i \in 0..(MaxMs \div StepMs)}
Opts == {None} \cup {Some(x) : x \in Grid}
VARIABLES rexp,   \* expiry the peer gave (ms from now) or None
          cexp,   \* now + record_ttl or None
          rem     \* remaining lifetime of an outgoing record (ms) or None; Some(0) = already expired
vars == <<rexp, cexp, rem>>
Init == rexp \in Opts /\ cexp \in Opts /\ rem \in Opts
Next == FALSE /\ UNCHANGED vars
(* Option::or, Option::min as Rust defines them (None < Some) *)
Or(a, b) == IF a.has THEN a ELSE b
MinRust(a, b) == IF ~a.has \/ ~b.has THEN None ELSE IF a.v <= b.v THEN a ELSE b
CodeMerge(r, c) == IF OrMinMerge THEN MinRust(Or(r, c), c)
                   ELSE IF r.has /\ c.has THEN (IF r.v <= c.v THEN r ELSE c) ELSE Or(r, c)
CodeTtl(m) == IF ~m.has THEN 0
              ELSE IF m.v > 0 THEN (IF FloorTtl THEN m.v \div 1000 ELSE (IF m.v \div 1000 >= 1 THEN m.v \div 1000 ELSE 1))
              ELSE 1
CodeFromTtl(ttl) == IF ttl > 0 THEN Some(ttl * 1000) ELSE None
(* ---- the statement ---- *)
MergeOK == LET s == CodeMerge(rexp, cexp) IN
           /\ s.has => (rexp.has => s.v <= rexp.v) /\ (cexp.has => s.v <= cexp.v)
           /\ ~s.has => ~rexp.has /\ ~cexp.has
WireOK == LET t == CodeTtl(rem) IN
          /\ ~rem.has => t = 0
          /\ rem.has => t >= 1 /\ (t = 1 \/ t * 1000 <= rem.v + 999)
RoundTripOK == \* what the receiver reconstructs never outlives the sender's remaining lifetime by a second or more, and keeps "expires"
          LET back == CodeFromTtl(CodeTtl(rem)) IN
          /\ back.has = rem.has
          /\ rem.has => (back.v <= rem.v + 999 \/ back.v = 1000)
====
