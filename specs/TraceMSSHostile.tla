---- MODULE TraceMSSHostile ----
(* C15, hostile input through the public API: a listener / V1 dialer / V1Lazy dialer is fed crafted or
   random bytes in chunks, then the peer hangs up; a stream that was handed out is used further
   (read, read again, flush, close).  Statement: never a panic (a `panic` line matches no action);
   the enumerated malformed inputs (oversized frame, garbage of maximal length, name without '/',
   more than 1000 protocols, empty frame, wrong header, confirmation of a protocol never proposed) end
   the negotiation with an error - not with success and not by hanging after the peer hung up; on the
   stream of a V1Lazy dialer (which settled before reading anything) no read may succeed then. *)
EXTENDS TraceIO
VARIABLES l, expect, res, hung
vars == <<l, expect, res, hung>>
R == Rec[l]
Init == l = 1 /\ expect = "any" /\ res = "none" /\ hung = FALSE /\ InitReg
Reset == R.e = "reset" /\ expect' = R.expect /\ res' = "none" /\ hung' = FALSE
Res == /\ R.e = "res" /\ res = "none" /\ res' = R.r
       /\ (expect \in {"any", "lazy_err"} \/ R.r = expect) = TRUE
       /\ UNCHANGED <<expect, hung>>
Hangup == R.e = "hangup" /\ hung' = TRUE /\ UNCHANGED <<expect, res>>
Io == /\ R.e = "io" /\ res = "ok" /\ R.r \in {"ok", "err", "pending"}
      /\ (expect = "lazy_err" /\ R.op = "read") => R.r # "ok"      \* the optimistic dialer must learn of the failure by reading
      /\ UNCHANGED <<expect, res, hung>>
Quiet == R.e \in {"pending", "feed"} /\ UNCHANGED <<expect, res, hung>>
End == R.e = "end" /\ (hung => (R.done /\ res # "none")) /\ UNCHANGED <<expect, res, hung>>
Next == l <= NRec /\ l' = l + 1 /\ (Reset \/ Res \/ Hangup \/ Io \/ Quiet \/ End)
Spec == Init /\ [][Next]_vars
Progress == Mark(l)
====
