INIT Init
NEXT Next
INVARIANT C32_StillBackedOff
INVARIANT C32_GraftInBackoffPenalised
INVARIANT C28_AddedNotBackedOff
CONSTRAINT Progress
POSTCONDITION Accepted
