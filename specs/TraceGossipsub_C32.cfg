INIT Init
NEXT Next
INVARIANT C32_StillBackedOff
INVARIANT C28_AddedNotBackedOff
CONSTRAINT Progress
POSTCONDITION Accepted
