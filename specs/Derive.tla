---- MODULE Derive ----
(* What #[derive(NetworkBehaviour)] generates for a struct of fields 1..N (swarm-derive/src/lib.rs):
   on_swarm_event forwards to every field in order; handle_* asks the fields in order and stops at the
   first Err; handler events carry the index of the field whose handler produced them. C58.
   Canary FirstOnly: on_swarm_event is forwarded to the first field only. *)
EXTENDS Naturals, Sequences, FiniteSets, TLC
CONSTANTS N, Events, MaxLen, FirstOnly
VARIABLES seen,      \* field -> sequence of events it was given
          asked,     \* fields asked in the last decision round
          outcome,   \* "none" | "allow" | "deny"
          votes,     \* field -> BOOLEAN (deny?) for the last round
          routed     \* <<producing field, receiving field>> of the last handler event
vars == <<seen, asked, outcome, votes, routed>>
F == 1..N
Init == seen = [f \in F |-> <<>>] /\ asked = {} /\ outcome = "none" /\ votes = [f \in F |-> FALSE] /\ routed = <<0, 0>>
OnSwarmEvent(e) == /\ \A f \in F : Len(seen[f]) < MaxLen
                   /\ seen' = [f \in F |-> IF FirstOnly /\ f > 1 THEN seen[f] ELSE Append(seen[f], e)]
                   /\ UNCHANGED <<asked, outcome, votes, routed>>
FirstDeny(v) == IF \E f \in F : v[f] THEN CHOOSE f \in F : v[f] /\ \A g \in F : g < f => ~v[g] ELSE N + 1
Decide(v) == /\ votes' = v /\ asked' = {f \in F : f <= FirstDeny(v)}
             /\ outcome' = IF FirstDeny(v) <= N THEN "deny" ELSE "allow"
             /\ UNCHANGED <<seen, routed>>
HandlerEvent(f) == routed' = <<f, f>> /\ UNCHANGED <<seen, asked, outcome, votes>>
Next == (\E e \in Events : OnSwarmEvent(e)) \/ (\E v \in [F -> BOOLEAN] : Decide(v)) \/ (\E f \in F : HandlerEvent(f))
AllFieldsSeeAll == \A f, g \in F : seen[f] = seen[g]
DenyIffSomeDenies == outcome # "none" => ((outcome = "deny") <=> (\E f \in asked : votes[f]))
AskedInOrder == \A f \in asked : \A g \in F : g < f => (g \in asked /\ ~votes[g])
RoutedBack == routed[1] = routed[2]
====
