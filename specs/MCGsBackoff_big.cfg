SPECIFICATION Spec
CONSTANTS
  PruneBackoff = 3
  Slack = 2
  MaxDur = 9
  MaxTime = 14
  NoTimeCheck = FALSE
  OverwriteAlways = FALSE
INVARIANT NeverShortened
INVARIANT SlotInRing
PROPERTY Forgets
