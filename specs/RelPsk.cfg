INIT Init
NEXT Next
