CONSTANTS NS = 3 GcOnListen = FALSE
INIT Init
NEXT Next
INVARIANTS OfferedIsRegistered
