CONSTANTS
  MaxProtocols = 5
  MaxFrame = 14
  CheckBefore = TRUE
INIT Init
NEXT Next
INVARIANT RoundTrip RejectTooMany RejectNoSlash PrefixAtMostTwo
