CONSTANTS NS = 3 GcOnListen = TRUE
INIT Init
NEXT Next
INVARIANTS UniqueRegistration EntryIsLive OfferedIsRegistered ToOwnerOnly AtMostOnce NotLostWhenIdle
