---- MODULE TraceGsBackoff ----
(* C32 trace validation (property level): the recorded view of the REAL BackoffStorage after every
   update_backoff / heartbeat / clock advance must satisfy the statement:
     NeverShortened  from an update (t, p, d) at time u until u + d the pair is reported as backed off
                     (is_backoff_with_slack) and its backoff time lies in the future, whatever further updates,
                     heartbeats and time advances happen in between;
     Forgotten       once a pair has been expired for slack heartbeat intervals, it is forgotten after enough
                     heartbeats (bound: 2 * ring heartbeats, ring = slots of the documented ring; any
                     implementation that forgets faster is accepted).
   Nothing else is required (reporting a backoff longer than promised is allowed). Time is in ticks. *)
EXTENDS TraceIO, Integers
VARIABLES l, cfg, now, promised, over, bad
vars == <<l, cfg, now, promised, over, bad>>
R == Rec[l]
Range(s) == {s[i] : i \in 1..Len(s)}
Pairs == (0..(cfg.nt - 1)) \X (0..(cfg.np - 1))
Init == l = 1 /\ cfg = [nt |-> 0, np |-> 0] /\ now = 0 /\ promised = <<>> /\ over = <<>> /\ bad = {} /\ InitReg
Reset == /\ R.e = "reset"
         /\ cfg' = [nt |-> R.nt, np |-> R.np, h |-> R.h, slack |-> R.slack, ring |-> R.ring]
         /\ now' = 0 /\ bad' = {}
         /\ promised' = [x \in (0..(R.nt - 1)) \X (0..(R.np - 1)) |-> 0]
         /\ over' = [x \in (0..(R.nt - 1)) \X (0..(R.np - 1)) |-> 0]
Max(a, b) == IF a > b THEN a ELSE b
NewNow == IF R.e = "tick" THEN now + R.d ELSE now
NewPromised == IF R.e = "upd" THEN [promised EXCEPT ![<<R.t, R.p>>] = Max(@, now + R.d)] ELSE promised
(* heartbeats seen while the pair was already expired past the slack (and not updated since) *)
NewOver == [x \in Pairs |->
              IF R.e = "upd" /\ x = <<R.t, R.p>> THEN 0
              ELSE IF R.e = "hb" /\ now >= promised[x] + cfg.slack * cfg.h THEN over[x] + 1
              ELSE over[x]]
Obs(x) == CHOOSE s \in Range(R.st) : s[1] = x[1] /\ s[2] = x[2]
Step == /\ R.e \in {"upd", "hb", "tick"}
        /\ now' = NewNow /\ promised' = NewPromised /\ over' = NewOver
        /\ bad' = (IF \E x \in Pairs : NewNow < NewPromised[x] /\ ~(Obs(x)[3] = 1 /\ Obs(x)[4] = 1) THEN {"shortened"} ELSE {})
                  \cup (IF \E x \in Pairs : NewOver[x] >= 2 * cfg.ring /\ Obs(x)[3] = 1 THEN {"not forgotten"} ELSE {})
        /\ UNCHANGED cfg
Next == l <= NRec /\ l' = l + 1 /\ (Reset \/ Step)
Spec == Init /\ [][Next]_vars
Progress == Mark(l)
NeverShortened == "shortened" \notin bad
Forgotten == "not forgotten" \notin bad
====
