---- MODULE GenDnsDial ----
(* C23 schedule generator: every record graph of the DnsDial model (all initial states: cyclic /dnsaddr graphs,
   foreign-suffix entries, empty / error host answers) x inner-transport policies, printed in the driver's
   schedule format.  /dnsaddr name j -> name index j, /dns4 host j -> name index 10 + j. *)
EXTENDS Naturals, Sequences, FiniteSets, TLC, Json
CONSTANTS NamesN, HostsN, Ips, WithForeign, Policies
VARIABLE x
Nm == 1..NamesN
Hs == 1..HostsN
Sfx == IF WithForeign THEN BOOLEAN ELSE {TRUE}
Item == ({"n"} \X Nm \X {TRUE}) \cup ({"h"} \X Hs \X {TRUE}) \cup ({"ip"} \X (1..Ips) \X Sfx)
RECURSIVE SetToSeq(_)
SetToSeq(S) == IF S = {} THEN <<>> ELSE LET y == CHOOSE y \in S : TRUE IN <<y>> \o SetToSeq(S \ {y})
P(sfx) == <<"p2p", IF sfx THEN 1 ELSE 2>>
Txt(e) == CASE e[1] = "n" -> <<"txt", << <<"dnsaddr", e[2]>>, P(e[3]) >> >>
            [] e[1] = "h" -> <<"txt", << <<"dns4", 10 + e[2]>>, <<"tcp", 1>>, P(e[3]) >> >>
            [] e[1] = "ip" -> <<"txt", << <<"ip4", e[2]>>, <<"tcp", 1>>, P(e[3]) >> >>
Hosts == [k : {"err"}, ips : {{}}] \cup [k : {"ans"}, ips : SUBSET (1..Ips)]
Zone(txt, host) ==
  [i \in 1..(NamesN + HostsN) |->
     IF i <= NamesN THEN [n |-> i, t |-> "txt", k |-> "ans", recs |-> SetToSeq({Txt(e) : e \in txt[i]})]
     ELSE [n |-> 10 + (i - NamesN), t |-> "a", k |-> host[i - NamesN].k, recs |-> SetToSeq({<<"a", k>> : k \in host[i - NamesN].ips})]]
Sched(txt, host, pol) == [dial |-> << <<"dnsaddr", 1>>, <<"p2p", 1>> >>, zone |-> Zone(txt, host), inner |-> pol]
ASSUME \A txt \in [Nm -> SUBSET Item], host \in [Hs -> Hosts], pol \in Policies :
         PrintT(<<"REPLAY", ToJson(Sched(txt, host, pol))>>)
Init == x = 0
Next == FALSE /\ x' = x
====
