---- MODULE XStream ----
(* X01: libp2p-stream (/repo/protocols/stream): Control::accept / Control::open_stream / IncomingStreams.
   From the crate README and the doc comments of Control, what an application relies on:

   T1 UniqueRegistration    Control::accept(p) returns AlreadyRegistered iff a live IncomingStreams for p exists: at most one
                            live IncomingStreams per protocol; "as soon as you drop IncomingStreams, the protocol will be
                            de-registered" (accept(p) succeeds again).
   T2 OfferedIsRegistered   the protocols offered to a remote for an inbound stream are exactly the registered ones ("any
                            further attempt by remote peers to open a stream using the provided protocol will result in a
                            negotiation error").
   T3 DeliveredOnceToOwner  a negotiated inbound stream for p is handed, with the remote's peer id, to the IncomingStreams
                            registered for p at that moment, at most once, never to another protocol's; it is lost only if
                            nobody is registered or if the consumer is behind ("we will drop streams if your application
                            falls behind"); a slow consumer of p never affects q.
   T4 DialsWhenNeeded       open_stream to a peer without connection makes the behaviour dial that peer ("we will attempt to
                            make a new connection"), and only then (no redundant dials).
   T5 OneRequestPerOpen     every open_stream leads to at most one outbound substream request, on a connection to its peer,
                            for exactly its protocol.
   T6 ResolvesWithOutcome   every open_stream resolves (exactly once, being a future) with the outcome of ITS attempt: the
                            negotiated stream, UnsupportedProtocol(p) when the remote refused p, Io when the dial, the
                            connection or the negotiation failed ("dial errors are propagated": Io(NotConnected) for everything
                            that waited for the failed dial).  It never waits for ever once the environment (dials,
                            negotiations) has answered everything it was asked.
   (XStreamIn.tla models T1..T3, this module T4..T6.)

   Model of the outbound path: Shared.{connections, senders, pending_channels, dial_sender}, Behaviour::poll, Handler.
   Connections c1, c2 belong to peer 1, c3 to peer 2.  Named deviations of the code as found:
     DialBounded = TRUE   the dial-request channel holds one request: a second one (another peer) before the behaviour is
                          polled is dropped (try_send fails) and that peer is never dialed;
     ForwardAll  = FALSE  only some DialError kinds fail the waiting open_streams (Aborted / LocalPeerId do not). *)
EXTENDS Naturals, Sequences, FiniteSets
CONSTANTS NO, DialBounded, ForwardAll
VARIABLES op, dialq, dialing, pend, conn, hq, hup
vars == <<op, dialq, dialing, pend, conn, hq, hup>>
Peers == {1, 2}
Conns == {1, 2, 3}
PeerOf(c) == IF c = 3 THEN 2 ELSE 1
Opens == 1..NO
None == <<0>>     \* pending_channels has no entry (distinct from an empty queue)

Init == /\ op = [i \in Opens |-> [st |-> "idle", peer |-> 0]]
        /\ dialq = <<>> /\ dialing = [x \in Peers |-> FALSE] /\ pend = [x \in Peers |-> None]
        /\ conn = [c \in Conns |-> "none"] /\ hq = [c \in Conns |-> <<>>] /\ hup = [c \in Conns |-> 0]

Up(x) == {c \in Conns : conn[c] = "up" /\ PeerOf(c) = x}
Done(s) == [i \in Opens |-> IF i \in s THEN [op[i] EXCEPT !.st = "done"] ELSE op[i]]
SetOf(s) == {s[k] : k \in 1..Len(s)}

(* Control::open_stream up to the point where the NewStream message sits in a channel *)
Open(i, x) == /\ op[i].st = "idle" /\ \A j \in Opens : j < i => op[j].st # "idle"
              /\ IF Up(x) # {}
                 THEN /\ \E c \in Up(x) : hq' = [hq EXCEPT ![c] = Append(@, i)]          \* a random connection to the peer
                      /\ UNCHANGED <<dialq, pend>>
                 ELSE /\ pend' = [pend EXCEPT ![x] = IF @ = None THEN <<i>> ELSE Append(@, i)]
                      /\ dialq' = IF DialBounded /\ Len(dialq) >= 1 THEN dialq ELSE Append(dialq, x)   \* let _ = try_send(peer)
                      /\ UNCHANGED hq
              /\ op' = [op EXCEPT ![i] = [st |-> "wait", peer |-> x]]
              /\ UNCHANGED <<dialing, conn, hup>>

(* Behaviour::poll -> ToSwarm::Dial with PeerCondition::DisconnectedAndNotDialing, evaluated by the Swarm *)
BehPoll == /\ dialq # <<>> /\ dialq' = Tail(dialq)
           /\ LET x == Head(dialq) IN
              dialing' = IF Up(x) = {} /\ ~dialing[x] THEN [dialing EXCEPT ![x] = TRUE] ELSE dialing
           /\ UNCHANGED <<op, pend, conn, hq, hup>>

(* a connection is established (outbound: the dial succeeded; inbound: the remote connected): Shared::receiver *)
Establish(c, out) == /\ conn[c] = "none"
                     /\ LET x == PeerOf(c) IN
                        /\ IF out THEN dialing[x] /\ dialing' = [dialing EXCEPT ![x] = FALSE] ELSE UNCHANGED dialing
                        /\ hq' = [hq EXCEPT ![c] = IF pend[x] = None THEN <<>> ELSE pend[x]]
                        /\ pend' = [pend EXCEPT ![x] = None]
                     /\ conn' = [conn EXCEPT ![c] = "up"]
                     /\ UNCHANGED <<op, dialq, hup>>

(* FromSwarm::DialFailure: on_dial_failure fails everything queued for the peer, for the forwarded error kinds *)
DialFail(x, forwarded) == /\ dialing[x] /\ dialing' = [dialing EXCEPT ![x] = FALSE]
                          /\ IF (forwarded \/ ForwardAll) /\ pend[x] # None
                             THEN op' = Done(SetOf(pend[x])) /\ pend' = [pend EXCEPT ![x] = None]
                             ELSE UNCHANGED <<op, pend>>
                          /\ UNCHANGED <<dialq, conn, hq, hup>>

(* connection closed: the handler and its receiver are dropped, every sender of a reply is dropped with them *)
Close(c) == /\ conn[c] = "up" /\ conn' = [conn EXCEPT ![c] = "closed"]
            /\ op' = Done(SetOf(hq[c]) \cup (IF hup[c] = 0 THEN {} ELSE {hup[c]}))
            /\ hq' = [hq EXCEPT ![c] = <<>>] /\ hup' = [hup EXCEPT ![c] = 0]
            /\ UNCHANGED <<dialq, dialing, pend>>

(* Handler::poll: one request at a time (pending_upgrade) *)
HPoll(c) == /\ conn[c] = "up" /\ hup[c] = 0 /\ hq[c] # <<>>
            /\ hup' = [hup EXCEPT ![c] = Head(hq[c])] /\ hq' = [hq EXCEPT ![c] = Tail(@)]
            /\ UNCHANGED <<op, dialq, dialing, pend, conn>>
(* FullyNegotiatedOutbound / DialUpgradeError *)
OutRes(c) == /\ conn[c] = "up" /\ hup[c] # 0
             /\ op' = Done({hup[c]}) /\ hup' = [hup EXCEPT ![c] = 0]
             /\ UNCHANGED <<dialq, dialing, pend, conn, hq>>

Next == \/ \E i \in Opens, x \in Peers : Open(i, x)
        \/ BehPoll
        \/ \E c \in Conns, out \in BOOLEAN : Establish(c, out)
        \/ \E x \in Peers, f \in BOOLEAN : DialFail(x, f)
        \/ \E c \in Conns : Close(c) \/ HPoll(c) \/ OutRes(c)
Spec == Init /\ [][Next]_vars

(* nothing can move without the environment *)
Quiescent == dialq = <<>> /\ \A c \in Conns : conn[c] = "up" => (hq[c] = <<>> \/ hup[c] # 0)
Justified(i) == dialing[op[i].peer] \/ \E c \in Up(op[i].peer) : hup[c] # 0
(* T6 *)
Resolves == Quiescent => \A i \in Opens : op[i].st = "wait" => Justified(i)
(* T4 is an action property of BehPoll: dialing is set only for a peer that is neither connected nor being dialed,
   and a dial request is queued by every open_stream that finds no connection (checked on the real code by the trace spec) *)
(* T5: a request sits in exactly one place *)
Places(i) == Cardinality({c \in Conns : i \in SetOf(hq[c])}) + Cardinality({c \in Conns : hup[c] = i})
             + Cardinality({x \in Peers : pend[x] # None /\ i \in SetOf(pend[x])})
OnePlace == \A i \in Opens : Places(i) <= 1 /\ (op[i].st = "done" => Places(i) = 0)
RightPeer == \A c \in Conns : \A i \in SetOf(hq[c]) \cup (IF hup[c] = 0 THEN {} ELSE {hup[c]}) : op[i].peer = PeerOf(c)
====
