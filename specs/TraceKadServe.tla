---- MODULE TraceKadServe ----
(* X06 trace validation: a REAL kad::Behaviour<MemoryStore> serving inbound PUT_VALUE / GET_VALUE / ADD_PROVIDER /
   GET_PROVIDERS requests and local store operations (harness/drv-xkadstore/src/serve.rs). The store contents are
   followed from the projection every event carries; the guards are the statements of specs/KadServe.tla:

     Bounds            never more than max_records records, every value shorter than max_value_bytes, at most
                       max_providers_per_key providers per key, at most max_provided_keys keys with providers
     ProvidedSync      provided() = the local node's entries of providers(key), for every key
     NeverServeExpired a GET_VALUE / GET_PROVIDERS reply never contains a record / provider whose expiry has passed,
                       never lists the requester as a provider or closer peer, and contains every unexpired one
                       (providers: up to the replication factor)
     StoredOnlyUnfiltered  an inbound record or provider reaches the store only with StoreInserts::Unfiltered;
                       with FilterBoth the store is untouched and the application gets it exactly once instead
     TtlNeverExtended  a stored (or handed-over) record expires at min(expiry sent by the peer,
                       now + record_ttl / 2^max(0, between - k)): never later than the peer said or the configured TTL
                       allows, shortened with the distance, and without expiry only if neither is set; a provider
                       record expires at now + provider_record_ttl
     OneReply          every PUT_VALUE / GET_VALUE / GET_PROVIDERS gets exactly one reply, to the requesting
                       peer, connection and request id (ADD_PROVIDER gets none)
     LegitProvider     ADD_PROVIDER is honoured only if the announced provider is the sender and not the local node;
                       PUT_VALUE with the local node as publisher changes nothing

   Time: instants are milliseconds relative to the run start; the code's `now` of an op lies in [t0, t1]. An expiry e
   (floor ms) is definitely past if e < t0, definitely ahead if e > t1, else either outcome is accepted.
   Tuples: record <<key, tag, size, publisher, has_expiry, expiry>>, provider <<key, provider, has_expiry, expiry>>. *)
EXTENDS TraceIO, FiniteSets, Integers
VARIABLES l, cfg, recs, provs, provided
vars == <<l, cfg, recs, provs, provided>>
R == Rec[l]
SeqSet(s) == {s[i] : i \in 1..Len(s)}
Min(a, b) == IF a < b THEN a ELSE b
Cfg0 == [maxrec |-> 1, maxval |-> 1, maxprov |-> 1, maxpk |-> 1, ttl |-> 0, pttl |-> 0, filt |-> FALSE, k |-> 1, rt |-> <<>>]
Init == l = 1 /\ cfg = Cfg0 /\ recs = {} /\ provs = {} /\ provided = {} /\ InitReg
Reset == /\ R.e = "reset"
         /\ cfg' = [maxrec |-> R.maxrec, maxval |-> R.maxval, maxprov |-> R.maxprov, maxpk |-> R.maxpk, ttl |-> R.ttl,
                    pttl |-> R.pttl, filt |-> R.filt, k |-> R.k, rt |-> R.rt]
         /\ recs' = {} /\ provs' = {} /\ provided' = {}

PR == SeqSet(R.recs)
PP == SeqSet(R.provs)
PD == SeqSet(R.provided)
(* the projection is well-formed and becomes the new state *)
FollowB == /\ Len(R.recs) = Cardinality(PR) /\ Len(R.provs) = Cardinality(PP) /\ Len(R.provided) = Cardinality(PD)
          /\ recs' = PR /\ provs' = PP /\ provided' = PD /\ UNCHANGED cfg
Follow == R.other = 0 /\ FollowB
Past(eh, e) == eh = 1 /\ e < R.t0
Ahead(eh, e) == eh = 0 \/ e > R.t1
OfKey(S, k) == {x \in S : x[1] = k}
OneReplyOf(kind) == /\ Len(R.replies) = 1 /\ R.replies[1].r = kind /\ R.replies[1].to_ok /\ R.replies[1].id_ok
NoReply == Len(R.replies) = 0
NoReq == Len(R.reqs) = 0
RefusePut(k, size) == size >= cfg.maxval \/ (OfKey(recs, k) = {} /\ Cardinality(recs) >= cfg.maxrec)

Put == /\ R.e = "put" /\ Follow /\ PP = provs /\ PD = provided
       /\ LET shift == IF R.between > cfg.k THEN R.between - cfg.k ELSE 0
              dec == (cfg.ttl \div (2 ^ shift)) * 1000
              thas == cfg.ttl > 0
              mh == IF R.rh = 1 \/ thas THEN 1 ELSE 0
              mlo == IF R.rh = 1 /\ thas THEN Min(R.rexp, R.t0 + dec) ELSE IF R.rh = 1 THEN R.rexp ELSE R.t0 + dec
              mhi == IF R.rh = 1 /\ thas THEN Min(R.rexp, R.t1 + dec) ELSE IF R.rh = 1 THEN R.rexp ELSE R.t1 + dec
              defexp == Past(R.rh, R.rexp) \/ (thas /\ dec = 0)
              deflive == Ahead(R.rh, R.rexp) /\ (thas => dec > 0)
              Fits(x) == x[1] = R.key /\ x[2] = (IF R.size = 0 THEN 0 ELSE R.tag) /\ x[3] = R.size /\ x[4] = R.pub /\ x[5] = mh
                         /\ (mh = 1 => (mlo <= x[6] /\ x[6] <= mhi))
              Silent == PR = recs /\ NoReq /\ OneReplyOf("putres")
              Filtered == /\ PR = recs /\ OneReplyOf("putres")
                          /\ Len(R.reqs) = 1 /\ R.reqs[1].q = "put" /\ R.reqs[1].has /\ R.reqs[1].src = R.from /\ R.reqs[1].conn_ok
                          /\ Fits(R.reqs[1].rec)
              Refused == PR = recs /\ NoReq /\ OneReplyOf("reset")
              Stored == /\ OneReplyOf("putres")
                        /\ Len(R.reqs) = 1 /\ R.reqs[1].q = "put" /\ ~R.reqs[1].has /\ R.reqs[1].src = R.from /\ R.reqs[1].conn_ok
                        /\ \E x \in PR : Fits(x) /\ PR \ {x} = recs \ OfKey(recs, R.key)
              Live == IF cfg.filt THEN Filtered ELSE IF RefusePut(R.key, R.size) THEN Refused ELSE Stored IN
          /\ R.closer >= R.between
          /\ (IF R.pub = 0 \/ defexp THEN Silent ELSE IF deflive THEN Live ELSE (Silent \/ Live)) = TRUE
          /\ (R.replies[1].r = "putres" => (R.replies[1].key = R.key /\ R.replies[1].size = R.size))

Get == /\ R.e = "get" /\ Follow /\ PP = provs /\ PD = provided
       /\ OneReplyOf("getres")
       /\ LET rep == R.replies[1]  cur == OfKey(recs, R.key)
              Absent == ~rep.has /\ (PR = recs \/ PR = recs \ cur)
              Served == rep.has /\ rep.rec \in cur /\ PR = recs IN
          /\ Len(R.reqs) = 1 /\ R.reqs[1].q = "get" /\ R.reqs[1].present = rep.has /\ R.reqs[1].nc = Len(rep.closer)
          /\ R.from \notin SeqSet(rep.closer) /\ SeqSet(rep.closer) \subseteq SeqSet(cfg.rt) /\ Cardinality(SeqSet(rep.closer)) = Len(rep.closer)
          /\ (IF cur = {} THEN ~rep.has /\ PR = recs
              ELSE LET r == CHOOSE x \in cur : TRUE IN
                   IF Past(r[5], r[6]) THEN Absent ELSE IF Ahead(r[5], r[6]) THEN Served ELSE (Absent \/ Served)) = TRUE

Getp == /\ R.e = "getp" /\ Follow /\ PR = recs
        /\ OneReplyOf("getpres")
        /\ LET rep == R.replies[1]  cur == OfKey(provs, R.key)
               got == SeqSet(rep.provs)
               may == {p[2] : p \in {x \in cur : ~Past(x[3], x[4])}} \ {R.from}
               must == {p[2] : p \in {x \in cur : Ahead(x[3], x[4])}} \ {R.from} IN
           /\ Cardinality(got) = Len(rep.provs) /\ got \subseteq may
           /\ Cardinality(got) >= Min(cfg.k, Cardinality(must)) /\ Cardinality(got) <= cfg.k
           /\ PP \subseteq provs /\ \A p \in provs \ PP : p[1] = R.key /\ ~Ahead(p[3], p[4])
           /\ Len(R.reqs) = 1 /\ R.reqs[1].q = "getp" /\ R.reqs[1].np = Len(rep.provs) /\ R.reqs[1].nc = Len(rep.closer)
           /\ R.from \notin SeqSet(rep.closer) /\ SeqSet(rep.closer) \subseteq SeqSet(cfg.rt)

(* MemoryStore::add_provider as documented: a new key beyond max_provided_keys is an error; a known provider is
   updated in place; a full provider list ignores the newcomer but reports success (FullListSilentlyOk) *)
AddErr(k) == OfKey(provs, k) = {} /\ Cardinality({p[1] : p \in provs}) >= cfg.maxpk
Added(k, pr, eh, lo, hi) ==
  LET cur == OfKey(provs, k)  old == {p \in cur : p[2] = pr} IN
  IF old # {} THEN \E x \in PP : x[1] = k /\ x[2] = pr /\ x[3] = eh /\ (eh = 1 => (lo <= x[4] /\ x[4] <= hi)) /\ PP \ {x} = provs \ old
  ELSE IF Cardinality(cur) >= cfg.maxprov THEN PP = provs
  ELSE \E x \in PP : x[1] = k /\ x[2] = pr /\ x[3] = eh /\ (eh = 1 => (lo <= x[4] /\ x[4] <= hi)) /\ PP \ {x} = provs
Addp == /\ R.e = "addp" /\ Follow /\ PR = recs /\ NoReply
        /\ LET legit == R.prov = R.from /\ R.prov # 0
               eh == IF cfg.pttl > 0 THEN 1 ELSE 0
               lo == R.t0 + cfg.pttl * 1000  hi == R.t1 + cfg.pttl * 1000 IN
           (IF ~legit THEN PP = provs /\ NoReq
            ELSE IF cfg.filt THEN /\ PP = provs /\ Len(R.reqs) = 1 /\ R.reqs[1].q = "addp" /\ R.reqs[1].has
                                  /\ LET x == R.reqs[1].rec IN x[1] = R.key /\ x[2] = R.prov /\ x[3] = eh /\ (eh = 1 => (lo <= x[4] /\ x[4] <= hi))
            ELSE IF AddErr(R.key) THEN PP = provs /\ NoReq
            ELSE Added(R.key, R.prov, eh, lo, hi) /\ Len(R.reqs) = 1 /\ R.reqs[1].q = "addp" /\ ~R.reqs[1].has) = TRUE

Lput == /\ R.e = "lput" /\ Follow /\ PP = provs /\ NoReply /\ NoReq
        /\ R.res = ~RefusePut(R.key, R.size)
        /\ PR = IF R.res THEN (recs \ OfKey(recs, R.key)) \cup {<<R.key, IF R.size = 0 THEN 0 ELSE R.tag, R.size, 0, R.rh, R.rexp>>} ELSE recs
Lrem == /\ R.e = "lrem" /\ Follow /\ PP = provs /\ NoReply /\ NoReq /\ PR = recs \ OfKey(recs, R.key)
Laddp == /\ R.e = "laddp" /\ Follow /\ PR = recs /\ NoReply /\ NoReq
         /\ R.res = ~AddErr(R.key)
         /\ (IF R.res THEN Added(R.key, R.prov, R.rh, R.rexp, R.rexp) ELSE PP = provs) = TRUE
Lremp == /\ R.e = "lremp" /\ Follow /\ PR = recs /\ NoReply /\ NoReq
         /\ PP = provs \ {p \in provs : p[1] = R.key /\ p[2] = R.prov}
(* the application's own calls: put_record stores the record as given with the local node as publisher; remove_record
   only removes records the local node published; start_providing stores the local node's provider record without
   expiry; stop_providing removes it. (The queries they start are not followed here.) *)
Bput == /\ R.e = "bput" /\ FollowB /\ PP = provs
        /\ R.res = ~RefusePut(R.key, R.size)
        /\ PR = IF R.res THEN (recs \ OfKey(recs, R.key)) \cup {<<R.key, IF R.size = 0 THEN 0 ELSE R.tag, R.size, 0, R.rh, R.rexp>>} ELSE recs
Brem == /\ R.e = "brem" /\ FollowB /\ PP = provs
        /\ PR = recs \ {r \in OfKey(recs, R.key) : r[4] = 0}
Bprov == /\ R.e = "bprov" /\ FollowB /\ PR = recs
         /\ R.res = ~AddErr(R.key)
         /\ (IF R.res THEN Added(R.key, 0, 0, 0, 0) ELSE PP = provs) = TRUE
Bstop == /\ R.e = "bstop" /\ FollowB /\ PR = recs
         /\ PP = provs \ {p \in provs : p[1] = R.key /\ p[2] = 0}
Skip == R.e = "skip" /\ UNCHANGED <<cfg, recs, provs, provided>>

Next == l <= NRec /\ l' = l + 1 /\ (Reset \/ Put \/ Get \/ Getp \/ Addp \/ Lput \/ Lrem \/ Laddp \/ Lremp \/ Bput \/ Brem \/ Bprov \/ Bstop \/ Skip)
Spec == Init /\ [][Next]_vars
(* ---- X06 invariants of the followed store ---- *)
Bounds == /\ Cardinality(recs) <= cfg.maxrec /\ \A r \in recs : r[3] < cfg.maxval
          /\ \A p \in provs : Cardinality(OfKey(provs, p[1])) <= cfg.maxprov
          /\ Cardinality({p[1] : p \in provs}) <= cfg.maxpk /\ Cardinality(provided) <= cfg.maxpk
Unique == /\ \A r1 \in recs, r2 \in recs : r1[1] = r2[1] => r1 = r2
          /\ \A p1 \in provs, p2 \in provs : (p1[1] = p2[1] /\ p1[2] = p2[2]) => p1 = p2
ProvidedSync == provided = {p \in provs : p[2] = 0}
Progress == Mark(l)
====
