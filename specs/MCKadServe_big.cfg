SPECIFICATION Spec
CONSTANTS
  Keys = {1, 2}
  Peers = {1, 2}
  Local = 0
  MaxRecords = 2
  MaxProviders = 2
  MaxProvKeys = 2
  Ttl = 2
  PTtl = 1
  K = 1
  Filter = FALSE
  MaxTime = 2
  ServeExpired = FALSE
  StoreFiltered = FALSE
  MergeMax = FALSE
  NoSourceCheck = FALSE
  ResetFallsThrough = FALSE
INVARIANT Bounds
INVARIANT ProvidedSync
INVARIANT NeverServeExpired
INVARIANT StoredOnlyUnfiltered
INVARIANT LegitProvider
INVARIANT TtlNeverExtended
INVARIANT OneReply
