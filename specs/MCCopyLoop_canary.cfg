CONSTANTS
  N = 2
  Buf = 1
  Max = 1
  W = 2
  CountBoth = FALSE
SPECIFICATION Spec
INVARIANT Prefix Bound OkComplete ErrJustified StalledWithin EofAfterAll
PROPERTY Refines
