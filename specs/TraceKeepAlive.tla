---- MODULE TraceKeepAlive ----
(* C10 property-level trace spec for ONE established connection (timestamps t in ms of the driver's clock,
   taken when the event was observed, i.e. never earlier than the real instant).
   ka{v}          handler's connection_keep_alive() now returns v
   reqOut         the handler will request an outbound stream (outstanding until hStream(out))
   hStream{dir,k} a negotiated stream k was handed to the handler (active until dropStream / ignoreKA)
   cbConnClosed   ConnectionClosed reported; cause = keepalive | io | none
   quiescent      the Swarm was polled to quiescence *)
EXTENDS TraceIO, FiniteSets, Integers
VARIABLES l, idle, ka, reqs, held, closed, idleSince, maybeNeg
vars == <<l, idle, ka, reqs, held, closed, idleSince, maybeNeg>>
R == Rec[l]
Busy(k, r, h) == k \/ r > 0 \/ h # {}
Init == l = 1 /\ InitReg /\ idle = 0 /\ ka = TRUE /\ reqs = 0 /\ held = {} /\ closed = FALSE /\ idleSince = 0 /\ maybeNeg = 0
Reset == R.e = "reset" /\ idle' = R.idle_ms /\ ka' = TRUE /\ reqs' = 0 /\ held' = {} /\ closed' = FALSE /\ idleSince' = 0 /\ maybeNeg' = 0
Upd(k, r, h) == /\ ka' = k /\ reqs' = r /\ held' = h
                /\ idleSince' = IF Busy(ka, reqs, held) /\ ~Busy(k, r, h) THEN R.t ELSE idleSince
                /\ UNCHANGED <<idle, closed>>
                /\ maybeNeg' = IF R.e = "hStream" /\ R.dir = "in" /\ maybeNeg > 0 THEN maybeNeg - 1 ELSE maybeNeg
Ka == R.e = "ka" /\ Upd(R.v, reqs, held)
ReqOut == R.e = "reqOut" /\ (IF closed THEN UNCHANGED <<idle, ka, reqs, held, closed, idleSince, maybeNeg>> ELSE Upd(ka, reqs + 1, held))
Stream == R.e = "hStream" /\ Upd(ka, IF R.dir = "out" /\ reqs > 0 THEN reqs - 1 ELSE reqs, held \cup {R.k})
Release == R.e \in {"dropStream", "ignoreKA"} /\ Upd(ka, reqs, IF R.applied THEN held \ {R.k} ELSE held)
UpgradeErr == R.e = "hDialUpgradeError" /\ Upd(ka, IF reqs > 0 THEN reqs - 1 ELSE 0, held)
Closed == /\ R.e = "cbConnClosed"
          /\ ((R.cause = "keepalive") =>
                (/\ ~Busy(ka, reqs, held)                   \* never closed for idleness while one of the four reasons holds
                 /\ R.t - idleSince >= idle)) = TRUE        \* and no earlier than the idle timeout after it became idle
          /\ closed' = TRUE /\ UNCHANGED <<idle, ka, reqs, held, idleSince, maybeNeg>>
Quiescent == /\ R.e = "quiescent"
             \* zero timeout: an idle connection does not survive a poll to quiescence (an offered inbound substream that
             \* is not negotiated yet counts as "still negotiating" once the connection has picked it up)
             /\ ((idle = 0 /\ ~closed) => (Busy(ka, reqs, held) \/ maybeNeg > 0)) = TRUE
             /\ UNCHANGED <<idle, ka, reqs, held, closed, idleSince, maybeNeg>>
OfferIn == /\ R.e = "offerIn" /\ maybeNeg' = IF R.applied THEN maybeNeg + 1 ELSE maybeNeg
           /\ UNCHANGED <<idle, ka, reqs, held, closed, idleSince>>
InFail == /\ R.e = "hListenUpgradeError" /\ maybeNeg' = IF maybeNeg > 0 THEN maybeNeg - 1 ELSE 0
          /\ UNCHANGED <<idle, ka, reqs, held, closed, idleSince>>
Skip == R.e \in {"offerOut", "negotiate", "hRequestOut", "slept", "closeWrite"} /\ UNCHANGED <<idle, ka, reqs, held, closed, idleSince, maybeNeg>>
Next == l <= NRec /\ l' = l + 1 /\ (Reset \/ Ka \/ ReqOut \/ Stream \/ Release \/ UpgradeErr \/ Closed \/ Quiescent \/ OfferIn \/ InFail \/ Skip)
Progress == Mark(l)
====
