---- MODULE RelKadClosest ----
(* C38 relation: one record per (table, target) produced by the REAL KBucketsTable::closest_keys / closest
   (driver: drv-kad kbucket closest). keys = the stored abstract keys, t = target, out = what the iterator yielded.
   Post: every stored key exactly once, in non-decreasing XOR distance to the target. *)
EXTENDS TraceIO, FiniteSets, Integers
VARIABLE x
Mod2(a) == a - 2 * (a \div 2)
RECURSIVE Xor(_, _)
Xor(a, b) == IF a = 0 THEN b ELSE IF b = 0 THEN a ELSE Mod2(Mod2(a) + Mod2(b)) + 2 * Xor(a \div 2, b \div 2)
SetOf(s) == {s[j] : j \in 1..Len(s)}
ListOK(keys, t, out) ==
  /\ Len(out) = Len(keys)                                   \* (keys are distinct by construction)
  /\ SetOf(out) = SetOf(keys)
  /\ \A j \in 1..(Len(out) - 1) : Xor(t, out[j]) <= Xor(t, out[j + 1])
Post(r) == ~Has(r, "panic") /\ ListOK(r.keys, r.t, r.out) /\ ListOK(r.keys, r.t, r.out2)
ASSUME PrintT(<<"CHECKED", ToJson([n |-> NRec])>>)
ASSUME \A i \in 1..NRec : Post(Rec[i]) \/ PrintT(<<"BAD", ToJson([line |-> i, why |-> "closest: every stored key once, sorted by distance"])>>)
Init == x = 0
Next == FALSE /\ x' = x
====
