---- MODULE Mplex ----
(* Receive side of one mplex endpoint (muxers/mplex/src/io.rs) against a raw frame injector.
   Design probe for C26 (limits) and the inbound half of C24 (per-substream ordered delivery). *)
EXTENDS Naturals, Sequences, FiniteSets, TLC
CONSTANTS Streams,      \* substream ids the remote may use
          MaxSub,       \* config.max_substreams
          MaxBuf,       \* config.max_buffer_len
          Block,        \* TRUE = MaxBufferBehaviour::Block, FALSE = ResetStream
          DataPer       \* data frames the remote sends per stream at most
VARIABLES wire,         \* frames injected by the remote, not yet read           <<kind, stream, n>>
          sub,          \* stream -> "none"|"Open"|"SendClosed"|"RecvClosed"|"Closed"|"Reset"
          buf,          \* stream -> sequence of buffered data frame numbers
          openBuf,      \* inbound streams accepted but not yet returned by poll_next_stream
          pendingOut,   \* frames the endpoint still has to send (Reset / Close)
          blocking,     \* stream whose full buffer blocks all reading, or 0
          handed,       \* streams handed to the application
          appRead,      \* stream -> data frame numbers read by the application, in order
          eof,          \* stream -> application saw end-of-stream
          sent,         \* stream -> number of data frames injected so far
          opened,       \* streams for which the remote already sent Open
          refused,      \* opens answered with a reset (monitor)
          failed,       \* connection-level protocol error
          closedBy      \* streams for which the remote already sent Close
vars == <<wire, sub, buf, openBuf, pendingOut, blocking, handed, appRead, eof, sent, opened, refused, failed, closedBy>>

Init == /\ wire = <<>> /\ sub = [s \in Streams |-> "none"] /\ buf = [s \in Streams |-> <<>>]
        /\ openBuf = <<>> /\ pendingOut = <<>> /\ blocking = 0 /\ handed = {}
        /\ appRead = [s \in Streams |-> <<>>] /\ eof = [s \in Streams |-> FALSE]
        /\ sent = [s \in Streams |-> 0] /\ opened = {} /\ refused = {} /\ failed = FALSE /\ closedBy = {}

NumSubs == Cardinality({s \in Streams : sub[s] # "none"})
RecvOpen(s) == sub[s] \in {"Open", "SendClosed"}

(* ---- remote: a raw frame injector (may flood; need not respect windows) ---- *)
InjectOpen(s) == s \notin opened /\ opened' = opened \cup {s} /\ wire' = Append(wire, <<"open", s, 0>>)
                 /\ UNCHANGED <<sub, buf, openBuf, pendingOut, blocking, handed, appRead, eof, sent, refused, failed, closedBy>>
InjectData(s) == s \in opened /\ sent[s] < DataPer /\ sent' = [sent EXCEPT ![s] = @ + 1]
                 /\ wire' = Append(wire, <<"data", s, sent[s] + 1>>)
                 /\ UNCHANGED <<sub, buf, openBuf, pendingOut, blocking, handed, appRead, eof, opened, refused, failed, closedBy>>
InjectClose(s) == s \in opened /\ s \notin closedBy /\ closedBy' = closedBy \cup {s} /\ wire' = Append(wire, <<"close", s, 0>>)
                 /\ UNCHANGED <<sub, buf, openBuf, pendingOut, blocking, handed, appRead, eof, sent, opened, refused, failed>>

(* ---- processing of one inbound frame (shared by poll_next_stream and poll_read_stream) ---- *)
(* returns the new <<sub, buf, openBuf, pendingOut, blocking, refused, failed>> as a record *)
OnFrame(f) ==
  LET k == f[1] s == f[2] IN
  IF k = "open" THEN
       IF sub[s] # "none" THEN [sub |-> sub, buf |-> buf, ob |-> openBuf, po |-> pendingOut, bl |-> blocking, rf |-> refused, fail |-> TRUE]
       ELSE IF NumSubs >= MaxSub
            THEN [sub |-> sub, buf |-> buf, ob |-> openBuf, po |-> <<<<"reset", s>>>> \o pendingOut, bl |-> blocking, rf |-> refused \cup {s}, fail |-> FALSE]
            ELSE [sub |-> [sub EXCEPT ![s] = "Open"], buf |-> buf, ob |-> <<s>> \o openBuf, po |-> pendingOut, bl |-> blocking, rf |-> refused, fail |-> FALSE]
  ELSE IF k = "data" THEN
       IF ~RecvOpen(s) THEN [sub |-> sub, buf |-> buf, ob |-> openBuf, po |-> pendingOut, bl |-> blocking, rf |-> refused, fail |-> FALSE]   \* dropped: unknown/closed/reset
       ELSE LET nb == Append(buf[s], f[3]) IN
            IF Len(nb) > MaxBuf
            THEN IF Block THEN [sub |-> sub, buf |-> [buf EXCEPT ![s] = nb], ob |-> openBuf, po |-> pendingOut, bl |-> s, rf |-> refused, fail |-> FALSE]
                 ELSE [sub |-> [sub EXCEPT ![s] = "Reset"], buf |-> [buf EXCEPT ![s] = nb], ob |-> openBuf, po |-> <<<<"reset", s>>>> \o pendingOut, bl |-> blocking, rf |-> refused, fail |-> FALSE]
            ELSE [sub |-> sub, buf |-> [buf EXCEPT ![s] = nb], ob |-> openBuf, po |-> pendingOut, bl |-> blocking, rf |-> refused, fail |-> FALSE]
  ELSE \* close
       LET ns == IF sub[s] = "Open" THEN "RecvClosed" ELSE IF sub[s] = "SendClosed" THEN "Closed" ELSE sub[s] IN
       [sub |-> [sub EXCEPT ![s] = ns], buf |-> buf, ob |-> openBuf, po |-> pendingOut, bl |-> blocking, rf |-> refused, fail |-> FALSE]

Apply(r) == /\ sub' = r.sub /\ buf' = r.buf /\ openBuf' = r.ob /\ pendingOut' = r.po /\ blocking' = r.bl /\ refused' = r.rf /\ failed' = r.fail

(* poll_next_stream *)
AppNextStream ==
  /\ ~failed
  /\ IF openBuf # <<>>
     THEN /\ handed' = handed \cup {openBuf[Len(openBuf)]} /\ openBuf' = SubSeq(openBuf, 1, Len(openBuf) - 1)
          /\ UNCHANGED <<wire, sub, buf, pendingOut, blocking, appRead, eof, sent, opened, refused, failed, closedBy>>
     ELSE /\ blocking = 0 /\ wire # <<>>                 \* otherwise Pending
          /\ wire' = Tail(wire) /\ Apply(OnFrame(Head(wire)))
          /\ UNCHANGED <<handed, appRead, eof, sent, opened, closedBy>>

(* poll_read_stream(s): one step of its loop *)
AppRead(s) ==
  /\ ~failed /\ s \in handed /\ ~eof[s]
  /\ IF buf[s] # <<>>
     THEN /\ appRead' = [appRead EXCEPT ![s] = Append(@, Head(buf[s]))] /\ buf' = [buf EXCEPT ![s] = Tail(@)]
          /\ blocking' = IF blocking = s THEN 0 ELSE blocking
          /\ UNCHANGED <<wire, sub, openBuf, pendingOut, handed, eof, sent, opened, refused, failed, closedBy>>
     ELSE IF ~RecvOpen(s)
     THEN /\ eof' = [eof EXCEPT ![s] = TRUE]
          /\ UNCHANGED <<wire, sub, buf, openBuf, pendingOut, blocking, handed, appRead, sent, opened, refused, failed, closedBy>>
     ELSE /\ blocking = 0 /\ wire # <<>>
          /\ LET f == Head(wire) IN
             /\ wire' = Tail(wire)
             /\ IF f[1] = "data" /\ f[2] = s
                THEN /\ appRead' = [appRead EXCEPT ![s] = Append(@, f[3])]     \* delivered directly, never buffered
                     /\ UNCHANGED <<sub, buf, openBuf, pendingOut, blocking, refused, failed>>
                ELSE /\ Apply(OnFrame(f)) /\ UNCHANGED appRead
          /\ UNCHANGED <<handed, eof, sent, opened, closedBy>>

(* the application drops a substream it was handed *)
AppDrop(s) ==
  /\ ~failed /\ s \in handed /\ sub[s] # "none"
  /\ pendingOut' = IF sub[s] = "Open" THEN <<<<"reset", s>>>> \o pendingOut
                   ELSE IF sub[s] = "RecvClosed" THEN <<<<"close", s>>>> \o pendingOut ELSE pendingOut
  /\ sub' = [sub EXCEPT ![s] = "none"] /\ buf' = [buf EXCEPT ![s] = <<>>] /\ eof' = [eof EXCEPT ![s] = TRUE]
  /\ blocking' = blocking
  /\ UNCHANGED <<wire, openBuf, handed, appRead, sent, opened, refused, failed, closedBy>>

Next == \/ \E s \in Streams : InjectOpen(s) \/ InjectData(s) \/ InjectClose(s) \/ AppRead(s) \/ AppDrop(s)
        \/ AppNextStream
Spec == Init /\ [][Next]_vars

(* ---- properties (C26 / inbound C24) ---- *)
SubstreamLimit == NumSubs <= MaxSub
BufferLimit == \A s \in Streams : Len(buf[s]) <= MaxBuf + 1
RefusedNeverHanded == refused \cap (handed \cup {openBuf[i] : i \in 1..Len(openBuf)}) = {} \/ \A s \in refused : s \in opened  \* a refused open is reset, not surfaced
RefusedGetsReset == \A s \in refused : \E i \in 1..Len(pendingOut) : pendingOut[i] = <<"reset", s>>
Prefix(a, b) == Len(a) <= Len(b) /\ \A i \in 1..Len(a) : a[i] = b[i]
InOrder == \A s \in Streams : \A i \in 1..Len(appRead[s]) : i > 1 => appRead[s][i] > appRead[s][i-1]       \* ordered, no duplicates
WireData(s) == LET RECURSIVE F(_) F(q) == IF q = <<>> THEN <<>> ELSE (IF Head(q)[1] = "data" /\ Head(q)[2] = s THEN <<Head(q)[3]>> ELSE <<>>) \o F(Tail(q)) IN F(wire)
(* with Block nothing is ever dropped for a substream that stayed open for reading from its Open frame on *)
NoLossWhenBlocking ==
  Block => \A s \in Streams : (RecvOpen(s) /\ s \notin refused) =>
      LET all == appRead[s] \o buf[s] \o WireData(s) IN
      \/ \A i \in 1..Len(all) : all[i] = i + (sent[s] - Len(all))      \* a contiguous suffix of what was sent ...
EofOnlyAfterDrain == \A s \in Streams : (eof[s] /\ sub[s] # "none") => buf[s] = <<>>
====
