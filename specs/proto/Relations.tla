---- MODULE Relations ----
(* Three "relation" specs: TLC enumerates the abstract input space; the same operators are the oracle that (V)
   evaluates on every (input, output) record the driver logs. Probes for C34, C42, C09. *)
EXTENDS Naturals, Sequences, FiniteSets, TLC

(* ---------- C34: gossipsub ConfigBuilder::build ---------- *)
MeshOK(o, lo, n, hi) == o <= lo /\ lo <= n /\ n <= hi /\ 2 * o <= n
ValidCfg(c) == /\ MeshOK(c.dflt[1], c.dflt[2], c.dflt[3], c.dflt[4])
               /\ (c.hasTopic => MeshOK(c.topic[1], c.topic[2], c.topic[3], c.topic[4]))
               /\ c.gossip <= c.hist /\ c.transmit >= 100
(* today's build(): mesh parameters are only validated for topics that ALSO have a per-topic transmit size *)
TodayAccepts(c) == /\ c.gossip <= c.hist
                   /\ (c.hasTopic /\ c.topicHasTransmit) => MeshOK(c.topic[1], c.topic[2], c.topic[3], c.topic[4])
Quad == (0..2) \X (0..2) \X (0..2) \X (0..2)
Cfgs == [dflt : Quad, topic : Quad, hasTopic : BOOLEAN, topicHasTransmit : BOOLEAN, hist : 0..1, gossip : 0..1, transmit : {99, 100}]
C34_Counterexamples == {c \in Cfgs : TodayAccepts(c) /\ ~ValidCfg(c)}

(* ---------- C42: expiry merge and wire ttl ---------- *)
None == 1000000
MinOpt(a, b) == IF a = None THEN b ELSE IF b = None THEN a ELSE IF a < b THEN a ELSE b
StoredExpiry(recExp, localExp) == MinOpt(recExp, localExp)                       \* the property: the smaller one; None only if both are None
TodayStored(recExp, localExp) == IF localExp = None THEN None ELSE MinOpt(recExp, localExp)   \* Option::min treats None as least
WireTtlOK(remainingMs, ttl) == IF remainingMs = None THEN ttl = 0 ELSE ttl >= 1 /\ (ttl = 1 \/ ttl * 1000 <= remainingMs + 999)   \* 1 s is the floor (0 means "never expires")
TodayTtl(remainingMs) == IF remainingMs = None THEN 0 ELSE IF remainingMs <= 0 THEN 1 ELSE remainingMs \div 1000
Exps == {None, 5, 9}
C42_MergeCounterexamples == {<<r, l>> \in Exps \X Exps : TodayStored(r, l) # StoredExpiry(r, l)}
C42_TtlCounterexamples == {ms \in {None, 0, 200, 999, 1000, 1500, 90000} : ~WireTtlOK(ms, TodayTtl(ms))}

(* ---------- C09: dial ranking post-condition on one (input, output) record ---------- *)
\* an address is a record [grp : 1..4 (private, public, relay, other), tr : "quic" | "tcp" | "x"]; out = sequence of [idx, delay]
RankOK(in, out) ==
  /\ Len(out) = Len(in) /\ {out[i].idx : i \in 1..Len(out)} = 1..Len(in)                                   \* permutation
  /\ \A i, j \in 1..Len(out) : i < j => in[out[i].idx].grp <= in[out[j].idx].grp                          \* groups come out in order
  /\ \A i, j \in 1..Len(out) : (in[out[i].idx].grp = 4 /\ in[out[j].idx].grp < 4) => out[i].delay >= out[j].delay   \* "other" never scheduled before an earlier group
  /\ \A i, j \in 1..Len(out) : (in[out[i].idx].grp = in[out[j].idx].grp /\ in[out[i].idx].tr = "quic" /\ in[out[j].idx].tr = "tcp") => out[i].delay <= out[j].delay
ExampleIn == << [grp |-> 4, tr |-> "tcp"], [grp |-> 2, tr |-> "tcp"], [grp |-> 1, tr |-> "tcp"], [grp |-> 1, tr |-> "tcp"] >>   \* example.com, 8.8.8.8, localhost, 10.0.0.1
TodayOut == << [idx |-> 1, delay |-> 0], [idx |-> 4, delay |-> 30], [idx |-> 2, delay |-> 0], [idx |-> 3, delay |-> 1000] >>   \* as reproduced in §7-1
FixedOut == << [idx |-> 3, delay |-> 0], [idx |-> 4, delay |-> 30], [idx |-> 2, delay |-> 0], [idx |-> 1, delay |-> 1030] >>

ASSUME PrintT(<<"C34 configs", Cardinality(Cfgs), "accepted-but-invalid today", Cardinality(C34_Counterexamples)>>)
ASSUME PrintT(<<"C42 merge counterexamples", C42_MergeCounterexamples, "ttl counterexamples (ms)", C42_TtlCounterexamples>>)
ASSUME PrintT(<<"C09 today's output accepted:", RankOK(ExampleIn, TodayOut), "repaired output accepted:", RankOK(ExampleIn, FixedOut)>>)
VARIABLE x
Init == x = 0
Next == UNCHANGED x
====
