---- MODULE GsBackoff ----
(* gossipsub::backoff::BackoffStorage for one (topic, peer) pair: ring of heartbeat slots + expiry instant.
   Time unit = one heartbeat interval, time advances independently of heartbeat() calls. Probe for C32. *)
EXTENDS Naturals, TLC
CONSTANTS PruneBackoff, Slack, MaxDur, MaxTime,
          NoTimeCheck     \* canary: heartbeat() evicts whatever sits in the current slot without comparing instants
VARIABLES present, until, slot,   \* the entry: exists?, expiry instant, ring slot it is filed under
          hb,                     \* heartbeat_index
          now,
          promised                \* monitor: latest instant up to which some update promised the backoff to last
vars == <<present, until, slot, hb, now, promised>>
Ring == PruneBackoff + Slack + 1
Mod(a, b) == a - b * (a \div b)
Init == present = FALSE /\ until = 0 /\ slot = 0 /\ hb = 0 /\ now = 0 /\ promised = 0
Update(d) ==
  /\ LET inst == now + d idx == Mod(hb + d + Slack, Ring) IN
     IF ~present \/ until < inst
     THEN present' = TRUE /\ until' = inst /\ slot' = idx
     ELSE UNCHANGED <<present, until, slot>>
  /\ promised' = IF now + d > promised THEN now + d ELSE promised
  /\ UNCHANGED <<hb, now>>
Heartbeat ==
  /\ IF present /\ slot = hb /\ (NoTimeCheck \/ ~(until + Slack > now)) THEN present' = FALSE ELSE present' = present
  /\ hb' = Mod(hb + 1, Ring) /\ UNCHANGED <<until, slot, now, promised>>
Tick == now < MaxTime /\ now' = now + 1 /\ UNCHANGED <<present, until, slot, hb, promised>>
Next == (\E d \in 1..MaxDur : Update(d)) \/ Heartbeat \/ Tick
Spec == Init /\ [][Next]_vars /\ WF_vars(Heartbeat)
IsBackoffWithSlack == present
BackoffTimeInFuture == present /\ until > now
NeverShortened == now < promised => (IsBackoffWithSlack /\ BackoffTimeInFuture)
====
