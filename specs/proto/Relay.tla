---- MODULE Relay ----
(* relay::Behaviour admission of reservations and circuits (behaviour.rs). Probe for C47. *)
EXTENDS Naturals, FiniteSets, TLC
CONSTANTS Peers, Conns, MaxRes, MaxResPerPeer, MaxCirc, MaxCircPerPeer,
          OffByOne      \* canary: today's `>` comparisons for the per-peer limits
VARIABLES res,          \* set of <<peer, conn>> holding an active reservation
          circ          \* set of circuits <<src, dst, n>>
vars == <<res, circ>>
Init == res = {} /\ circ = {}
ResOf(p) == {r \in res : r[1] = p}
CircOf(p) == {c \in circ : c[1] = p \/ c[2] = p}
Over(n, lim) == IF OffByOne THEN n > lim ELSE n >= lim
ReserveReq(p, c) ==           \* ReservationReqReceived; renewed = the connection already holds one
  /\ LET renewed == <<p, c>> \in res
         deny == (~renewed /\ Over(Cardinality(ResOf(p)), MaxResPerPeer)) \/ (~renewed /\ Cardinality(res) >= MaxRes) IN
     res' = IF deny THEN res ELSE res \cup {<<p, c>>}
  /\ UNCHANGED circ
ResGone(p, c) == <<p, c>> \in res /\ res' = res \ {<<p, c>>} /\ UNCHANGED circ          \* timed out or connection closed
CircuitReq(s, d, n) ==
  /\ s # d /\ \A x \in circ : x[3] # n
  /\ LET deny == Over(Cardinality(CircOf(s)), MaxCircPerPeer) \/ Cardinality(circ) >= MaxCirc \/ ResOf(d) = {} IN
     circ' = IF deny THEN circ ELSE circ \cup {<<s, d, n>>}
  /\ UNCHANGED res
CircuitClosed(x) == x \in circ /\ circ' = circ \ {x} /\ UNCHANGED res
Next == (\E p \in Peers, c \in Conns : ReserveReq(p, c) \/ ResGone(p, c))
        \/ (\E s \in Peers, d \in Peers, n \in 1..3 : CircuitReq(s, d, n)) \/ (\E x \in circ : CircuitClosed(x))
Spec == Init /\ [][Next]_vars
Limits == /\ Cardinality(res) <= MaxRes /\ \A p \in Peers : Cardinality(ResOf(p)) <= MaxResPerPeer
          /\ Cardinality(circ) <= MaxCirc
SrcLimit == \A p \in Peers : Cardinality({c \in circ : c[1] = p}) <= MaxCircPerPeer
====
