---- MODULE Framing ----
(* Streaming decoder for length-prefixed frames fed in arbitrary chunks (design probe).
   Abstract byte = one "unit"; a frame is HdrLen header units followed by `len` payload units.
   Instances: prost-codec (+ gossipsub limit pre-check), mplex codec, multistream-select, noise. *)
EXTENDS Naturals, Sequences, FiniteSets, TLC
CONSTANTS Frames,      \* sequence of payload lengths sent by the peer, e.g. <<2, 3, 1>>
          HdrLen,      \* units of header per frame
          Limit,       \* maximum accepted payload length
          PerFrame     \* TRUE: limit applies to the frame (the property); FALSE: to the whole buffer (canary = C31 defect)
VARIABLES fed,         \* number of units of the concatenated stream delivered so far
          buf,         \* units currently buffered and not yet consumed by the decoder
          idx,         \* index of the frame currently being decoded
          out,         \* payload lengths of frames emitted so far
          status       \* "ok" | "err"
vars == <<fed, buf, idx, out, status>>
Total == LET RECURSIVE Sum(_) Sum(i) == IF i = 0 THEN 0 ELSE Sum(i-1) + HdrLen + Frames[i] IN Sum(Len(Frames))
Init == fed = 0 /\ buf = 0 /\ idx = 1 /\ out = <<>> /\ status = "ok"
(* the transport delivers n more units: any chunking *)
Feed(n) == status = "ok" /\ n >= 1 /\ fed + n <= Total /\ fed' = fed + n /\ buf' = buf + n /\ UNCHANGED <<idx, out, status>>
(* one call of Decoder::decode *)
Decode ==
  /\ status = "ok" /\ idx <= Len(Frames)
  /\ IF ~PerFrame /\ buf > Limit THEN status' = "err" /\ UNCHANGED <<buf, idx, out, fed>>       \* canary: whole buffer compared
     ELSE IF buf < HdrLen THEN UNCHANGED vars                                                  \* Ok(None): need more header
     ELSE IF Frames[idx] > Limit THEN status' = "err" /\ UNCHANGED <<buf, idx, out, fed>>       \* reject on header completion
     ELSE IF buf < HdrLen + Frames[idx] THEN UNCHANGED vars                                     \* Ok(None): need more payload
     ELSE /\ buf' = buf - (HdrLen + Frames[idx]) /\ out' = Append(out, Frames[idx]) /\ idx' = idx + 1
          /\ UNCHANGED <<fed, status>>
Next == (\E n \in 1..Total : Feed(n)) \/ Decode
Spec == Init /\ [][Next]_vars /\ WF_vars(Decode)
(* ---- properties ---- *)
FirstBad == IF \E i \in 1..Len(Frames) : Frames[i] > Limit THEN CHOOSE i \in 1..Len(Frames) : Frames[i] > Limit /\ \A j \in 1..(i-1) : Frames[j] <= Limit ELSE Len(Frames) + 1
Prefix(s, t) == Len(s) <= Len(t) /\ \A i \in 1..Len(s) : s[i] = t[i]
OutIsPrefix == Prefix(out, Frames)                                   \* never invents or reorders frames
NoSpuriousError == status = "err" => idx = FirstBad                   \* an error only at the first oversize frame
AcceptAllGood == (fed = Total /\ buf = 0 /\ status = "ok") => Len(out) = Len(Frames)
RejectBeforeBuffering == \* when the oversize frame's header is complete, decode must fail without needing a payload unit
   (status = "ok" /\ idx = FirstBad /\ idx <= Len(Frames) /\ buf >= HdrLen) => ENABLED (Decode /\ status' = "err")
====
