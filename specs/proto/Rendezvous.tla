---- MODULE Rendezvous ----
(* rendezvous::server::Registrations: add / remove / get (cookies) / expiry. Probe for C51. *)
EXTENDS Naturals, FiniteSets, TLC
CONSTANTS Peers, Namespaces, Ids, MinTtl, MaxTtl, MaxPerPeer, MaxTotal,
          Today        \* canary: today's admission test (refresh counted against the per-peer limit, total limit off by one, old registration kept)
VARIABLES regs,        \* registration id -> [peer, ns, live] (live = FALSE once superseded / removed / expired)
          cur,         \* <<peer, ns>> -> id of the current registration, 0 if none
          cookies,     \* cookie (= set of ids already returned), keyed by a small token
          nextId, lastGet, orphan
vars == <<regs, cur, cookies, nextId, lastGet, orphan>>
Keys == Peers \X Namespaces
Init == /\ regs = [i \in Ids |-> [peer |-> CHOOSE p \in Peers : TRUE, ns |-> CHOOSE n \in Namespaces : TRUE, live |-> FALSE]]
        /\ cur = [k \in Keys |-> 0] /\ cookies = {{}} /\ nextId = 1 /\ lastGet = {} /\ orphan = {}
Live == {i \in Ids : regs[i].live}
OfPeer(p) == {k \in Keys : k[1] = p /\ cur[k] # 0}
Add(p, n, ttl) ==
  /\ nextId \in Ids
  /\ LET k == <<p, n>> refresh == cur[k] # 0
         okTtl == ttl >= MinTtl /\ ttl <= MaxTtl
         okLim == IF Today THEN Cardinality(OfPeer(p)) < MaxPerPeer /\ ~(Cardinality({x \in Keys : cur[x] # 0}) > MaxTotal)
                  ELSE refresh \/ (Cardinality(OfPeer(p)) < MaxPerPeer /\ Cardinality({x \in Keys : cur[x] # 0}) < MaxTotal) IN
     IF okTtl /\ okLim
     THEN /\ regs' = [regs EXCEPT ![nextId] = [peer |-> p, ns |-> n, live |-> TRUE],
                                   ![IF refresh THEN cur[k] ELSE nextId] = IF refresh /\ ~Today THEN [@ EXCEPT !.live = FALSE] ELSE (IF refresh THEN @ ELSE [peer |-> p, ns |-> n, live |-> TRUE])]
          /\ orphan' = IF refresh /\ Today THEN orphan \cup {cur[k]} ELSE orphan       \* today the superseded entry stays in the table
          /\ cur' = [cur EXCEPT ![k] = nextId] /\ nextId' = nextId + 1
     ELSE UNCHANGED <<regs, cur, nextId, orphan>>
  /\ lastGet' = {} /\ UNCHANGED cookies
Remove(p, n) == /\ cur[<<p, n>>] # 0
                /\ regs' = [regs EXCEPT ![cur[<<p, n>>]].live = FALSE] /\ cur' = [cur EXCEPT ![<<p, n>>] = 0]
                /\ lastGet' = {} /\ UNCHANGED <<cookies, nextId, orphan>>
Expire(i) == /\ i \in Ids /\ regs[i].live
             /\ regs' = [regs EXCEPT ![i].live = FALSE]
             /\ cur' = [k \in Keys |-> IF cur[k] = i THEN 0 ELSE cur[k]]
             /\ cookies' = {c \ {i} : c \in cookies} /\ lastGet' = {} /\ UNCHANGED <<nextId, orphan>>
Get(ck) == /\ ck \in cookies \cup {{}}
           /\ LET ids == {cur[k] : k \in {x \in Keys : cur[x] # 0}} \ ck IN
              /\ lastGet' = ids /\ cookies' = {ck \cup ids}          \* only the most recent cookie is kept in the model
           /\ UNCHANGED <<regs, cur, nextId, orphan>>
Next == (\E p \in Peers, n \in Namespaces, t \in {MinTtl - 1, MinTtl, MaxTtl, MaxTtl + 1} : Add(p, n, t))
        \/ (\E p \in Peers, n \in Namespaces : Remove(p, n)) \/ (\E i \in Ids : Expire(i)) \/ (\E c \in cookies \cup {{}} : Get(c))
Spec == Init /\ [][Next]_vars
PerPeerLimit == \A p \in Peers : Cardinality(OfPeer(p)) <= MaxPerPeer
TotalLimit == Cardinality({k \in Keys : cur[k] # 0}) <= MaxTotal
DiscoverOnlyLiveCurrent == \A i \in lastGet : regs[i].live /\ \E k \in Keys : cur[k] = i
NoOrphans == \A i \in Live : \E k \in Keys : cur[k] = i                 \* a superseded registration does not linger (and later expire spuriously)
RefreshAlwaysAllowed == \A k \in Keys : cur[k] # 0 => ENABLED (nextId \in Ids /\ Add(k[1], k[2], MinTtl) /\ cur'[k] = nextId)
====
