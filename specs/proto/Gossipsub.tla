---- MODULE Gossipsub ----
(* Single-router model of the gossipsub behaviour: mesh maintenance, handler mesh notifications,
   fanout on publish, subscription filter. Design probe (one connection per peer, all peers
   gossipsub-kind, backoff and score sign abstracted to booleans). *)
EXTENDS Naturals, FiniteSets, TLC
CONSTANTS Peers, Topics, Explicit, Allowed, MaxSubs, MeshLow, MeshN, MeshHigh,
          PerTopicNotify,   \* canary for C29: heartbeat notifies once per grafted topic (today's code)
          FanoutReplace     \* canary for C35: publish replaces the fanout set (today's code)
VARIABLES connected, topics, subs, mesh, fanout, bo, neg, hIn
vars == <<connected, topics, subs, mesh, fanout, bo, neg, hIn>>

Init == /\ connected = {} /\ topics = [p \in Peers |-> {}] /\ subs = {}
        /\ mesh = [t \in Topics |-> {}] /\ fanout = [t \in Topics |-> {}]
        /\ bo = [t \in Topics |-> {}] /\ neg = {} /\ hIn = {}

InAny(m, p) == \E t \in Topics : p \in m[t]
Eligible(t, p) == p \in connected /\ t \in topics[p] /\ p \notin Explicit /\ p \notin neg /\ p \notin bo[t]
(* peer_added_to_mesh / peer_removed_from_mesh exactly as coded: they scan the peer's OTHER subscribed topics *)
NAdd(h, p, new, m, tp) == IF \E t \in tp[p] \ new : p \in m[t] THEN h ELSE h \cup {p}
NRem(h, p, old, m, tp) == IF \E t \in tp[p] \ {old} : p \in m[t] THEN h ELSE h \ {p}
RECURSIVE FoldAdd(_, _, _, _, _)
FoldAdd(h, p, ts, m, tp) == IF ts = {} THEN h ELSE LET t == CHOOSE x \in ts : TRUE IN FoldAdd(NAdd(h, p, {t}, m, tp), p, ts \ {t}, m, tp)
RECURSIVE FoldRem(_, _, _, _, _)
FoldRem(h, p, ts, m, tp) == IF ts = {} THEN h ELSE LET t == CHOOSE x \in ts : TRUE IN FoldRem(NRem(h, p, t, m, tp), p, ts \ {t}, m, tp)

Connect(p) == p \notin connected /\ connected' = connected \cup {p} /\ UNCHANGED <<topics, subs, mesh, fanout, bo, neg, hIn>>
Disconnect(p) ==
  /\ p \in connected /\ connected' = connected \ {p}
  /\ topics' = [topics EXCEPT ![p] = {}]
  /\ mesh' = [t \in Topics |-> mesh[t] \ {p}] /\ fanout' = [t \in Topics |-> fanout[t] \ {p}]
  /\ hIn' = hIn \ {p}                      \* the handler dies with the connection
  /\ UNCHANGED <<subs, bo, neg>>

(* handle_received_subscriptions for one topic (the real RPC may carry several; sequences of single ones are a subset) *)
RecvSubscribe(p, t) ==
  /\ p \in connected
  /\ IF t \notin Allowed \/ (t \notin topics[p] /\ Cardinality(topics[p]) >= MaxSubs)
     THEN UNCHANGED vars                                            \* filtered / rejected: nothing changes
     ELSE LET tp == [topics EXCEPT ![p] = @ \cup {t}]
              graft == t \in subs /\ p \notin Explicit /\ p \notin neg /\ p \notin bo[t] /\ p \notin mesh[t] /\ Cardinality(mesh[t]) < MeshLow
              m == IF graft THEN [mesh EXCEPT ![t] = @ \cup {p}] ELSE mesh IN
          /\ topics' = tp /\ mesh' = m
          /\ hIn' = IF graft THEN NAdd(hIn, p, {t}, m, tp) ELSE hIn
          /\ UNCHANGED <<connected, subs, fanout, bo, neg>>
RecvUnsubscribe(p, t) ==
  /\ p \in connected /\ t \in Allowed
  /\ LET tp == [topics EXCEPT ![p] = @ \ {t}]
         m == [mesh EXCEPT ![t] = @ \ {p}] IN
     /\ topics' = tp /\ mesh' = m /\ fanout' = [fanout EXCEPT ![t] = @ \ {p}]
     /\ bo' = IF p \in mesh[t] THEN [bo EXCEPT ![t] = @ \cup {p}] ELSE bo
     /\ hIn' = IF p \in mesh[t] THEN NRem(hIn, p, t, m, tp) ELSE hIn
     /\ UNCHANGED <<connected, subs, neg>>

(* handle_graft; the topic is recorded only if the filter admits it (the design the property asks for) *)
RecvGraft(p, t) ==
  /\ p \in connected
  /\ LET ok == t \in Allowed /\ (t \in topics[p] \/ Cardinality(topics[p]) < MaxSubs)
         tp == IF ok THEN [topics EXCEPT ![p] = @ \cup {t}] ELSE topics
         accept == ok /\ p \notin Explicit /\ t \in subs /\ p \notin mesh[t] /\ p \notin bo[t] /\ p \notin neg /\ Cardinality(mesh[t]) < MeshHigh
         m == IF accept THEN [mesh EXCEPT ![t] = @ \cup {p}] ELSE mesh IN
     /\ topics' = tp /\ mesh' = m
     /\ hIn' = IF accept THEN NAdd(hIn, p, {t}, m, tp) ELSE hIn
     /\ bo' = IF ~accept /\ ok /\ p \notin Explicit /\ t \in subs /\ p \notin mesh[t] THEN [bo EXCEPT ![t] = @ \cup {p}] ELSE bo  \* PRUNE sent => backoff
     /\ UNCHANGED <<connected, subs, fanout, neg>>
RecvPrune(p, t) ==
  /\ p \in connected
  /\ LET m == [mesh EXCEPT ![t] = @ \ {p}] IN
     /\ mesh' = m /\ bo' = [bo EXCEPT ![t] = @ \cup {p}]
     /\ hIn' = IF p \in mesh[t] THEN NRem(hIn, p, t, m, topics) ELSE hIn
     /\ UNCHANGED <<connected, topics, subs, fanout, neg>>

(* subscribe -> join: fanout peers first, then random eligible peers, up to MeshN *)
Subscribe(t) ==
  /\ t \notin subs /\ subs' = subs \cup {t}
  /\ \E add \in SUBSET {p \in Peers : Eligible(t, p)} :
       /\ Cardinality(add) <= MeshN
       /\ Cardinality(add) = MeshN \/ add = {p \in Peers : Eligible(t, p)}      \* takes as many as available
       /\ LET m == [mesh EXCEPT ![t] = add] IN
          /\ mesh' = m /\ fanout' = [fanout EXCEPT ![t] = {}]
          /\ hIn' = hIn \cup add                                              \* join: one single-topic call per peer; t is new => always joins or already in
  /\ UNCHANGED <<connected, topics, bo, neg>>
Unsubscribe(t) ==
  /\ t \in subs /\ subs' = subs \ {t}
  /\ LET m == [mesh EXCEPT ![t] = {}] IN
     /\ mesh' = m /\ bo' = [bo EXCEPT ![t] = @ \cup mesh[t]]
     /\ hIn' = {p \in hIn : p \notin mesh[t] \/ \E u \in topics[p] \ {t} : p \in m[u]}
  /\ UNCHANGED <<connected, topics, fanout, neg>>

(* heartbeat mesh maintenance for all topics at once *)
Heartbeat ==
  \E nm \in [Topics -> SUBSET Peers] :
    /\ \A t \in Topics :
         IF t \notin subs THEN nm[t] = {} ELSE
         LET kept == mesh[t] \ neg IN
           /\ nm[t] \ mesh[t] \subseteq {p \in Peers : Eligible(t, p)}        \* only eligible peers are added
           /\ (mesh[t] \ nm[t]) \cap kept # {} => Cardinality(kept) >= MeshHigh     \* good peers are pruned only when too many
           /\ nm[t] \cap neg = {}
           /\ Cardinality(kept) < MeshLow => kept \subseteq nm[t]
           /\ Cardinality(nm[t]) <= IF Cardinality(kept) >= MeshHigh THEN MeshN ELSE (IF MeshN > Cardinality(kept) THEN MeshN ELSE Cardinality(kept))
    /\ mesh' = nm
    /\ bo' = [t \in Topics |-> bo[t] \cup (mesh[t] \ nm[t])]
    /\ hIn' = LET G(p) == {t \in Topics : p \in nm[t] \ mesh[t]}
                  P(p) == {t \in Topics : p \in mesh[t] \ nm[t]}
                  one(p, h) == IF G(p) # {} THEN (IF PerTopicNotify THEN FoldAdd(h, p, G(p), nm, topics) ELSE NAdd(h, p, G(p), nm, topics))
                               ELSE FoldRem(h, p, P(p), nm, topics)
                  RECURSIVE all(_, _)
                  all(ps, h) == IF ps = {} THEN h ELSE LET p == CHOOSE x \in ps : TRUE IN all(ps \ {p}, one(p, h))
              IN all(connected, hIn)
    /\ UNCHANGED <<connected, topics, subs, fanout, neg>>

(* publish to a topic we are not subscribed to *)
Publish(t) ==
  /\ t \notin subs
  /\ LET cand == {p \in connected : t \in topics[p] /\ p \notin neg}
         keep == fanout[t] \cap cand IN
     \E new \in SUBSET (cand \ (keep \cup Explicit)) :
       /\ Cardinality(keep) + Cardinality(new) <= (IF MeshN > Cardinality(keep) THEN MeshN ELSE Cardinality(keep))
       /\ fanout' = [fanout EXCEPT ![t] = IF new = {} THEN @ ELSE (IF FanoutReplace THEN new ELSE @ \cup new)]
  /\ UNCHANGED <<connected, topics, subs, mesh, bo, neg, hIn>>

SetNeg(p) == neg' = (IF p \in neg THEN neg \ {p} ELSE neg \cup {p}) /\ UNCHANGED <<connected, topics, subs, mesh, fanout, bo, hIn>>
ExpireBackoff(t, p) == p \in bo[t] /\ bo' = [bo EXCEPT ![t] = @ \ {p}] /\ UNCHANGED <<connected, topics, subs, mesh, fanout, neg, hIn>>

Next == \/ \E p \in Peers : Connect(p) \/ Disconnect(p) \/ SetNeg(p)
        \/ \E p \in Peers, t \in Topics : RecvSubscribe(p, t) \/ RecvUnsubscribe(p, t) \/ RecvGraft(p, t) \/ RecvPrune(p, t) \/ ExpireBackoff(t, p)
        \/ \E t \in Topics : Subscribe(t) \/ Unsubscribe(t) \/ Publish(t)
        \/ Heartbeat
Spec == Init /\ [][Next]_vars

(* ---- properties ---- *)
MeshEligible == \A t \in Topics : \A p \in mesh[t] : p \in connected /\ t \in topics[p] /\ p \notin Explicit /\ t \in subs      \* C28 (state part)
AddedOnlyIfEligible == [][\A t \in Topics : \A p \in mesh'[t] \ mesh[t] : p \notin bo[t] /\ p \notin neg /\ p \notin Explicit]_vars  \* C28 (step part)
GraftRespectsHigh == [][\A t \in Topics : Cardinality(mesh[t]) >= MeshHigh => (mesh'[t] \ mesh[t] = {} \/ Cardinality(mesh'[t]) <= MeshN)]_vars
HandlerView == \A p \in Peers : p \in hIn <=> (p \in connected /\ InAny(mesh, p))                                        \* C29
FilterBound == \A p \in Peers : topics[p] \subseteq Allowed /\ Cardinality(topics[p]) <= MaxSubs                          \* C36
FanoutKept == [][\A t \in Topics : (t \notin subs /\ t \notin subs' /\ connected' = connected /\ topics' = topics /\ neg' = neg)
                   => (fanout[t] \cap {p \in connected : t \in topics[p] /\ p \notin neg}) \subseteq fanout'[t]]_vars           \* C35
====
