---- MODULE WebrtcStream ----
(* misc/webrtc-utils/src/stream/state.rs + stream.rs: half-close state machine of one stream, with inbound flags
   arriving on the wire. Probe for C56. *)
EXTENDS Naturals, Sequences, TLC
CONSTANTS MaxOps
VARIABLES st,        \* [k, a, b]: k in Open|ReadClosed|WriteClosed|ClosingRead|ClosingWrite|BothClosed; a = other-half-closed / reset flag; b = "Requested"|"MessageSent"|"-"
          wire,      \* inbound frames not yet consumed: "fin" | "stop" | "reset" | "data"
          sentOut,   \* flags we put on the wire: sequence of "fin" | "stop"
          last,      \* outcome of the last local operation: <<op, "ok"|"eof"|"pending"|"BrokenPipe"|"ConnectionReset"|"Other">>
          ops, bad
vars == <<st, wire, sentOut, last, ops, bad>>
S(k, a, b) == [k |-> k, a |-> a, b |-> b]
Init == st = S("Open", FALSE, "-") /\ wire = <<>> /\ sentOut = <<>> /\ last = <<"none", "ok">> /\ ops = 0 /\ bad = FALSE
Inject(f) == Len(wire) < 2 /\ wire' = Append(wire, f) /\ UNCHANGED <<st, sentOut, last, ops, bad>>
(* State::handle_inbound_flag *)
OnFlag(s, f) ==
  IF f = "reset" THEN S("BothClosed", TRUE, "-")
  ELSE IF f = "fin" /\ s.k = "Open" THEN S("ReadClosed", FALSE, "-")
  ELSE IF f = "fin" /\ s.k = "WriteClosed" THEN S("BothClosed", FALSE, "-")
  ELSE IF f = "stop" /\ s.k = "Open" THEN S("WriteClosed", FALSE, "-")
  ELSE IF f = "stop" /\ s.k = "ReadClosed" THEN S("BothClosed", FALSE, "-")
  ELSE s
ReadBarrier(s) == IF s.k \in {"Open", "WriteClosed"} \/ (s.k = "ClosingWrite" /\ ~s.a) THEN "ok"
                  ELSE IF s.k = "BothClosed" /\ s.a THEN "ConnectionReset" ELSE "BrokenPipe"
WriteBarrier(s) == IF s.k \in {"Open", "ReadClosed"} \/ (s.k = "ClosingRead" /\ ~s.a) THEN "ok"
                   ELSE IF s.k = "BothClosed" /\ s.a THEN "ConnectionReset" ELSE "BrokenPipe"
Count == ops < MaxOps /\ ops' = ops + 1
PollRead ==
  /\ Count /\ bad' = bad /\ sentOut' = sentOut
  /\ IF ReadBarrier(st) # "ok" THEN last' = <<"read", ReadBarrier(st)>> /\ UNCHANGED <<st, wire>>
     ELSE IF wire = <<>> THEN last' = <<"read", "pending">> /\ UNCHANGED <<st, wire>>
     ELSE /\ wire' = Tail(wire)
          /\ IF Head(wire) = "data" THEN st' = st /\ last' = <<"read", "ok">>
             ELSE st' = OnFlag(st, Head(wire)) /\ last' = <<"read", "eof">>
PollWrite ==
  /\ Count /\ bad' = bad /\ sentOut' = sentOut
  /\ LET drained == IF st.k = "ReadClosed" /\ wire # <<>> /\ Head(wire) # "data" THEN OnFlag(st, Head(wire)) ELSE st       \* read flags while read-closed (one frame per step)
         w1 == IF st.k = "ReadClosed" /\ wire # <<>> THEN Tail(wire) ELSE wire IN
     /\ wire' = w1 /\ st' = drained
     /\ last' = <<"write", WriteBarrier(drained)>>
(* AsyncWrite::poll_close : one loop turn per step; io readiness / flush completion is nondeterministic *)
PollClose(ready) ==
  /\ Count /\ wire' = wire
  /\ IF st.k = "WriteClosed" THEN last' = <<"close", "ok">> /\ UNCHANGED <<st, sentOut, bad>>
     ELSE IF st.k = "ClosingWrite" THEN
            IF ~ready THEN last' = <<"close", "pending">> /\ UNCHANGED <<st, sentOut, bad>>
            ELSE IF st.b = "Requested" THEN st' = S("ClosingWrite", st.a, "MessageSent") /\ sentOut' = Append(sentOut, "fin") /\ last' = <<"close", "pending">> /\ bad' = bad
            ELSE st' = (IF st.a THEN S("BothClosed", FALSE, "-") ELSE S("WriteClosed", FALSE, "-")) /\ last' = <<"close", "ok">> /\ UNCHANGED <<sentOut, bad>>
     ELSE IF st.k = "Open" THEN st' = S("ClosingWrite", FALSE, "Requested") /\ last' = <<"close", "pending">> /\ UNCHANGED <<sentOut, bad>>
     ELSE IF st.k = "ReadClosed" THEN st' = S("ClosingWrite", TRUE, "Requested") /\ last' = <<"close", "pending">> /\ UNCHANGED <<sentOut, bad>>
     ELSE IF st.k = "BothClosed" /\ st.a THEN last' = <<"close", "ConnectionReset">> /\ UNCHANGED <<st, sentOut, bad>>
     ELSE IF st.k = "ClosingRead" /\ ~st.a THEN last' = <<"close", "Other">> /\ UNCHANGED <<st, sentOut, bad>>
     ELSE last' = <<"close", "BrokenPipe">> /\ UNCHANGED <<st, sentOut, bad>>
PollCloseRead(ready) ==
  /\ Count /\ wire' = wire
  /\ IF st.k = "ReadClosed" THEN last' = <<"close_read", "ok">> /\ UNCHANGED <<st, sentOut, bad>>
     ELSE IF st.k = "ClosingRead" THEN
            IF ~ready THEN last' = <<"close_read", "pending">> /\ UNCHANGED <<st, sentOut, bad>>
            ELSE IF st.b = "Requested" THEN st' = S("ClosingRead", st.a, "MessageSent") /\ sentOut' = Append(sentOut, "stop") /\ last' = <<"close_read", "pending">> /\ bad' = bad
            ELSE st' = (IF st.a THEN S("BothClosed", FALSE, "-") ELSE S("ReadClosed", FALSE, "-")) /\ last' = <<"close_read", "ok">> /\ UNCHANGED <<sentOut, bad>>
     ELSE IF st.k = "Open" THEN st' = S("ClosingRead", FALSE, "Requested") /\ last' = <<"close_read", "pending">> /\ UNCHANGED <<sentOut, bad>>
     ELSE IF st.k = "WriteClosed" THEN st' = S("ClosingRead", TRUE, "Requested") /\ last' = <<"close_read", "pending">> /\ UNCHANGED <<sentOut, bad>>
     ELSE IF st.k = "BothClosed" /\ st.a THEN last' = <<"close_read", "ConnectionReset">> /\ UNCHANGED <<st, sentOut, bad>>
     ELSE IF st.k = "ClosingWrite" /\ ~st.a THEN last' = <<"close_read", "Other">> /\ UNCHANGED <<st, sentOut, bad>>
     ELSE last' = <<"close_read", "BrokenPipe">> /\ UNCHANGED <<st, sentOut, bad>>
Next == (\E f \in {"fin", "stop", "reset", "data"} : Inject(f)) \/ PollRead \/ PollWrite
        \/ (\E r \in BOOLEAN : PollClose(r) \/ PollCloseRead(r))
Spec == Init /\ [][Next]_vars
Reset == st.k = "BothClosed" /\ st.a
ReadOnlyWhileOpen == (last[1] = "read" /\ last[2] \in {"ok"}) => st.k \in {"Open", "WriteClosed", "ClosingWrite"}
AfterResetEverythingFails == [][(st.k = "BothClosed" /\ st.a) => (last'[2] = "ConnectionReset" \/ last' = last)]_vars
ResetIsFinal == [][(st.k = "BothClosed" /\ st.a) => st' = st]_vars
FlagsSentOnce == Len(sentOut) <= 2 /\ (Len(sentOut) = 2 => sentOut[1] # sentOut[2])
====
