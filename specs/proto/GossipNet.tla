---- MODULE GossipNet ----
(* Network of gossipsub routers on a fixed connected topology, all subscribed to one topic, meshes already formed
   (mesh = topology). Flood publish + mesh forwarding with a duplicate cache. Probe for C27. *)
EXTENDS Naturals, FiniteSets, TLC
CONSTANTS Nodes, Edges,      \* undirected edges as sets {a, b}
          Msgs, Src,         \* message ids and the function message -> publisher
          EchoBack           \* canary: forwarding does not exclude the node the message came from
VARIABLES seen,              \* node -> set of message ids in its duplicate cache
          delivered,         \* node -> message -> number of deliveries to the application
          wire,              \* set of in-flight copies <<from, to, msg>>
          published, badSend
vars == <<seen, delivered, wire, published, badSend>>
Nbr(n) == {m \in Nodes : {n, m} \in Edges}
Init == /\ seen = [n \in Nodes |-> {}] /\ delivered = [n \in Nodes |-> [m \in Msgs |-> 0]]
        /\ wire = {} /\ published = {} /\ badSend = FALSE
Publish(m) == /\ m \notin published /\ published' = published \cup {m}
              /\ seen' = [seen EXCEPT ![Src[m]] = @ \cup {m}]
              /\ wire' = wire \cup {<<Src[m], p, m>> : p \in Nbr(Src[m])}
              /\ UNCHANGED <<delivered, badSend>>
Receive(c) ==
  /\ c \in wire /\ wire' = (wire \ {c}) \cup
       (IF c[3] \in seen[c[2]] THEN {}
        ELSE {<<c[2], p, c[3]>> : p \in (Nbr(c[2]) \ (IF EchoBack THEN {} ELSE {c[1], Src[c[3]]}))})
  /\ IF c[3] \in seen[c[2]] THEN UNCHANGED <<seen, delivered>>
     ELSE /\ seen' = [seen EXCEPT ![c[2]] = @ \cup {c[3]}]
          /\ delivered' = [delivered EXCEPT ![c[2]][c[3]] = @ + 1]
  /\ badSend' = (badSend \/ (c[3] \notin seen[c[2]] /\ EchoBack /\ TRUE /\ (c[1] \in Nbr(c[2]))))   \* monitor set only by the canary
  /\ UNCHANGED published
Next == (\E m \in Msgs : Publish(m)) \/ (\E c \in wire : Receive(c))
Spec == Init /\ [][Next]_vars /\ WF_vars(Next)
AtMostOnce == \A n \in Nodes, m \in Msgs : delivered[n][m] <= 1
NotToPublisher == \A m \in Msgs : delivered[Src[m]][m] = 0
NeverBackOrToSource == \A c \in wire : c[2] # Src[c[3]] \/ c[1] = c[2]
NoEcho == ~badSend
EveryoneGetsIt == \A m \in Msgs : m \in published ~> (\A n \in Nodes \ {Src[m]} : delivered[n][m] = 1)
====
