---- MODULE DnsDial ----
(* dns::Transport::do_dial worklist. Addresses are abstracted to: a name still to resolve ("n", i), or a resolved
   address ("ip", k). Records: name -> set of results (names or ips); cyclic graphs allowed. Probe for C23. *)
EXTENDS Naturals, Sequences, FiniteSets, TLC
CONSTANTS NamesN, Ips, MaxLookups, MaxAttempts, MaxTxt
VARIABLES rec,          \* the record graph, chosen nondeterministically at start: name -> subset of (names ∪ ips)
          stack,        \* `unresolved` (LIFO)
          lookups, attempts, dialed, done
vars == <<rec, stack, lookups, attempts, dialed, done>>
Nm == 1..NamesN
Node == {<<"n", i>> : i \in Nm} \cup {<<"ip", k>> : k \in 1..Ips}
Init == /\ rec \in [Nm -> SUBSET Node] /\ stack = <<<<"n", 1>>>> /\ lookups = 0 /\ attempts = 0 /\ dialed = {} /\ done = FALSE
RECURSIVE SetToSeq(_)
SetToSeq(S) == IF S = {} THEN <<>> ELSE LET x == CHOOSE y \in S : TRUE IN <<x>> \o SetToSeq(S \ {x})
Take(S, n) == IF Cardinality(S) <= n THEN S ELSE CHOOSE T \in SUBSET S : Cardinality(T) = n
Step ==
  /\ ~done /\ stack # <<>>
  /\ LET top == stack[Len(stack)] rest == SubSeq(stack, 1, Len(stack) - 1) IN
     IF top[1] = "n"
     THEN IF lookups = MaxLookups THEN stack' = rest /\ UNCHANGED <<lookups, attempts, dialed, done>>      \* TooManyLookups, keep draining
          ELSE /\ lookups' = lookups + 1
               /\ stack' = rest \o SetToSeq(Take(rec[top[2]], MaxTxt))
               /\ UNCHANGED <<attempts, dialed, done>>
     ELSE \E ok \in BOOLEAN :                                            \* inner transport accepts the dial; it succeeds or fails
            /\ attempts' = attempts + 1 /\ dialed' = dialed \cup {top}
            /\ stack' = rest
            /\ done' = (ok \/ rest = <<>> \/ attempts + 1 = MaxAttempts)
            /\ UNCHANGED lookups
  /\ UNCHANGED rec
Finish == ~done /\ stack = <<>> /\ done' = TRUE /\ UNCHANGED <<rec, stack, lookups, attempts, dialed>>
Next == Step \/ Finish
Spec == Init /\ [][Next]_vars /\ WF_vars(Next)
Bounded == lookups <= MaxLookups /\ attempts <= MaxAttempts
OnlyResolved == \A a \in dialed : a[1] = "ip"
Terminates == <>done
====
