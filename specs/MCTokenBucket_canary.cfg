CONSTANTS
  Ids = {1, 2}
  Limit = 2
  Interval = 2
  MaxTime = 8
  RefillFull = TRUE
INIT Init
NEXT Next
CONSTRAINT Bound
INVARIANT WindowLaw IdleAccepts
