CONSTANTS
  B = 5
  PlusForDistance = FALSE
  IlogOff = FALSE
INIT Init
NEXT Next
INVARIANT Identity
INVARIANT Symmetry
INVARIANT Triangle
INVARIANT Unidirectional
INVARIANT ForDistanceInverse
INVARIANT HighestBit
