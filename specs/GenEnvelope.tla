---- MODULE GenEnvelope ----
(* C21 grid generator: all provenance vectors for envelopes (32 per key type) and peer records (32 per key type). *)
EXTENDS Envelope, TLC, Json
VARIABLE x
ASSUME \A kt \in KeyTypes : \A v \in [key : Bit, dom : Bit, tsig : Bit, tenv : Bit, pay : Bit] :
         PrintT(<<"REPLAY", ToJson([kind |-> "env", kt |-> kt, key |-> v.key, dom |-> v.dom, tsig |-> v.tsig, tenv |-> v.tenv, pay |-> v.pay])>>)
ASSUME \A kt \in KeyTypes : \A v \in [api : {"legacy", "interop"}, dom : {"legacy", "interop"}, typ : {"legacy", "interop"}, key : Bit, peer : Bit] :
         PrintT(<<"REPLAY", ToJson([kind |-> "prec", kt |-> kt, api |-> v.api, dom |-> v.dom, typ |-> v.typ, key |-> v.key, peer |-> v.peer])>>)
Init == x = 0
Next == FALSE /\ x' = x
====
