CONSTANTS
  MaxLen = 2
INIT Init
NEXT Next
