CONSTANTS
  Peers = {1, 2, 3}
  MaxRes = 3
  MaxResPerPeer = 2
  MaxCirc = 2
  MaxCircPerPeer = 2
  MaxN = 2
  OffByOne = FALSE
  NoDstCheck = FALSE
INIT Init
NEXT Next
INVARIANT ResLimits
INVARIANT CircLimits
INVARIANT HeldIsCounted
INVARIANT CircuitsOnOpenConns
