CONSTANTS N = 3 LabelOK = TRUE
INIT Init
NEXT Next
INVARIANTS EventsLabelled RoutedToOwner ExactlyOnce KeepAliveIsOr
