---- MODULE TraceTokenBucket ----
(* C48 trace validation: every recorded `try(peer, ip, now, res)` of the REAL limiter must be a step
   of the property-level token-bucket specification:
     res = TRUE   -> the acceptance joins the identity's history, and the window law must still hold
     res = FALSE  -> only allowed when the identity has NOT been idle for limit * interval
   identity = peer for the per-peer limiter, ip for the per-IP limiter (which ignores the peer id). *)
EXTENDS TraceIO, TokenBucketProps, FiniteSets
VARIABLES l, acc, now, kind, limit, interval
vars == <<l, acc, now, kind, limit, interval>>
Keys == 0..9
Init == l = 1 /\ acc = [k \in Keys |-> <<>>] /\ now = 0 /\ kind = "peer" /\ limit = 1 /\ interval = 1 /\ InitReg
R == Rec[l]
Reset == /\ R.e = "reset" /\ acc' = [k \in Keys |-> <<>>] /\ now' = 0
         /\ kind' = R.kind /\ limit' = R.limit /\ interval' = R.interval
Try == /\ R.e = "try"
       /\ R.now >= now /\ now' = R.now
       /\ LET k == IF kind = "peer" THEN R.peer ELSE R.ip IN
          IF R.res THEN acc' = [acc EXCEPT ![k] = Append(@, R.now)]
          ELSE ~IdleOf(acc[k], R.now, limit, interval) /\ UNCHANGED acc
       /\ UNCHANGED <<kind, limit, interval>>
Next == l <= NRec /\ l' = l + 1 /\ (Reset \/ Try)
Spec == Init /\ [][Next]_vars
WindowLaw == \A k \in Keys : WindowLawOf(acc[k], limit, interval)
Progress == Mark(l)
====
