---- MODULE RelGsValidate ----
(* C30 relation check: one record per abstract message actually built (real keys, real
   signatures), framed and decoded by the real GossipsubCodec.  r.out = "valid" (surfaced in
   rpc.messages) | "invalid" (surfaced in invalid_messages) | "error" (RPC rejected) | "lost".
   The statement (GsValidateRel!Valid) clause by clause: *)
EXTENDS TraceIO, GsValidateRel
VARIABLE x
NoPanic(r) == ~Has(r, "panic")
NotLost(r) == Has(r, "out") => r.out \in {"valid", "invalid"}              \* one message in, one verdict out
AcceptedIsValid(r) == (Has(r, "out") /\ r.out = "valid") => Valid(r)
StrictRejectsMutation(r) == (r.mode = "Strict" /\ r.mut # "none") => (Has(r, "out") /\ r.out = "invalid")
AnonymousSurface(r) == (Has(r, "out") /\ r.out = "valid" /\ r.mode = "Anonymous") => (~r.surf.source /\ ~r.surf.seqno /\ ~r.surf.sig)
StrictSurface(r) == (Has(r, "out") /\ r.out = "valid" /\ r.mode = "Strict") => (r.surf.source /\ r.surf.sig)
Bad(i, why) == PrintT(<<"BAD", ToJson([line |-> i, why |-> why])>>)
ASSUME PrintT(<<"CHECKED", ToJson([n |-> NRec])>>)
ASSUME \A i \in 1..NRec : NoPanic(Rec[i]) \/ Bad(i, "decoder panicked")
ASSUME \A i \in 1..NRec : NotLost(Rec[i]) \/ Bad(i, "message neither valid nor invalid")
ASSUME \A i \in 1..NRec : AcceptedIsValid(Rec[i]) \/ Bad(i, "surfaced as valid but does not satisfy the validation mode")
ASSUME \A i \in 1..NRec : StrictRejectsMutation(Rec[i]) \/ Bad(i, "mutated signed message not reported invalid in Strict mode")
ASSUME \A i \in 1..NRec : AnonymousSurface(Rec[i]) \/ Bad(i, "Anonymous mode surfaced a source, sequence number or signature")
ASSUME \A i \in 1..NRec : StrictSurface(Rec[i]) \/ Bad(i, "Strict mode surfaced a message without source or signature")
Init == x = 0
Next == FALSE /\ x' = x
====
