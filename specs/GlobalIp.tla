---- MODULE GlobalIp ----
(* C22.  The IANA IPv4 / IPv6 Special-Purpose Address Registries as constant tables and the classification the
   statement derives from them.  An address is a sequence of 16-bit segments (2 for IPv4, 8 for IPv6; TLC
   integers are 32-bit).  Row = [p : first address, len : prefix length, gr : "F" | "T" | "NA"] where gr is the
   registry's "Globally Reachable" column (NA = "N/A": deprecated / see-note rows such as 192.88.99.0/24,
   2002::/16, 2001::/32).
     MUST_REFUSE  the most specific registry block containing the address is marked NOT globally reachable
     DONT_CARE    the most specific block is marked reachable (or N/A): nested exceptions such as 192.0.0.9/32
     MUST_PASS    the address lies in no special-purpose block
   V6New holds the rows added to the registry after the std implementation mirrored by the code was written
   (RFC 9374, 9602, 9637, 9665); they are part of the registry and classified like every other row, but kept
   separate so that their verdicts are reported explicitly (DESIGN.md section 7 #5).
   Unverified holds rows the author could not confirm offline; they are deliberately DONT_CARE. *)
EXTENDS Naturals, Sequences, FiniteSets, TLC
B(p, len, gr) == [p |-> p, len |-> len, gr |-> gr]
V4 == <<
  B(<<0, 0>>, 8, "F"),            \* 0.0.0.0/8        "This network"                       RFC 791
  B(<<0, 0>>, 32, "F"),           \* 0.0.0.0/32       "This host on this network"          RFC 1122
  B(<<2560, 0>>, 8, "F"),         \* 10.0.0.0/8       Private-Use                          RFC 1918
  B(<<25664, 0>>, 10, "F"),       \* 100.64.0.0/10    Shared Address Space                 RFC 6598
  B(<<32512, 0>>, 8, "F"),        \* 127.0.0.0/8      Loopback                             RFC 1122
  B(<<43518, 0>>, 16, "F"),       \* 169.254.0.0/16   Link Local                           RFC 3927
  B(<<44048, 0>>, 12, "F"),       \* 172.16.0.0/12    Private-Use                          RFC 1918
  B(<<49152, 0>>, 24, "F"),       \* 192.0.0.0/24     IETF Protocol Assignments            RFC 6890
  B(<<49152, 0>>, 29, "F"),       \* 192.0.0.0/29     IPv4 Service Continuity Prefix       RFC 7335
  B(<<49152, 8>>, 32, "F"),       \* 192.0.0.8/32     IPv4 dummy address                   RFC 7600
  B(<<49152, 9>>, 32, "T"),       \* 192.0.0.9/32     Port Control Protocol Anycast        RFC 7723
  B(<<49152, 10>>, 32, "T"),      \* 192.0.0.10/32    TURN Anycast                         RFC 8155
  B(<<49152, 170>>, 32, "F"),     \* 192.0.0.170/32   NAT64/DNS64 Discovery                RFC 7050
  B(<<49152, 171>>, 32, "F"),     \* 192.0.0.171/32   NAT64/DNS64 Discovery                RFC 7050
  B(<<49152, 512>>, 24, "F"),     \* 192.0.2.0/24     Documentation (TEST-NET-1)           RFC 5737
  B(<<49183, 50176>>, 24, "T"),   \* 192.31.196.0/24  AS112-v4                             RFC 7535
  B(<<49204, 49408>>, 24, "T"),   \* 192.52.193.0/24  AMT                                  RFC 7450
  B(<<49240, 25344>>, 24, "NA"),  \* 192.88.99.0/24   Deprecated (6to4 Relay Anycast)      RFC 7526
  B(<<49320, 0>>, 16, "F"),       \* 192.168.0.0/16   Private-Use                          RFC 1918
  B(<<49327, 12288>>, 24, "T"),   \* 192.175.48.0/24  Direct Delegation AS112 Service      RFC 7534
  B(<<50706, 0>>, 15, "F"),       \* 198.18.0.0/15    Benchmarking                         RFC 2544
  B(<<50739, 25600>>, 24, "F"),   \* 198.51.100.0/24  Documentation (TEST-NET-2)           RFC 5737
  B(<<51968, 28928>>, 24, "F"),   \* 203.0.113.0/24   Documentation (TEST-NET-3)           RFC 5737
  B(<<61440, 0>>, 4, "F"),        \* 240.0.0.0/4      Reserved                             RFC 1112
  B(<<65535, 65535>>, 32, "F")    \* 255.255.255.255/32 Limited Broadcast                  RFC 919
>>
V4Unverified == <<
  B(<<49240, 25346>>, 32, "NA")   \* 192.88.99.2/32   6a44-relay anycast address (RFC 6751): row not confirmed offline
>>
Z6(a, b, c, d) == <<a, b, c, d, 0, 0, 0, 0>>
V6 == <<
  B(<<0, 0, 0, 0, 0, 0, 0, 1>>, 128, "F"),      \* ::1/128          Loopback                     RFC 4291
  B(Z6(0, 0, 0, 0), 128, "F"),                  \* ::/128           Unspecified                  RFC 4291
  B(<<0, 0, 0, 0, 0, 65535, 0, 0>>, 96, "F"),   \* ::ffff:0:0/96    IPv4-mapped                  RFC 4291
  B(Z6(100, 65435, 0, 0), 96, "T"),             \* 64:ff9b::/96     IPv4-IPv6 Translat.          RFC 6052
  B(Z6(100, 65435, 1, 0), 48, "F"),             \* 64:ff9b:1::/48   IPv4-IPv6 Translat.          RFC 8215
  B(Z6(256, 0, 0, 0), 64, "F"),                 \* 100::/64         Discard-Only                 RFC 6666
  B(Z6(8193, 0, 0, 0), 23, "F"),                \* 2001::/23        IETF Protocol Assignments    RFC 2928
  B(Z6(8193, 0, 0, 0), 32, "NA"),               \* 2001::/32        TEREDO                       RFC 4380
  B(<<8193, 1, 0, 0, 0, 0, 0, 1>>, 128, "T"),   \* 2001:1::1/128    Port Control Protocol Anycast RFC 7723
  B(<<8193, 1, 0, 0, 0, 0, 0, 2>>, 128, "T"),   \* 2001:1::2/128    TURN Anycast                 RFC 8155
  B(Z6(8193, 2, 0, 0), 48, "F"),                \* 2001:2::/48      Benchmarking                 RFC 5180
  B(Z6(8193, 3, 0, 0), 32, "T"),                \* 2001:3::/32      AMT                          RFC 7450
  B(Z6(8193, 4, 274, 0), 48, "T"),              \* 2001:4:112::/48  AS112-v6                     RFC 7535
  B(Z6(8193, 16, 0, 0), 28, "NA"),              \* 2001:10::/28     Deprecated (ORCHID)          RFC 4843
  B(Z6(8193, 32, 0, 0), 28, "T"),               \* 2001:20::/28     ORCHIDv2                     RFC 7343
  B(Z6(8193, 3512, 0, 0), 32, "F"),             \* 2001:db8::/32    Documentation                RFC 3849
  B(Z6(8194, 0, 0, 0), 16, "NA"),               \* 2002::/16        6to4                         RFC 3056
  B(Z6(9760, 79, 32768, 0), 48, "T"),           \* 2620:4f:8000::/48 Direct Delegation AS112     RFC 7534
  B(Z6(64512, 0, 0, 0), 7, "F"),                \* fc00::/7         Unique-Local                 RFC 4193
  B(Z6(65152, 0, 0, 0), 10, "F")                \* fe80::/10        Link-Local Unicast           RFC 4291
>>
V6New == <<
  B(<<8193, 1, 0, 0, 0, 0, 0, 3>>, 128, "T"),   \* 2001:1::3/128    DNS-SD SRP Anycast           RFC 9665 (2024)
  B(Z6(8193, 48, 0, 0), 28, "T"),               \* 2001:30::/28     Drone Remote ID (DRIP)       RFC 9374 (2023)
  B(Z6(16383, 0, 0, 0), 20, "F"),               \* 3fff::/20        Documentation                RFC 9637 (2024)
  B(Z6(24320, 0, 0, 0), 16, "F")                \* 5f00::/16        Segment Routing (SRv6) SIDs  RFC 9602 (2024)
>>
V6Unverified == <<
  B(Z6(256, 0, 0, 1), 64, "NA")                 \* 100:0:0:1::/64   Dummy IPv6 Prefix (RFC 9780, 2025): row not confirmed offline
>>
Table(v) == IF v = 4 THEN V4 \o V4Unverified ELSE V6 \o V6New \o V6Unverified
NSeg(v) == IF v = 4 THEN 2 ELSE 8

(* ---- segment arithmetic ---------------------------------------------------------------------------- *)
Pow2(n) == CASE n = 0 -> 1 [] n = 1 -> 2 [] n = 2 -> 4 [] n = 3 -> 8 [] n = 4 -> 16 [] n = 5 -> 32 [] n = 6 -> 64
             [] n = 7 -> 128 [] n = 8 -> 256 [] n = 9 -> 512 [] n = 10 -> 1024 [] n = 11 -> 2048 [] n = 12 -> 4096
             [] n = 13 -> 8192 [] n = 14 -> 16384 [] n = 15 -> 32768 [] n = 16 -> 65536
(* number of prefix bits that fall into segment i *)
Bits(len, i) == LET k == len - 16 * (i - 1) IN IF k <= 0 THEN 0 ELSE IF k >= 16 THEN 16 ELSE k
Low(len, i) == Pow2(16 - Bits(len, i))
First(b) == [i \in 1..Len(b.p) |-> (b.p[i] \div Low(b.len, i)) * Low(b.len, i)]
Last(b) == [i \in 1..Len(b.p) |-> (b.p[i] \div Low(b.len, i)) * Low(b.len, i) + Low(b.len, i) - 1]
RECURSIVE Less(_, _, _)
Less(a, b, i) == IF i > Len(a) THEN FALSE ELSE IF a[i] < b[i] THEN TRUE ELSE IF a[i] > b[i] THEN FALSE ELSE Less(a, b, i + 1)
Lt(a, b) == Less(a, b, 1)
Le(a, b) == a = b \/ Lt(a, b)
IsMax(a) == \A i \in 1..Len(a) : a[i] = 65535
IsMin(a) == \A i \in 1..Len(a) : a[i] = 0
(* a + 1 / a - 1 (not at the ends of the space) *)
Succ(a) == LET k == CHOOSE k \in 1..Len(a) : a[k] < 65535 /\ \A j \in (k + 1)..Len(a) : a[j] = 65535 IN
           [i \in 1..Len(a) |-> IF i < k THEN a[i] ELSE IF i = k THEN a[i] + 1 ELSE 0]
Pred(a) == LET k == CHOOSE k \in 1..Len(a) : a[k] > 0 /\ \A j \in (k + 1)..Len(a) : a[j] = 0 IN
           [i \in 1..Len(a) |-> IF i < k THEN a[i] ELSE IF i = k THEN a[i] - 1 ELSE 65535]

(* ---- classification ------------------------------------------------------------------------------ *)
(* rows with their first / last address precomputed (zero-arity definitions: evaluated once by TLC) *)
Norm(T) == {[f |-> First(T[i]), l |-> Last(T[i]), len |-> T[i].len, gr |-> T[i].gr] : i \in 1..Len(T)}
R4 == Norm(Table(4))
R6 == Norm(Table(6))
Rows(v) == IF v = 4 THEN R4 ELSE R6
In(a, r) == Le(r.f, a) /\ Le(a, r.l)
Covering(v, a) == {b \in Rows(v) : In(a, b)}
Class(v, a) == LET C == Covering(v, a) IN
               IF C = {} THEN "MUST_PASS"
               ELSE LET m == CHOOSE b \in C : \A c \in C : c.len <= b.len IN
                    IF m.gr = "F" THEN "MUST_REFUSE" ELSE "DONT_CARE"
Compatible(cls, res) == (cls = "MUST_REFUSE" => res = "refuse") /\ (cls = "MUST_PASS" => res = "pass")
(* points at which the class may change *)
Bd(R) == {b.f : b \in R} \cup {Succ(b.l) : b \in {x \in R : ~IsMax(x.l)}}
B4 == Bd(R4)
B6 == Bd(R6)
Boundaries(v) == IF v = 4 THEN B4 ELSE B6
(* boundary probes: first-1, first, last, last+1 of every block *)
Pr(R) == UNION {({b.f, b.l} \cup (IF IsMin(b.f) THEN {} ELSE {Pred(b.f)}) \cup (IF IsMax(b.l) THEN {} ELSE {Succ(b.l)})) : b \in R}
P4 == Pr(R4)
P6 == Pr(R6)
Probes(v) == IF v = 4 THEN P4 ELSE P6
(* table sanity: every row is written with its first address, rows are distinct (no ambiguous class) *)
Sane(v) == /\ \A i, j \in 1..Len(Table(v)) : i # j => ~(Table(v)[i].p = Table(v)[j].p /\ Table(v)[i].len = Table(v)[j].len)
           /\ \A i \in 1..Len(Table(v)) : LET b == Table(v)[i] IN Len(b.p) = NSeg(v) /\ b.p = First(b) /\ \A k \in 1..Len(b.p) : b.p[k] \in 0..65535
====
