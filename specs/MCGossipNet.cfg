SPECIFICATION Spec
CONSTANTS
  Nodes <- N4
  Msgs <- M1
  SrcOf <- Src1
  FloodPublish = TRUE
  EchoBack = FALSE
  NoDupCache = FALSE
INVARIANT AtMostOnce
INVARIANT NotToPublisher
INVARIANT NeverBackOrToSource
CONSTRAINT Bounded
PROPERTY EveryoneGetsIt
