CONSTANTS
  N = 4
  K = 3
  NoRefill = FALSE
INIT Init
NEXT Next
INVARIANT FactorRespected ErrorsExact FailureReportsAll SuccessIsReal WindowKeptFull
