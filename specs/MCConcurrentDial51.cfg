CONSTANTS
  N = 5
  K = 1
  NoRefill = FALSE
INIT Init
NEXT Next
INVARIANT FactorRespected ErrorsExact FailureReportsAll SuccessIsReal WindowKeptFull
