INIT Init
NEXT Next
