CONSTANTS
  Vals = {0, 1, 2, 3}
  DefQuad <- DefQuadV
  TxVals = {100}
  HVals = {1}
  MaxPeers = 4
  WithSetTopic = TRUE
  Variant = "full"
INIT Init
NEXT Next
INVARIANTS AcceptedValid HeartbeatSafe
