---- MODULE TracePeerStore ----
(* C54 trace validation (property level).  State rebuilt from the trace: `snap` = content of the store after the
   previous operation (set of <<peer, addr>>, read through the public iterators), `expl` = pairs that were added
   through add_address since they last entered the store (= the addresses the statement calls "added explicitly").
   For every operation the recorded (events, snapshot, return value) must satisfy:
     Bounded        <= pc peers, <= rc addresses per peer
     PermanentKept  no PeerAddressRemoved for an explicitly added pair in a swarm-event (automatic) operation
     EventsExact    * an Added event <=> the pair entered the store in this operation (flag = explicit add?)
                    * a Removed event => the pair was present, is a removal target of this operation and left the store
                    * a pair that left the store WITHOUT event must be a capacity eviction: exactly as many silent
                      departures as the capacities force (which entry is evicted is the implementation's choice)
     ApiContract    add_address: pair present afterwards, returns "was new"; remove_address: pair absent afterwards,
                    returns "was present" (with Removed event)
   Automatic removal/addition on swarm events is allowed, never required.  A panic has no action.
   Runs that also use the custom-data API (insert / take: records without addresses occupy capacity and are invisible in
   the address snapshot) are judged for Bounded (incl. the record count), PermanentKept and ApiContract only. *)
EXTENDS TraceIO, FiniteSets
VARIABLES l, snap, expl, pc, rc, err, cust
vars == <<l, snap, expl, pc, rc, err, cust>>
Init == l = 1 /\ snap = {} /\ expl = {} /\ pc = 1 /\ rc = 1 /\ err = "ok" /\ cust = FALSE /\ InitReg
R == Rec[l]
Reset == R.e = "reset" /\ snap' = {} /\ expl' = {} /\ pc' = R.pc /\ rc' = R.rc /\ err' = "ok" /\ cust' = (Has(R, "cust") /\ R.cust)
SetOf(q) == {q[i] : i \in 1..Len(q)}
Max0(n) == IF n > 0 THEN n ELSE 0
PeersOf(S) == {x[1] : x \in S}
Of(S, p) == {x \in S : x[1] = p}
Op ==
  /\ R.e = "op"
  /\ LET pre == snap
         post == UNION {{<<s[1], s[2][j]>> : j \in 1..Len(s[2])} : s \in SetOf(R.snap)}
         evA == {<<e[2], e[3], e[4]>> : e \in {x \in SetOf(R.evs) : x[1] = "added"}}
         evAp == {<<x[1], x[2]>> : x \in evA}
         evR == {<<e[2], e[3]>> : e \in {x \in SetOf(R.evs) : x[1] = "removed"}}
         explicit == R.op \in {"add", "remove"}
         failed == IF Has(R, "f") THEN SetOf(R.f) ELSE {}
         addSubj == CASE R.op = "add" -> {<<R.p, R.a, TRUE>>}
                      [] R.op \in {"ext", "conn"} -> {<<R.p, R.a, FALSE>>}
                      [] R.op = "dfw" -> {<<R.q, R.a, FALSE>>}
                      [] OTHER -> {}
         remTgt == CASE R.op \in {"remove", "dfw"} -> {<<R.p, R.a>>}
                     [] R.op \in {"conn", "dft"} -> {<<R.p, x>> : x \in failed}
                     [] OTHER -> {}
         silent == (pre \ post) \ evR
         emptied(p) == Of(pre, p) \subseteq evR /\ Of(evAp, p) = {}
         gonePeers == PeersOf(pre) \ PeersOf(post)
         evicted == {p \in gonePeers : ~emptied(p)}
         newPeers == PeersOf(post) \ PeersOf(pre)
         needPeerEvict == Max0(Cardinality(PeersOf(pre)) - Cardinality({p \in gonePeers : emptied(p)}) + Cardinality(newPeers) - pc)
         survivors == PeersOf(pre) \cap PeersOf(post)
         needAddrEvict(p) == Max0(Cardinality(Of(pre, p)) - Cardinality(Of(evR, p)) + Cardinality(Of(evAp, p)) - rc)
         bounded == /\ Cardinality(PeersOf(post)) <= pc /\ \A p \in PeersOf(post) : Cardinality(Of(post, p)) <= rc
                    /\ (Has(R, "nrec") => R.nrec <= pc)        \* records without addresses (custom data only) count as peers too
         permKept == explicit \/ evR \cap expl = {}
         exact == /\ Len(R.evs) = Cardinality(evA) + Cardinality(evR) /\ Cardinality(evAp) = Cardinality(evA)
                  /\ \A x \in evA : x \in addSubj /\ <<x[1], x[2]>> \in post /\ (<<x[1], x[2]>> \notin pre \/ <<x[1], x[2]>> \in evR)
                  /\ \A x \in evR : x \in remTgt /\ x \in pre /\ (x \notin post \/ x \in evAp)
                  /\ (post \ pre) \subseteq evAp
                  /\ Cardinality(evicted) = needPeerEvict
                  /\ \A p \in survivors : Cardinality(Of(silent, p)) = needAddrEvict(p)
                  /\ R.consistent
         api == CASE R.op = "add" -> <<R.p, R.a>> \in post /\ R.ret = (<<R.p, R.a>> \notin pre)
                  [] R.op = "remove" -> <<R.p, R.a>> \notin post /\ R.ret = (<<R.p, R.a>> \in pre) /\ (R.ret => <<R.p, R.a>> \in evR)
                  [] OTHER -> TRUE
     IN /\ err' = IF ~bounded THEN "Bounded" ELSE IF ~permKept THEN "PermanentKept" ELSE IF ~cust /\ ~exact THEN "EventsExact"
                  ELSE IF ~api THEN "ApiContract" ELSE "ok"
        /\ snap' = post
        /\ expl' = ((expl \ evR) \cup (IF R.op = "add" THEN {<<R.p, R.a>>} ELSE {})) \cap post
  /\ UNCHANGED <<pc, rc, cust>>
Next == l <= NRec /\ l' = l + 1 /\ (Reset \/ Op)
Spec == Init /\ [][Next]_vars
Bounded == err # "Bounded"
PermanentKept == err # "PermanentKept"
EventsExact == err # "EventsExact"
ApiContract == err # "ApiContract"
Progress == Mark(l)
====
