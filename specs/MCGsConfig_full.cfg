CONSTANTS
  Vals = {0, 1, 2}
  DefQuad <- DefQuadV
  TxVals = {99, 100}
  HVals = {0, 1}
  MaxPeers = 4
  WithSetTopic = FALSE
  Variant = "full"
INIT Init
NEXT Next
INVARIANTS AcceptedValid HeartbeatSafe
