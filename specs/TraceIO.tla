---- MODULE TraceIO ----
(* Shared trace-validation plumbing. The recorded ndjson trace is read once from the file named by
   the environment variable TRACE. `l` (declared by the using module) is the index of the next
   line to consume; register 1 tracks the highest line reached over all explored branches, so that
   silent (unlogged) steps and nondeterministic bindings are supported (run with -workers 1). *)
EXTENDS Naturals, Sequences, TLC, Json, IOUtils
Rec == ndJsonDeserialize(IOEnv.TRACE)
NRec == Len(Rec)
InitReg == TLCSet(1, 1)
Mark(l) == TLCSet(1, IF TLCGet(1) < l THEN l ELSE TLCGet(1))
(* POSTCONDITION: every line was consumed on some branch; otherwise name the first unmatched line *)
Accepted == IF TLCGet(1) > NRec THEN TRUE
            ELSE PrintT(<<"UNMATCHED", ToJson([line |-> TLCGet(1), rec |-> Rec[TLCGet(1)]])>>)
Has(r, f) == f \in DOMAIN r
====
