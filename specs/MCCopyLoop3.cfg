CONSTANTS
  N = 3
  Buf = 2
  Max = 2
  W = 3
  CountBoth = TRUE
SPECIFICATION Spec
INVARIANT Prefix Bound OkComplete ErrJustified StalledWithin EofAfterAll
PROPERTY Refines
