---- MODULE TraceFloodNet ----
(* X07 trace validation: every recorded step of a network of REAL floodsub Behaviours (harness/drv-xfloodsub/src/net.rs)
   must be a step of the property-level floodsub specification. The state below is rebuilt from the events only;
   it is what the protocol documents (crate docs, pubsub/README "floodsub"): who is connected, each node's partial
   view (tgt), its own subscriptions (subs), what it was TOLD about its peers' subscriptions (view), the RPCs in
   flight per directed link, and which messages a node has seen (published or received).

   Statements checked (guards of the actions; a step that breaks one matches no action = UNMATCHED):
     AnnounceOnce      subscribe/unsubscribe return TRUE iff they change the subscription set, and then exactly one
                       announcement goes to every connected peer; a second subscribe is a no-op returning FALSE;
                       a peer in the partial view is told all current topics once when it connects / is added.
     DeliverOnce       Event::Message(m) reaches a node's application at most once per message ...
     OnlySubscribed    ... and only while the node is subscribed to one of m's topics.
     LocalOnce         the publisher's application sees its own message exactly once (at publish, if it is subscribed)
                       with subscribe_local_messages, and never without.
     ForwardAll        on first receipt from peer p a message is sent to every connected peer of the partial view
                       that announced one of its topics, except p; sending it back to the message's source is
                       optional (rust-libp2p does, go-libp2p does not); to nobody else; each exactly once.
     ForwardOnce       a message a node has already seen (published or received) is neither delivered nor sent again.
     NoStray           no RPC is addressed to a peer without a connection; nothing but RPCs, events and dials is emitted.
     Codec             the RPC decoded by the receiver equals the RPC that was queued.
     Reconnect         losing the last connection to a peer of the partial view requests a dial.
     ViewsAgree        (FIFO runs, at quiescence) what a node believes about a connected peer is a subset of that
                       peer's subscriptions, and equal to them if the peer announced to it (partial view).
   Message identity is the whole message (source, seqno, data, topics), as the code comment promises ("the same
   message"); a forged look-alike with the same (source, seqno) and other data is a different message. *)
EXTENDS TraceIO, FiniteSets, Integers
VARIABLES l, nn, slm, fifo, conn, tgt, subs, view, ann, link, seen, mt, src
vars == <<l, nn, slm, fifo, conn, tgt, subs, view, ann, link, seen, mt, src>>
Nodes == 0..4
Topics == 0..2
MaxK == 200
R == Rec[l]

Z2(v) == [a \in Nodes |-> [b \in Nodes |-> v]]
Init == /\ l = 1 /\ nn = 2 /\ slm = [n \in Nodes |-> FALSE] /\ fifo = TRUE
        /\ conn = Z2(0) /\ tgt = [n \in Nodes |-> {}] /\ subs = [n \in Nodes |-> {}]
        /\ view = Z2({}) /\ ann = Z2(FALSE) /\ link = Z2(<<>>)
        /\ seen = [n \in Nodes |-> {}] /\ mt = <<>> /\ src = <<>>
        /\ InitReg

Reset == /\ R.e = "reset"
         /\ nn' = R.n /\ fifo' = R.fifo
         /\ slm' = [n \in Nodes |-> IF n < Len(R.slm) THEN R.slm[n + 1] ELSE FALSE]
         /\ conn' = Z2(0) /\ tgt' = [n \in Nodes |-> {}] /\ subs' = [n \in Nodes |-> {}]
         /\ view' = Z2({}) /\ ann' = Z2(FALSE) /\ link' = Z2(<<>>)
         /\ seen' = [n \in Nodes |-> {}] /\ mt' = <<>> /\ src' = <<>>

(* ---- what an op emitted ---- *)
RECURSIVE SumS(_, _), SumM(_, _)
SumS(sq, i) == IF i = 0 THEN 0 ELSE Len(sq[i].s) + SumS(sq, i - 1)
SumM(sq, i) == IF i = 0 THEN 0 ELSE Len(sq[i].m) + SumM(sq, i - 1)
SubItems(sq) == UNION {{<<sq[i].f, sq[i].t, sq[i].s[j][1], sq[i].s[j][2]>> : j \in 1..Len(sq[i].s)} : i \in 1..Len(sq)}
MsgItems(sq) == UNION {{<<sq[i].f, sq[i].t, sq[i].m[j]>> : j \in 1..Len(sq[i].m)} : i \in 1..Len(sq)}
(* exactly the announcements S and the message copies M, each once *)
SentExactly(S, M) == /\ SubItems(R.snd) = S /\ SumS(R.snd, Len(R.snd)) = Cardinality(S)
                     /\ MsgItems(R.snd) = M /\ SumM(R.snd, Len(R.snd)) = Cardinality(M)
MsgEvs == {<<R.evs[i][1], R.evs[i][3]>> : i \in {j \in 1..Len(R.evs) : R.evs[j][2] = 0}}
NumMsgEvs == Cardinality({j \in 1..Len(R.evs) : R.evs[j][2] = 0})
SubEvIdx == {j \in 1..Len(R.evs) : R.evs[j][2] # 0}
NoEvs == Len(R.evs) = 0
Clean == R.stray = 0
(* the link state after this op's RPCs were queued behind L *)
Queued(L) == [a \in Nodes |-> [b \in Nodes |->
               L[a][b] \o [i \in 1..Len(SelectSeq(R.snd, LAMBDA x : x.f = a /\ x.t = b)) |->
                             LET x == SelectSeq(R.snd, LAMBDA z : z.f = a /\ z.t = b)[i] IN [s |-> x.s, m |-> x.m]]]]
Peers(n) == {q \in Nodes : conn[n][q] > 0}
Announce(p, q, act) == {<<p, q, t, act>> : t \in subs[p]}

Conn == /\ R.e = "conn" /\ Clean /\ NoEvs
        /\ LET x == R.x  y == R.y
               first == conn[x][y] = 0
               S == IF first THEN (IF y \in tgt[x] THEN Announce(x, y, 1) ELSE {}) \cup (IF x \in tgt[y] THEN Announce(y, x, 1) ELSE {}) ELSE {} IN
           /\ conn' = [conn EXCEPT ![x][y] = @ + 1, ![y][x] = @ + 1]
           /\ SentExactly(S, {})
           /\ ann' = IF first THEN [ann EXCEPT ![x][y] = y \in tgt[x], ![y][x] = x \in tgt[y]] ELSE ann
           /\ view' = IF first THEN [view EXCEPT ![x][y] = {}, ![y][x] = {}] ELSE view
           /\ link' = IF first THEN Queued([link EXCEPT ![x][y] = <<>>, ![y][x] = <<>>]) ELSE Queued(link)
        /\ UNCHANGED <<nn, slm, fifo, tgt, subs, seen, mt, src>>

DialSet == {<<R.dials[i][1], R.dials[i][2]>> : i \in 1..Len(R.dials)}
Disc == /\ R.e = "disc" /\ Clean /\ NoEvs /\ Len(R.snd) = 0
        /\ LET x == R.x  y == R.y  last == conn[x][y] = 1 IN
           /\ conn[x][y] > 0
           /\ conn' = [conn EXCEPT ![x][y] = @ - 1, ![y][x] = @ - 1]
           /\ (last /\ y \in tgt[x]) => <<x, y>> \in DialSet          \* Reconnect
           /\ (last /\ x \in tgt[y]) => <<y, x>> \in DialSet
           /\ view' = IF last THEN [view EXCEPT ![x][y] = {}, ![y][x] = {}] ELSE view
           /\ ann' = IF last THEN [ann EXCEPT ![x][y] = FALSE, ![y][x] = FALSE] ELSE ann
           /\ link' = IF last THEN [link EXCEPT ![x][y] = <<>>, ![y][x] = <<>>] ELSE link
        /\ UNCHANGED <<nn, slm, fifo, tgt, subs, seen, mt, src>>

View == /\ R.e = "view" /\ Clean /\ NoEvs
        /\ LET x == R.x  y == R.y  up == conn[x][y] > 0 IN
           /\ tgt' = [tgt EXCEPT ![x] = @ \cup {y}]
           /\ SentExactly(IF up THEN Announce(x, y, 1) ELSE {}, {})
           /\ ann' = IF up THEN [ann EXCEPT ![x][y] = TRUE] ELSE ann
           /\ link' = Queued(link)
        /\ UNCHANGED <<nn, slm, fifo, conn, subs, view, seen, mt, src>>

Unview == /\ R.e = "unview" /\ Clean /\ NoEvs /\ Len(R.snd) = 0
          /\ tgt' = [tgt EXCEPT ![R.x] = @ \ {R.y}]
          /\ UNCHANGED <<nn, slm, fifo, conn, subs, view, ann, link, seen, mt, src>>

Sub == /\ R.e = "sub" /\ Clean /\ NoEvs
       /\ LET x == R.x  t == R.t  new == t \notin subs[x] IN
          /\ R.res = new
          /\ SentExactly(IF new THEN {<<x, q, t, 1>> : q \in Peers(x)} ELSE {}, {})
          /\ subs' = [subs EXCEPT ![x] = @ \cup {t}]
          /\ link' = Queued(link)
       /\ UNCHANGED <<nn, slm, fifo, conn, tgt, view, ann, seen, mt, src>>

Unsub == /\ R.e = "unsub" /\ Clean /\ NoEvs
         /\ LET x == R.x  t == R.t  had == t \in subs[x] IN
            /\ R.res = had
            /\ SentExactly(IF had THEN {<<x, q, t, 0>> : q \in Peers(x)} ELSE {}, {})
            /\ subs' = [subs EXCEPT ![x] = @ \ {t}]
            /\ link' = Queued(link)
         /\ UNCHANGED <<nn, slm, fifo, conn, tgt, view, ann, seen, mt, src>>

SeqSet(s) == {s[i] : i \in 1..Len(s)}
Pub == /\ R.e = "pub" /\ Clean
       /\ LET x == R.x  k == R.k  ts == SeqSet(R.ts)
              selfsub == (subs[x] \cap ts) # {}
              go == R.any \/ selfsub
              M == IF go THEN {<<x, q, k>> : q \in {p \in Peers(x) \cap tgt[x] : (view[x][p] \cap ts) # {}}} ELSE {} IN
          /\ k \notin DOMAIN mt
          /\ SentExactly({}, M)
          /\ SubEvIdx = {}
          /\ MsgEvs = (IF slm[x] /\ selfsub THEN {<<x, k>>} ELSE {}) /\ NumMsgEvs = Cardinality(MsgEvs)    \* LocalOnce
          /\ mt' = (k :> ts) @@ mt /\ src' = (k :> x) @@ src
          /\ seen' = [seen EXCEPT ![x] = @ \cup {k}]
          /\ link' = Queued(link)
       /\ UNCHANGED <<nn, slm, fifo, conn, tgt, subs, view, ann>>

(* a forged RPC with 1-3 fresh messages (same topics) appears on the link x -> y *)
Inj == /\ R.e = "inj" /\ Clean /\ NoEvs /\ Len(R.snd) = 0
       /\ LET ks == SeqSet(R.ks) IN
          /\ ks \cap DOMAIN mt = {} /\ Cardinality(ks) = Len(R.ks)
          /\ mt' = [k \in ks |-> SeqSet(R.ts)] @@ mt /\ src' = [k \in ks |-> 100] @@ src       \* nobody's own messages
       /\ link' = [link EXCEPT ![R.x][R.y] = Append(@, [s |-> <<>>, m |-> R.ks])]
       /\ UNCHANGED <<nn, slm, fifo, conn, tgt, subs, view, ann, seen>>

(* a foreign announcement for topic t WITHOUT the optional subscribe flag was decoded from raw bytes and put on the
   link: protobuf's default (false) makes it an unsubscription *)
InjRaw == /\ R.e = "injraw" /\ ~Has(R, "codec") /\ Clean /\ NoEvs /\ Len(R.snd) = 0
          /\ R.dec = <<<<R.t, 0>>>> /\ R.nm = 0
          /\ link' = [link EXCEPT ![R.x][R.y] = Append(@, [s |-> R.dec, m |-> <<>>])]
          /\ ann' = [ann EXCEPT ![R.x][R.y] = FALSE]          \* y's picture of x is no longer x's doing
          /\ UNCHANGED <<nn, slm, fifo, conn, tgt, subs, view, seen, mt, src>>

RECURSIVE ViewAfter(_, _, _)
ViewAfter(v, s, i) == IF i > Len(s) THEN v
                      ELSE ViewAfter(IF s[i][2] = 1 THEN v \cup {s[i][1]} ELSE v \ {s[i][1]}, s, i + 1)
Dlv == /\ R.e = "dlv" /\ Clean /\ ~Has(R, "codec")
       /\ LET x == R.x  y == R.y  i == R.i + 1 IN
          /\ conn[x][y] > 0 /\ i <= Len(link[x][y]) /\ (fifo => i = 1)
          /\ LET rpc == link[x][y][i]
                 v2 == [view EXCEPT ![y][x] = ViewAfter(@, rpc.s, 1)]
                 ks == SeqSet(rpc.m)
                 new == ks \ seen[y]
                 must == {<<y, q, k>> : <<q, k>> \in {<<q2, k2>> \in ((Peers(y) \cap tgt[y]) \ {x}) \X new :
                                                        (v2[y][q2] \cap mt[k2]) # {} /\ q2 # src[k2]}}
                 may == {<<y, q, k>> : <<q, k>> \in {<<q2, k2>> \in ((Peers(y) \cap tgt[y]) \ {x}) \X new :
                                                        (v2[y][q2] \cap mt[k2]) # {}}}
                 sent == MsgItems(R.snd) IN
             /\ rpc.s = R.rpc.s /\ rpc.m = R.rpc.m /\ Len(rpc.m) = Cardinality(ks)       \* Codec
             (* Subscribed / Unsubscribed: one event per announcement, in order *)
             /\ Cardinality(SubEvIdx) = Len(rpc.s)
             /\ (\A j \in 1..Len(rpc.s) : \E e \in SubEvIdx :
                    /\ Cardinality({e2 \in SubEvIdx : e2 < e}) = j - 1
                    /\ R.evs[e] = <<y, IF rpc.s[j][2] = 1 THEN 1 ELSE 2, x, rpc.s[j][1]>>) = TRUE
             (* DeliverOnce, OnlySubscribed, ForwardOnce *)
             /\ MsgEvs = {<<y, k>> : k \in {k2 \in new : (subs[y] \cap mt[k2]) # {}}} /\ NumMsgEvs = Cardinality(MsgEvs)
             (* ForwardAll *)
             /\ SubItems(R.snd) = {} /\ must \subseteq sent /\ sent \subseteq may
             /\ SumM(R.snd, Len(R.snd)) = Cardinality(sent)
             /\ view' = v2
             /\ seen' = [seen EXCEPT ![y] = @ \cup ks]
             /\ link' = Queued([link EXCEPT ![x][y] = SubSeq(@, 1, i - 1) \o SubSeq(@, i + 1, Len(@))])
       /\ UNCHANGED <<nn, slm, fifo, conn, tgt, subs, ann, mt, src>>

Skip == R.e = "skip" /\ UNCHANGED <<nn, slm, fifo, conn, tgt, subs, view, ann, link, seen, mt, src>>

ViewsAgree == \A a \in Nodes, b \in Nodes : (a # b /\ conn[a][b] > 0) =>
                 /\ view[a][b] \subseteq subs[b]
                 /\ ann[b][a] => view[a][b] = subs[b]
End == /\ R.e = "end"
       /\ (R.quiet /\ fifo) => (ViewsAgree = TRUE)
       /\ R.quiet => \A a \in Nodes, b \in Nodes : link[a][b] = <<>>
       /\ UNCHANGED <<nn, slm, fifo, conn, tgt, subs, view, ann, link, seen, mt, src>>

Next == l <= NRec /\ l' = l + 1 /\ (Reset \/ Conn \/ Disc \/ View \/ Unview \/ Sub \/ Unsub \/ Pub \/ Inj \/ InjRaw \/ Dlv \/ Skip \/ End)
Spec == Init /\ [][Next]_vars
(* invariants of the rebuilt state (redundant with the guards, cheap) *)
TypeOK == /\ \A a \in Nodes, b \in Nodes : conn[a][b] = conn[b][a] /\ conn[a][b] \in 0..2
          /\ \A a \in Nodes, b \in Nodes : conn[a][b] = 0 => (link[a][b] = <<>> /\ view[a][b] = {})
Progress == Mark(l)
====
