CONSTANTS
  Streams = {0, 1}
  Paired = TRUE
  MaxOps = 5
  MaxWire = 3
  BarrierBug = FALSE
  ResetLoose = FALSE
  LoseFlagInClosing = FALSE
INIT GInit
NEXT GNext
VIEW GView
CONSTRAINT WireBound
INVARIANT EmitState
