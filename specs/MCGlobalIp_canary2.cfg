CONSTANTS
  DropShared = FALSE
  WideLinkLocal = TRUE
  OldStd = FALSE
INIT Init
NEXT Next
INVARIANT CodeMatchesRegistry
