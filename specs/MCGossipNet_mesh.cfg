SPECIFICATION Spec
CONSTANTS
  Nodes <- N4
  Msgs <- M1
  SrcOf <- Src1
  FloodPublish = FALSE
  EchoBack = FALSE
  NoDupCache = FALSE
INVARIANT AtMostOnce
INVARIANT NotToPublisher
INVARIANT NeverBackOrToSource
CONSTRAINT Bounded
PROPERTY EveryoneGetsIt
