---- MODULE MCGsConfig ----
EXTENDS GsConfig
DefQuadV == <<1, 1, 2, 3>>
====
