CONSTANTS
  Streams = {0, 1}
  Paired = TRUE
  MaxOps = 4
  MaxWire = 2
  BarrierBug = FALSE
  ResetLoose = FALSE
  LoseFlagInClosing = FALSE
  LocalOps = {"read", "write", "close", "close_read", "drop"}
  EnvOps = {"block", "unblock"}
  Frames = {"data", "fin", "stop", "reset"}
INIT GInit
NEXT GNext
VIEW GView
CONSTRAINT WireBound
INVARIANT EmitState
