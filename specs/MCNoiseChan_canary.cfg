CONSTANTS
  N = 4
  MaxFrame = 2
  Hdr = 2
  ResetOnSend = FALSE
  CheckTag = TRUE
SPECIFICATION Spec
INVARIANT Prefix FrameLimit Complete EofClean CorruptDetected
PROPERTY Refines
