CONSTANTS
  NamesN = 2
  HostsN = 1
  Ips = 1
  WithForeign = TRUE
  Policies <- PolTwo
INIT Init
NEXT Next
