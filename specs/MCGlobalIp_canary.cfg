CONSTANTS
  DropShared = TRUE
  WideLinkLocal = FALSE
  OldStd = FALSE
INIT Init
NEXT Next
INVARIANT CodeMatchesRegistry
