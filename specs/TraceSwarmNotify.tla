---- MODULE TraceSwarmNotify ----
(* C07 property-level trace spec: behaviour -> handler notifications of one real Swarm.
   bEmit   - behaviour b1 returned ToSwarm::NotifyHandler{peer, One(id) | Any, ev.seq} from poll
   hEvent  - a handler's on_behaviour_event(ev.seq) on connection id
   cbConnEstablished / cbConnClosed (b1) - maintain the peer's established connections
   close / behClose / failMux / keepAlive / disconnect / behCloseAll - evidence that a target may be closing *)
EXTENDS TraceIO, FiniteSets, Integers
VARIABLES l, est, peerOf, closing, closingPeer, em, delivered, lastSeq
vars == <<l, est, peerOf, closing, closingPeer, em, delivered, lastSeq>>
Ids == 1..16
R == Rec[l]
Init == /\ l = 1 /\ InitReg /\ est = [i \in Ids |-> -1] /\ peerOf = [i \in Ids |-> -1] /\ closing = {} /\ closingPeer = {}
        /\ em = <<>> /\ delivered = {} /\ lastSeq = [i \in Ids |-> 0]
Reset == /\ R.e = "reset" /\ est' = [i \in Ids |-> -1] /\ peerOf' = [i \in Ids |-> -1] /\ closing' = {} /\ closingPeer' = {}
         /\ em' = <<>> /\ delivered' = {} /\ lastSeq' = [i \in Ids |-> 0]
Est == /\ R.e = "cbConnEstablished" /\ est' = [est EXCEPT ![R.id] = R.peer] /\ peerOf' = [peerOf EXCEPT ![R.id] = R.peer]
       /\ UNCHANGED <<closing, closingPeer, em, delivered, lastSeq>>
Closed == /\ R.e = "cbConnClosed" /\ est' = [est EXCEPT ![R.id] = -1] /\ closing' = closing \cup {R.id}
          /\ UNCHANGED <<peerOf, closingPeer, em, delivered, lastSeq>>
CloseOne == /\ R.e \in {"close", "behClose", "failMux", "keepAlive"}
            /\ closing' = IF R.id \in Ids THEN closing \cup {R.id} ELSE closing
            /\ UNCHANGED <<est, peerOf, closingPeer, em, delivered, lastSeq>>
ClosePeer == /\ R.e \in {"disconnect", "behCloseAll"} /\ closingPeer' = closingPeer \cup {R.peer}
             /\ UNCHANGED <<est, peerOf, closing, em, delivered, lastSeq>>
(* emissions arrive in increasing seq order: em[seq] = [any, id, cap, live] *)
Emit == /\ R.e = "bEmit" /\ R.b = "b1" /\ R.ev.seq = Len(em) + 1
        /\ em' = Append(em, [any |-> R.target = "any", id |-> R.id,
                             cap |-> IF R.target = "any" THEN {i \in Ids : est[i] = R.peer} ELSE {R.id},
                             live |-> IF R.target = "any" THEN {i \in Ids : est[i] = R.peer} ELSE (IF R.id \in Ids /\ est[R.id] # -1 THEN {R.id} ELSE {})])
        /\ UNCHANGED <<est, peerOf, closing, closingPeer, delivered, lastSeq>>
Deliver == /\ R.e = "hEvent"
           /\ R.b = "b1"                                             \* only the emitting behaviour's handler
           /\ R.ev.seq \in 1..Len(em) /\ R.ev.seq \notin delivered   \* at most one delivery per emission
           /\ R.id \in em[R.ev.seq].cap                              \* One(c): only c; Any: a connection that existed at emission
           /\ R.ev.seq > lastSeq[R.id]                               \* per handler: emission order
           /\ delivered' = delivered \cup {R.ev.seq} /\ lastSeq' = [lastSeq EXCEPT ![R.id] = R.ev.seq]
           /\ UNCHANGED <<est, peerOf, closing, closingPeer, em>>
MayBeClosing(i) == i \in closing \/ peerOf[i] \in closingPeer
End == /\ R.e = "end"
       \* dropped only if the target was closing / gone. For Any the Swarm hands the event to ONE of the captured connections;
       \* if that one is already closing the event is lost with it (lib.rs notify_any: "consumed"), so one closing candidate suffices.
       /\ (\A s \in 1..Len(em) : s \notin delivered => (em[s].live = {} \/ \E i \in em[s].live : MayBeClosing(i))) = TRUE   \* "= TRUE": evaluate as an expression, not as an action (no branching)
       /\ UNCHANGED <<est, peerOf, closing, closingPeer, em, delivered, lastSeq>>
Skip == R.e \in {"emitQueued", "polled", "ranTask"} /\ UNCHANGED <<est, peerOf, closing, closingPeer, em, delivered, lastSeq>>
Next == l <= NRec /\ l' = l + 1 /\ (Reset \/ Est \/ Closed \/ CloseOne \/ ClosePeer \/ Emit \/ Deliver \/ End \/ Skip)
Progress == Mark(l)
====
