---- MODULE RelIdentity ----
(* C20 relation validation of the records produced by `drv-core identity`. *)
EXTENDS Identity, TraceIO
VARIABLE x
Why(r) ==
  IF Has(r, "panic") THEN "panic"
  ELSE IF r.kind = "mh" THEN
    LET e == Accept(r.code, r.len, r.shape) IN
    IF e = "MUST" /\ ~r.accepted THEN "valid peer id multihash rejected"
    ELSE IF e = "MUSTNOT" /\ r.accepted THEN "invalid peer id multihash accepted"
    ELSE IF ~r.rt_bytes THEN "byte encoding does not round-trip"
    ELSE IF ~r.rt_b58 THEN "base58 encoding does not round-trip"
    ELSE "ok"
  ELSE IF r.kind = "inline" THEN
    IF r.code # InlineCode(r.enclen) THEN "wrong multihash code for the key length (inlining rule)"
    ELSE IF ~r.digest_ok THEN "digest is not the key encoding / its SHA2-256"
    ELSE IF ~r.deterministic THEN "peer id derivation not deterministic"
    ELSE IF ~r.rt_bytes \/ ~r.rt_b58 THEN "derived peer id does not round-trip"
    ELSE "ok"
  ELSE IF r.kind = "keyrt" THEN
    IF ~r.pub_rt THEN "public key protobuf does not round-trip"
    ELSE IF r.priv = "rt" \/ (r.priv = "unsupported" /\ r.kt = "rsa") THEN "ok"
    ELSE "private key protobuf does not round-trip"
  ELSE IF r.kind = "fuzz" THEN (IF r.panics = <<>> THEN "ok" ELSE "panic while decoding arbitrary bytes")
  ELSE "unknown record"
ASSUME PrintT(<<"CHECKED", ToJson([n |-> NRec])>>)
ASSUME \A i \in 1..NRec : Why(Rec[i]) = "ok" \/ PrintT(<<"BAD", ToJson([line |-> i, why |-> Why(Rec[i])])>>)
Init == x = 0
Next == FALSE /\ x' = x
====
