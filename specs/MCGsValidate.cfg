CONSTANTS
  Bug = "none"
INIT Init
NEXT Next
INVARIANTS AcceptedIsValid StrictRejectsMutation
