---- MODULE TraceMuxStreams ----
(* C24 trace validation (property level, muxer-independent: mplex and yamux run through the same
   driver): two real StreamMuxer endpoints over a scripted pipe.
   Handle key g = endpoint * 8 + handle number; byte j written on g has the value g * 16 + j mod 16.
   ByteStream refinement per substream and direction:
     read   every byte read on g carries the tag of ONE handle p of the other endpoint, of the
            complementary kind (opened <-> accepted); the pairing g <-> p is one-to-one and never
            changes; the bytes read on g are always a prefix of the bytes written on p
     eof    only after p's writer asked for close and after all of p's bytes
     end    after the final drain every written byte was read by the peer and every close was seen
   Which accepted handle belongs to which opened one is not assumed (inferred from the tags; for an
   EOF on a handle that never carried data any closed, silent, unpaired candidate is tried). *)
EXTENDS TraceIO, FiniteSets
VARIABLES l, kind, sent, rd, pair, closeReq, eofs
vars == <<l, kind, sent, rd, pair, closeReq, eofs>>
R == Rec[l]
G == 0..15
NoPair == 99
Ep(g) == g \div 8
Prefix(a, b) == Len(a) <= Len(b) /\ \A i \in 1..Len(a) : a[i] = b[i]
Clear == /\ kind' = [g \in G |-> "none"] /\ sent' = [g \in G |-> <<>>] /\ rd' = [g \in G |-> <<>>]
         /\ pair' = [g \in G |-> NoPair] /\ closeReq' = {} /\ eofs' = {}
Init == /\ l = 1 /\ kind = [g \in G |-> "none"] /\ sent = [g \in G |-> <<>>] /\ rd = [g \in G |-> <<>>]
        /\ pair = [g \in G |-> NoPair] /\ closeReq = {} /\ eofs = {} /\ InitReg
Reset == R.e = "reset" /\ Clear
Count(e, k) == Cardinality({g \in G : Ep(g) = e /\ kind[g] = k})
NewHandle == /\ R.e \in {"open", "accept"} /\ R.g \in G /\ R.g = R.ep * 8 + R.h /\ kind[R.g] = "none"
             /\ \A g \in G : (Ep(g) = R.ep /\ g < R.g) => kind[g] # "none"
             /\ (R.e = "accept") => Count(R.ep, "accept") + 1 <= Count(1 - R.ep, "open")    \* no substream out of thin air
             /\ kind' = [kind EXCEPT ![R.g] = R.e]
             /\ UNCHANGED <<sent, rd, pair, closeReq, eofs>>
Write == /\ R.e = "write" /\ kind[R.g] # "none"
         /\ sent' = [sent EXCEPT ![R.g] = @ \o R.bytes]
         /\ UNCHANGED <<kind, rd, pair, closeReq, eofs>>
CanPair(g, p) == /\ p \in G /\ Ep(p) # Ep(g) /\ kind[p] # "none" /\ kind[g] # "none" /\ kind[p] # kind[g]
                 /\ pair[g] \in {NoPair, p} /\ pair[p] \in {NoPair, g}
Read == /\ R.e = "read" /\ Len(R.bytes) > 0 /\ R.g \notin eofs
        /\ LET g == R.g  p == R.bytes[1] \div 16 IN
           /\ \A i \in 1..Len(R.bytes) : R.bytes[i] \div 16 = p          \* never a byte of another substream
           /\ CanPair(g, p)
           /\ pair' = [pair EXCEPT ![g] = p, ![p] = g]
           /\ rd' = [rd EXCEPT ![g] = @ \o R.bytes]
           /\ Prefix(rd'[g], sent[p])                                    \* exactly its bytes, in order
        /\ UNCHANGED <<kind, sent, closeReq, eofs>>
Eof == /\ R.e = "eof" /\ kind[R.g] # "none"
       /\ eofs' = eofs \cup {R.g}
       /\ IF R.g \in eofs THEN UNCHANGED pair
          ELSE IF pair[R.g] # NoPair THEN pair[R.g] \in closeReq /\ rd[R.g] = sent[pair[R.g]] /\ UNCHANGED pair
          ELSE \E p \in G : /\ CanPair(R.g, p) /\ pair[p] = NoPair /\ p \in closeReq /\ sent[p] = <<>>
                            /\ pair' = [pair EXCEPT ![R.g] = p, ![p] = R.g]
       /\ UNCHANGED <<kind, sent, rd, closeReq>>
CloseOp == /\ (R.e = "close" \/ (R.e = "w_pending" /\ R.op = "close")) = TRUE
           /\ closeReq' = closeReq \cup {R.g} /\ UNCHANGED <<kind, sent, rd, pair, eofs>>
WriteErr == /\ R.e = "w_err" /\ R.op = "write" /\ R.g \in closeReq           \* only writing after one's own close may fail
            /\ UNCHANGED <<kind, sent, rd, pair, closeReq, eofs>>
Quiet == /\ (R.e \in {"flush", "dl", "drain", "skip", "open_pending", "accept_pending", "read_pending"}
             \/ (R.e = "w_pending" /\ R.op # "close")) = TRUE
         /\ UNCHANGED <<kind, sent, rd, pair, closeReq, eofs>>
End == /\ R.e = "end"
       /\ \A p \in G : sent[p] # <<>> => (pair[p] # NoPair /\ rd[pair[p]] = sent[p])
       /\ \A p \in closeReq : pair[p] # NoPair => pair[p] \in eofs
       /\ UNCHANGED <<kind, sent, rd, pair, closeReq, eofs>>
Next == l <= NRec /\ l' = l + 1 /\ (Reset \/ NewHandle \/ Write \/ Read \/ Eof \/ CloseOp \/ WriteErr \/ Quiet \/ End)
Spec == Init /\ [][Next]_vars
(* the pairing is symmetric and one-to-one at all times *)
PairingOK == \A g \in G : pair[g] # NoPair => pair[pair[g]] = g
Progress == Mark(l)
====
