---- MODULE TraceHSelect ----
(* X03 (part 2) trace validation of the REAL ConnectionHandlerSelect over two scripted recording children
   (see HSelect.tla for S1..S5).  State rebuilt from the events:
     box[s]   events queued in child s and not yet returned by the combination (child order)
     cbox[s]  closing events queued in child s; blk[s]: child s answers poll_close with Pending
     infl     substream requests handed to the connection: [s (side of the open-info), tag, info]
     lst[s]   inbound open-info child s currently returns from listen_protocol
     expect   callbacks that the last driver step must cause in the children (set); a `cb` line must be one of them,
              and no other step is accepted while a callback is still owed. *)
EXTENDS TraceIO, FiniteSets
VARIABLES l, box, cbox, blk, infl, lst, expect
vars == <<l, box, cbox, blk, infl, lst, expect>>
R == Rec[l]
Sides == {1, 2}
Init == /\ l = 1 /\ box = [s \in Sides |-> <<>>] /\ cbox = [s \in Sides |-> <<>>] /\ blk = [s \in Sides |-> FALSE]
        /\ infl = {} /\ lst = [s \in Sides |-> 70 + s] /\ expect = {} /\ InitReg

Cbk(s, k, v, info, ek) == [s |-> s, k |-> k, v |-> v, info |-> info, ek |-> ek]
Max(a, b) == IF a >= b THEN a ELSE b

Reset == /\ R.e = "reset" /\ expect = {}
         /\ box' = [s \in Sides |-> <<>>] /\ cbox' = [s \in Sides |-> <<>>] /\ blk' = [s \in Sides |-> FALSE]
         /\ infl' = {} /\ lst' = [s \in Sides |-> 70 + s] /\ expect' = {}
Q == /\ R.e = "q" /\ expect = {}
     /\ box' = [box EXCEPT ![R.s] = Append(@, [k |-> R.k, tag |-> R.tag, to |-> R.to, info |-> R.info])]
     /\ UNCHANGED <<cbox, blk, infl, lst, expect>>
PollNotify == /\ R.e = "poll" /\ R.res = "notify" /\ expect = {}
              /\ box[R.s] # <<>> /\ Head(box[R.s]).k = "notify" /\ Head(box[R.s]).tag = R.tag          \* S1
              /\ box' = [box EXCEPT ![R.s] = Tail(@)] /\ UNCHANGED <<cbox, blk, infl, lst, expect>>
PollOsr == /\ R.e = "poll" /\ R.res = "osr" /\ expect = {}
           /\ R.s = R.is                                                                                   \* upgrade and open-info wrapped alike
           /\ box[R.s] # <<>> /\ Head(box[R.s]) = [k |-> "osr", tag |-> R.tag, to |-> R.to, info |-> R.info]  \* S1: timeout, info preserved
           /\ Len(R.protos) = 1
           /\ box' = [box EXCEPT ![R.s] = Tail(@)]
           /\ infl' = infl \cup {[s |-> R.is, tag |-> R.tag, info |-> R.info]}
           /\ UNCHANGED <<cbox, blk, lst, expect>>
PollReport == /\ R.e = "poll" /\ R.res = "report" /\ expect = {} /\ R.n = 1
              /\ \E s \in Sides : /\ box[s] # <<>> /\ Head(box[s]).k = "report" /\ Head(box[s]).tag = R.tag
                                  /\ R.added = (R.tag - 2 * (R.tag \div 2) = 0)
                                  /\ box' = [box EXCEPT ![s] = Tail(@)]
              /\ UNCHANGED <<cbox, blk, infl, lst, expect>>
PollPending == /\ R.e = "poll" /\ R.res = "pending" /\ expect = {}
               /\ box[1] = <<>> /\ box[2] = <<>>                                                          \* S1: Pending only if both are
               /\ UNCHANGED <<box, cbox, blk, infl, lst, expect>>
Beh == /\ R.e = "beh" /\ expect = {} /\ expect' = {Cbk(R.s, "beh", R.v, 0, "")}                           \* S2
       /\ UNCHANGED <<box, cbox, blk, infl, lst>>
OutOk == /\ R.e = "outok" /\ expect = {}
         /\ [s |-> R.s, tag |-> R.v - 1000, info |-> R.info] \in infl
         /\ infl' = infl \ {[s |-> R.s, tag |-> R.v - 1000, info |-> R.info]}
         /\ expect' = {Cbk(R.s, "outok", R.v, R.info, "")}
         /\ UNCHANGED <<box, cbox, blk, lst>>
OutErr == /\ R.e = "outerr" /\ expect = {}
          /\ \E x \in infl : x.s = R.s /\ x.info = R.info /\ infl' = infl \ {x}
          /\ expect' = {Cbk(R.s, "outerr", R.v, R.info, R.k)}
          /\ UNCHANGED <<box, cbox, blk, lst>>
InOk == /\ R.e = "inok" /\ expect = {} /\ R.info = lst[R.s]
        /\ expect' = {Cbk(R.s, "inok", R.v, R.info, "")} /\ UNCHANGED <<box, cbox, blk, infl, lst>>
InErr == /\ R.e = "inerr" /\ expect = {} /\ R.info = lst[R.s]
         /\ expect' = {Cbk(R.s, "inerr", R.v, R.info, "")} /\ UNCHANGED <<box, cbox, blk, infl, lst>>
Addr == /\ R.e = "addr" /\ expect = {}
        /\ expect' = {Cbk(1, "addr", R.v, 0, ""), Cbk(2, "addr", R.v, 0, "")} /\ UNCHANGED <<box, cbox, blk, infl, lst>>
PChg == /\ R.e = "pchg" /\ expect = {}                                                                 \* S2: protocol changes reach both
        /\ expect' = {Cbk(1, R.k, R.v, R.added, ""), Cbk(2, R.k, R.v, R.added, "")} /\ UNCHANGED <<box, cbox, blk, infl, lst>>
Cb == /\ R.e = "cb" /\ Cbk(R.s, R.k, R.v, R.info, R.ek) \in expect
      /\ expect' = expect \ {Cbk(R.s, R.k, R.v, R.info, R.ek)} /\ UNCHANGED <<box, cbox, blk, infl, lst>>
Ka == /\ R.e = "ka" /\ expect = {} /\ R.res = (R.k1 \/ R.k2)                                              \* S3
      /\ UNCHANGED <<box, cbox, blk, infl, lst, expect>>
Listen == /\ R.e = "listen" /\ expect = {}
          /\ R.protos = R.p1 \o R.p2 /\ R.to = Max(R.t1, R.t2) /\ R.info = <<R.i1, R.i2>>                  \* S4
          /\ lst' = [s \in Sides |-> IF s = 1 THEN R.i1 ELSE R.i2]
          /\ UNCHANGED <<box, cbox, blk, infl, expect>>
QClose == /\ R.e = "qclose" /\ expect = {} /\ cbox' = [cbox EXCEPT ![R.s] = Append(@, R.tag)]
          /\ UNCHANGED <<box, blk, infl, lst, expect>>
CBlock == /\ R.e = "cblock" /\ expect = {} /\ blk' = [blk EXCEPT ![R.s] = R.on]
          /\ UNCHANGED <<box, cbox, infl, lst, expect>>
CloseSome == /\ R.e = "pollclose" /\ R.res = "some" /\ expect = {}
             /\ ~blk[R.s] /\ cbox[R.s] # <<>> /\ Head(cbox[R.s]) = R.tag                                   \* S5
             /\ cbox' = [cbox EXCEPT ![R.s] = Tail(@)] /\ UNCHANGED <<box, blk, infl, lst, expect>>
CloseNone == /\ R.e = "pollclose" /\ R.res = "none" /\ expect = {}
             /\ \A s \in Sides : ~blk[s] /\ cbox[s] = <<>>
             /\ UNCHANGED <<box, cbox, blk, infl, lst, expect>>
ClosePending == /\ R.e = "pollclose" /\ R.res = "pending" /\ expect = {}
                /\ (\E s \in Sides : blk[s]) = TRUE
                /\ UNCHANGED <<box, cbox, blk, infl, lst, expect>>
Skip == /\ R.e = "skip" /\ expect = {} /\ UNCHANGED <<box, cbox, blk, infl, lst, expect>>

Next == l <= NRec /\ l' = l + 1 /\
        (Reset \/ Q \/ PollNotify \/ PollOsr \/ PollReport \/ PollPending \/ Beh \/ OutOk \/ OutErr \/ InOk \/ InErr \/ Addr \/ PChg \/ Cb
         \/ Ka \/ Listen \/ QClose \/ CBlock \/ CloseSome \/ CloseNone \/ ClosePending \/ Skip)
Spec == Init /\ [][Next]_vars
TypeOK == l >= 1
Progress == Mark(l)
====
