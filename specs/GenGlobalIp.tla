---- MODULE GenGlobalIp ----
(* C22 probe generator: first-1, first, last, last+1 of every registry block, both families. *)
EXTENDS GlobalIp, Json
VARIABLE x
ASSUME \A v \in {4, 6} : \A a \in Probes(v) : PrintT(<<"REPLAY", ToJson([v |-> v, a |-> a, cls |-> Class(v, a)])>>)
Init == x = 0
Next == FALSE /\ x' = x
====
