CONSTANTS
  N = 4
  W = 3
  DropTail = FALSE
SPECIFICATION Spec
INVARIANT Prefix Complete
PROPERTY Refines
