CONSTANTS
  NoKeyCheck = FALSE
  AnySigner = TRUE
  NoP2pFilter = FALSE
INIT Init
NEXT Next
INVARIANT OnlyAuthenticatedKey
INVARIANT RecordOnlyIfSignedBySamePeer
INVARIANT NoForeignPeerAddr
