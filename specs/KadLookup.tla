---- MODULE KadLookup ----
(* ClosestPeersIter (protocols/kad/src/query/peers/closest.rs): transcription of next / on_success / on_failure /
   at_capacity and the stall logic. Peers are identified by their distance rank to the target (1 = closest); the
   environment answers with any subset of the peer graph, fails requests, or lets time pass. C39. *)
EXTENDS Naturals, FiniteSets, TLC
CONSTANTS N, Par, NumRes, PeerTimeout, MaxTime, Seeds,
          CapGt      \* canary: at_capacity compares with > instead of >=
Peers == 1..N
VARIABLES st,        \* peer -> "unknown" | "NotContacted" | "Waiting" | "Unresponsive" | "Failed" | "Succeeded"
          tmo,       \* peer -> timeout instant while Waiting
          nw,        \* num_waiting (the code's counter)
          mode,      \* "Iterating" | "Stalled" | "Finished"
          noProg,    \* no_progress counter while Iterating
          now,
          last       \* result of the last next() call: "none" | "issue" | "waiting" | "capacity" | "finished"
vars == <<st, tmo, nw, mode, noProg, now, last>>
Init == /\ st = [p \in Peers |-> IF p \in Seeds THEN "NotContacted" ELSE "unknown"] /\ tmo = [p \in Peers |-> 0]
        /\ nw = 0 /\ mode = "Iterating" /\ noProg = 0 /\ now = 0 /\ last = "none"
Known == {p \in Peers : st[p] # "unknown"}
Max(a, b) == IF a > b THEN a ELSE b
Ge(a, b) == IF CapGt THEN a > b ELSE a >= b
AtCapacity == IF mode = "Stalled" THEN Ge(nw, Max(NumRes, Par)) ELSE IF mode = "Iterating" THEN Ge(nw, Par) ELSE TRUE
LimitInForce == IF mode = "Stalled" THEN Max(NumRes, Par) ELSE Par            \* the statement's limit (independent of the canary)

(* next(now): walk the known peers in distance order; implemented as a recursive scan carrying (state, counter) *)
RECURSIVE Scan(_, _, _, _)
\* p: next rank to look at; s: st map so far; w: nw so far; cnt: result counter or N+1 meaning "None"
Scan(p, s, w, cnt) ==
  IF p > N THEN [st |-> s, nw |-> w, res |-> IF w > 0 THEN "waiting" ELSE "finished", who |-> 0]
  ELSE IF s[p] = "Waiting" THEN
         IF now >= tmo[p] THEN Scan(p + 1, [s EXCEPT ![p] = "Unresponsive"], w - 1, cnt)
         ELSE IF AtCapacity THEN [st |-> s, nw |-> w, res |-> "capacity", who |-> 0]
         ELSE Scan(p + 1, s, w, N + 1)
  ELSE IF s[p] = "Succeeded" THEN
         IF cnt <= N /\ cnt + 1 >= NumRes THEN [st |-> s, nw |-> w, res |-> "finished", who |-> 0]
         ELSE Scan(p + 1, s, w, IF cnt <= N THEN cnt + 1 ELSE cnt)
  ELSE IF s[p] = "NotContacted" THEN
         IF ~AtCapacity THEN [st |-> [s EXCEPT ![p] = "Waiting"], nw |-> w + 1, res |-> "issue", who |-> p]
         ELSE [st |-> s, nw |-> w, res |-> "capacity", who |-> 0]
  ELSE Scan(p + 1, s, w, cnt)

CallNext ==
  /\ mode # "Finished"
  /\ LET r == Scan(1, st, nw, 0) IN
     /\ st' = r.st /\ nw' = r.nw /\ last' = r.res
     /\ tmo' = IF r.res = "issue" THEN [tmo EXCEPT ![r.who] = now + PeerTimeout] ELSE tmo
     /\ mode' = IF r.res = "finished" THEN "Finished" ELSE mode
  /\ UNCHANGED <<noProg, now>>

OnSuccess(p, closer) ==
  /\ mode # "Finished" /\ st[p] \in {"Waiting", "Unresponsive"}
  /\ LET s1 == [st EXCEPT ![p] = "Succeeded"]
         known1 == {q \in Peers : s1[q] # "unknown"}
         \* distance of the NumRes-th closest known peer, or of the farthest known one
         ranked == {q \in known1 : Cardinality({x \in known1 : x <= q}) = NumRes}
         curRange == IF ranked # {} THEN CHOOSE q \in ranked : TRUE ELSE CHOOSE q \in known1 : \A x \in known1 : x <= q
         fresh == closer \ known1
         progress == Cardinality(known1) < NumRes \/ \E q \in fresh : q < curRange
         s2 == [q \in Peers |-> IF q \in fresh THEN "NotContacted" ELSE s1[q]] IN
     /\ st' = s2
     /\ nw' = IF st[p] = "Waiting" THEN nw - 1 ELSE nw
     /\ IF mode = "Iterating"
        THEN LET np == IF progress THEN 0 ELSE noProg + 1 IN
             IF np >= Par THEN mode' = "Stalled" /\ noProg' = 0 ELSE mode' = "Iterating" /\ noProg' = np
        ELSE IF progress THEN mode' = "Iterating" /\ noProg' = 0 ELSE UNCHANGED <<mode, noProg>>
  /\ last' = "none" /\ UNCHANGED <<tmo, now>>
OnFailure(p) ==
  /\ mode # "Finished" /\ st[p] \in {"Waiting", "Unresponsive"}
  /\ st' = [st EXCEPT ![p] = "Failed"] /\ nw' = IF st[p] = "Waiting" THEN nw - 1 ELSE nw
  /\ last' = "none" /\ UNCHANGED <<tmo, mode, noProg, now>>
Tick == now < MaxTime /\ now' = now + 1 /\ last' = "none" /\ UNCHANGED <<st, tmo, nw, mode, noProg>>
Next == CallNext \/ (\E p \in Peers, c \in SUBSET Peers : OnSuccess(p, c)) \/ (\E p \in Peers : OnFailure(p)) \/ Tick
Spec == Init /\ [][Next]_vars

(* ---- C39 ---- *)
CounterExact == nw = Cardinality({p \in Peers : st[p] = "Waiting"})
IssueWithinCapacity == [][last' = "issue" => nw < LimitInForce]_vars       \* a new request is only issued below the limit in force
Cap == IF mode = "Stalled" THEN Max(NumRes, Par) ELSE Max(NumRes, Par)       \* in flight never exceeds the stalled limit ...
InFlightBound == nw <= Max(NumRes, Par)
IterBound == [][(mode = "Iterating" /\ mode' = "Iterating" /\ nw <= Par) => nw' <= Par]_vars   \* ... and stays within Par while iterating
Result == {p \in Peers : st[p] = "Succeeded"}
ResultTop == {p \in Result : Cardinality({q \in Result : q <= p}) <= NumRes}
SelfFinished == mode = "Finished" /\ last = "finished"
NoCloserLeft == SelfFinished => \A q \in Known : (ResultTop # {} /\ q < (CHOOSE m \in ResultTop : \A x \in ResultTop : x <= m)) => st[q] \notin {"NotContacted", "Waiting"}
FinishedOnlyWhenDone == SelfFinished => (Cardinality(ResultTop) = NumRes \/ \A q \in Known : st[q] \notin {"NotContacted", "Waiting"})
(* termination: once nothing is in flight and nothing is left to contact, the very next call finishes; every other
   call either hands out a peer (at most N times), or waits for a request that the environment must answer or time out *)
Quiet == \A p \in Peers : st[p] \notin {"Waiting", "NotContacted"}
StuckFree == (mode # "Finished" /\ Quiet) => Scan(1, st, nw, 0).res = "finished"
AllTimedOutFinishes == (mode # "Finished" /\ \A p \in Peers : st[p] # "NotContacted" /\ (st[p] = "Waiting" => now >= tmo[p]))
                          => Scan(1, st, nw, 0).res = "finished"
====
