---- MODULE TraceGossipsub ----
(* C28 / C29 / C35 / C36 (+ router level of C32): property-level trace specification of ONE gossipsub router.

   One recorded event = one call into the real Behaviour (connect / kind / close / rpc / sub / unsub / pub /
   score / hb / tick) together with the COMPLETE observable state after it (mesh, tracked topics, fanout,
   keep-alive view of the real connection handlers, score signs, backoff view, queued GRAFT/PRUNE).
   The spec follows the events: the abstract state is what the driver told the router (connections, peer
   kinds, logical time) plus what the router showed (adopted as is).  Nothing the router CHOSE is predicted
   (which peers it grafts, prunes, selects for fanout ...): the spec only judges each step against what the
   property statements forbid, and records the names of the violated rules in `viol`.  The state invariants
   are the statements' "at every point" parts.  Each property has its own .cfg listing its invariants.

   Backoff is tracked at protocol level, in logical time units of cfg.unit seconds: a peer is backed off for
   a topic from the moment a PRUNE for the topic is sent to it or received from it, for the duration the PRUNE
   carries (received PRUNE without duration: the router's prune_backoff).  The router may back off longer or
   on more occasions (slack, unsubscribes); that is never an error here.  The record is dropped when the
   peer's last connection closes (lenient: the statements do not speak about reconnects). *)
EXTENDS TraceIO, FiniteSets, Integers
VARIABLES l, cfg, conns, gsk, subs, mesh, trk, fan, keep, neg, low, sc, bo, now, viol
vars == <<l, cfg, conns, gsk, subs, mesh, trk, fan, keep, neg, low, sc, bo, now, viol>>

Range(s) == {s[i] : i \in 1..Len(s)}
R == Rec[l]
OpNames == {"connect", "kind", "close", "rpc", "sub", "unsub", "pub", "score", "hb", "tick", "stall", "unstall"}

Peers == 0..(cfg.np - 1)
Topics == 0..(cfg.nt - 1)
Explicit == Range(cfg.explicit)
Allowed == Range(cfg.allowed)
InAny(m, p) == \E t \in DOMAIN m : p \in m[t]
Max(a, b) == IF a > b THEN a ELSE b
Min(a, b) == IF a < b THEN a ELSE b

Init == /\ l = 1 /\ cfg = [np |-> 0, nt |-> 0] /\ conns = <<>> /\ gsk = {} /\ subs = {} /\ mesh = <<>> /\ trk = <<>>
        /\ fan = <<>> /\ keep = {} /\ neg = {} /\ low = {} /\ sc = <<>> /\ bo = <<>> /\ now = 0 /\ viol = {} /\ InitReg

Reset == /\ R.e = "reset"
         /\ cfg' = [np |-> R.np, nt |-> R.nt, hi |-> R.hi, explicit |-> R.explicit, allowed |-> R.allowed,
                    maxsubs |-> R.maxsubs, maxreq |-> R.maxreq, unit |-> R.unit, pb |-> R.pb]
         /\ conns' = [p \in 0..(R.np - 1) |-> {}]
         /\ gsk' = {} /\ subs' = {} /\ keep' = {} /\ neg' = {} /\ low' = {} /\ now' = 0 /\ viol' = {}
         /\ mesh' = [t \in 0..(R.nt - 1) |-> {}] /\ fan' = [t \in 0..(R.nt - 1) |-> {}]
         /\ trk' = [p \in 0..(R.np - 1) |-> {}]
         /\ sc' = [p \in 0..(R.np - 1) |-> 0]
         /\ bo' = [t \in 0..(R.nt - 1) |-> [p \in 0..(R.np - 1) |-> 0]]

(* ---- what the event shows ---- *)
OMesh == [t \in Topics |-> Range(R.mesh[t + 1])]
OFan == [t \in Topics |-> Range(R.fan[t + 1])]
OTrk == [p \in Peers |-> Range(R.trk[p + 1])]
OSc == [p \in Peers |-> IF \E x \in Range(R.sc) : x[1] = p THEN (CHOOSE x \in Range(R.sc) : x[1] = p)[2] ELSE 0]
OBo == {<<x[1], x[2]>> : x \in Range(R.bo)}                    \* <<topic, peer>> the router reports as backed off
SentPrunes == Range(R.pr)                                       \* <<peer, topic, secs>>
RecvPrunes == IF R.e = "rpc" /\ Has(R, "prune") THEN Range(R.prune) ELSE {}   \* <<topic, secs>> from R.p
GraftTopics == IF R.e = "rpc" /\ Has(R, "graft") THEN Range(R.graft) ELSE {}
SubEntries == IF R.e = "rpc" /\ Has(R, "req") THEN R.req ELSE <<>>
Units(secs) == secs \div cfg.unit

NewConns == CASE R.e = "connect" -> [conns EXCEPT ![R.p] = @ \cup {R.c}]
              [] R.e = "close" -> [conns EXCEPT ![R.p] = @ \ {R.c}]
              [] OTHER -> conns
Gone == IF R.e = "close" /\ NewConns[R.p] = {} THEN {R.p} ELSE {}      \* peers whose last connection closed
NewNow == IF R.e = "tick" THEN now + R.d ELSE now

(* protocol-level backoff record after the step *)
NewBo == [t \in Topics |-> [p \in Peers |->
            IF p \in Gone THEN 0 ELSE
            LET sent == {x \in SentPrunes : x[1] = p /\ x[2] = t /\ x[3] >= 0}
                recv == IF R.e = "rpc" /\ R.p = p THEN {x \in RecvPrunes : x[1] = t} ELSE {}
                ds == {Units(x[3]) : x \in sent} \cup {Units(IF x[2] < 0 THEN cfg.pb ELSE Min(x[2], 3600)) : x \in recv}
            IN IF ds = {} THEN bo[t][p] ELSE Max(bo[t][p], now + (CHOOSE d \in ds : \A e \in ds : e <= d))]]

Added(t) == OMesh[t] \ mesh[t]

(* C35 memory: fan[t] = the peers that were in the fanout set of t at some point since the set was last maintained
   (heartbeat) or dissolved (we subscribed to t) and that have been eligible ever since (connected, tracked as
   subscribed to t, not below the publish threshold).  A peer the router drops from the set in ANY step although it
   stays eligible is still remembered here and is missed at the next publish. *)
EligibleAfter(t) == {q \in Peers : NewConns[q] # {} /\ t \in OTrk[q] /\ q \notin Range(R.low)}
NewFan == [t \in Topics |-> IF R.e = "hb" \/ (R.e = "sub" /\ R.t = t) THEN OFan[t]
                              ELSE (fan[t] \cap EligibleAfter(t)) \cup OFan[t]]

(* ---- C36 helpers: the subscription request carried by an rpc event ---- *)
SubT == {SubEntries[i][1] : i \in {j \in 1..Len(SubEntries) : SubEntries[j][2]}}
UnsubT == {SubEntries[i][1] : i \in {j \in 1..Len(SubEntries) : ~SubEntries[j][2]}}

StepViolations ==
  LET p == R.p IN
  (* C28 step part: whoever is added to a mesh in this step was eligible when the step began *)
     (IF \E t \in Topics : \E q \in Added(t) : now < bo[t][q] THEN {"C28_AddedWhileBackedOff"} ELSE {})
  \cup (IF \E t \in Topics : \E q \in Added(t) : q \in neg THEN {"C28_AddedWithNegativeScore"} ELSE {})
  \cup (IF \E t \in Topics : \E q \in Added(t) : q \in Explicit THEN {"C28_AddedExplicitPeer"} ELSE {})
  \cup (IF \E t \in GraftTopics : t \in Topics /\ p \in Added(t) /\ Cardinality(mesh[t]) >= cfg.hi THEN {"C28_GraftAcceptedAtMeshHigh"} ELSE {})
  (* C35: publishing to a topic we are not subscribed to keeps the still eligible fanout peers *)
  \cup (IF R.e = "pub" /\ R.t \notin subs
           /\ ~((fan[R.t] \cap {q \in Peers : conns[q] # {} /\ R.t \in trk[q] /\ q \notin low}) \subseteq OFan[R.t])
        THEN {"C35_FanoutPeerDropped"} ELSE {})
  (* C36 step part, for pure subscription requests *)
  \cup (IF R.e = "rpc" /\ GraftTopics = {} /\ Len(SubEntries) > cfg.maxreq /\ OTrk[p] # trk[p] THEN {"C36_OverlongRequestAccepted"} ELSE {})
  \cup (IF R.e = "rpc" /\ GraftTopics = {} /\ OTrk[p] # trk[p]
           /\ ~(/\ ((SubT \ UnsubT) \cap Allowed) \subseteq OTrk[p]
                /\ (UnsubT \ SubT) \cap OTrk[p] = {})
        THEN {"C36_RequestPartiallyApplied"} ELSE {})
  \cup (IF R.e = "rpc" /\ GraftTopics = {} /\ ~(OTrk[p] \ trk[p] \subseteq SubT /\ trk[p] \ OTrk[p] \subseteq UnsubT)
        THEN {"C36_UnrequestedChange"} ELSE {})
  (* C32 (router level): whoever the protocol says is still backed off is reported as backed off *)
  (* C32 (router level): a GRAFT the router could have accepted, sent while the protocol-level backoff runs, costs score *)
  \cup (IF \E t \in GraftTopics : t \in Topics /\ t \in subs /\ p \notin mesh[t] /\ p \in gsk /\ p \notin Explicit /\ now < bo[t][p]
                                  /\ ~(OSc[p] < sc[p])
        THEN {"C32_GraftInBackoffNotPenalised"} ELSE {})
  \cup (IF \E t \in Topics : \E q \in Peers : NewNow < NewBo[t][q] /\ <<t, q>> \notin OBo THEN {"C32_BackoffForgotten"} ELSE {})

Step == /\ R.e \in OpNames
        /\ conns' = NewConns
        /\ gsk' = (IF R.e = "kind" /\ R.k = "g" THEN gsk \cup {R.p} ELSE gsk) \ Gone
        /\ subs' = Range(R.subs)
        /\ mesh' = OMesh /\ trk' = OTrk /\ fan' = NewFan
        /\ keep' = Range(R.keep) /\ neg' = Range(R.neg) /\ low' = Range(R.low) /\ sc' = OSc
        /\ now' = NewNow /\ bo' = NewBo
        /\ viol' = StepViolations
        /\ UNCHANGED cfg

Next == l <= NRec /\ l' = l + 1 /\ (Reset \/ Step)
Spec == Init /\ [][Next]_vars
Progress == Mark(l)

(* ---- C28: state part and step part ---- *)
C28_MeshMemberEligible == \A t \in DOMAIN mesh : \A p \in mesh[t] : conns[p] # {} /\ p \in gsk /\ t \in trk[p] /\ p \notin Explicit
C28_AddedNotBackedOff == "C28_AddedWhileBackedOff" \notin viol
C28_AddedNotNegative == "C28_AddedWithNegativeScore" \notin viol
C28_AddedNotExplicit == "C28_AddedExplicitPeer" \notin viol
C28_GraftRefusedAtMeshHigh == "C28_GraftAcceptedAtMeshHigh" \notin viol
(* ---- C29: some handler of the peer keeps the connection alive iff the peer is in some mesh ---- *)
C29_HandlerView == \A p \in DOMAIN conns : conns[p] # {} =>
                      IF InAny(mesh, p) THEN conns[p] \cap keep # {} ELSE conns[p] \cap keep = {}
(* ---- C35 ---- *)
C35_FanoutKept == "C35_FanoutPeerDropped" \notin viol
(* ---- C36 ---- *)
C36_TrackedAllowed == \A p \in DOMAIN trk : trk[p] \subseteq Allowed
C36_TrackedCount == \A p \in DOMAIN trk : Cardinality(trk[p]) <= cfg.maxsubs
C36_OverlongRejected == "C36_OverlongRequestAccepted" \notin viol
C36_AllOrNothing == "C36_RequestPartiallyApplied" \notin viol
C36_OnlyRequested == "C36_UnrequestedChange" \notin viol
(* ---- C32 at router level ---- *)
C32_StillBackedOff == "C32_BackoffForgotten" \notin viol
C32_GraftInBackoffPenalised == "C32_GraftInBackoffNotPenalised" \notin viol
====
