INIT Init
NEXT Next
CONSTRAINT Progress
POSTCONDITION Accepted
