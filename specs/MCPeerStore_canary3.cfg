CONSTANTS
  Peers = {1, 2, 3}
  Addrs = {1, 2, 3}
  PeerCap = 2
  RecCap = 2
  MaxFailed = 2
  RemoveOnDialError = TRUE
  IgnoreForce = FALSE
  EntryOverflow = FALSE
  SilentAuto = TRUE
INIT Init
NEXT Next
INVARIANT Bounded NoDup PermanentKept EventsExact
