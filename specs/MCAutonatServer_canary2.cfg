CONSTANTS
  Peers = {1, 2, 3}
  PeerMax = 2
  GlobalMax = 4
  NoOngoingTest = FALSE
  ForgetOnFailure = TRUE
INIT Init
NEXT Next
INVARIANT OneDialBackPerPeer
INVARIANT PerPeerThrottle
INVARIANT GlobalThrottle
