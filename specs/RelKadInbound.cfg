INIT Init
NEXT Next
