CONSTANTS
  VerifySig = TRUE
  SamePrologue = FALSE
SPECIFICATION Spec
INVARIANT AuthOK PrologueOK Fresh FreshB
