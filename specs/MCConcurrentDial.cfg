CONSTANTS
  N = 4
  K = 2
  NoRefill = FALSE
INIT Init
NEXT Next
INVARIANT FactorRespected ErrorsExact FailureReportsAll SuccessIsReal WindowKeptFull
