CONSTANTS
  B = 3
  Local = 0
  Cap = 2
  Timeout = 1
  MaxTime = 1
  Bucket0Twice = FALSE
  ApplyEarly = TRUE
  ApplyConnected = FALSE
INIT Init
NEXT Next
INVARIANT Capacity
INVARIANT RightBucketUnique
INVARIANT LruOrder
INVARIANT ClosestOK
PROPERTY EvictionRule
