---- MODULE TraceCopy ----
(* C49 trace validation (property level).  Events of one run of the real CopyFuture between two
   scripted pipes; direction d in {0,1}; sequences index d+1.
     w(d,n)      a client wrote n bytes into direction d
     avail(d,n)  n of them became readable for the relay
     close(d)    the client closed its write side (EOF readable once everything is delivered)
     grant       write budget granted on the outgoing side (bookkeeping only)
     fault       an I/O fault was injected (after it, any error is legitimate)
     fw(d,n,bad) after a poll: n new bytes appeared at the far end of direction d; bad = index of the
                 first byte differing from the written stream at that offset (-1 = identical)
     eofout(d)   the far end of direction d saw the relay close the stream
     stall(open) the future returned Pending and nothing will wake it; open[d] = outgoing side of d
                 still accepts bytes
     expired     the real Delay of max_circuit_duration has fired (woken)
     done(res)   the future completed: ok | err | timeout
   The guards are the statement of C49: exact prefix per direction (no byte before it was available, none
   altered, in order), never more than max + 2 read buffers forwarded, no stall while above max,
   nothing held back at a stall, EOF forwarded only after all bytes, Ok only when everything was
   forwarded within the limit, Err only above the limit (or after an injected fault), timeout not
   before the duration, and no stall after the duration passed. *)
EXTENDS TraceIO, Integers
VARIABLES l, sent, avail, fwd, cin, cout, max, buf, dur, state, faulted, expired
vars == <<l, sent, avail, fwd, cin, cout, max, buf, dur, state, faulted, expired>>
Z == <<0, 0>>
F == <<FALSE, FALSE>>
Init == /\ l = 1 /\ sent = Z /\ avail = Z /\ fwd = Z /\ cin = F /\ cout = F /\ max = 0 /\ buf = 0 /\ dur = 0
        /\ state = "run" /\ faulted = FALSE /\ expired = FALSE /\ InitReg
R == Rec[l]
Total(f) == f[1] + f[2]
Reset == /\ R.e = "reset" /\ sent' = Z /\ avail' = Z /\ fwd' = Z /\ cin' = F /\ cout' = F
         /\ max' = R.max /\ buf' = R.buf /\ dur' = R.dur /\ state' = "run" /\ faulted' = FALSE /\ expired' = FALSE
Write == /\ R.e = "w" /\ state = "run" /\ ~cin[R.d + 1] /\ sent' = [sent EXCEPT ![R.d + 1] = @ + R.n]
         /\ UNCHANGED <<avail, fwd, cin, cout, max, buf, dur, state, faulted, expired>>
Avail == /\ R.e = "avail" /\ state = "run" /\ avail[R.d + 1] + R.n <= sent[R.d + 1]
         /\ avail' = [avail EXCEPT ![R.d + 1] = @ + R.n]
         /\ UNCHANGED <<sent, fwd, cin, cout, max, buf, dur, state, faulted, expired>>
Close == /\ R.e = "close" /\ cin' = [cin EXCEPT ![R.d + 1] = TRUE]
         /\ UNCHANGED <<sent, avail, fwd, cout, max, buf, dur, state, faulted, expired>>
Grant == /\ R.e = "grant" /\ UNCHANGED <<sent, avail, fwd, cin, cout, max, buf, dur, state, faulted, expired>>
Fault == /\ R.e = "fault" /\ faulted' = TRUE
         /\ UNCHANGED <<sent, avail, fwd, cin, cout, max, buf, dur, state, expired>>
Expired == /\ R.e = "expired" /\ expired' = R.woken
           /\ UNCHANGED <<sent, avail, fwd, cin, cout, max, buf, dur, state, faulted>>
Fw == /\ R.e = "fw" /\ state = "run" /\ R.n > 0
      /\ R.bad = -1                                              \* unaltered, in order
      /\ ~cout[R.d + 1]                                          \* nothing after EOF
      /\ fwd[R.d + 1] + R.n <= avail[R.d + 1]                    \* only bytes the relay could have read
      /\ fwd' = [fwd EXCEPT ![R.d + 1] = @ + R.n]
      /\ (max > 0 => Total(fwd') <= max + 2 * buf)               \* limit + one read buffer per direction
      /\ UNCHANGED <<sent, avail, cin, cout, max, buf, dur, state, faulted, expired>>
EofOut == /\ R.e = "eofout" /\ state = "run"
          /\ cin[R.d + 1] /\ fwd[R.d + 1] = sent[R.d + 1]        \* EOF never overtakes data
          /\ cout' = [cout EXCEPT ![R.d + 1] = TRUE]
          /\ UNCHANGED <<sent, avail, fwd, cin, max, buf, dur, state, faulted, expired>>
Stall == /\ R.e = "stall" /\ state = "run"
         /\ ~expired                                             \* duration passed => must have ended
         /\ (max > 0 => Total(fwd) <= max)                       \* above the limit => must have ended
         /\ (~faulted => \A i \in 1..2 : R.open[i] =>
               /\ fwd[i] = avail[i]                              \* nothing held back
               /\ (cin[i] /\ avail[i] = sent[i] => cout[i])) = TRUE   \* EOF forwarded
         /\ UNCHANGED <<sent, avail, fwd, cin, cout, max, buf, dur, state, faulted, expired>>
Done == /\ R.e = "done" /\ state = "run" /\ state' = "done"
        /\ CASE R.res = "ok" -> /\ \A i \in 1..2 : cin[i] /\ fwd[i] = sent[i]
                                /\ (max > 0 => Total(fwd) <= max)
             [] R.res = "err" -> (~faulted => (max > 0 /\ Total(fwd) > max)) = TRUE
             [] R.res = "timeout" -> R.elapsed >= dur
             [] OTHER -> FALSE
        /\ UNCHANGED <<sent, avail, fwd, cin, cout, max, buf, dur, faulted, expired>>
Next == l <= NRec /\ l' = l + 1 /\ (Reset \/ Write \/ Avail \/ Close \/ Grant \/ Fault \/ Expired \/ Fw \/ EofOut \/ Stall \/ Done)
Spec == Init /\ [][Next]_vars
Progress == Mark(l)
====
