CONSTANTS
  Lens = {0, 1, 2, 3, 4, 5}
  MaxFrames = 3
  Limit = 3
  Wide = 2
  MaxHdr = 2
  Variant = "gs"
INIT Init
NEXT Next
INVARIANTS OutIsPrefix BufIsTail AcceptGood NoSpuriousError RejectOversize BoundedBuffer ErrIsFirstBad AllDelivered
