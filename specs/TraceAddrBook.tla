---- MODULE TraceAddrBook ----
(* C12: listen / external address views equal the fold of their events.
   Swarm part : sw{newListenAddr, expiredListenAddr, listenerClosed{addrs}}, cbExternalAddrConfirmed/Expired, view{listeners, external}
   Helper part: ext{confirm|expire} (ExternalAddresses: most recent first, capacity 20), lst{new|expired} (ListenAddresses),
                pa{add|fail|get} (PeerAddresses: LRU of peers (capacity pcap) of LRUs of addresses (capacity 10), /p2p normalisation);
                every `changed` return value must say exactly whether the contents changed. *)
EXTENDS TraceIO, FiniteSets, Integers
VARIABLES l, lset, extS, ext, lst, pa, pcap
vars == <<l, lset, extS, ext, lst, pa, pcap>>
R == Rec[l]
L == 1..6
SeqToSet(s) == {s[i] : i \in 1..Len(s)}
Without(s, x) == SelectSeq(s, LAMBDA y : y # x)
Take(s, n) == IF Len(s) <= n THEN s ELSE SubSeq(s, 1, n)
DropOldest(s, cap) == IF Len(s) > cap THEN SubSeq(s, Len(s) - cap + 1, Len(s)) ELSE s
Init == l = 1 /\ InitReg /\ lset = [i \in L |-> {}] /\ extS = {} /\ ext = <<>> /\ lst = {} /\ pa = <<>> /\ pcap = 1
Reset == /\ R.e = "reset" /\ lset' = [i \in L |-> {}] /\ extS' = {} /\ ext' = <<>> /\ lst' = {} /\ pa' = <<>>
         /\ pcap' = IF Has(R, "pcap") THEN R.pcap ELSE 1
(* ---------------- Swarm ---------------- *)
InitL == R.e = "initListener" /\ lset' = [lset EXCEPT ![R.l] = {R.addr}] /\ UNCHANGED <<extS, ext, lst, pa, pcap>>
ListenOn == R.e = "listenOn" /\ lset' = [lset EXCEPT ![R.l] = {}] /\ UNCHANGED <<extS, ext, lst, pa, pcap>>
SwListen == /\ R.e = "sw" /\ R.kind \in {"newListenAddr", "expiredListenAddr", "listenerClosed"}
            /\ IF R.kind = "newListenAddr" THEN lset' = [lset EXCEPT ![R.l] = @ \cup {R.a}]
               ELSE IF R.kind = "expiredListenAddr" THEN lset' = [lset EXCEPT ![R.l] = @ \ {R.a}]
               ELSE /\ SeqToSet(R.addrs) = lset[R.l] /\ Len(R.addrs) = Cardinality(lset[R.l])    \* ListenerClosed carries exactly the remaining addresses
                    /\ lset' = [lset EXCEPT ![R.l] = {}]
            /\ UNCHANGED <<extS, ext, lst, pa, pcap>>
CbExt == /\ R.e \in {"cbExternalAddrConfirmed", "cbExternalAddrExpired"}
         /\ extS' = IF R.e = "cbExternalAddrConfirmed" THEN extS \cup {R.a} ELSE extS \ {R.a}
         /\ UNCHANGED <<lset, ext, lst, pa, pcap>>
View == /\ R.e = "view"
        /\ SeqToSet(R.external) = extS /\ Len(R.external) = Cardinality(extS)
        /\ (R.quiescent => SeqToSet(R.listeners) = UNION {lset[i] : i \in L})
        /\ UNCHANGED <<lset, extS, ext, lst, pa, pcap>>
SkipSw == /\ \/ R.e \in {"cbNewListenAddr", "cbExpiredListenAddr", "cbListenerClosed", "cbNewExternalAddrCandidate", "removeListener"}
             \/ (R.e = "sw" /\ R.kind \in {"externalAddrConfirmed", "externalAddrExpired"})
          /\ UNCHANGED <<lset, extS, ext, lst, pa, pcap>>
(* ---------------- helpers ---------------- *)
ExtEv == /\ R.e = "ext"
         /\ LET present == R.a \in SeqToSet(ext)
                nl == IF R.op = "confirm" THEN Take(<<R.a>> \o Without(ext, R.a), 20) ELSE Without(ext, R.a)
                ch == IF R.op = "confirm" THEN ~present ELSE present IN
            /\ R.changed = ch /\ R.list = nl /\ ext' = nl
         /\ UNCHANGED <<lset, extS, lst, pa, pcap>>
LstEv == /\ R.e = "lst"
         /\ LET ns == IF R.op = "new" THEN lst \cup {R.a} ELSE lst \ {R.a} IN
            /\ R.changed = (ns # lst) /\ SeqToSet(R.set) = ns /\ Len(R.set) = Cardinality(ns) /\ lst' = ns
         /\ UNCHANGED <<lset, extS, ext, pa, pcap>>
HasPeer(s, p) == \E i \in 1..Len(s) : s[i].p = p
Entry(s, p) == s[CHOOSE i \in 1..Len(s) : s[i].p = p]
Refresh(s, p) == IF HasPeer(s, p) THEN Append(SelectSeq(s, LAMBDA e : e.p # p), Entry(s, p)) ELSE s   \* get / get_mut mark most recently used
SetAddrs(s, p, as) == [i \in 1..Len(s) |-> IF s[i].p = p THEN [p |-> p, as |-> as] ELSE s[i]]
RECURSIVE RemoveAll(_, _)
RemoveAll(as, rm) == IF rm = <<>> THEN as ELSE RemoveAll(Without(as, Head(rm)), Tail(rm))
PaEv ==
  /\ R.e = "pa"
  /\ IF R.op = "add" THEN
        IF R.form = 2 THEN R.changed = FALSE /\ UNCHANGED pa                                   \* address names another peer: refused
        ELSE IF HasPeer(pa, R.p)
             THEN LET s1 == Refresh(pa, R.p)
                      as == Entry(s1, R.p).as
                      present == R.a \in SeqToSet(as)
                      nas == DropOldest(Append(Without(as, R.a), R.a), 10) IN
                  R.changed = ~present /\ pa' = SetAddrs(s1, R.p, nas)
             ELSE R.changed = TRUE /\ pa' = DropOldest(Append(pa, [p |-> R.p, as |-> <<R.a>>]), pcap)
     ELSE IF R.op = "fail" THEN
        IF HasPeer(pa, R.p)
        THEN LET s1 == Refresh(pa, R.p)
                 as == Entry(s1, R.p).as
                 nas == RemoveAll(as, R.as) IN
             R.changed = (nas # as) /\ pa' = SetAddrs(s1, R.p, nas)                            \* changed exactly when something was removed
        ELSE R.changed = FALSE /\ UNCHANGED pa
     ELSE \* get
        /\ R.all_p2p
        /\ IF HasPeer(pa, R.p)
           THEN SeqToSet(R.set) = SeqToSet(Entry(pa, R.p).as) /\ R.n = Len(Entry(pa, R.p).as) /\ pa' = Refresh(pa, R.p)
           ELSE R.n = 0 /\ UNCHANGED pa
  /\ UNCHANGED <<lset, extS, ext, lst, pcap>>
Next == l <= NRec /\ l' = l + 1 /\ (Reset \/ InitL \/ ListenOn \/ SwListen \/ CbExt \/ View \/ SkipSw \/ ExtEv \/ LstEv \/ PaEv)
Progress == Mark(l)
====
