---- MODULE TraceReqResp ----
(* C45 trace validation (property level).  Rebuilt from the events:
     sent      = outbound request ids returned by send_request        outc[id] = terminal events seen for id
     delivered = inbound request ids handed to the application        inc[iid] = ResponseSent / InboundFailure seen for iid
   Statement: ids are unique; never a second outcome for the same id; an outbound outcome only for an id that was
   sent; and when everything is quiescent (the driver has failed every pending dial and closed every connection:
   event end) every sent id and every delivered inbound request has exactly one outcome.
   Which kind of outcome a request gets is not constrained. *)
EXTENDS TraceIO, FiniteSets
VARIABLES l, sent, outc, delivered, inc
vars == <<l, sent, outc, delivered, inc>>
Init == l = 1 /\ sent = {} /\ outc = {} /\ delivered = {} /\ inc = {} /\ InitReg
R == Rec[l]
Reset == R.e = "reset" /\ sent' = {} /\ outc' = {} /\ delivered' = {} /\ inc' = {}
Send == /\ R.e = "send" /\ R.id \notin sent                 \* request ids are unique
        /\ sent' = sent \cup {R.id} /\ UNCHANGED <<outc, delivered, inc>>
Out == /\ R.e = "out" /\ R.id \in sent /\ R.id \notin outc   \* at most one Response / OutboundFailure per id
       /\ outc' = outc \cup {R.id} /\ UNCHANGED <<sent, delivered, inc>>
Req == /\ R.e = "req" /\ R.iid \notin delivered
       /\ delivered' = delivered \cup {R.iid} /\ UNCHANGED <<sent, outc, inc>>
In == /\ R.e = "in" /\ R.iid \notin inc                      \* at most one ResponseSent / InboundFailure per inbound id
      /\ inc' = inc \cup {R.iid} /\ UNCHANGED <<sent, outc, delivered>>
End == /\ R.e = "end"
       /\ sent \subseteq outc                                 \* exactly one at quiescence
       /\ delivered \subseteq inc
       /\ UNCHANGED <<sent, outc, delivered, inc>>
Other == /\ R.e \in {"conn", "close", "closing", "dialing", "dial_skipped", "dial_failed", "est_denied", "cmd_lost"}
         /\ UNCHANGED <<sent, outc, delivered, inc>>
Next == l <= NRec /\ l' = l + 1 /\ (Reset \/ Send \/ Out \/ Req \/ In \/ End \/ Other)
Spec == Init /\ [][Next]_vars
Progress == Mark(l)
====
