INIT Init
NEXT Next
