---- MODULE Dcutr ----
(* X04 component spec: the hole-punch attempt state machine of libp2p-dcutr
   (protocols/dcutr/src/behaviour.rs, handler/relayed.rs, protocol/inbound.rs, protocol/outbound.rs; protocol:
   libp2p specs relay/DCUtR.md, referenced by the crate documentation).

   What a user of the component relies on (sources: DCUtR.md "The protocol", the crate CHANGELOG 0.11.0 "we now only
   emit a single event: whether the hole-punch was successful or not", doc comments of behaviour.rs):
     P1 DialOnlyAfterHandshake  the behaviour dials only as the consequence of a completed CONNECT/SYNC exchange on a
                                RELAYED connection: to that connection's peer, on the (non-relayed, parseable)
                                addresses the peer advertised, PeerCondition::Always.  Direct connections get a dummy
                                handler and never cause a dial.
     P2 Roles                   the listener of the relayed connection initiates (opens the stream, sends CONNECT, then
                                SYNC) and dials with the role override (it is the "listener" of the simultaneous
                                open); the dialer of the relayed connection answers and dials without override.
     P3 AttemptsBounded         DCUtR.md: "Inbound peers SHOULD retry twice (thus a total of 3 attempts) before
                                considering the upgrade as failed": per initiating relayed connection at most
                                MAX_NUMBER_OF_UPGRADE_ATTEMPTS dials; a failed dial is followed by a new Connect
                                command while fewer were made, by Err(AttemptsExceeded) after the last one.
     P4 EventsFaithful          Event Ok(id) exactly once for every connection the behaviour dialed that IS established
                                (id = that connection), never for another one; one Err per failed handshake; per
                                initiating relayed connection at most one final Event.
     P5 Candidates              (trace level) the CONNECT we send lists the external address candidates: non-relayed,
                                each ending with /p2p/<local>, at most 20, most recently reported first.
     P6 Bookkeeping             direct_connections = the established direct connections.
     H  Handshake order         (trace level) CONNECT answered by CONNECT then SYNC; a new inbound stream replaces the
                                unfinished one; every handshake is reported exactly once.

   Named deviations of the code from what one might expect (modelled as they are):
     UpgradeDespiteDirect       Establish(c) starts the upgrade although a direct connection to the peer exists (the
                                direct_connections table is not consulted; versions before 0.10 did).
     SilentResponderFailure     a failed dial on the answering side produces no Event (DialFailR).
     NoRetryOnStreamFailure     a failed outbound handshake is final: no retry (code comment "Maybe treat these as
                                transient and retry?").
   Canaries: RetryUnbounded (the attempts < MAX test dropped), EarlyOk (the code before the repair: Ok event and
   direct_connections entry in handle_established_outbound_connection, i.e. before a later behaviour may deny). *)
EXTENDS Naturals, FiniteSets, TLC
CONSTANTS InitC, RespC, Max, MaxDials, RetryUnbounded, EarlyOk
Conns == InitC \cup RespC
VARIABLES up, started, hs, att, dials, direct, okEv, errEv, nd
vars == <<up, started, hs, att, dials, direct, okEv, errEv, nd>>
(* dials: records [id, c, role, st]; st in pending / est (established) / failed / closed
   att[c]: the behaviour's outgoing_direct_connection_attempts entry (0 = no entry) *)
Start == /\ up = [c \in Conns |-> FALSE] /\ started = [c \in Conns |-> FALSE] /\ hs = [c \in Conns |-> "idle"]
         /\ att = [c \in Conns |-> 0] /\ dials = {} /\ direct = {} /\ nd = 0
         /\ okEv = [c \in Conns |-> 0] /\ errEv = [c \in Conns |-> 0]

Establish(c) == /\ ~started[c] /\ started' = [started EXCEPT ![c] = TRUE] /\ up' = [up EXCEPT ![c] = TRUE]
                /\ hs' = [hs EXCEPT ![c] = IF c \in InitC THEN "want" ELSE "idle"]      \* UpgradeDespiteDirect
                /\ UNCHANGED <<att, dials, direct, okEv, errEv, nd>>
Close(c) == /\ up[c] /\ up' = [up EXCEPT ![c] = FALSE] /\ hs' = [hs EXCEPT ![c] = "idle"]
            /\ UNCHANGED <<started, att, dials, direct, okEv, errEv, nd>>
(* initiating side: outbound stream, CONNECT -> CONNECT -> SYNC *)
OpenOk(c) == /\ up[c] /\ hs[c] = "want" /\ hs' = [hs EXCEPT ![c] = "shake"]
             /\ UNCHANGED <<up, started, att, dials, direct, okEv, errEv, nd>>
OutFail(c) == /\ up[c] /\ c \in InitC /\ hs[c] \in {"want", "shake"} /\ hs' = [hs EXCEPT ![c] = "idle"]
              /\ errEv' = [errEv EXCEPT ![c] = @ + 1]                                      \* NoRetryOnStreamFailure
              /\ UNCHANGED <<up, started, att, dials, direct, okEv, nd>>
NewDial(c, role) == /\ nd < MaxDials /\ nd' = nd + 1
                    /\ dials' = dials \cup {[id |-> nd + 1, c |-> c, role |-> role, st |-> "pending"]}
OutNegotiated(c) == /\ up[c] /\ c \in InitC /\ hs[c] = "shake" /\ hs' = [hs EXCEPT ![c] = "idle"]
                    /\ NewDial(c, "listener") /\ att' = [att EXCEPT ![c] = @ + 1]
                    /\ UNCHANGED <<up, started, direct, okEv, errEv>>
(* answering side: the remote opens a stream (replacing an unfinished one) *)
InStart(c) == /\ up[c] /\ c \in RespC /\ hs' = [hs EXCEPT ![c] = "shake"]
              /\ UNCHANGED <<up, started, att, dials, direct, okEv, errEv, nd>>
InFail(c) == /\ up[c] /\ c \in RespC /\ hs[c] = "shake" /\ hs' = [hs EXCEPT ![c] = "idle"]
             /\ errEv' = [errEv EXCEPT ![c] = IF @ < 2 THEN @ + 1 ELSE @]      \* (saturating: only counted for InitC)
             /\ UNCHANGED <<up, started, att, dials, direct, okEv, nd>>
InNegotiated(c) == /\ up[c] /\ c \in RespC /\ hs[c] = "shake" /\ hs' = [hs EXCEPT ![c] = "idle"]
                   /\ NewDial(c, "dialer") /\ UNCHANGED <<up, started, att, direct, okEv, errEv>>
(* the Swarm resolves a dial *)
Set(d, st) == (dials \ {d}) \cup {[d EXCEPT !.st = st]}
Succeed(d) == /\ okEv' = [okEv EXCEPT ![d.c] = @ + 1]
              /\ att' = IF d.role = "listener" THEN [att EXCEPT ![d.c] = 0] ELSE att
DialOk(d) == /\ d.st = "pending" /\ dials' = Set(d, "est") /\ direct' = direct \cup {d.id} /\ Succeed(d)
             /\ UNCHANGED <<up, started, hs, errEv, nd>>
Fail(d) == IF att[d.c] > 0
           THEN IF att[d.c] < Max \/ RetryUnbounded
                THEN /\ hs' = IF up[d.c] THEN [hs EXCEPT ![d.c] = "want"] ELSE hs     \* Connect command (dropped if closed)
                     /\ errEv' = errEv
                ELSE /\ hs' = hs /\ errEv' = [errEv EXCEPT ![d.c] = @ + 1]             \* AttemptsExceeded
           ELSE hs' = hs /\ errEv' = errEv                                              \* SilentResponderFailure
DialFailed(d) == /\ d.st = "pending" /\ dials' = Set(d, "failed") /\ Fail(d)
                 /\ UNCHANGED <<up, started, att, direct, okEv, nd>>
(* established at this behaviour, then denied by a behaviour composed after it: the Swarm reports a dial failure *)
DialDenied(d) == /\ d.st = "pending" /\ dials' = Set(d, "failed")
                 /\ IF EarlyOk THEN /\ direct' = direct \cup {d.id} /\ Succeed(d) /\ hs' = hs /\ errEv' = errEv
                    ELSE /\ Fail(d) /\ UNCHANGED <<att, direct, okEv>>
                 /\ UNCHANGED <<up, started, nd>>
CloseDirect(d) == /\ d.st = "est" /\ dials' = Set(d, "closed") /\ direct' = direct \ {d.id}
                  /\ UNCHANGED <<up, started, hs, att, okEv, errEv, nd>>
Next == \/ \E c \in Conns : Establish(c) \/ Close(c) \/ OpenOk(c) \/ OutFail(c) \/ OutNegotiated(c) \/ InStart(c)
                             \/ InFail(c) \/ InNegotiated(c)
        \/ \E d \in dials : DialOk(d) \/ DialFailed(d) \/ DialDenied(d) \/ CloseDirect(d)
Spec == Start /\ [][Next]_vars

DialsOf(c) == {d \in dials : d.c = c}
AttemptsBounded == \A c \in InitC : Cardinality(DialsOf(c)) <= Max                           \* P3
AtMostOneFinal == \A c \in InitC : okEv[c] + errEv[c] <= 1                                   \* P4
OkOnlyEstablished == \A c \in Conns : okEv[c] = Cardinality({d \in DialsOf(c) : d.st \in {"est", "closed"}})   \* P4
Bookkeeping == direct = {d.id : d \in {x \in dials : x.st = "est"}}                          \* P6
OnePendingPerInit == \A c \in InitC : Cardinality({d \in DialsOf(c) : d.st = "pending"}) <= 1
NoWorkAfterFinal == \A c \in InitC : okEv[c] + errEv[c] = 1 => hs[c] = "idle" /\ \A d \in DialsOf(c) : d.st # "pending"
RolesRight == \A d \in dials : (d.role = "listener") <=> (d.c \in InitC)                    \* P2
====
