---- MODULE OneShot ----
(* X03 (part 1): libp2p_swarm::handler::OneShotHandler  (/repo/swarm/src/handler/one_shot.rs).

   "A ConnectionHandler that opens a new substream for each request."  What a user of the handler relies on
   (doc comments of OneShotHandler / OneShotHandlerConfig / pending_requests):

   P1 OneSubstreamPerRequest  every request handed in with send_request / on_behaviour_event leads to exactly one
                              OutboundSubstreamRequest carrying exactly that upgrade, in FIFO order of the requests,
                              with the configured outbound_substream_timeout.
   P2 Bounded                 never more than max_dial_negotiated outbound substreams are being opened at a time
                              ("Maximum number of concurrent outbound substreams being opened").
   P3 ReportedExactlyOnce     every result handed back by the connection (FullyNegotiatedInbound / FullyNegotiatedOutbound /
                              DialUpgradeError) is reported to the behaviour exactly once (Ok(output) / Err(error)),
                              and nothing else is ever reported.
   P4 NoStall                 poll returns Pending only if nothing is due: no unreported result, and no queued request
                              that could be opened (queue empty or max_dial_negotiated substreams outstanding).
                              In particular a FAILED substream no longer counts as "being opened".
   P5 PendingCount            pending_requests() = queued requests + substreams currently being opened.
   P6 ListenProtocol          listen_protocol() is the configured inbound protocol and timeout, as last changed through
                              listen_protocol_mut; an idle handler does not keep the connection alive (trace spec only).

   The model transcribes the handler (dial_queue, dial_negotiated, events_out); `out` is the ground truth kept by the
   connection (the set of substream requests it is really working on).  DecOnError = FALSE is the code as found
   (DialUpgradeError does not decrement dial_negotiated): the canary. *)
EXTENDS Naturals, Sequences, FiniteSets
CONSTANTS MaxNeg, NReq, NIn, DecOnError
VARIABLES queue, neg, events, out, next, nin, issued, resolved, reported, stalled
vars == <<queue, neg, events, out, next, nin, issued, resolved, reported, stalled>>

Init == /\ queue = <<>> /\ neg = 0 /\ events = <<>> /\ out = {} /\ next = 1 /\ nin = 0
        /\ issued = <<>> /\ resolved = {} /\ reported = {} /\ stalled = FALSE

Send == /\ next <= NReq
        /\ queue' = Append(queue, next) /\ next' = next + 1
        /\ UNCHANGED <<neg, events, out, nin, issued, resolved, reported, stalled>>

(* one call of ConnectionHandler::poll *)
Poll == \/ /\ events # <<>>
           /\ reported' = reported \cup {Head(events)} /\ events' = Tail(events)
           /\ stalled' = FALSE
           /\ UNCHANGED <<queue, neg, out, next, nin, issued, resolved>>
        \/ /\ events = <<>> /\ queue # <<>> /\ neg < MaxNeg
           /\ neg' = neg + 1 /\ out' = out \cup {Head(queue)} /\ issued' = Append(issued, Head(queue))
           /\ queue' = Tail(queue) /\ stalled' = FALSE
           /\ UNCHANGED <<events, next, nin, resolved, reported>>
        \/ /\ events = <<>> /\ (queue = <<>> \/ neg >= MaxNeg)
           (* Pending.  It is a stall if a request could have been opened *)
           /\ stalled' = (queue # <<>> /\ Cardinality(out) < MaxNeg)
           /\ UNCHANGED <<queue, neg, events, out, next, nin, issued, resolved, reported>>

OutOk(r) == /\ r \in out
            /\ out' = out \ {r} /\ neg' = neg - 1
            /\ events' = Append(events, [k |-> "ok", r |-> r]) /\ resolved' = resolved \cup {[k |-> "ok", r |-> r]}
            /\ UNCHANGED <<queue, next, nin, issued, reported, stalled>>

OutErr(r) == /\ r \in out
             /\ out' = out \ {r} /\ neg' = IF DecOnError THEN neg - 1 ELSE neg
             /\ events' = Append(events, [k |-> "err", r |-> r]) /\ resolved' = resolved \cup {[k |-> "err", r |-> r]}
             /\ UNCHANGED <<queue, next, nin, issued, reported, stalled>>

InOk == /\ nin < NIn /\ nin' = nin + 1
        /\ events' = Append(events, [k |-> "in", r |-> nin + 1]) /\ resolved' = resolved \cup {[k |-> "in", r |-> nin + 1]}
        /\ UNCHANGED <<queue, neg, out, next, issued, reported, stalled>>

Next == Send \/ Poll \/ InOk \/ \E r \in out : OutOk(r) \/ OutErr(r)
Spec == Init /\ [][Next]_vars

InEvents(x) == \E i \in 1..Len(events) : events[i] = x
CountIn(x) == Cardinality({i \in 1..Len(events) : events[i] = x})

TypeOK == neg \in 0..(NReq + 1) /\ out \subseteq 1..NReq
OneSubstreamPerRequest == /\ \A i \in 1..Len(issued) : issued[i] = i          \* FIFO, no duplicates, nothing invented
                          /\ Len(issued) + Len(queue) = next - 1               \* nothing lost
Bounded == Cardinality(out) <= MaxNeg
CounterExact == neg = Cardinality(out)
ReportedExactlyOnce == /\ reported \subseteq resolved
                       /\ \A x \in resolved : (IF x \in reported THEN 1 ELSE 0) + CountIn(x) = 1
NoStall == ~stalled
PendingCount == neg + Len(queue) = Cardinality(out) + Len(queue)
====
