CONSTANTS NP = 2 NT = 2 MaxL = 2 MaxD = 2 GuardRemove = TRUE DropFrees = FALSE
INIT Init
NEXT Next
INVARIANTS NoLeak
