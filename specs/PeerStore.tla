---- MODULE PeerStore ----
(* C54.  misc/peer-store/src/memory_store.rs transcribed: MemoryStore = LRU cache of peer records, each record an
   LRU cache of (address, permanent) entries (hashlink semantics: sequences, head = least recently used;
   get/get_mut promote, peek does not, insert replaces+promotes and evicts the head when over capacity,
   entry() may exceed the capacity by one).  One action per public call / swarm event; each action records in
   `evq` the events it pushed and in `mon` what it really did, so the properties are step properties:
     PermanentKept    the dial-failure paths never remove an address whose entry is permanent
     Bounded          every record holds <= RecCap addresses, the store <= PeerCap peers
     EventsExact      events of a step = its additions (flag = permanence of the call) and its explicit or
                      automatic removals; capacity evictions are silent
   Canaries: IgnoreForce (remove_address ignores `force`), EntryOverflow (records.entry() path of the code before
   the C54 repair: capacity exceeded by one), SilentAuto (automatic removal without event). *)
EXTENDS Naturals, Sequences, FiniteSets, TLC
CONSTANTS Peers, Addrs, PeerCap, RecCap, MaxFailed, RemoveOnDialError, IgnoreForce, EntryOverflow, SilentAuto
VARIABLES recs,   \* sequence of [p, as]; as = sequence of [a, perm]
          evq,    \* events pushed by the last step: sequence of [k, p, a, perm]
          mon     \* what the last step did: [added : set of <<p, a, perm>>, removed : set of <<p, a, wasPerm, auto>>]
vars == <<recs, evq, mon>>

Idx(seq, P(_)) == {i \in 1..Len(seq) : P(seq[i])}
Without(seq, i) == [j \in 1..(Len(seq) - 1) |-> IF j < i THEN seq[j] ELSE seq[j + 1]]
ToBack(seq, i) == Append(Without(seq, i), seq[i])
PIdx(rs, p) == Idx(rs, LAMBDA r : r.p = p)
AIdx(as, a) == Idx(as, LAMBDA e : e.a = a)
One(S) == CHOOSE x \in S : TRUE
(* LruCache::insert *)
LruInsert(seq, i, v, cap) == LET s1 == IF i = 0 THEN Append(seq, v) ELSE Append(Without(seq, i), v) IN
                             IF Len(s1) > cap THEN Tail(s1) ELSE s1

Init == recs = <<>> /\ evq = <<>> /\ mon = [added |-> {}, removed |-> {}]

(* PeerRecord::add_address -> [as, new] *)
RecAdd(as, a, perm) ==
  IF AIdx(as, a) # {} THEN
    LET i == One(AIdx(as, a)) promoted == ToBack(as, i) IN          \* addresses.get(): promote
    IF ~as[i].perm /\ perm THEN [as |-> LruInsert(promoted, Len(promoted), [a |-> a, perm |-> TRUE], RecCap), new |-> FALSE]
    ELSE [as |-> promoted, new |-> FALSE]
  ELSE [as |-> LruInsert(as, 0, [a |-> a, perm |-> perm], RecCap), new |-> TRUE]
(* PeerRecord::remove_address -> [as, removed, wasPerm] *)
RecRemove(as, a, force) ==
  IF AIdx(as, a) = {} THEN [as |-> as, removed |-> FALSE, wasPerm |-> FALSE]
  ELSE LET i == One(AIdx(as, a)) IN
       IF ~force /\ ~IgnoreForce /\ as[i].perm THEN [as |-> as, removed |-> FALSE, wasPerm |-> TRUE]
       ELSE [as |-> Without(as, i), removed |-> TRUE, wasPerm |-> as[i].perm]

(* add_address_inner on store state x = [recs, evq, mon] *)
AddInner(x, p, a, perm) ==
  LET rs0 == x.recs
      \* records.entry(p): evict the head only when ALREADY over capacity; does not promote
      rs1 == IF PIdx(rs0, p) # {} THEN rs0
             ELSE IF EntryOverflow THEN Append(IF Len(rs0) > PeerCap THEN Tail(rs0) ELSE rs0, [p |-> p, as |-> <<>>])
             ELSE LruInsert(rs0, 0, [p |-> p, as |-> <<>>], PeerCap)
      i == One(PIdx(rs1, p))
      r == RecAdd(rs1[i].as, a, perm)
      rs2 == [rs1 EXCEPT ![i].as = r.as]
  IN [recs |-> rs2,
      evq |-> IF r.new THEN Append(x.evq, [k |-> "added", p |-> p, a |-> a, perm |-> perm]) ELSE x.evq,
      mon |-> IF r.new THEN [x.mon EXCEPT !.added = @ \cup {<<p, a, perm>>}] ELSE x.mon]
(* remove_address_inner *)
RemoveInner(x, p, a, force) ==
  IF PIdx(x.recs, p) = {} THEN [x |-> x, removed |-> FALSE]
  ELSE LET rs1 == ToBack(x.recs, One(PIdx(x.recs, p)))                \* records.get_mut(): promote
           i == Len(rs1)
           r == RecRemove(rs1[i].as, a, force)
       IN IF ~r.removed THEN [x |-> [x EXCEPT !.recs = rs1], removed |-> FALSE]
          ELSE [x |-> [recs |-> IF r.as = <<>> THEN Without(rs1, i) ELSE [rs1 EXCEPT ![i].as = r.as],
                       evq |-> IF SilentAuto /\ ~force THEN x.evq ELSE Append(x.evq, [k |-> "removed", p |-> p, a |-> a, perm |-> FALSE]),
                       mon |-> [x.mon EXCEPT !.removed = @ \cup {<<p, a, r.wasPerm, ~force>>}]],
                removed |-> TRUE]

X0 == [recs |-> recs, evq |-> <<>>, mon |-> [added |-> {}, removed |-> {}]]
Set(x) == recs' = x.recs /\ evq' = x.evq /\ mon' = x.mon

AddAddress(p, a) == Set(AddInner(X0, p, a, TRUE))
RemoveAddress(p, a) == Set(RemoveInner(X0, p, a, TRUE).x)
NewExternalAddr(p, a) == Set(AddInner(X0, p, a, FALSE))
RECURSIVE RemoveAll(_, _, _)
RemoveAll(x, p, as) == IF as = <<>> THEN x ELSE RemoveAll(RemoveInner(x, p, Head(as), FALSE).x, p, Tail(as))
(* ConnectionEstablished as dialer: failed addresses (a sequence of distinct addresses), remote address *)
ConnEstablished(p, failed, a) ==
  Set(AddInner(IF RemoveOnDialError THEN RemoveAll(X0, p, failed) ELSE X0, p, a, FALSE))
DialFailTransport(p, failed) == Set(IF RemoveOnDialError THEN RemoveAll(X0, p, failed) ELSE X0)
DialFailWrongPeer(p, q, a) ==
  IF ~RemoveOnDialError THEN Set(X0)
  ELSE LET r == RemoveInner(X0, p, a, FALSE) IN Set(IF r.removed THEN AddInner(r.x, q, a, FALSE) ELSE r.x)

SeqsOf(S) == {<<>>} \cup {<<x>> : x \in S} \cup (IF MaxFailed < 2 THEN {} ELSE {<<z[1], z[2]>> : z \in {z \in S \X S : z[1] # z[2]}})
(* one schedule letter = [op, p, q, a, f] (unused fields: q = p, a = first address, f = <<>>) *)
A0 == CHOOSE a \in Addrs : TRUE
Letters == [op : {"add", "remove", "ext"}, p : Peers, q : Peers, a : Addrs, f : {<<>>}]
           \cup [op : {"conn"}, p : Peers, q : Peers, a : Addrs, f : SeqsOf(Addrs)]
           \cup [op : {"dft"}, p : Peers, q : Peers, a : {A0}, f : SeqsOf(Addrs)]
           \cup [op : {"dfw"}, p : Peers, q : Peers, a : Addrs, f : {<<>>}]
Do(x) == CASE x.op = "add" -> x.q = x.p /\ AddAddress(x.p, x.a)
           [] x.op = "remove" -> x.q = x.p /\ RemoveAddress(x.p, x.a)
           [] x.op = "ext" -> x.q = x.p /\ NewExternalAddr(x.p, x.a)
           [] x.op = "conn" -> x.q = x.p /\ ConnEstablished(x.p, x.f, x.a)
           [] x.op = "dft" -> x.q = x.p /\ DialFailTransport(x.p, x.f)
           [] x.op = "dfw" -> x.q # x.p /\ DialFailWrongPeer(x.p, x.q, x.a)
Next == \E x \in Letters : Do(x)
Spec == Init /\ [][Next]_vars

Bounded == Len(recs) <= PeerCap /\ \A i \in 1..Len(recs) : Len(recs[i].as) <= RecCap /\ Len(recs[i].as) > 0
NoDup == /\ \A i, j \in 1..Len(recs) : recs[i].p = recs[j].p => i = j
         /\ \A i \in 1..Len(recs) : \A j, k \in 1..Len(recs[i].as) : recs[i].as[j].a = recs[i].as[k].a => j = k
PermanentKept == \A r \in mon.removed : r[4] => ~r[3]
EventsExact ==
  /\ Len(evq) = Cardinality(mon.added) + Cardinality(mon.removed)
  /\ \A x \in mon.added : \E i \in 1..Len(evq) : evq[i] = [k |-> "added", p |-> x[1], a |-> x[2], perm |-> x[3]]
  /\ \A x \in mon.removed : \E i \in 1..Len(evq) : evq[i].k = "removed" /\ evq[i].p = x[1] /\ evq[i].a = x[2]
====
