---- MODULE RelAddrTranslate ----
(* C13: observed-address translation only swaps the host component.  Relation over abstract
   multiaddrs = sequences of <<kind, value>>.  Every record (orig, obs, some, out) produced by the
   real `_address_translation` must satisfy Post. *)
EXTENDS TraceIO
VARIABLE x
Host == {"ip4", "ip6", "dns", "dns4", "dns6"}
IsHost(c) == c[1] \in Host
Expected(orig, obs) ==
  IF Len(orig) > 0 /\ IsHost(orig[1]) /\ Len(obs) > 0 /\ IsHost(obs[1])
  THEN [some |-> TRUE, out |-> <<obs[1]>> \o Tail(orig)]
  ELSE [some |-> FALSE, out |-> <<>>]
Post(r) == ~Has(r, "panic") /\ r.some = Expected(r.orig, r.obs).some /\ r.out = Expected(r.orig, r.obs).out
ASSUME PrintT(<<"CHECKED", ToJson([n |-> NRec])>>)
ASSUME \A i \in 1..NRec : Post(Rec[i]) \/ PrintT(<<"BAD", ToJson([line |-> i, why |-> "Post (host swap only)"])>>)
Init == x = 0
Next == FALSE /\ x' = x
====
