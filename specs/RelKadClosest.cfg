INIT Init
NEXT Next
