CONSTANTS
  Peers = {1, 2, 3}
  MaxRes = 3
  MaxResPerPeer = 1
  MaxCirc = 2
  MaxCircPerPeer = 1
  MaxN = 3
  OffByOne = FALSE
  NoDstCheck = TRUE
INIT Init
NEXT Next
INVARIANT ResLimits
INVARIANT CircLimits
INVARIANT HeldIsCounted
INVARIANT CircuitsOnOpenConns
