---- MODULE RelConnId ----
(* C03: connection ids are never reused. One record per allocating thread: [t, kind, vs] where vs is the
   sequence of ids that thread obtained, in its own program order. All ids over all threads must be
   distinct and each thread's sequence strictly increasing (the counter only moves forward). *)
EXTENDS TraceIO, FiniteSets, Integers
VARIABLE x
SeqToSet(s) == {s[i] : i \in 1..Len(s)}
Increasing(s) == \A i \in 1..(Len(s) - 1) : s[i] < s[i + 1]
All == UNION {SeqToSet(Rec[i].vs) : i \in 1..NRec}
RECURSIVE Total(_)
Total(i) == IF i = 0 THEN 0 ELSE Len(Rec[i].vs) + Total(i - 1)
ASSUME PrintT(<<"CHECKED", ToJson([n |-> NRec])>>)
ASSUME \A i \in 1..NRec : Increasing(Rec[i].vs) \/ PrintT(<<"BAD", ToJson([line |-> i, why |-> "ids of one thread not strictly increasing"])>>)
ASSUME Cardinality(All) = Total(NRec) \/ PrintT(<<"BAD", ToJson([line |-> 1, why |-> "the same connection id was handed out twice"])>>)
Init == x = 0
Next == FALSE /\ x' = x
====
