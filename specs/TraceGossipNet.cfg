INIT Init
NEXT Next
INVARIANT DeliveredOnce
INVARIANT NotToPublisher
INVARIANT NoCopyToSource
INVARIANT NoCopyBack
INVARIANT EveryoneGotIt
CONSTRAINT Progress
POSTCONDITION Accepted
