---- MODULE GsConfig ----
(* C34: gossipsub ConfigBuilder as a state machine of setter calls followed by build().
   Builder state = default mesh parameter set, one optional per-topic parameter set (a
   `*_for_topic` setter on an absent entry creates it from TopicMeshConfig::default() = DefQuad),
   optional per-topic transmit size (0 = absent), default transmit size, history length/gossip.
   build() validates (Variant):
     "today"  CANARY = DESIGN 7-8: only topics that ALSO have a per-topic transmit size are
              validated (transmit size and mesh inequalities); defaults never.
     "impl"   after the repair: default set fully; default transmit size; ordering
              low <= n <= high of EVERY per-topic set; the outbound inequalities of a per-topic
              set still only when the topic also has a transmit size (an upstream unit test
              builds such a config - residual finding).
     "full"   what the statement demands.
   A quad is <<outbound_min, n_low, n, n_high>>.                                              *)
EXTENDS Naturals, FiniteSets, TLC
CONSTANTS Vals,       \* values a mesh parameter setter is called with
          DefQuad,    \* abstract TopicMeshConfig::default()
          TxVals,     \* transmit sizes a setter is called with
          HVals,      \* history_length / history_gossip values
          WithSetTopic, \* BOOLEAN: include set_topic_config(q) as an action
          MaxPeers,   \* mesh sizes the heartbeat arithmetic is evaluated for
          Variant
VARIABLES dflt, topic, ttx, dtx, hist, gossip, built
vars == <<dflt, topic, ttx, dtx, hist, gossip, built>>
None == <<>>
Quads == Vals \X Vals \X Vals \X Vals

Order(q) == q[2] <= q[3] /\ q[3] <= q[4]                         \* n_low <= n <= n_high
MeshOK(q) == q[1] <= q[2] /\ Order(q) /\ 2 * q[1] <= q[3]
Eff == IF topic = None THEN dflt ELSE topic                      \* what `*_for_topic(t)` getters return

Init == /\ dflt = DefQuad /\ topic = None /\ ttx = 0 /\ dtx = 100 /\ hist = 1 /\ gossip = 1 /\ built = "no"
SetD(i, v) == dflt' = [dflt EXCEPT ![i] = v] /\ UNCHANGED <<topic, ttx, dtx, hist, gossip>>
Eff2 == IF topic = None THEN DefQuad ELSE topic                  \* entry().or_insert_with(default)
SetT(i, v) == topic' = [Eff2 EXCEPT ![i] = v] /\ UNCHANGED <<dflt, ttx, dtx, hist, gossip>>
SetTopicConfig(q) == topic' = q /\ UNCHANGED <<dflt, ttx, dtx, hist, gossip>>
SetTtx(v) == ttx' = v /\ UNCHANGED <<dflt, topic, dtx, hist, gossip>>
SetDtx(v) == dtx' = v /\ UNCHANGED <<dflt, topic, ttx, hist, gossip>>
SetHist(v) == hist' = v /\ UNCHANGED <<dflt, topic, ttx, dtx, gossip>>
SetGossip(v) == gossip' = v /\ UNCHANGED <<dflt, topic, ttx, dtx, hist>>
Setter == \/ \E i \in 1..4, v \in Vals : SetD(i, v) \/ SetT(i, v)
          \/ (WithSetTopic /\ \E q \in Quads : SetTopicConfig(q))   \* (same states as four SetT calls; only more transitions)
          \/ \E v \in TxVals : SetTtx(v) \/ SetDtx(v)
          \/ \E v \in HVals : SetHist(v) \/ SetGossip(v)

TxTopicOK == ttx # 0 => (ttx >= 100 /\ MeshOK(Eff))              \* the loop over max_transmit_sizes.keys()
Accepts == CASE Variant = "today" -> TxTopicOK /\ gossip <= hist
             [] Variant = "impl" -> /\ TxTopicOK /\ gossip <= hist
                                    /\ MeshOK(dflt) /\ dtx >= 100
                                    /\ (topic # None => Order(topic))
             [] Variant = "full" -> /\ gossip <= hist /\ MeshOK(dflt) /\ dtx >= 100
                                    /\ (topic # None => MeshOK(topic)) /\ (ttx # 0 => ttx >= 100)
Build == built' = (IF Accepts THEN "ok" ELSE "err") /\ UNCHANGED <<dflt, topic, ttx, dtx, hist, gossip>>
Next == (Setter /\ built' = "no") \/ Build
Spec == Init /\ [][Next]_vars

(* ---- the statement ---- *)
ValidCfg == /\ MeshOK(dflt) /\ (topic # None => MeshOK(topic))
            /\ gossip <= hist /\ dtx >= 100 /\ (ttx # 0 => ttx >= 100)
AcceptedValid == built = "ok" => ValidCfg
(* the parts of it the repaired build() guarantees *)
AcceptedDefaultsValid == built = "ok" => (MeshOK(dflt) /\ gossip <= hist /\ dtx >= 100 /\ (ttx # 0 => ttx >= 100))
AcceptedOrdered == built = "ok" => (Order(dflt) /\ Order(Eff))
(* "consequently the heartbeat never panics": its usize subtractions, for every mesh size *)
NoUnderflow(q, len) == /\ (len < q[2] => q[3] >= len)            \* desired_peers = mesh_n - peers.len()   (behaviour.rs, "too little peers")
                       /\ (len >= q[4] => len >= q[3])           \* excess_peer_no = peers.len() - mesh_n  ("too many peers")
HeartbeatSafe == built = "ok" => \A len \in 0..MaxPeers : NoUnderflow(dflt, len) /\ NoUnderflow(Eff, len)
NotVacuous == built # "ok"      \* must be VIOLATED: some config is accepted (checked through a canary-style cfg)
====
