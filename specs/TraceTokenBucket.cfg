INIT Init
NEXT Next
INVARIANT WindowLaw
CONSTRAINT Progress
POSTCONDITION Accepted
