CONSTANTS
  MaxMs = 3000
  StepMs = 250
  OrMinMerge = FALSE
  FloorTtl = TRUE
INIT Init
NEXT Next
INVARIANT MergeOK
INVARIANT WireOK
INVARIANT RoundTripOK
