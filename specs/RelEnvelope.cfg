INIT Init
NEXT Next
