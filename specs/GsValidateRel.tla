---- MODULE GsValidateRel ----
(* C30: the statement as a relation over ABSTRACT messages (shared by the model GsValidate and by
   the relation check RelGsValidate).  An abstract message m has
     mode   "Strict" | "Permissive" | "Anonymous" | "None"
     from   "absent" | "empty" | "garbage" | "A" | "B"      (A, B = peer ids of two key pairs of one key type)
     seqno  "absent" | "empty" | "4" | "8"                  (length in bytes)
     sigby  "absent" | "garbage" | "empty" | "A" | "B"      (whose key produced the signature field; "empty" = the
                                                             field is present with zero bytes: still a present signature)
     key    "absent" | "garbage" | "A" | "B"                (the explicit public key field)
     mut    "none" | "from_swap" | "data_flip" | "data_drop" | "seqno_flip" | "seqno_drop" |
            "topic_change" | "sig_flip"
            (the signature was computed over from/data/seqno/topic BEFORE this mutation; the other
             components describe the message as sent, i.e. after it) *)
EXTENDS Naturals, TLC
IsPeer(f) == f \in {"A", "B"}
(* a signature by the source's key over exactly the message's from/data/seqno/topic fields *)
SignedBySource(m) == IsPeer(m.from) /\ m.sigby = m.from /\ m.mut = "none"
StrictOK(m) == SignedBySource(m)
AnonymousOK(m) == m.from = "absent" /\ m.seqno = "absent" /\ m.sigby = "absent"
PermissiveOK(m) == /\ (m.sigby # "absent" => SignedBySource(m))
                   /\ m.seqno \in {"absent", "empty", "8"}
                   /\ m.from \in {"absent", "empty", "A", "B"}
Valid(m) == CASE m.mode = "Strict" -> StrictOK(m)
              [] m.mode = "Permissive" -> PermissiveOK(m)
              [] m.mode = "Anonymous" -> AnonymousOK(m)
              [] m.mode = "None" -> TRUE
====
