CONSTANTS
  Lens = {0, 1, 2, 3, 4, 5}
  MaxFrames = 3
  Limit = 3
  Wide = 2
  MaxHdr = 2
  Variant = "prost_insuff"
INIT Init
NEXT Next
INVARIANTS OutIsPrefix BufIsTail AcceptGood NoSpuriousError RejectOversize RejectEarly BoundedBuffer ErrIsFirstBad AllDelivered
