CONSTANTS N = 3 LabelOK = FALSE
INIT Init
NEXT Next
INVARIANTS RoutedToOwner
