CONSTANTS
  Streams = {0}
  Paired = FALSE
  MaxOps = 6
  MaxWire = 3
  BarrierBug = TRUE
  ResetLoose = FALSE
  LoseFlagInClosing = FALSE
  LocalOps = {"read", "read1", "write", "bigwrite", "flush", "close", "close_read", "drop"}
  EnvOps = {"eof", "block", "unblock"}
  Frames = {"data", "big", "fin", "stop", "reset"}
INIT Init
NEXT Next
CONSTRAINT WireBound
INVARIANT NoBadTransition ReadOnlyWhileOpen WriteOnlyWhileOpen NoDataAfterFin FlagsSentOnce AfterReset
PROPERTY ResetIsFinal
