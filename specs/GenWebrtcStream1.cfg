CONSTANTS
  Streams = {0}
  Paired = FALSE
  MaxOps = 6
  MaxWire = 3
  BarrierBug = FALSE
  ResetLoose = FALSE
  LoseFlagInClosing = FALSE
INIT GInit
NEXT GNext
VIEW GView
CONSTRAINT WireBound
INVARIANT EmitState
