---- MODULE TraceKadLookup ----
(* C39 trace validation: the REAL peer iterators (driver: drv-kad lookup). Peers are distance ranks (1 = closest to
   the target). Property-level: the state is rebuilt from the recorded calls
     known      peers the lookup has learned of (initial ones + closer peers of every ACCEPTED success)
     contacted  peers handed out by next(); tstart[p] the instant of that call
     ans[p]     0 = no accepted answer yet, 1 = accepted success, 2 = accepted failure
     resp       peers for which the environment delivered a success after they were contacted (accepted or not)
     fin        0 running, 1 finished on its own (next returned Finished), 2 finish() was called
   and only what the statement forbids is rejected:
     - next() hands out a peer only if it is known and not yet contacted, and only while the number of requests in
       flight (contacted, unanswered, not timed out at that instant) is below the limit in force: parallelism, or
       max(num_results, parallelism) once the lookup CAN be stalled (a stall needs `parallelism` delivered successes;
       the exact stall rule is the implementation's business); WHICH known peer is chosen is not constrained
     - after Finished, next() keeps returning Finished
     - a success/failure is accepted only for a contacted, unanswered peer of a running lookup, and must be accepted
       when that request is still in flight
     - the result: only peers that responded, in increasing distance, the num_results closest of them; when the lookup
       finished on its own no known peer closer than the farthest returned one is uncontacted or still in flight
     - termination: the driver's drain loop (every request eventually fails or times out) must reach Finished within
       its step budget; otherwise it records `stuck`, for which there is no action here.
   fixed iterator: no time, no learning, result = exactly the responders.  disjoint iterator: bounds are per path
   (parallelism paths), answers for finished paths may be dropped, result may hold up to parallelism * num_results. *)
EXTENDS TraceIO, FiniteSets, Integers
VARIABLES l, kind, n, par, nres, timeout, known, contacted, tstart, ans, fin, finNow, now, nsucc, resp
vars == <<l, kind, n, par, nres, timeout, known, contacted, tstart, ans, fin, finNow, now, nsucc, resp>>
R == Rec[l]
Max(a, b) == IF a > b THEN a ELSE b
SetOf(s) == {s[j] : j \in 1..Len(s)}
Init == /\ l = 1 /\ kind = "closest" /\ n = 1 /\ par = 1 /\ nres = 1 /\ timeout = 1 /\ known = {} /\ contacted = {}
        /\ tstart = <<>> /\ ans = <<>> /\ fin = 0 /\ finNow = 0 /\ now = 0 /\ nsucc = 0 /\ resp = {} /\ InitReg
Reset == /\ R.e = "reset" /\ kind' = R.kind /\ n' = R.n /\ par' = R.par /\ nres' = R.nres /\ timeout' = R.timeout
         /\ known' = SetOf(R.seeds) /\ contacted' = {} /\ tstart' = [p \in 1..R.n |-> 0] /\ ans' = [p \in 1..R.n |-> 0]
         /\ fin' = 0 /\ finNow' = 0 /\ now' = 0 /\ nsucc' = 0 /\ resp' = {}
Cfg == <<kind, n, par, nres, timeout>>
LiveAt(t) == {p \in contacted : ans[p] = 0 /\ (kind = "fixed" \/ t < tstart[p] + timeout)}
StallMax == Max(nres, par)
Limit == IF kind = "fixed" THEN par
         ELSE IF kind = "disjoint" THEN par * StallMax
         ELSE IF nsucc >= par THEN StallMax ELSE par

NextEv ==
  /\ R.e = "next"
  /\ IF /\ R.now = now
        /\ R.res \in {"peer", "none", "cap", "fin"}
        /\ (fin # 0 => R.res = "fin")
        /\ R.res = "peer" => /\ R.p \in known \ contacted
                             /\ Cardinality(LiveAt(R.now)) < Limit
        /\ (R.nw >= 0 => R.nw <= StallMax /\ (nsucc < par => R.nw <= par))
     THEN TRUE ELSE FALSE
  /\ contacted' = IF R.res = "peer" THEN contacted \cup {R.p} ELSE contacted
  /\ tstart' = IF R.res = "peer" THEN [tstart EXCEPT ![R.p] = R.now] ELSE tstart
  /\ fin' = IF R.res = "fin" /\ fin = 0 THEN 1 ELSE fin
  /\ finNow' = IF R.res = "fin" /\ fin = 0 THEN R.now ELSE finNow
  /\ UNCHANGED <<known, ans, now, nsucc, resp, kind, n, par, nres, timeout>>

Acceptable(p) == fin = 0 /\ p \in contacted /\ ans[p] = 0
MustAccept(p) == Acceptable(p) /\ kind # "disjoint" /\ p \in LiveAt(now)
Answer ==
  /\ R.e \in {"succ", "fail"}
  /\ IF /\ R.p \in 1..n
        /\ (R.ret => Acceptable(R.p))
        /\ (~R.ret => ~MustAccept(R.p))
        /\ (R.e = "succ" => SetOf(R.closer) \subseteq 1..n)
     THEN TRUE ELSE FALSE
  /\ ans' = IF R.ret THEN [ans EXCEPT ![R.p] = IF R.e = "succ" THEN 1 ELSE 2] ELSE ans
  /\ known' = IF R.ret /\ R.e = "succ" /\ kind # "fixed" THEN known \cup SetOf(R.closer) ELSE known
  /\ nsucc' = IF R.ret /\ R.e = "succ" THEN nsucc + 1 ELSE nsucc
  /\ resp' = IF R.e = "succ" /\ R.p \in contacted THEN resp \cup {R.p} ELSE resp
  /\ UNCHANGED <<contacted, tstart, fin, finNow, now, kind, n, par, nres, timeout>>

Tick == /\ R.e = "tick" /\ R.now >= now /\ now' = R.now
        /\ UNCHANGED <<known, contacted, tstart, ans, fin, finNow, nsucc, resp, kind, n, par, nres, timeout>>
Finish == /\ R.e = "finish" /\ fin' = (IF fin = 0 THEN 2 ELSE fin)
          /\ UNCHANGED <<known, contacted, tstart, ans, finNow, now, nsucc, resp, kind, n, par, nres, timeout>>

Succ == {p \in 1..n : ans[p] = 1}
Increasing(s) == \A j \in 1..(Len(s) - 1) : s[j] < s[j + 1]
Last(s) == s[Len(s)]
ResultOK ==
  /\ fin # 0
  /\ SetOf(R.out) \subseteq resp                                   \* only peers that responded
  /\ Len(R.out) = Cardinality(SetOf(R.out))
  /\ kind # "disjoint" => SetOf(R.out) \subseteq Succ              \* (an answer the iterator refused does not count)
  /\ kind = "fixed" => SetOf(R.out) = Succ
  /\ kind = "disjoint" => Increasing(R.out) /\ Len(R.out) <= par * nres
  /\ kind = "closest" =>
       /\ Increasing(R.out) /\ Len(R.out) <= nres
       /\ \A q \in Succ \ SetOf(R.out) : Len(R.out) = nres /\ q > Last(R.out)          \* the closest responders
       /\ (fin = 1 /\ Len(R.out) > 0) =>
            \A q \in known : q < Last(R.out) => q \in contacted /\ q \notin LiveAt(finNow)
Result == /\ R.e = "result"
          /\ IF ResultOK THEN TRUE ELSE FALSE
          /\ UNCHANGED <<known, contacted, tstart, ans, fin, finNow, now, nsucc, resp, kind, n, par, nres, timeout>>

Next == l <= NRec /\ l' = l + 1 /\ (Reset \/ NextEv \/ Answer \/ Tick \/ Finish \/ Result)
Spec == Init /\ [][Next]_vars
(* at most the stalled limit is ever in flight (per path for the disjoint iterator) *)
InFlightBound == Cardinality(LiveAt(now)) <= (IF kind = "fixed" THEN par ELSE IF kind = "disjoint" THEN par * StallMax ELSE StallMax)
Progress == Mark(l)
====
