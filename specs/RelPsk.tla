---- MODULE RelPsk ----
(* C19 (pnet key files): relation over records produced by the real PreSharedKey::to_key_file /
   Display / FromStr.  roundtrip: parse(print(k)) = k.  parse: any text yields Ok or Err (a panic
   is a violation) and an accepted text is stable (print(parse(t)) parses to the same key). *)
EXTENDS TraceIO
VARIABLE x
Post(r) == IF r.kind = "roundtrip" THEN r.res = "same"
           ELSE r.res \in {"ok", "err"} /\ r.stable
Why(r) == IF r.kind = "roundtrip" THEN "parse(print(k)) # k" ELSE IF r.res = "panic" THEN "FromStr panicked" ELSE "accepted text not stable"
ASSUME PrintT(<<"CHECKED", ToJson([n |-> NRec])>>)
ASSUME \A i \in 1..NRec : Post(Rec[i]) \/ PrintT(<<"BAD", ToJson([line |-> i, why |-> Why(Rec[i])])>>)
Init == x = 0
Next == FALSE /\ x' = x
====
