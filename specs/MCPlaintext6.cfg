CONSTANTS
  X = 3
  T = 6
  HandOver = TRUE
SPECIFICATION Spec
INVARIANT Prefix Outcome Complete
PROPERTY Refines
