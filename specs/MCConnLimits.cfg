CONSTANTS
  Conns = {1, 2, 3, 4}
  Peers = {p1, p2}
  Bypass = p2
  MaxPI = 1
  MaxPO = 1
  MaxEI = 1
  MaxEO = 2
  MaxE = 2
  MaxPP = 1
  Strict = TRUE
INIT Init
NEXT Next
INVARIANT LimitsHold
