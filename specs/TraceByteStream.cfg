INIT Init
NEXT Next
INVARIANT PrefixOK
CONSTRAINT Progress
POSTCONDITION Accepted
