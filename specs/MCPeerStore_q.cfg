CONSTANTS
  Peers = {1, 2}
  Addrs = {1, 2, 3}
  PeerCap = 1
  RecCap = 2
  MaxFailed = 2
  RemoveOnDialError = TRUE
  IgnoreForce = FALSE
  EntryOverflow = FALSE
  SilentAuto = FALSE
INIT Init
NEXT Next
INVARIANT Bounded NoDup PermanentKept EventsExact
