CONSTANTS MaxNeg = 2 NReq = 4 NIn = 1 DecOnError = TRUE
INIT Init
NEXT Next
INVARIANTS TypeOK OneSubstreamPerRequest Bounded CounterExact ReportedExactlyOnce NoStall PendingCount
