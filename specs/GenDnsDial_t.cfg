CONSTANTS
  NamesN = 2
  HostsN = 1
  Ips = 2
  WithForeign = TRUE
  Policies <- PolAll
INIT Init
NEXT Next
