CONSTANTS
  VerifySig = TRUE
  SamePrologue = TRUE
SPECIFICATION Spec
INVARIANT AuthOK PrologueOK Fresh FreshB
