CONSTANTS
  InitC = {1}
  RespC = {2}
  Max = 3
  MaxDials = 5
  RetryUnbounded = FALSE
  EarlyOk = FALSE
INIT Start
NEXT Next
INVARIANT AttemptsBounded
INVARIANT AtMostOneFinal
INVARIANT OkOnlyEstablished
INVARIANT Bookkeeping
INVARIANT OnePendingPerInit
INVARIANT NoWorkAfterFinal
INVARIANT RolesRight
