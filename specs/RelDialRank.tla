---- MODULE RelDialRank ----
(* C09: smart-dial ranking is a complete, well-ordered permutation.
   Record: in = <<idx, group, transport>> per input address (group = documented group of the address shape),
           out = <<idx, delayMs>> in output order. *)
EXTENDS TraceIO, FiniteSets, Integers
VARIABLE x
SeqToSet(s) == {s[i] : i \in 1..Len(s)}
GroupRank(g) == CASE g = "private" -> 1 [] g = "public" -> 2 [] g = "relay" -> 3 [] OTHER -> 4
InOf(r, idx) == CHOOSE e \in SeqToSet(r.in) : e[1] = idx
Pos(r, idx) == CHOOSE p \in 1..Len(r.out) : r.out[p][1] = idx
Delay(r, idx) == r.out[Pos(r, idx)][2]
Idx(r) == {r.in[i][1] : i \in 1..Len(r.in)}
Permutation(r) == Len(r.out) = Len(r.in) /\ {r.out[i][1] : i \in 1..Len(r.out)} = Idx(r)
Grouped(r) ==      \* output positions follow the documented group order
  \A a, b \in Idx(r) : GroupRank(InOf(r, a)[2]) < GroupRank(InOf(r, b)[2]) => Pos(r, a) < Pos(r, b)
LastGroupLast(r) == \* no address of the last group is scheduled (by delay) before an address of an earlier group
  \A a, b \in Idx(r) : (GroupRank(InOf(r, a)[2]) < 4 /\ GroupRank(InOf(r, b)[2]) = 4) => Delay(r, a) <= Delay(r, b)
QuicFirst(r) ==    \* within a group QUIC is scheduled no later than TCP
  \A a, b \in Idx(r) : (InOf(r, a)[2] = InOf(r, b)[2] /\ InOf(r, a)[3] = "quic" /\ InOf(r, b)[3] = "tcp") => Delay(r, a) <= Delay(r, b)
Why(r) == IF Has(r, "panic") THEN "panic" ELSE IF ~Permutation(r) THEN "not a permutation of the input"
          ELSE IF ~Grouped(r) THEN "documented group order violated (private, public, relay, no-IP)"
          ELSE IF ~LastGroupLast(r) THEN "an address without IP is scheduled before an earlier-group address"
          ELSE IF ~QuicFirst(r) THEN "QUIC scheduled later than TCP within a group" ELSE "ok"
ASSUME PrintT(<<"CHECKED", ToJson([n |-> NRec])>>)
ASSUME \A i \in 1..NRec : Why(Rec[i]) = "ok" \/ PrintT(<<"BAD", ToJson([line |-> i, why |-> Why(Rec[i])])>>)
Init == x = 0
Next == FALSE /\ x' = x
====
