CONSTANTS
  MaxProtocols = 3
  MaxFrame = 9
  CheckBefore = TRUE
INIT Init
NEXT Next
INVARIANT RoundTrip RejectTooMany RejectNoSlash PrefixAtMostTwo
