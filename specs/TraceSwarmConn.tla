---- MODULE TraceSwarmConn ----
(* Property-level trace specification for the Swarm connection lifecycle (C01, C02, C05, C06).
   The abstract state is rebuilt from the recorded behaviour callbacks (b1 = first field of the derived
   behaviour), driver commands and SwarmEvents of ONE real Swarm; the guards are the property
   statements. PROP (environment) selects whose guards are enforced; the state-following part is
   common, so a rejected line is attributed to exactly the property whose guard failed.

   C01  every id ends in exactly one of est / outErr / inErr (behaviour view and SwarmEvent view), Closed exactly once
        and only after est, and the SwarmEvent stream carries the same lifecycle in the same order as FromSwarm.
   C02  counters / peer views / num_established fields equal what the history implies.
   C05  est only if the authenticated peer = expected (when given) and # local; otherwise the muxer is closed.
   C06  a denial by any behaviour is final: never established, never counted, exactly one failure. *)
EXTENDS TraceIO, FiniteSets, Integers
VARIABLES l, bterm, sterm, bclosed, sclosed, q, pend, estPeer, estDir, expect, auth, denied, handed, inDial, syncFail, idErr
vars == <<l, bterm, sterm, bclosed, sclosed, q, pend, estPeer, estDir, expect, auth, denied, handed, inDial, syncFail, idErr>>
Ids == 1..24
Peers == 0..3
PROP == IF "PROP" \in DOMAIN IOEnv THEN IOEnv.PROP ELSE "ALL"
G(p, c) == IF PROP # p /\ PROP # "ALL" THEN TRUE ELSE (c) = TRUE     \* guard c belongs to property p (IF, not \/: TLC explores both branches of an action-level disjunction)

R == Rec[l]
Init == /\ l = 1 /\ InitReg
        /\ bterm = [i \in Ids |-> "none"] /\ sterm = [i \in Ids |-> "none"]
        /\ bclosed = [i \in Ids |-> 0] /\ sclosed = [i \in Ids |-> 0]
        /\ q = <<>> /\ pend = [i \in Ids |-> "none"]
        /\ estPeer = [i \in Ids |-> -1] /\ estDir = [i \in Ids |-> "none"]
        /\ expect = [i \in Ids |-> -1] /\ auth = [i \in Ids |-> {}]
        /\ denied = [i \in Ids |-> FALSE] /\ handed = {} /\ inDial = 0 /\ syncFail = FALSE /\ idErr = {}

NumEst(ep, p) == Cardinality({i \in Ids : ep[i] = p})
B1 == Has(R, "b") /\ R.b = "b1"

Reset == /\ R.e = "reset"
         /\ bterm' = [i \in Ids |-> "none"] /\ sterm' = [i \in Ids |-> "none"]
         /\ bclosed' = [i \in Ids |-> 0] /\ sclosed' = [i \in Ids |-> 0]
         /\ q' = <<>> /\ pend' = [i \in Ids |-> "none"]
         /\ estPeer' = [i \in Ids |-> -1] /\ estDir' = [i \in Ids |-> "none"]
         /\ expect' = [i \in Ids |-> -1] /\ auth' = [i \in Ids |-> {}]
         /\ denied' = [i \in Ids |-> FALSE] /\ handed' = {} /\ inDial' = 0 /\ syncFail' = FALSE /\ idErr' = {}

Dial == /\ R.e = "dial"
        /\ handed' = handed \cup {R.id} /\ expect' = [expect EXCEPT ![R.id] = R.peer]
        /\ inDial' = R.id /\ syncFail' = FALSE
        /\ UNCHANGED <<bterm, sterm, bclosed, sclosed, q, pend, estPeer, estDir, auth, denied, idErr>>

(* a dial requested by behaviour b1 (ToSwarm::Dial): pend = "bdial" until the Swarm reports Dialing (then "out") or the
   behaviours get the DialFailure of a dial that failed inside Swarm::dial (no SwarmEvent exists for that outcome) *)
BehDial == /\ R.e = "behDial"
           /\ handed' = handed \cup {R.id} /\ expect' = [expect EXCEPT ![R.id] = R.peer]
           /\ pend' = [pend EXCEPT ![R.id] = "bdial"]
           /\ UNCHANGED <<bterm, sterm, bclosed, sclosed, q, estPeer, estDir, auth, denied, inDial, syncFail, idErr>>

SwDialing == /\ R.e = "swarmEvent" /\ R.kind = "dialing"
             /\ G("C01", pend[R.id] = "bdial" /\ bterm[R.id] = "none")
             /\ pend' = [pend EXCEPT ![R.id] = "out"]
             /\ UNCHANGED <<bterm, sterm, bclosed, sclosed, q, estPeer, estDir, expect, auth, denied, handed, inDial, syncFail, idErr>>

DialRet ==
  /\ R.e = "dialRet"
  /\ IF R.res = "ok"
     THEN /\ G("C01", ~syncFail /\ bterm[R.id] = "none")
          /\ pend' = [pend EXCEPT ![R.id] = "out"]
          /\ UNCHANGED sterm
     ELSE /\ G("C01", syncFail /\ bterm[R.id] = "outErr" /\ sterm[R.id] = "none")   \* exactly one DialFailure inside the call
          /\ sterm' = [sterm EXCEPT ![R.id] = "outErr"]                               \* outcome delivered as the call's Err
          /\ UNCHANGED pend
  /\ inDial' = 0 /\ syncFail' = FALSE
  /\ UNCHANGED <<bterm, bclosed, sclosed, q, estPeer, estDir, expect, auth, denied, handed, idErr>>

(* decisions of any composed behaviour *)
Decision ==
  /\ R.e \in {"cbPendingOut", "cbPendingIn", "cbEstIn", "cbEstOut"}
  /\ denied' = [denied EXCEPT ![R.id] = @ \/ R.deny]
  /\ handed' = handed \cup {R.id}
  /\ UNCHANGED <<bterm, sterm, bclosed, sclosed, q, pend, estPeer, estDir, expect, auth, inDial, syncFail, idErr>>

CbDialFailure ==
  /\ R.e = "cbDialFailure" /\ B1
  /\ G("C01", bterm[R.id] = "none")
  /\ G("C06", denied[R.id] => bterm[R.id] = "none")                      \* a denied dial: exactly one failure
  /\ bterm' = [bterm EXCEPT ![R.id] = "outErr"]
  /\ pend' = [pend EXCEPT ![R.id] = "none"]
  /\ idErr' = IF R.kind \in {"WrongPeerId", "LocalPeerId"} THEN idErr \cup {R.id} ELSE idErr
  /\ IF inDial = R.id THEN syncFail' = TRUE /\ G("C01", ~syncFail) /\ UNCHANGED <<q, sterm>>
     ELSE IF pend[R.id] = "bdial" THEN sterm' = [sterm EXCEPT ![R.id] = "outErr"] /\ UNCHANGED <<q, syncFail>>
     ELSE q' = Append(q, <<"outErr", R.id, 0>>) /\ UNCHANGED <<syncFail, sterm>>
  /\ UNCHANGED <<bclosed, sclosed, estPeer, estDir, expect, auth, denied, handed, inDial>>

CbListenFailure ==
  /\ R.e = "cbListenFailure" /\ B1
  /\ G("C01", bterm[R.id] = "none")
  /\ bterm' = [bterm EXCEPT ![R.id] = "inErr"]
  /\ pend' = [pend EXCEPT ![R.id] = "none"]
  /\ idErr' = IF R.kind \in {"WrongPeerId", "LocalPeerId"} THEN idErr \cup {R.id} ELSE idErr
  /\ q' = Append(q, <<"inErr", R.id, 0>>)
  /\ handed' = handed \cup {R.id}
  /\ UNCHANGED <<sterm, bclosed, sclosed, estPeer, estDir, expect, auth, denied, inDial, syncFail>>

CbConnEstablished ==
  /\ R.e = "cbConnEstablished" /\ B1
  /\ G("C01", bterm[R.id] = "none" /\ pend[R.id] # "none")
  /\ G("C06", ~denied[R.id])
  /\ G("C05", R.peer # 0 /\ (expect[R.id] = -1 \/ expect[R.id] = R.peer) /\ R.peer \in auth[R.id])
  /\ G("C02", R.other_established = NumEst(estPeer, R.peer))
  /\ bterm' = [bterm EXCEPT ![R.id] = "est"]
  /\ pend' = [pend EXCEPT ![R.id] = "none"]
  /\ estPeer' = [estPeer EXCEPT ![R.id] = R.peer] /\ estDir' = [estDir EXCEPT ![R.id] = R.dir]
  /\ q' = Append(q, <<"est", R.id, NumEst(estPeer', R.peer)>>)
  /\ UNCHANGED <<sterm, bclosed, sclosed, expect, auth, denied, handed, inDial, syncFail, idErr>>

CbConnClosed ==
  /\ R.e = "cbConnClosed" /\ B1
  /\ G("C01", bterm[R.id] = "est" /\ bclosed[R.id] = 0)
  /\ bclosed' = [bclosed EXCEPT ![R.id] = IF @ < 2 THEN @ + 1 ELSE 2]
  /\ estPeer' = [estPeer EXCEPT ![R.id] = -1] /\ estDir' = [estDir EXCEPT ![R.id] = "none"]
  /\ G("C02", R.remaining_established = NumEst(estPeer', R.peer) /\ R.peer = estPeer[R.id])
  /\ q' = Append(q, <<"closed", R.id, NumEst(estPeer', R.peer)>>)
  /\ UNCHANGED <<bterm, sterm, sclosed, pend, expect, auth, denied, handed, inDial, syncFail, idErr>>

SwLifecycle ==
  /\ R.e = "swarmEvent" /\ R.kind \in {"est", "outErr", "inErr", "closed"}
  /\ G("C01", q # <<>> /\ Head(q)[1] = R.kind /\ Head(q)[2] = R.id)          \* same lifecycle, same order as FromSwarm
  /\ G("C02", (q # <<>> /\ R.kind \in {"est", "closed"}) => Head(q)[3] = R.num_established)
  /\ q' = IF q # <<>> THEN Tail(q) ELSE q
  /\ IF R.kind = "closed"
     THEN /\ G("C01", sterm[R.id] = "est" /\ sclosed[R.id] = 0)
          /\ sclosed' = [sclosed EXCEPT ![R.id] = IF @ < 2 THEN @ + 1 ELSE 2] /\ UNCHANGED sterm
     ELSE /\ G("C01", sterm[R.id] = "none")
          /\ sterm' = [sterm EXCEPT ![R.id] = R.kind] /\ UNCHANGED sclosed
  /\ UNCHANGED <<bterm, bclosed, pend, estPeer, estDir, expect, auth, denied, handed, inDial, syncFail, idErr>>

SwIncoming ==
  /\ R.e = "swarmEvent" /\ R.kind = "incoming"
  /\ G("C06", ~denied[R.id])
  /\ pend' = [pend EXCEPT ![R.id] = "in"] /\ handed' = handed \cup {R.id}
  /\ UNCHANGED <<bterm, sterm, bclosed, sclosed, q, estPeer, estDir, expect, auth, denied, inDial, syncFail, idErr>>

Env ==
  /\ R.e \in {"envDial", "envUpgrade"}
  /\ auth' = IF R.applied /\ R.ok /\ R.id \in Ids THEN [auth EXCEPT ![R.id] = @ \cup {R.who}] ELSE auth
  /\ UNCHANGED <<bterm, sterm, bclosed, sclosed, q, pend, estPeer, estDir, expect, denied, handed, inDial, syncFail, idErr>>

ConnectedSet == {estPeer[i] : i \in {j \in Ids : estPeer[j] # -1}}
SeqToSet(s) == {s[i] : i \in 1..Len(s)}
Snap ==
  /\ R.e = "snap"
  /\ G("C02", /\ R.pi = Cardinality({i \in Ids : pend[i] = "in"})
              /\ R.po = Cardinality({i \in Ids : pend[i] = "out"})
              /\ R.ei = Cardinality({i \in Ids : estDir[i] = "in"})
              /\ R.eo = Cardinality({i \in Ids : estDir[i] = "out"})
              /\ R.pending = R.pi + R.po /\ R.established = R.ei + R.eo /\ R.total = R.pending + R.established
              /\ R.num_peers = Cardinality(ConnectedSet)
              /\ SeqToSet(R.connected) = ConnectedSet /\ Len(R.connected) = Cardinality(ConnectedSet)
              /\ \A p \in Peers : R.is_connected[p + 1] = (p \in ConnectedSet))
  /\ G("C06", (\E i \in Ids : denied[i] /\ bterm[i] # "none") =>
                 (/\ R.established = Cardinality({i \in Ids : estPeer[i] # -1}) /\ R.pending = Cardinality({i \in Ids : pend[i] # "none"})
                  /\ SeqToSet(R.connected) = ConnectedSet /\ R.num_peers = Cardinality(ConnectedSet)))      \* the denied peer is not reported as connected
  /\ UNCHANGED <<bterm, sterm, bclosed, sclosed, q, pend, estPeer, estDir, expect, auth, denied, handed, inDial, syncFail, idErr>>

End ==
  /\ R.e = "end"
  /\ G("C01", /\ q = <<>>
              /\ \A i \in SeqToSet(R.used) : bterm[i] # "none" /\ sterm[i] = bterm[i] /\ bclosed[i] = sclosed[i]
              /\ \A i \in handed : i \in SeqToSet(R.used))
  /\ G("C05", \A k \in 1..Len(R.muxers) : LET m == R.muxers[k] IN
                 /\ ((m.id \in Ids /\ bterm[m.id] # "est") => (m.closed \/ m.dropped))
                 /\ ((m.id \in idErr) => m.done))          \* WrongPeerId / LocalPeerId: the underlying connection is really closed
  /\ G("C06", \A i \in Ids : denied[i] => bterm[i] \in {"outErr", "inErr"})
  /\ UNCHANGED <<bterm, sterm, bclosed, sclosed, q, pend, estPeer, estDir, expect, auth, denied, handed, inDial, syncFail, idErr>>

Skip ==
  /\ \/ R.e \in {"envIncoming", "failMux", "close", "disconnect", "behClose", "behCloseAll", "keepAlive", "polled",
                 "cbNewListener", "cbNewListenAddr", "cbExpiredListenAddr", "cbListenerError", "cbListenerClosed",
                 "cbNewExternalAddrCandidate", "cbExternalAddrConfirmed", "cbExternalAddrExpired", "cbNewExternalAddrOfPeer",
                 "cbAddressChange", "cbHandlerEvent", "hEvent", "hLocalProto", "hRemoteProto", "hAddressChange", "cbOther",
                 "emitQueued", "bEmit", "emitF", "hEmit", "hRequestOut", "hStream", "ranTask"}
     \/ R.e = "swarmEvent" /\ R.kind \notin {"est", "outErr", "inErr", "closed", "incoming", "dialing"}
     \/ R.e \in {"cbDialFailure", "cbListenFailure", "cbConnEstablished", "cbConnClosed"} /\ ~B1
  /\ UNCHANGED <<bterm, sterm, bclosed, sclosed, q, pend, estPeer, estDir, expect, auth, denied, handed, inDial, syncFail, idErr>>

Next == l <= NRec /\ l' = l + 1 /\
        (Reset \/ Dial \/ BehDial \/ SwDialing \/ DialRet \/ Decision \/ CbDialFailure \/ CbListenFailure \/ CbConnEstablished \/ CbConnClosed
         \/ SwLifecycle \/ SwIncoming \/ Env \/ Snap \/ End \/ Skip)
Spec == Init /\ [][Next]_vars
Progress == Mark(l)
(* state invariants, evaluated after every consumed line *)
ClosedOnlyAfterEst == G("C01", \A i \in Ids : (bclosed[i] > 0 => bterm[i] = "est") /\ (sclosed[i] > 0 => sterm[i] = "est") /\ bclosed[i] <= 1 /\ sclosed[i] <= 1)
NeverLocal == G("C05", \A i \in Ids : estPeer[i] # 0)
DeniedNeverCounted == G("C06", \A i \in Ids : denied[i] => estPeer[i] = -1)
====
