CONSTANTS
  Ids = {1, 2}
  Peers = {p1, p2}
  Local = local
  NoPeer = nopeer
  Canary = "skipLocalCheck"
INIT Init
NEXT Next
INVARIANT TermOnce ClosedOnce ClosedOnlyAfterEst SameView CountersOK IdentityOK DeniedFinal AllResolvedAtQuiescence
