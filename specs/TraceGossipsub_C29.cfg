INIT Init
NEXT Next
INVARIANT C29_HandlerView
CONSTRAINT Progress
POSTCONDITION Accepted
