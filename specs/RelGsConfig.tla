---- MODULE RelGsConfig ----
(* C34 relation: one record per builder call sequence applied to the REAL ConfigBuilder.
   r.ok = build() returned Ok; then r.dflt = <<outbound_min, n_low, n, n_high>> and, for every topic
   a call mentioned (plus one nobody mentioned), r.topics[i].q / .tx as the returned Config's public
   getters report them, r.hist / r.gossip / r.tx, and r.hbbad = the heartbeat scenarios (real
   Behaviour built from the config, 0..6 peers) that panicked.  The statement, clause by clause: *)
EXTENDS TraceIO
VARIABLE x
Order(q) == q[2] <= q[3] /\ q[3] <= q[4]
Outbound(q) == q[1] <= q[2] /\ 2 * q[1] <= q[3]
Topics(r) == {r.topics[i] : i \in 1..Len(r.topics)}
NoPanic(r) == ~Has(r, "panic")
DefaultMesh(r) == r.ok => (Order(r.dflt) /\ Outbound(r.dflt))
TopicOrder(r) == r.ok => \A t \in Topics(r) : Order(t.q)
TopicOutbound(r) == r.ok => \A t \in Topics(r) : Outbound(t.q)
Transmit(r) == r.ok => (r.tx >= 100 /\ \A t \in Topics(r) : t.tx >= 100)
History(r) == r.ok => r.gossip <= r.hist
Heartbeat(r) == r.ok => r.hbbad = <<>>
Bad(i, why) == PrintT(<<"BAD", ToJson([line |-> i, why |-> why])>>)
ASSUME PrintT(<<"CHECKED", ToJson([n |-> NRec])>>)
ASSUME \A i \in 1..NRec : NoPanic(Rec[i]) \/ Bad(i, "builder panicked")
ASSUME \A i \in 1..NRec : DefaultMesh(Rec[i]) \/ Bad(i, "accepted default mesh parameters violate the inequalities")
ASSUME \A i \in 1..NRec : TopicOrder(Rec[i]) \/ Bad(i, "accepted per-topic mesh parameters violate n_low <= n <= n_high")
ASSUME \A i \in 1..NRec : Transmit(Rec[i]) \/ Bad(i, "accepted max_transmit_size below 100")
ASSUME \A i \in 1..NRec : History(Rec[i]) \/ Bad(i, "accepted history_gossip > history_length")
ASSUME \A i \in 1..NRec : Heartbeat(Rec[i]) \/ Bad(i, "heartbeat panicked with an accepted config")
(* last on purpose: vlib reports only the first few BAD lines and this clause has an open known finding *)
ASSUME \A i \in 1..NRec : TopicOutbound(Rec[i]) \/ Bad(i, "accepted per-topic mesh_outbound_min violates the inequalities")
Init == x = 0
Next == FALSE /\ x' = x
====
