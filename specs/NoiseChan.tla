---- MODULE NoiseChan ----
(* C17: transcription of transports/noise/src/io.rs (Output::poll_write / poll_flush / poll_read)
   over io/framed.rs (2-byte length prefix, one AEAD message per frame, implicit nonce counter),
   one direction, ideal AEAD: a frame decrypts iff it is unmodified, correctly delimited, and its
   nonce equals the reader's counter.
   Wire = sequence of frames [ids, nonce, bad]; a frame occupies Hdr + Len(ids) + 1 wire units (the
   last unit is the tag); the transport feeds wire units in arbitrary chunks; the adversary may
   corrupt one frame that is completely or partly in flight (a corrupted length prefix desynchronises
   the framing: with ideal crypto everything from that frame on fails to decrypt or never completes). *)
EXTENDS Naturals, Sequences
CONSTANTS N,            \* bytes the application writes
          MaxFrame,     \* MAX_FRAME_LEN (plaintext bytes per frame)
          Hdr,          \* wire units of the length prefix
          ResetOnSend,  \* TRUE = the code; FALSE = canary: send_offset not reset after a frame is sent by flush
          CheckTag      \* TRUE = the code; FALSE = canary: decrypt failure ignored
VARIABLES sent, sbuf, wn, wire, fed, ridx, rn, rbuf, delivered, rstatus, wclosed, corrupted
vars == <<sent, sbuf, wn, wire, fed, ridx, rn, rbuf, delivered, rstatus, wclosed, corrupted>>
Min(a, b) == IF a < b THEN a ELSE b
RECURSIVE Units(_)
Units(k) == IF k = 0 THEN 0 ELSE Units(k - 1) + Hdr + Len(wire[k].ids) + 1     \* wire units of frames 1..k
Init == /\ sent = 0 /\ sbuf = <<>> /\ wn = 0 /\ wire = <<>> /\ fed = 0 /\ ridx = 0 /\ rn = 0 /\ rbuf = <<>>
        /\ delivered = <<>> /\ rstatus = "open" /\ wclosed = FALSE /\ corrupted = FALSE
Frame(ids) == [ids |-> ids, nonce |-> wn, bad |-> FALSE]
(* poll_write(k bytes): send the full buffer first, then buffer up to the frame limit *)
Write(k) ==
  /\ ~wclosed /\ sent + k <= N
  /\ LET full == Len(sbuf) = MaxFrame
         b0   == IF full THEN <<>> ELSE sbuf
         n    == Min(MaxFrame - Len(b0), k)
     IN /\ wire' = IF full THEN Append(wire, Frame(sbuf)) ELSE wire
        /\ wn' = IF full THEN wn + 1 ELSE wn
        /\ sbuf' = b0 \o [j \in 1..n |-> sent + j]
        /\ sent' = sent + n
  /\ UNCHANGED <<fed, ridx, rn, rbuf, delivered, rstatus, wclosed, corrupted>>
Flush == /\ ~wclosed /\ sbuf # <<>>
         /\ wire' = Append(wire, Frame(sbuf)) /\ wn' = wn + 1
         /\ sbuf' = IF ResetOnSend THEN <<>> ELSE sbuf
         /\ UNCHANGED <<sent, fed, ridx, rn, rbuf, delivered, rstatus, wclosed, corrupted>>
Close == /\ ~wclosed /\ sbuf = <<>> /\ wclosed' = TRUE
         /\ UNCHANGED <<sent, sbuf, wn, wire, fed, ridx, rn, rbuf, delivered, rstatus, corrupted>>
Feed == \E k \in 1..(N + Hdr + 1) : fed + k <= Units(Len(wire)) /\ fed' = fed + k
          /\ UNCHANGED <<sent, sbuf, wn, wire, ridx, rn, rbuf, delivered, rstatus, wclosed, corrupted>>
(* the adversary flips a bit in a frame that the reader has not decoded yet *)
Corrupt == /\ ~corrupted /\ \E f \in (ridx + 1)..Len(wire) :
                wire' = [j \in 1..Len(wire) |-> IF j >= f THEN [wire[j] EXCEPT !.bad = TRUE] ELSE wire[j]]
           /\ corrupted' = TRUE
           /\ UNCHANGED <<sent, sbuf, wn, fed, ridx, rn, rbuf, delivered, rstatus, wclosed>>
(* poll_read: copy from recv_buffer, else decode the next complete frame *)
Read == /\ rstatus = "open"
        /\ IF rbuf # <<>>
           THEN \E k \in 1..Len(rbuf) : delivered' = delivered \o SubSeq(rbuf, 1, k) /\ rbuf' = SubSeq(rbuf, k + 1, Len(rbuf))
                  /\ UNCHANGED <<ridx, rn, rstatus>>
           ELSE IF ridx < Len(wire) /\ fed >= Units(ridx + 1)
           THEN LET f == wire[ridx + 1] IN
                IF (f.bad \/ f.nonce # rn) /\ CheckTag
                THEN rstatus' = "err" /\ UNCHANGED <<ridx, rn, rbuf, delivered>>
                ELSE /\ rbuf' = IF f.bad THEN [j \in 1..Len(f.ids) |-> 0] ELSE f.ids
                     /\ ridx' = ridx + 1 /\ rn' = rn + 1 /\ UNCHANGED <<delivered, rstatus>>
           ELSE IF wclosed /\ fed = Units(Len(wire)) /\ ridx = Len(wire)
           THEN rstatus' = "eof" /\ UNCHANGED <<ridx, rn, rbuf, delivered>>
           ELSE FALSE                                                       \* Pending
        /\ UNCHANGED <<sent, sbuf, wn, wire, fed, wclosed, corrupted>>
Next == (\E k \in 1..N : Write(k)) \/ Flush \/ Close \/ Feed \/ Corrupt \/ Read
Spec == Init /\ [][Next]_vars

Good(s) == \A j \in 1..Len(s) : s[j] = j
Prefix == Good(delivered) /\ Len(delivered) <= sent
FrameLimit == \A j \in 1..Len(wire) : Len(wire[j].ids) <= MaxFrame /\ Len(wire[j].ids) > 0
Complete == (sbuf = <<>> /\ ~corrupted /\ fed = Units(Len(wire)) /\ ridx = Len(wire) /\ rbuf = <<>>) => Len(delivered) = sent
EofClean == rstatus = "eof" => Len(delivered) = sent /\ ~corrupted
CorruptDetected == (corrupted /\ rstatus = "open") => \A j \in 1..ridx : ~wire[j].bad   \* no corrupted frame was ever decoded
BS == INSTANCE ByteStream WITH Dirs <- {0}, MaxLen <- N, MaxChunk <- N,
        sent <- [d \in {0} |-> sent], delivered <- [d \in {0} |-> delivered],
        status <- [d \in {0} |-> IF rstatus = "err" THEN "err" ELSE IF rstatus = "eof" THEN "eof" ELSE IF wclosed THEN "closing" ELSE "open"]
Refines == BS!BSRef
====
