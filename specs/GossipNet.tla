---- MODULE GossipNet ----
(* C27: a network of gossipsub routers, all subscribed to one topic, on an arbitrary connected topology chosen
   in Init (every connected graph on Nodes), with an arbitrary connected mesh inside it.  Publish sends to all
   neighbours (flood publish) or to the mesh neighbours; Receive checks the duplicate cache (handle_received_message),
   delivers to the application and forwards to the mesh neighbours except the propagation source and the message's
   source (forward_msg).  Copies travel on `wire` in any order (the schedule is the interleaving).
   Properties: at most one delivery per (node, message); none at the publisher; never a copy to the message's
   source or back to a node it was received from (monitor `bad`, judged when the copy is created); under fairness
   every node delivers every published message. Canaries: EchoBack, NoDupCache. *)
EXTENDS Naturals, FiniteSets, TLC
CONSTANTS Nodes, Msgs, SrcOf,      \* SrcOf: message -> publisher (MC module supplies the function)
          FloodPublish,
          EchoBack,    \* canary: forwarding does not exclude the propagation source
          NoDupCache   \* canary: the duplicate cache insert is skipped on receive
VARIABLES edges, mesh,      \* sets of 2-element sets
          seen,             \* node -> message ids in its duplicate cache
          delivered,        \* node -> message -> number of deliveries to the application
          from,             \* node -> message -> nodes it has received the message from
          wire,             \* in-flight copies <<from, to, msg>>
          published, bad
vars == <<edges, mesh, seen, delivered, from, wire, published, bad>>
Pairs == {e \in SUBSET Nodes : Cardinality(e) = 2}
Nb(E, n) == {m \in Nodes : {n, m} \in E}
RECURSIVE Reach(_, _)
Reach(E, S) == LET T == S \cup UNION {Nb(E, n) : n \in S} IN IF T = S THEN S ELSE Reach(E, T)
ConnectedG(E) == \A n \in Nodes : Reach(E, {n}) = Nodes
Init == /\ edges \in {E \in SUBSET Pairs : ConnectedG(E)}
        /\ mesh \in {M \in SUBSET edges : ConnectedG(M)}
        /\ seen = [n \in Nodes |-> {}] /\ delivered = [n \in Nodes |-> [m \in Msgs |-> 0]]
        /\ from = [n \in Nodes |-> [m \in Msgs |-> {}]]
        /\ wire = {} /\ published = {} /\ bad = FALSE
BadCopy(c, fr) == c[2] = SrcOf[c[3]] \/ c[2] \in fr          \* to the source, or back to a sender
Publish(m) ==
  /\ m \notin published /\ published' = published \cup {m}
  /\ seen' = [seen EXCEPT ![SrcOf[m]] = @ \cup {m}]
  /\ wire' = wire \cup {<<SrcOf[m], p, m>> : p \in Nb(IF FloodPublish THEN edges ELSE mesh, SrcOf[m])}
  /\ UNCHANGED <<edges, mesh, delivered, from, bad>>
Receive(c) ==
  /\ c \in wire
  /\ LET n == c[2] m == c[3] fr == from[n][m] \cup {c[1]}
         dup == m \in seen[n]
         out == IF dup THEN {} ELSE {<<n, p, m>> : p \in (Nb(mesh, n) \ (IF EchoBack THEN {SrcOf[m]} ELSE {c[1], SrcOf[m]}))} IN
     /\ wire' = (wire \ {c}) \cup out
     /\ from' = [from EXCEPT ![n][m] = fr]
     /\ bad' = (bad \/ \E o \in out : BadCopy(o, fr))
     /\ IF dup THEN UNCHANGED <<seen, delivered>>
        ELSE /\ seen' = IF NoDupCache THEN seen ELSE [seen EXCEPT ![n] = @ \cup {m}]
             /\ delivered' = [delivered EXCEPT ![n][m] = @ + 1]
  /\ UNCHANGED <<edges, mesh, published>>
Next == (\E m \in Msgs : Publish(m)) \/ (\E c \in wire : Receive(c))
Spec == Init /\ [][Next]_vars /\ WF_vars(Next)
AtMostOnce == \A n \in Nodes, m \in Msgs : delivered[n][m] <= 1
NotToPublisher == \A m \in Msgs : delivered[SrcOf[m]][m] = 0
NeverBackOrToSource == ~bad /\ \A c \in wire : c[2] # SrcOf[c[3]]
Bounded == \A n \in Nodes, m \in Msgs : delivered[n][m] <= 2     \* keeps the NoDupCache canary finite
EveryoneGetsIt == \A m \in Msgs : m \in published ~> (\A n \in Nodes \ {SrcOf[m]} : delivered[n][m] = 1)
====
