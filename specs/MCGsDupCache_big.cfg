CONSTANTS
  Keys = {1, 2, 3}
  Ttl = 3
  MaxNow = 10
  Refresh = FALSE
INIT Init
NEXT Next
INVARIANTS SeenWithinTtl NewAfterTtl NotRefreshed LazyBound ListSorted
