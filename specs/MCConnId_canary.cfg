CONSTANTS
  Threads = {t1, t2, t3}
  PerThread = 3
  Atomic = FALSE
INIT Init
NEXT Next
INVARIANT Unique NoLoss
