---- MODULE RelDialPlan ----
(* C04: dial preconditions and address selection, as a relation over one `Swarm::dial` call.
   Record: cond, connected, dialing (state of the target peer before the call), opts (explicit
   address list), beh (addresses the behaviour returns), extend, peer (-1 = no peer id), res,
   dialed = <<addr, p2pPeer>> per transport dial, nfail = DialFailure callbacks, po0/po1 = pending
   outgoing counter before/after.  DialPlanModel.tla model-checks the same definitions. *)
EXTENDS TraceIO, FiniteSets, Integers
VARIABLE x
ShouldDial(c, peer, connected, dialing) ==
  \/ peer = -1 \/ c = "Always"
  \/ c = "Disconnected" /\ ~connected
  \/ c = "NotDialing" /\ ~dialing
  \/ c = "DisconnectedAndNotDialing" /\ ~connected /\ ~dialing
SeqToSet(s) == {s[i] : i \in 1..Len(s)}
Candidates(r) == SeqToSet(r.opts) \cup (IF r.extend THEN SeqToSet(r.beh) ELSE {})
Attempted(r) == Candidates(r) \ {r.listen}
DialedAddrs(r) == {r.dialed[i][1] : i \in 1..Len(r.dialed)}
Post(r) ==
  IF ~ShouldDial(r.cond, r.peer, r.connected, r.dialing)
  THEN r.res = "ConditionFalse" /\ r.nfail = 1 /\ r.fail_kinds = <<"ConditionFalse">> /\ r.po1 = r.po0 /\ r.dialed = <<>>
  ELSE IF Attempted(r) = {}
  THEN r.res = "NoAddresses" /\ r.nfail = 1 /\ r.po1 = r.po0 /\ r.dialed = <<>>
  ELSE /\ r.res = "ok" /\ r.nfail = 0 /\ r.po1 = r.po0 + 1
       /\ DialedAddrs(r) = Attempted(r)                          \* only non-listen candidate addresses, all of them
       /\ Len(r.dialed) = Cardinality(Attempted(r))              \* each distinct address at most once
       /\ \A i \in 1..Len(r.dialed) : r.dialed[i][2] = r.peer    \* /p2p suffix of the target peer (or none)
Why(r) == IF ~ShouldDial(r.cond, r.peer, r.connected, r.dialing) THEN "condition false must be rejected once, no pending, no transport dial"
          ELSE IF Attempted(r) = {} THEN "no usable address must fail with NoAddresses" ELSE "attempted addresses must be the distinct non-listen candidates with /p2p of the target"
ASSUME PrintT(<<"CHECKED", ToJson([n |-> NRec])>>)
ASSUME \A i \in 1..NRec : Post(Rec[i]) \/ PrintT(<<"BAD", ToJson([line |-> i, why |-> Why(Rec[i])])>>)
Init == x = 0
Next == FALSE /\ x' = x
====
