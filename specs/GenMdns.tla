---- MODULE GenMdns ----
(* C55 schedule generator: every list of up to MaxLen addresses over the address classes of the Mdns model
   (lengths around the 255 limit, quoted / non-ASCII / already-suffixed addresses), both peer-id forms, plus bulk
   lists around the records-per-packet limit. *)
EXTENDS Naturals, Sequences, TLC, Json
CONSTANTS MaxLen
VARIABLE x
Classes == {[c |-> "ip4", n |-> 1, i |-> 0, len |-> 0], [c |-> "ip4", n |-> 2, i |-> 0, len |-> 0]}
           \cup {[c |-> "len", n |-> 0, i |-> 0, len |-> l] : l \in {254, 255, 256}}
           \cup {[c |-> k, n |-> 0, i |-> 0, len |-> 0] : k \in {"space", "quote_nospace", "nonascii", "p2p", "p2pother"}}
Lists == UNION {[1..k -> Classes] : k \in 0..MaxLen}
Bulk == {<<[c |-> "len", n |-> 0, i |-> 0, len |-> l, rep |-> r]>> : l \in {200, 240, 255}, r \in {25, 26, 27, 29, 30, 58, 59}}
        \cup {<<[c |-> "space", n |-> 0, i |-> 0, len |-> 0, rep |-> r]>> : r \in {26, 29}}
ASSUME \A p \in {"ed", "sha"} : \A l \in Lists \cup Bulk : PrintT(<<"REPLAY", ToJson([peer |-> p, ttl |-> 60, addrs |-> l])>>)
Init == x = 0
Next == FALSE /\ x' = x
====
