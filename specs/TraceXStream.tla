---- MODULE TraceXStream ----
(* X01 trace validation: the REAL libp2p_stream Behaviour / Handler / Control / IncomingStreams against the
   property-level specification (see XStream.tla for T1..T6).  The driver plays the Swarm and the application.
   State rebuilt from the events:
     reg[p]      a live IncomingStreams exists for protocol p;  q[p]: streams handed to it and not yet taken, <<ser, peer>>
     conns       established connections [c, peer];  pd[peer]: dial attempts in flight (started by a Dial of the behaviour)
     opens       open_stream calls in order: [peer, p, st: "wait" | "done" | "cancelled", cause (an error has a cause),
                 pq (issued while the peer had no connection and not yet taken over by a connection: it waits for the dial),
                 must (io error kind it has to fail with: "NotConnected" once the dial it waited for has failed)]
     osr[c]      substream requests of connection c not yet answered (protocol ids, FIFO);  nosr / nopen: counters per <<peer, p>>
     okst        negotiated outbound streams not yet returned by an open_stream: [ser, peer, p]
     fails       failed outbound negotiations not yet returned: sequence of [peer, p, k]
     inbp        inbound negotiations in progress (two-step form): k -> [c, p, acc] *)
EXTENDS TraceIO, FiniteSets
VARIABLES l, reg, q, conns, pd, opens, osr, nosr, okst, fails, inbp
vars == <<l, reg, q, conns, pd, opens, osr, nosr, okst, fails, inbp>>
R == Rec[l]
Protos == 0..2
Peers == 1..2
Conns == 1..6
Z == [p \in Protos |-> FALSE]
Init == /\ l = 1 /\ reg = Z /\ q = [p \in Protos |-> <<>>] /\ conns = {} /\ pd = [x \in Peers |-> 0] /\ opens = <<>>
        /\ osr = [c \in Conns |-> <<>>] /\ nosr = [x \in Peers |-> [p \in Protos |-> 0]] /\ okst = {} /\ fails = <<>> /\ inbp = <<>>
        /\ InitReg

PeerOf(c) == (CHOOSE x \in conns : x.c = c).peer
IsConn(c) == \E x \in conns : x.c = c
Connected(x) == \E y \in conns : y.peer = x
NOpen(x, p) == Cardinality({i \in 1..Len(opens) : opens[i].peer = x /\ opens[i].p = p})
Waiting(i) == opens[i].st = "wait"
SetOf(s) == {s[i] : i \in 1..Len(s)}
Drop(s, i) == [j \in 1..(Len(s) - 1) |-> IF j < i THEN s[j] ELSE s[j + 1]]
(* every waiting open_stream towards peer x now has a reason to fail *)
Blame(x) == [i \in 1..Len(opens) |-> IF opens[i].peer = x /\ Waiting(i) THEN [opens[i] EXCEPT !.cause = TRUE, !.pq = FALSE] ELSE opens[i]]
(* a connection to x takes over everything that was waiting for a dial *)
TakeOver(x) == [i \in 1..Len(opens) |-> IF opens[i].peer = x THEN [opens[i] EXCEPT !.pq = FALSE] ELSE opens[i]]
(* the dial to x failed: "dial errors are propagated" to every open_stream that waited for it *)
DialBlame(x) == [i \in 1..Len(opens) |-> IF opens[i].peer = x /\ Waiting(i)
                                          THEN [opens[i] EXCEPT !.cause = TRUE, !.pq = FALSE, !.must = IF opens[i].pq THEN "NotConnected" ELSE @]
                                          ELSE opens[i]]

Reset == /\ R.e = "reset" /\ reg' = Z /\ q' = [p \in Protos |-> <<>>] /\ conns' = {} /\ pd' = [x \in Peers |-> 0] /\ opens' = <<>>
         /\ osr' = [c \in Conns |-> <<>>] /\ nosr' = [x \in Peers |-> [p \in Protos |-> 0]] /\ okst' = {} /\ fails' = <<>> /\ inbp' = <<>>

(* ---------------- inbound: T1 UniqueRegistration, T2 OfferedIsRegistered, T3 DeliveredOnceToOwner ---------------- *)
Accept == /\ R.e = "accept" /\ ((R.res = "ok") = ~reg[R.p]) = TRUE /\ R.res \in {"ok", "already"}
          /\ IF R.res = "ok" THEN reg' = [reg EXCEPT ![R.p] = TRUE] /\ q' = [q EXCEPT ![R.p] = <<>>] ELSE UNCHANGED <<reg, q>>
          /\ UNCHANGED <<conns, pd, opens, osr, nosr, okst, fails, inbp>>
DropInc == /\ R.e = "dropinc" /\ reg' = [reg EXCEPT ![R.p] = FALSE] /\ q' = [q EXCEPT ![R.p] = <<>>]
           /\ UNCHANGED <<conns, pd, opens, osr, nosr, okst, fails, inbp>>
OfferedOk == /\ SetOf(R.offered) = {p \in Protos : reg[p]} /\ Len(R.offered) = Cardinality(SetOf(R.offered))
             /\ R.acc = (R.p \in SetOf(R.offered))
(* a negotiated stream for p arrives: it must be queued if the consumer is not behind; it may be dropped if it is;
   it is dropped if nobody is registered any more *)
Arrive(p, ser, peer) == IF ~reg[p] THEN UNCHANGED q
                        ELSE IF q[p] = <<>> THEN q' = [q EXCEPT ![p] = <<<<ser, peer>>>>]
                        ELSE q' = q \/ q' = [q EXCEPT ![p] = Append(@, <<ser, peer>>)]
Inb == /\ R.e = "inb" /\ IsConn(R.c) /\ R.peer = PeerOf(R.c) /\ OfferedOk
       /\ IF R.acc THEN Arrive(R.p, R.ser, R.peer) ELSE UNCHANGED q
       /\ UNCHANGED <<reg, conns, pd, opens, osr, nosr, okst, fails, inbp>>
Inb1 == /\ R.e = "inb1" /\ IsConn(R.c) /\ R.peer = PeerOf(R.c) /\ OfferedOk /\ R.k = Len(inbp) + 1
        /\ inbp' = Append(inbp, [c |-> R.c, p |-> R.p, acc |-> R.acc])
        /\ UNCHANGED <<reg, q, conns, pd, opens, osr, nosr, okst, fails>>
Inb2 == /\ R.e = "inb2" /\ R.k \in 1..Len(inbp)
        /\ IF R.gone THEN UNCHANGED q ELSE IsConn(R.c) /\ R.peer = PeerOf(R.c) /\ inbp[R.k].acc /\ Arrive(R.p, R.ser, R.peer)
        /\ UNCHANGED <<reg, conns, pd, opens, osr, nosr, okst, fails, inbp>>
Recv == /\ R.e = "recv" /\ reg[R.p]
        /\ \/ R.res = "none" /\ q[R.p] = <<>> /\ UNCHANGED q
           \/ R.res = "some" /\ q[R.p] # <<>> /\ Head(q[R.p]) = <<R.ser, R.peer>> /\ q' = [q EXCEPT ![R.p] = Tail(@)]
        /\ UNCHANGED <<reg, conns, pd, opens, osr, nosr, okst, fails, inbp>>

(* ---------------- outbound: T4 DialsWhenNeeded, T5 OneRequestPerOpen, T6 ResolvesWithItsOutcome ---------------- *)
Open == /\ R.e = "open" /\ R.i = Len(opens) + 1
        /\ opens' = Append(opens, [peer |-> R.peer, p |-> R.p, st |-> "wait", cause |-> FALSE, pq |-> ~Connected(R.peer), must |-> ""])
        /\ UNCHANGED <<reg, q, conns, pd, osr, nosr, okst, fails, inbp>>
Cancel == /\ R.e = "cancel" /\ Waiting(R.i) /\ opens' = [opens EXCEPT ![R.i].st = "cancelled"]
          /\ UNCHANGED <<reg, q, conns, pd, osr, nosr, okst, fails, inbp>>
BehDial == /\ R.e = "pollbeh" /\ R.res = "dial" /\ R.peer \in Peers
           /\ (\E i \in 1..Len(opens) : opens[i].peer = R.peer) = TRUE        \* only on behalf of an open_stream
           /\ ~Connected(R.peer) /\ pd[R.peer] = 0                              \* never a redundant connection attempt
           /\ pd' = [pd EXCEPT ![R.peer] = 1]
           /\ UNCHANGED <<reg, q, conns, opens, osr, nosr, okst, fails, inbp>>
BehQuiet == /\ R.e = "pollbeh" /\ R.res \in {"pending", "dialskip"}
            /\ UNCHANGED <<reg, q, conns, pd, opens, osr, nosr, okst, fails, inbp>>
Est == /\ R.e = "est" /\ ~IsConn(R.c) /\ conns' = conns \cup {[c |-> R.c, peer |-> R.peer]}
       /\ IF R.dir = "out" THEN pd[R.peer] > 0 /\ pd' = [pd EXCEPT ![R.peer] = @ - 1] ELSE UNCHANGED pd
       /\ opens' = TakeOver(R.peer)
       /\ UNCHANGED <<reg, q, osr, nosr, okst, fails, inbp>>
DialFail == /\ R.e = "dialfail" /\ pd[R.peer] > 0 /\ pd' = [pd EXCEPT ![R.peer] = @ - 1]
            /\ opens' = IF R.k = "denied-late" THEN Blame(R.peer) ELSE DialBlame(R.peer)   \* denied-late: the unused handler had taken them over
            /\ UNCHANGED <<reg, q, conns, osr, nosr, okst, fails, inbp>>
(* an inbound connection of the peer was denied by another behaviour after this one had built its handler: the requests
   the unused handler had taken over die with it *)
InDeny == /\ R.e = "indeny" /\ opens' = Blame(R.peer)
          /\ UNCHANGED <<reg, q, conns, pd, osr, nosr, okst, fails, inbp>>
CloseC == /\ R.e = "close" /\ IsConn(R.c) /\ R.peer = PeerOf(R.c)
          /\ conns' = {x \in conns : x.c # R.c} /\ osr' = [osr EXCEPT ![R.c] = <<>>]
          /\ opens' = Blame(R.peer)
          /\ UNCHANGED <<reg, q, pd, nosr, okst, fails, inbp>>
HOsr == /\ R.e = "pollh" /\ R.res = "osr" /\ IsConn(R.c) /\ Len(R.protos) = 1
        /\ LET p == R.protos[1]
               x == PeerOf(R.c) IN
           /\ p \in Protos /\ nosr[x][p] < NOpen(x, p)                          \* at most one substream request per open_stream, for its protocol
           /\ nosr' = [nosr EXCEPT ![x][p] = @ + 1]
           /\ osr' = [osr EXCEPT ![R.c] = Append(@, p)]
        /\ UNCHANGED <<reg, q, conns, pd, opens, okst, fails, inbp>>
HQuiet == /\ R.e = "pollh" /\ R.res = "pending" /\ UNCHANGED <<reg, q, conns, pd, opens, osr, nosr, okst, fails, inbp>>
OutOk == /\ R.e = "outok" /\ IsConn(R.c) /\ osr[R.c] # <<>> /\ Head(osr[R.c]) = R.proto
         /\ osr' = [osr EXCEPT ![R.c] = Tail(@)]
         /\ okst' = okst \cup {[ser |-> R.ser, peer |-> PeerOf(R.c), p |-> R.proto]}
         /\ UNCHANGED <<reg, q, conns, pd, opens, nosr, fails, inbp>>
OutFail == /\ R.e = "outfail" /\ IsConn(R.c) /\ osr[R.c] # <<>> /\ Head(osr[R.c]) = R.proto
           /\ osr' = [osr EXCEPT ![R.c] = Tail(@)]
           /\ fails' = Append(fails, [peer |-> PeerOf(R.c), p |-> R.proto, k |-> R.k])
           /\ UNCHANGED <<reg, q, conns, pd, opens, nosr, okst, inbp>>
Claim(x) == \E j \in 1..Len(fails) : fails[j] = x /\ fails' = Drop(fails, j)
Res == /\ R.e = "res" /\ R.i \in 1..Len(opens) /\ Waiting(R.i)
       /\ LET o == opens[R.i] IN
          \/ /\ o.must # "" /\ R.k = "io" /\ R.iok = o.must /\ UNCHANGED <<okst, fails>>        \* the propagated dial error
          \/ /\ o.must = "" /\ R.k = "ok" /\ [ser |-> R.ser, peer |-> o.peer, p |-> o.p] \in okst            \* the stream negotiated for it, handed out once
             /\ okst' = okst \ {[ser |-> R.ser, peer |-> o.peer, p |-> o.p]} /\ UNCHANGED fails
          \/ /\ o.must = "" /\ R.k = "unsupported" /\ R.proto = o.p /\ Claim([peer |-> o.peer, p |-> o.p, k |-> "neg"]) /\ UNCHANGED okst
          \/ /\ o.must = "" /\ R.k = "io" /\ (Claim([peer |-> o.peer, p |-> o.p, k |-> "io"]) \/ Claim([peer |-> o.peer, p |-> o.p, k |-> "timeout"])) /\ UNCHANGED okst
          \/ /\ o.must = "" /\ R.k = "io" /\ o.cause /\ UNCHANGED <<okst, fails>>
       /\ opens' = [opens EXCEPT ![R.i].st = "done"]
       /\ UNCHANGED <<reg, q, conns, pd, osr, nosr, inbp>>
(* T6 "resolves": after the drain nothing can move without the environment; whoever still waits must be waiting FOR the
   environment: a dial in flight to its peer, or an unanswered substream request on a connection to its peer *)
Justified(i) == pd[opens[i].peer] > 0 \/ \E x \in conns : x.peer = opens[i].peer /\ osr[x.c] # <<>>
End == /\ R.e = "end" /\ (\A i \in 1..Len(opens) : Waiting(i) => Justified(i)) = TRUE
       /\ UNCHANGED <<reg, q, conns, pd, opens, osr, nosr, okst, fails, inbp>>
Skip == R.e = "skip" /\ UNCHANGED <<reg, q, conns, pd, opens, osr, nosr, okst, fails, inbp>>

Next == l <= NRec /\ l' = l + 1 /\
        (Reset \/ Accept \/ DropInc \/ Inb \/ Inb1 \/ Inb2 \/ Recv \/ Open \/ Cancel \/ BehDial \/ BehQuiet \/ Est \/ DialFail \/ InDeny \/ CloseC
         \/ HOsr \/ HQuiet \/ OutOk \/ OutFail \/ Res \/ End \/ Skip)
Spec == Init /\ [][Next]_vars
(* T3: a stream is never queued for two registrations, nor twice *)
NoDuplicate == \A p1, p2 \in Protos : \A a \in 1..Len(q[p1]) : \A b \in 1..Len(q[p2]) : (p1 # p2 \/ a # b) => q[p1][a][1] # q[p2][b][1]
Progress == Mark(l)
====
