INIT Init
NEXT Next
