---- MODULE TlsCertRule ----
(* C18: the acceptance rule for libp2p TLS certificates over abstract certificates.
   cert = [selfSigned : BOOLEAN, valid : {"now","expired","notyet"}, exts : Seq(Ext)]
   Ext  = [k |-> "p2p", host, sig \in {"ok","wrongmsg","otherkey"}, keyOK, crit]   libp2p Public Key Extension
        | [k |-> "unk", crit]                                                       any other extension *)
EXTENDS Naturals, Sequences, FiniteSets
P2pIdx(c) == {j \in 1..Len(c.exts) : c.exts[j].k = "p2p"}
TheExt(c) == c.exts[CHOOSE j \in P2pIdx(c) : TRUE]
Accept(c) == /\ c.selfSigned
             /\ c.valid = "now"
             /\ Cardinality(P2pIdx(c)) = 1                                    \* exactly one libp2p extension
             /\ TheExt(c).keyOK /\ TheExt(c).sig = "ok"                       \* host key proves possession
             /\ \A j \in 1..Len(c.exts) : c.exts[j].k = "unk" => ~c.exts[j].crit   \* no unknown critical extension
PeerOf(c) == TheExt(c).host
====
