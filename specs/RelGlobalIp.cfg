INIT Init
NEXT Next
