---- MODULE GsDupCache ----
(* C33 (duplicate cache): transcription of time_cache.rs `DuplicateCache` = `TimeCache<K, ()>`:
   `map` key -> expiry, `list` = keys in insertion order with their expiry; `insert` first purges
   expired list heads (remove_expired_keys), then inserts only if the key is vacant; `contains`
   only looks at the map (lazy expiry).  Logical clock `now`, advanced by Tick.
   Refresh = TRUE is the CANARY: a re-insert of a live key moves its expiry.                   *)
EXTENDS Naturals, Sequences, FiniteSets, TLC
CONSTANTS Keys, Ttl, MaxNow, Refresh
VARIABLES map,     \* key -> expiry, 0 = absent (expiries are >= Ttl >= 1)
          list,    \* sequence of <<key, expiry>>
          now,
          born,    \* ghost: key -> time of the insertion that created the live entry, or -1 (encoded MaxNow+Ttl+1) if none
          purged   \* ghost: time of the latest insert call (purge point), for the laziness bound
vars == <<map, list, now, born, purged>>
NoBirth == MaxNow + Ttl + 1
Init == map = [k \in Keys |-> 0] /\ list = <<>> /\ now = 0 /\ born = [k \in Keys |-> NoBirth] /\ purged = 0
Tick == now < MaxNow /\ now' = now + 1 /\ UNCHANGED <<map, list, born, purged>>

RECURSIVE Purge(_, _)
\* remove_expired_keys: pop heads with expiry <= now; the map entry goes only if ITS expiry is <= now
Purge(m, l) == IF l = <<>> \/ Head(l)[2] > now THEN <<m, l>>
               ELSE LET k == Head(l)[1] IN
                    Purge(IF m[k] # 0 /\ m[k] <= now THEN [m EXCEPT ![k] = 0] ELSE m, Tail(l))
Live(k) == born[k] # NoBirth /\ now < born[k] + Ttl          \* the statement's notion: within ttl of the FIRST insertion
Insert(k) == LET p == Purge(map, list) IN
   /\ IF p[1][k] = 0
      THEN /\ map' = [p[1] EXCEPT ![k] = now + Ttl] /\ list' = Append(p[2], <<k, now + Ttl>>)
           /\ born' = [born EXCEPT ![k] = now]
      ELSE /\ map' = (IF Refresh THEN [p[1] EXCEPT ![k] = now + Ttl] ELSE p[1])
           /\ list' = (IF Refresh THEN Append(p[2], <<k, now + Ttl>>) ELSE p[2])
           /\ born' = born
   /\ purged' = now /\ UNCHANGED now
InsertResult(k) == Purge(map, list)[1][k] = 0                   \* what `insert` returns
Contains(k) == map[k] # 0
Next == Tick \/ \E k \in Keys : Insert(k)
Spec == Init /\ [][Next]_vars
(* ---- the statement ---- *)
SeenWithinTtl == \A k \in Keys : Live(k) => (Contains(k) /\ ~InsertResult(k))        \* seen from first insertion until ttl has passed
NewAfterTtl == \A k \in Keys : ~Live(k) => InsertResult(k)                           \* ... and not longer (an insert finds it vacant)
NotRefreshed == \A k \in Keys : map[k] # 0 => map[k] = born[k] + Ttl                 \* re-insertion does not move the expiry
LazyBound == \A k \in Keys : (Contains(k) /\ ~Live(k)) => purged < born[k] + Ttl     \* `contains` may lag only until the next insert call
ListSorted == \A i \in 1..(Len(list) - 1) : list[i][2] <= list[i + 1][2]
====
