CONSTANTS
  Ids = {1, 2}
  Peers = {p1, p2}
  Local = local
  NoPeer = nopeer
  Canary = "none"
INIT Init
NEXT Next
INVARIANT TermOnce ClosedOnce ClosedOnlyAfterEst SameView CountersOK IdentityOK DeniedFinal AllResolvedAtQuiescence
