CONSTANTS
  NamesN = 1
  HostsN = 1
  Ips = 2
  MaxLookups = 3
  MaxAttempts = 2
  MaxTxt = 2
  WithForeign = TRUE
  LookupOffByOne = FALSE
  NoSuffixFilter = TRUE
  EmptyPanics = FALSE
INIT Init
NEXT Next
INVARIANT Bounded OnlyResolved SuffixOK NoPanic
