---- MODULE GenSwarmConn ----
(* (G) stage: behaviours of the SwarmConn model as stimulus schedules for the real Swarm.
   Every model action appends the driver command that realises it (environment actions) or a `poll1`
   token (internal actions: the Swarm has to be polled for them to happen). The behaviours' decision
   at the established stage is drawn when the connection id is handed out (prophecy `willDeny`), because
   the driver has to script it at that moment. Used with `-simulate`; h is printed at the depth bound. *)
EXTENDS SwarmConn, Json, Integers
CONSTANTS Depth, PeerOne
VARIABLES h, willDeny
gvars == <<vars, h, willDeny>>
PeerNo(p) == IF p = Local THEN 0 ELSE IF p = NoPeer THEN -1 ELSE IF p = PeerOne THEN 1 ELSE 2
GInit == Init /\ h = <<>> /\ willDeny = [i \in Ids |-> FALSE]
Plan(dp, de) == <<<<dp, de>>, <<FALSE, FALSE>>, <<FALSE, FALSE>>>>
GDial(p, c, s, de) ==
  /\ Dial(p, c, s) /\ Ids \ used # {}
  /\ willDeny' = [willDeny EXCEPT ![NextId] = de]
  /\ h' = Append(h, [c |-> "dial", peer |-> PeerNo(p), cond |-> c, addrs |-> IF s = "noaddr" THEN (IF p = NoPeer THEN <<100>> ELSE <<>>) ELSE <<1>>, plan |-> Plan(s = "denied", de)])
GIncoming(d, de) ==
  /\ Incoming(d) /\ Ids \ used # {}
  /\ willDeny' = [willDeny EXCEPT ![NextId] = de]
  /\ h' = Append(Append(h, [c |-> "incoming", plan |-> Plan(d, de)]), [c |-> "poll1"])
GTask(i, o, w) == TaskStep(i, o, w) /\ h' = Append(h, [c |-> "envConn", id |-> i, ok |-> (o = "ok"), who |-> PeerNo(w)]) /\ UNCHANGED willDeny
GPoolPending == pendChan # <<>> /\ PoolPending(willDeny[Head(pendChan)[2]]) /\ h' = Append(h, [c |-> "poll1"]) /\ UNCHANGED willDeny
GClose(i) == StartClose(i) /\ h' = Append(h, [c |-> "close", id |-> i]) /\ UNCHANGED willDeny
GDisconnect(p) == (IsConnected(p) \/ IsDialing(p)) /\ Disconnect(p) /\ h' = Append(h, [c |-> "disconnect", peer |-> PeerNo(p)]) /\ UNCHANGED willDeny
GMuxFail(i) == EtaskStep(i, "error") /\ h' = Append(h, [c |-> "failMux", id |-> i]) /\ UNCHANGED willDeny
GInternal == /\ \/ \E i \in Ids : EtaskStep(i, "close") \/ PoolClosed(i)
                \/ EmitSwarmEvent
             /\ h' = Append(h, [c |-> "poll1"]) /\ UNCHANGED willDeny
GNext == \/ \E p \in Expect, c \in Conds, s \in {"ok", "ok", "denied", "noaddr"}, de \in BOOLEAN : GDial(p, c, s, de)
         \/ \E d \in BOOLEAN, de \in BOOLEAN : GIncoming(d, de)
         \/ \E i \in Ids, o \in {"ok", "fail"}, w \in Auth : GTask(i, o, w)
         \/ GPoolPending \/ GInternal
         \/ \E i \in Ids : GClose(i) \/ GMuxFail(i)
         \/ \E p \in Peers : GDisconnect(p)
Emit == (TLCGet("level") < Depth /\ ENABLED GNext) \/ PrintT(<<"REPLAY", ToJson(h)>>)
====
