INIT Init
NEXT Next
