---- MODULE TraceGsCaches ----
(* C33 trace validation: every return value of the REAL gossipsub DuplicateCache / MessageCache
   against the documented windows (the reference model is rebuilt from the events only).

   kind "dup": reset(ttl) ; ins(k, now, res) ; has(k, now, res)        now = logical time >= 1
     a key is LIVE from the insert that found it absent until ttl has passed (re-inserts do
     not refresh).  ins returns TRUE iff the key is not live.  has returns TRUE while live and
     FALSE for a key that is not live - except that an expired key may still be reported until
     the next ins call after its expiry (documented lazy purge: "insert ... removes any
     expired elements").
   kind "mc": reset(gossip, hist) ; put(id, t, res) ; val(id, res) ; rm(id, res) ; shift ;
              gossip(t, ids) ; iwant(id, p, res = 0 for None, else the count) ; obs(id, p)
     a message is PRESENT from the put that found it absent until removed or until hist shifts
     have happened; gossip(t) = exactly the present, validated messages of topic t put fewer
     than `gossip` shifts ago; iwant returns the message only while present (always if
     validated; the statement leaves unvalidated ones open) and its count is exactly the
     number of successful requests of that peer for this message so far.                     *)
EXTENDS TraceIO, FiniteSets
VARIABLES l, kind, ttl, gossip, hist, now, born, lastIns, pres, valid, age, topic, cnt
vars == <<l, kind, ttl, gossip, hist, now, born, lastIns, pres, valid, age, topic, cnt>>
R == Rec[l]
K == 0..7
PP == 0..3
Zero2 == [i \in K |-> [p \in PP |-> 0]]
Init == /\ l = 1 /\ kind = "none" /\ ttl = 0 /\ gossip = 0 /\ hist = 0 /\ now = 0
        /\ born = [k \in K |-> 0] /\ lastIns = 0
        /\ pres = [i \in K |-> FALSE] /\ valid = [i \in K |-> FALSE] /\ age = [i \in K |-> 0]
        /\ topic = [i \in K |-> 0] /\ cnt = Zero2 /\ InitReg
Reset == /\ R.e = "reset" /\ kind' = R.kind
         /\ ttl' = (IF R.kind = "dup" THEN R.ttl ELSE 0)
         /\ gossip' = (IF R.kind = "mc" THEN R.gossip ELSE 0) /\ hist' = (IF R.kind = "mc" THEN R.hist ELSE 0)
         /\ now' = 0 /\ born' = [k \in K |-> 0] /\ lastIns' = 0
         /\ pres' = [i \in K |-> FALSE] /\ valid' = [i \in K |-> FALSE] /\ age' = [i \in K |-> 0]
         /\ topic' = [i \in K |-> 0] /\ cnt' = Zero2
McUnch == UNCHANGED <<pres, valid, age, topic, cnt>>
DupUnch == UNCHANGED <<born, lastIns, now>>
Cfg == UNCHANGED <<kind, ttl, gossip, hist>>
(* ---------------- duplicate cache ---------------- *)
Live(k, t) == born[k] > 0 /\ t < born[k] + ttl
Ins == /\ R.e = "ins" /\ kind = "dup" /\ R.now >= now /\ R.now >= 1 /\ now' = R.now
       /\ R.res = ~Live(R.k, R.now)
       /\ born' = (IF R.res THEN [born EXCEPT ![R.k] = R.now] ELSE born)
       /\ lastIns' = R.now /\ McUnch /\ Cfg
HasOK(k, t, res) == IF Live(k, t) THEN res
                    ELSE IF born[k] = 0 THEN ~res
                    ELSE (lastIns >= born[k] + ttl) => ~res              \* expired: gone at the latest after the next ins call
HasEv == /\ R.e = "has" /\ kind = "dup" /\ R.now >= now /\ R.now >= 1 /\ now' = R.now
       /\ HasOK(R.k, R.now, R.res) = TRUE
       /\ UNCHANGED <<born, lastIns>> /\ McUnch /\ Cfg
(* ---------------- message cache ---------------- *)
Put == /\ R.e = "put" /\ kind = "mc"
       /\ R.res = (hist = 0 \/ ~pres[R.id])
       /\ IF hist > 0 /\ ~pres[R.id]
          THEN /\ pres' = [pres EXCEPT ![R.id] = TRUE] /\ valid' = [valid EXCEPT ![R.id] = FALSE]
               /\ age' = [age EXCEPT ![R.id] = 0] /\ topic' = [topic EXCEPT ![R.id] = R.t]
               /\ cnt' = [cnt EXCEPT ![R.id] = [p \in PP |-> 0]]
          ELSE McUnch
       /\ DupUnch /\ Cfg
Val == /\ R.e = "val" /\ kind = "mc" /\ R.res = pres[R.id]
       /\ valid' = (IF pres[R.id] THEN [valid EXCEPT ![R.id] = TRUE] ELSE valid)
       /\ UNCHANGED <<pres, age, topic, cnt>> /\ DupUnch /\ Cfg
Rm == /\ R.e = "rm" /\ kind = "mc" /\ R.res = pres[R.id]
      /\ pres' = [pres EXCEPT ![R.id] = FALSE] /\ cnt' = [cnt EXCEPT ![R.id] = [p \in PP |-> 0]]
      /\ UNCHANGED <<valid, age, topic>> /\ DupUnch /\ Cfg
Shift == /\ R.e = "shift" /\ kind = "mc"
         /\ age' = [i \in K |-> age[i] + 1]
         /\ pres' = [i \in K |-> pres[i] /\ age[i] + 1 < hist]
         /\ cnt' = [i \in K |-> IF pres[i] /\ age[i] + 1 < hist THEN cnt[i] ELSE [p \in PP |-> 0]]
         /\ UNCHANGED <<valid, topic>> /\ DupUnch /\ Cfg
Offered(t) == {i \in K : pres[i] /\ valid[i] /\ topic[i] = t /\ age[i] < gossip}
Gossip == /\ R.e = "gossip" /\ kind = "mc"
          /\ ({R.ids[j] : j \in 1..Len(R.ids)} = Offered(R.t)) = TRUE
          /\ Len(R.ids) = Cardinality(Offered(R.t))
          /\ McUnch /\ DupUnch /\ Cfg
IwantOK(i, p, res) == IF ~pres[i] THEN res = 0
                      ELSE IF valid[i] THEN res = cnt[i][p] + 1
                      ELSE res \in {0, cnt[i][p] + 1}
Iwant == /\ R.e = "iwant" /\ kind = "mc" /\ IwantOK(R.id, R.p, R.res) = TRUE
         /\ cnt' = (IF R.res > 0 THEN [cnt EXCEPT ![R.id][R.p] = R.res] ELSE cnt)
         /\ UNCHANGED <<pres, valid, age, topic>> /\ DupUnch /\ Cfg
Obs == R.e = "obs" /\ kind = "mc" /\ McUnch /\ DupUnch /\ Cfg
Next == l <= NRec /\ l' = l + 1 /\ (Reset \/ Ins \/ HasEv \/ Put \/ Val \/ Rm \/ Shift \/ Gossip \/ Iwant \/ Obs)
Spec == Init /\ [][Next]_vars
WindowInv == \A i \in K : pres[i] => age[i] < hist       \* redundant with Shift; the statement's upper bound
Progress == Mark(l)
====
