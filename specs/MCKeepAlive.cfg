CONSTANTS
  Timeout = 2
  MaxTime = 5
  MaxStreams = 2
  NoReset = FALSE
INIT Init
NEXT Next
INVARIANT NeverClosedWhileBusy NotBeforeTimeout
