---- MODULE TraceKadStore ----
(* C41 trace validation: the REAL MemoryStore (driver: drv-kad store) against the bounded-map reference model.
   State = the reference model (records: set of <<key, size, tag>>, providers: set of <<key, provider, tag>>);
   after every op the projected real store (records(), providers(k) for every k, provided()) must equal it:
     put     replaces / inserts; refused (state unchanged) iff size >= max_value_bytes, or key new and max_records stored
     get     returns the latest put
     remove  deletes
     addp    updates the provider's record in place, else appends if fewer than max_providers_per_key are listed
             (a full list ignores the newcomer), a NEW key is refused with MaxProvidedKeys once max_provided_keys keys have providers
     remp    deletes that provider's record
     provided() = exactly the local node's (provider 0) current records *)
EXTENDS TraceIO, FiniteSets, Integers
VARIABLES l, recs, provs, nk, np, maxr, maxv, maxp, maxk
vars == <<l, recs, provs, nk, np, maxr, maxv, maxp, maxk>>
R == Rec[l]
Init == l = 1 /\ recs = {} /\ provs = {} /\ nk = 1 /\ np = 1 /\ maxr = 1 /\ maxv = 1 /\ maxp = 1 /\ maxk = 1 /\ InitReg
Reset == /\ R.e = "reset" /\ recs' = {} /\ provs' = {}
         /\ nk' = R.nk /\ np' = R.np /\ maxr' = R.maxr /\ maxv' = R.maxv /\ maxp' = R.maxp /\ maxk' = R.maxk

Val(size, tag) == IF size = 0 THEN <<0, 0>> ELSE <<size, tag>>
HasRec(k) == \E r \in recs : r[1] = k
ProvKeys == {t[1] : t \in provs}
ProvsOf(k) == {t \in provs : t[1] = k}

PutRefused == R.size >= maxv \/ (~HasRec(R.k) /\ Cardinality(recs) >= maxr)
NextRecs ==
  IF R.e = "put" /\ ~PutRefused THEN {r \in recs : r[1] # R.k} \cup {<<R.k, Val(R.size, R.tag)[1], Val(R.size, R.tag)[2]>>}
  ELSE IF R.e = "remove" THEN {r \in recs : r[1] # R.k}
  ELSE recs
AddNewKeyRefused == R.k \notin ProvKeys /\ Cardinality(ProvKeys) >= maxk
NextProvs ==
  IF R.e = "addp" THEN
     IF AddNewKeyRefused THEN provs
     ELSE IF \E t \in ProvsOf(R.k) : t[2] = R.p THEN {t \in provs : ~(t[1] = R.k /\ t[2] = R.p)} \cup {<<R.k, R.p, R.tag>>}
     ELSE IF Cardinality(ProvsOf(R.k)) >= maxp THEN provs
     ELSE provs \cup {<<R.k, R.p, R.tag>>}
  ELSE IF R.e = "remp" THEN {t \in provs : ~(t[1] = R.k /\ t[2] = R.p)}
  ELSE provs

ObsRecs == {<<R.recs[j][1], R.recs[j][2], R.recs[j][3]>> : j \in 1..Len(R.recs)}
ObsProvs == UNION {{<<i - 1, R.pv[i][j][1], R.pv[i][j][2]>> : j \in 1..Len(R.pv[i])} : i \in 1..Len(R.pv)}
ObsProvided == {<<R.provided[j][1], R.provided[j][2]>> : j \in 1..Len(R.provided)}

ResultOK ==
  /\ R.e = "put" => IF PutRefused
                    THEN R.res \in (IF R.size >= maxv THEN {"ValueTooLarge"} ELSE {})
                                   \cup (IF ~HasRec(R.k) /\ Cardinality(recs) >= maxr THEN {"MaxRecords"} ELSE {})
                    ELSE R.res = "ok"
  /\ R.e = "get" => IF HasRec(R.k) THEN ~(DOMAIN R.got = {}) /\ R.got[3] = R.k /\ <<R.k, R.got[1], R.got[2]>> \in recs
                    ELSE DOMAIN R.got = {}
  /\ R.e = "addp" => IF AddNewKeyRefused THEN R.res = "MaxProvidedKeys" ELSE R.res = "ok"

Projected ==
  /\ Len(R.pv) = nk
  /\ Len(R.recs) = Cardinality(ObsRecs) /\ ObsRecs = NextRecs                                   \* no key twice
  /\ \A i \in 1..Len(R.pv) : /\ \A j \in 1..Len(R.pv[i]) : R.pv[i][j][3] = i - 1              \* listed under its own key
                             /\ Len(R.pv[i]) <= maxp
                             /\ Cardinality({R.pv[i][j][1] : j \in 1..Len(R.pv[i])}) = Len(R.pv[i])   \* a provider once per key
  /\ ObsProvs = NextProvs
  /\ Len(R.provided) = Cardinality(ObsProvided)
  /\ \A j \in 1..Len(R.provided) : R.provided[j][3] = 0
  /\ ObsProvided = {<<t[1], t[3]>> : t \in {u \in NextProvs : u[2] = 0}}

Op == /\ R.e \in {"put", "get", "remove", "addp", "remp"}
      /\ IF ResultOK /\ Projected THEN TRUE ELSE FALSE
      /\ recs' = NextRecs /\ provs' = NextProvs
      /\ UNCHANGED <<nk, np, maxr, maxv, maxp, maxk>>
Next == l <= NRec /\ l' = l + 1 /\ (Reset \/ Op)
Spec == Init /\ [][Next]_vars
(* the statement's bounds on the reference state itself *)
Bounded == /\ Cardinality(recs) <= maxr /\ \A r \in recs : r[2] < maxv
           /\ \A k \in ProvKeys : Cardinality(ProvsOf(k)) <= maxp
Progress == Mark(l)
====
