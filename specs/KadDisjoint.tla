---- MODULE KadDisjoint ----
(* ClosestDisjointPeersIter (protocols/kad/src/query/peers/closest/disjoint.rs): `Par` ClosestPeersIter paths over the
   same initial peers; a peer is contacted by the first path that yields it, later paths only learn the outcome
   (never the closer peers). Transcription without time (peer timeouts are covered per path by KadLookup). C39. *)
EXTENDS Naturals, Sequences, FiniteSets, TLC
CONSTANTS N, Par, NumRes, Seeds,
          ShareCloser     \* canary: closer peers of a response are handed to every path (paths no longer disjoint)
Peers == 1..N
Paths == 1..Par
Max(a, b) == IF a > b THEN a ELSE b
VARIABLES path,     \* path index -> [st : peer -> state, nw, mode, np]
          resp,     \* peer -> "none" | "Waiting" | "Succeeded" | "Failed"      (contacted_peers)
          by,       \* peer -> initiating path (0 = none)
          ord,      \* next path to query (iter_order)
          last,     \* result of the last next(): "none" | "issue" | "waiting" | "capacity" | "finished"
          learnt    \* path index -> peers whose closer sets this path has been given (ghost)
vars == <<path, resp, by, ord, last, learnt>>
InitPath == [st |-> [p \in Peers |-> IF p \in Seeds THEN "NotContacted" ELSE "unknown"], nw |-> 0, mode |-> "Iterating", np |-> 0]
Init == /\ path = [i \in Paths |-> InitPath] /\ resp = [p \in Peers |-> "none"] /\ by = [p \in Peers |-> 0]
        /\ ord = 1 /\ last = "none" /\ learnt = [i \in Paths |-> {}]

(* ---- one ClosestPeersIter (no time) ---- *)
AtCap(P) == IF P.mode = "Stalled" THEN P.nw >= Max(NumRes, Par) ELSE IF P.mode = "Iterating" THEN P.nw >= Par ELSE TRUE
RECURSIVE Scan(_, _, _)
Scan(P, p, cnt) ==       \* cnt = N + 1 encodes "None"
  IF p > N THEN (IF P.nw > 0 THEN [P |-> P, res |-> "waiting", who |-> 0] ELSE [P |-> [P EXCEPT !.mode = "Finished"], res |-> "finished", who |-> 0])
  ELSE IF P.st[p] = "Waiting" THEN (IF AtCap(P) THEN [P |-> P, res |-> "capacity", who |-> 0] ELSE Scan(P, p + 1, N + 1))
  ELSE IF P.st[p] = "Succeeded" THEN
         (IF cnt <= N /\ cnt + 1 >= NumRes THEN [P |-> [P EXCEPT !.mode = "Finished"], res |-> "finished", who |-> 0]
          ELSE Scan(P, p + 1, IF cnt <= N THEN cnt + 1 ELSE cnt))
  ELSE IF P.st[p] = "NotContacted" THEN
         (IF ~AtCap(P) THEN [P |-> [P EXCEPT !.st[p] = "Waiting", !.nw = @ + 1], res |-> "issue", who |-> p]
          ELSE [P |-> P, res |-> "capacity", who |-> 0])
  ELSE Scan(P, p + 1, cnt)
NextP(P) == IF P.mode = "Finished" THEN [P |-> P, res |-> "finished", who |-> 0] ELSE Scan(P, 1, 0)
SuccP(P, p, closer) ==
  IF P.mode = "Finished" \/ P.st[p] # "Waiting" THEN [P |-> P, ok |-> FALSE]
  ELSE LET s1 == [P.st EXCEPT ![p] = "Succeeded"]
           known1 == {q \in Peers : s1[q] # "unknown"}
           ranked == {q \in known1 : Cardinality({x \in known1 : x <= q}) = NumRes}
           cur == IF ranked # {} THEN CHOOSE q \in ranked : TRUE ELSE CHOOSE q \in known1 : \A x \in known1 : x <= q
           fresh == closer \ known1
           progress == Cardinality(known1) < NumRes \/ \E q \in fresh : q < cur
           s2 == [q \in Peers |-> IF q \in fresh THEN "NotContacted" ELSE s1[q]]
           m == IF P.mode = "Iterating" THEN (IF (IF progress THEN 0 ELSE P.np + 1) >= Par THEN "Stalled" ELSE "Iterating")
                ELSE IF progress THEN "Iterating" ELSE "Stalled"
           n2 == IF P.mode = "Iterating" /\ m = "Iterating" THEN (IF progress THEN 0 ELSE P.np + 1) ELSE 0 IN
       [P |-> [st |-> s2, nw |-> P.nw - 1, mode |-> m, np |-> n2], ok |-> TRUE]
FailP(P, p) == IF P.mode = "Finished" \/ P.st[p] # "Waiting" THEN [P |-> P, ok |-> FALSE]
               ELSE [P |-> [P EXCEPT !.st[p] = "Failed", !.nw = @ - 1], ok |-> TRUE]

(* ---- the disjoint wrapper ---- *)
RECURSIVE PathLoop(_, _)       \* query one path until it yields a fresh peer or stops yielding; fuel bounds the loop
PathLoop(P, fuel) ==
  LET r == NextP(P) IN
  IF r.res # "issue" \/ fuel = 0 THEN r
  ELSE IF resp[r.who] = "none" THEN r
  ELSE PathLoop(IF resp[r.who] = "Succeeded" THEN SuccP(r.P, r.who, {}).P
                ELSE IF resp[r.who] = "Failed" THEN FailP(r.P, r.who).P ELSE r.P, fuel - 1)
Wrap(i) == IF i > Par THEN i - Par ELSE i
RECURSIVE Round(_, _, _, _)    \* k paths still to query, pa = paths so far, i = current path, acc = combined state
Round(k, pa, i, acc) ==
  IF k = 0 THEN [pa |-> pa, res |-> IF acc = "none" THEN "finished" ELSE acc, who |-> 0, i |-> i]
  ELSE LET r == PathLoop(pa[i], N + 1)  pa1 == [pa EXCEPT ![i] = r.P] IN
       IF r.res = "issue" THEN [pa |-> pa1, res |-> "issue", who |-> r.who, i |-> i]
       ELSE Round(k - 1, pa1, Wrap(i + 1),
                  IF r.res = "waiting" THEN "waiting" ELSE IF r.res = "capacity" /\ acc = "none" THEN "capacity" ELSE acc)
CallNext ==
  LET r == Round(Par, path, ord, "none") IN
  /\ path' = r.pa /\ last' = r.res
  /\ IF r.res = "issue" THEN resp' = [resp EXCEPT ![r.who] = "Waiting"] /\ by' = [by EXCEPT ![r.who] = r.i] /\ ord' = Wrap(r.i + 1)
     ELSE UNCHANGED <<resp, by>> /\ ord' = ord
  /\ UNCHANGED learnt
OnSuccess(p, closer) ==
  /\ resp[p] # "none"
  /\ LET f == by[p]  r == SuccP(path[f], p, closer) IN
     /\ path' = [i \in Paths |-> IF i = f THEN r.P ELSE SuccP(path[i], p, IF ShareCloser THEN closer ELSE {}).P]
     /\ resp' = IF r.ok THEN [resp EXCEPT ![p] = "Succeeded"] ELSE resp
     /\ learnt' = [i \in Paths |-> IF (i = f /\ r.ok) \/ (ShareCloser /\ SuccP(path[i], p, closer).ok) THEN learnt[i] \cup {p} ELSE learnt[i]]
  /\ last' = "none" /\ UNCHANGED <<by, ord>>
OnFailure(p) ==
  /\ resp[p] # "none"
  /\ LET f == by[p]  r == FailP(path[f], p) IN
     /\ path' = [i \in Paths |-> IF i = f THEN r.P ELSE FailP(path[i], p).P]
     /\ resp' = IF r.ok THEN [resp EXCEPT ![p] = "Failed"] ELSE resp
  /\ last' = "none" /\ UNCHANGED <<by, ord, learnt>>
Next == CallNext \/ (\E p \in Peers, c \in SUBSET Peers : OnSuccess(p, c)) \/ (\E p \in Peers : OnFailure(p))
Spec == Init /\ [][Next]_vars

(* ---- C39 for the disjoint iterator ---- *)
InFlight == {p \in Peers : resp[p] = "Waiting"}
InFlightBound == Cardinality(InFlight) <= Par * Max(NumRes, Par)
PathBound == \A i \in Paths : path[i].nw <= Max(NumRes, Par) /\ path[i].nw = Cardinality({p \in Peers : path[i].st[p] = "Waiting"})
ContactedOnce == \A p \in Peers : (resp[p] = "none") = (by[p] = 0)
Disjoint == \A i, j \in Paths : i # j => learnt[i] \cap learnt[j] = {}          \* a response's closer peers reach one path only
PathResult(i) == LET S == {p \in Peers : path[i].st[p] = "Succeeded"} IN {p \in S : Cardinality({q \in S : q <= p}) <= NumRes}
Result == UNION {PathResult(i) : i \in Paths}
ResultOK == /\ Cardinality(Result) <= Par * NumRes
            /\ \A p \in Result : resp[p] \in {"Succeeded", "Waiting"}          \* (a success the initiating path refused is still a response)
AllFinished == \A i \in Paths : path[i].mode = "Finished"
Quiet == InFlight = {}
(* termination: with nothing in flight a call hands out a peer or finishes (possibly after one stale "capacity" answer) *)
StuckFree == (Quiet /\ ~AllFinished) =>
               LET r == Round(Par, path, ord, "none") IN
               r.res \in {"issue", "finished"} \/ (Round(Par, r.pa, ord, "none").res \in {"issue", "finished"})
====
