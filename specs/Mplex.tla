---- MODULE Mplex ----
(* Receive side of one mplex endpoint (muxers/mplex/src/io.rs) against a raw frame injector
   (grown from the design prototype, DESIGN.md Appendix D).  C26 (limits, refusal, no loss) and the
   inbound half of C24 (per-substream ordered delivery).
   One action per critical section of the code: on_open / buffer / on_close / on_reset (OnFrame),
   poll_next_stream, poll_read_stream, poll_open_stream, poll_close_stream, drop_stream.
   Switches select the code as it is (all TRUE) or a canary:
     GeLimit     on_open refuses when |substreams| >= max_substreams   (FALSE: `>`)
     DropClears  drop_stream releases `blocking_stream` when the blocking substream is dropped
     ResetKeeps  on_reset keeps the table entry of an already Closed/Reset substream *)
EXTENDS Naturals, Sequences, FiniteSets, TLC
CONSTANTS Streams,      \* substream ids
          MaxSub,       \* config.max_substreams
          MaxBuf,       \* config.max_buffer_len
          Block,        \* TRUE = MaxBufferBehaviour::Block, FALSE = ResetStream
          DataPer,      \* data frames the remote sends per stream at most
          GeLimit, DropClears, ResetKeeps
VARIABLES wire,         \* frames injected by the remote, not yet read           <<kind, stream, n>>
          sub,          \* stream -> "none"|"Open"|"SendClosed"|"RecvClosed"|"Closed"|"Reset"
          buf,          \* stream -> sequence of buffered data frame numbers
          openBuf,      \* inbound streams accepted but not yet returned by poll_next_stream
          pendingOut,   \* frames the endpoint still has to send (Reset / Close)
          blocking,     \* stream whose full buffer blocks all reading, or 0
          handed,       \* streams handed to the application (poll_inbound / poll_outbound)
          dropped,      \* streams the application dropped
          appRead,      \* stream -> data frame numbers read by the application, in order
          eof,          \* stream -> application saw end-of-stream
          sent,         \* stream -> number of data frames injected so far
          opened,       \* streams the remote knows about (it sent Open, or the local side opened them)
          refused,      \* opens answered with a reset (monitor)
          failed,       \* connection-level protocol error
          closedBy      \* streams for which the remote already sent Close or Reset
vars == <<wire, sub, buf, openBuf, pendingOut, blocking, handed, dropped, appRead, eof, sent, opened, refused, failed, closedBy>>

Init == /\ wire = <<>> /\ sub = [s \in Streams |-> "none"] /\ buf = [s \in Streams |-> <<>>]
        /\ openBuf = <<>> /\ pendingOut = <<>> /\ blocking = 0 /\ handed = {} /\ dropped = {}
        /\ appRead = [s \in Streams |-> <<>>] /\ eof = [s \in Streams |-> FALSE]
        /\ sent = [s \in Streams |-> 0] /\ opened = {} /\ refused = {} /\ failed = FALSE /\ closedBy = {}

NumSubs == Cardinality({s \in Streams : sub[s] # "none"})
RecvOpen(s) == sub[s] \in {"Open", "SendClosed"}

(* ---- remote: a raw frame injector (may flood; need not respect any window) ---- *)
InjectOpen(s) == s \notin opened /\ opened' = opened \cup {s} /\ wire' = Append(wire, <<"open", s, 0>>)
                 /\ UNCHANGED <<sub, buf, openBuf, pendingOut, blocking, handed, dropped, appRead, eof, sent, refused, failed, closedBy>>
InjectData(s) == s \in opened /\ s \notin closedBy /\ sent[s] < DataPer /\ sent' = [sent EXCEPT ![s] = @ + 1]
                 /\ wire' = Append(wire, <<"data", s, sent[s] + 1>>)
                 /\ UNCHANGED <<sub, buf, openBuf, pendingOut, blocking, handed, dropped, appRead, eof, opened, refused, failed, closedBy>>
InjectFin(s, k) == s \in opened /\ (k = "close" => s \notin closedBy) /\ (k = "reset" => ~(\E i \in 1..Len(wire) : wire[i] = <<"reset", s, 0>>))
                 /\ closedBy' = closedBy \cup {s} /\ wire' = Append(wire, <<k, s, 0>>)
                 /\ UNCHANGED <<sub, buf, openBuf, pendingOut, blocking, handed, dropped, appRead, eof, sent, opened, refused, failed>>

(* ---- processing of one inbound frame (shared by poll_next_stream and poll_read_stream) ---- *)
St(su, bu, ob, po, bl, rf, fl) == [sub |-> su, buf |-> bu, ob |-> ob, po |-> po, bl |-> bl, rf |-> rf, fail |-> fl]
Same == St(sub, buf, openBuf, pendingOut, blocking, refused, FALSE)
AtLimit == IF GeLimit THEN NumSubs >= MaxSub ELSE NumSubs > MaxSub
OnFrame(f) ==
  LET k == f[1] s == f[2] IN
  IF k = "open" THEN
       IF sub[s] # "none" THEN [Same EXCEPT !.fail = TRUE]
       ELSE IF AtLimit
            THEN [Same EXCEPT !.po = <<<<"reset", s>>>> \o pendingOut, !.rf = refused \cup {s}]
            ELSE [Same EXCEPT !.sub = [sub EXCEPT ![s] = "Open"], !.ob = <<s>> \o openBuf]
  ELSE IF k = "data" THEN
       IF ~RecvOpen(s) THEN Same                                           \* dropped: unknown/closed/reset
       ELSE LET nb == Append(buf[s], f[3]) IN
            IF Len(nb) > MaxBuf
            THEN IF Block THEN [Same EXCEPT !.buf = [buf EXCEPT ![s] = nb], !.bl = s]
                 ELSE [Same EXCEPT !.sub = [sub EXCEPT ![s] = "Reset"], !.buf = [buf EXCEPT ![s] = nb], !.po = <<<<"reset", s>>>> \o pendingOut]
            ELSE [Same EXCEPT !.buf = [buf EXCEPT ![s] = nb]]
  ELSE IF k = "close" THEN
       LET ns == IF sub[s] = "Open" THEN "RecvClosed" ELSE IF sub[s] = "SendClosed" THEN "Closed" ELSE sub[s] IN
       [Same EXCEPT !.sub = [sub EXCEPT ![s] = ns]]
  ELSE \* reset
       LET ns == IF sub[s] \in {"Open", "SendClosed", "RecvClosed"} THEN "Reset"
                 ELSE IF sub[s] \in {"Closed", "Reset"} THEN (IF ResetKeeps THEN sub[s] ELSE "none")
                 ELSE sub[s] IN
       [Same EXCEPT !.sub = [sub EXCEPT ![s] = ns], !.buf = IF ns = "none" THEN [buf EXCEPT ![s] = <<>>] ELSE buf]

Apply(r) == /\ sub' = r.sub /\ buf' = r.buf /\ openBuf' = r.ob /\ pendingOut' = r.po /\ blocking' = r.bl /\ refused' = r.rf /\ failed' = r.fail

(* poll_next_stream *)
AppNextStream ==
  /\ ~failed
  /\ IF openBuf # <<>>
     THEN /\ handed' = handed \cup {openBuf[Len(openBuf)]} /\ openBuf' = SubSeq(openBuf, 1, Len(openBuf) - 1)
          /\ UNCHANGED <<wire, sub, buf, pendingOut, blocking, dropped, appRead, eof, sent, opened, refused, failed, closedBy>>
     ELSE /\ blocking = 0 /\ wire # <<>>                 \* otherwise Pending
          /\ wire' = Tail(wire) /\ Apply(OnFrame(Head(wire)))
          /\ UNCHANGED <<handed, dropped, appRead, eof, sent, opened, closedBy>>

(* poll_open_stream: delayed while the table is full *)
AppOpenOut(s) ==
  /\ ~failed /\ s \notin opened /\ sub[s] = "none" /\ NumSubs < MaxSub
  /\ sub' = [sub EXCEPT ![s] = "Open"] /\ handed' = handed \cup {s} /\ opened' = opened \cup {s}
  /\ UNCHANGED <<wire, buf, openBuf, pendingOut, blocking, dropped, appRead, eof, sent, refused, failed, closedBy>>

(* poll_read_stream(s): one step of its loop *)
Live(s) == s \in handed /\ s \notin dropped
AppRead(s) ==
  /\ ~failed /\ Live(s) /\ ~eof[s]
  /\ IF buf[s] # <<>>
     THEN /\ appRead' = [appRead EXCEPT ![s] = Append(@, Head(buf[s]))] /\ buf' = [buf EXCEPT ![s] = Tail(@)]
          /\ blocking' = IF blocking = s THEN 0 ELSE blocking
          /\ UNCHANGED <<wire, sub, openBuf, pendingOut, handed, dropped, eof, sent, opened, refused, failed, closedBy>>
     ELSE IF ~RecvOpen(s)
     THEN /\ eof' = [eof EXCEPT ![s] = TRUE]
          /\ UNCHANGED <<wire, sub, buf, openBuf, pendingOut, blocking, handed, dropped, appRead, sent, opened, refused, failed, closedBy>>
     ELSE /\ blocking = 0 /\ wire # <<>>
          /\ LET f == Head(wire) IN
             /\ wire' = Tail(wire)
             /\ IF f[1] = "data" /\ f[2] = s
                THEN /\ appRead' = [appRead EXCEPT ![s] = Append(@, f[3])]     \* delivered directly, never buffered
                     /\ UNCHANGED <<sub, buf, openBuf, pendingOut, blocking, refused, failed>>
                ELSE /\ Apply(OnFrame(f)) /\ UNCHANGED appRead
          /\ UNCHANGED <<handed, dropped, eof, sent, opened, closedBy>>

(* poll_close_stream: half-close by the application (the Close frame goes out directly) *)
AppClose(s) ==
  /\ ~failed /\ Live(s) /\ sub[s] \in {"Open", "RecvClosed"}
  /\ sub' = [sub EXCEPT ![s] = IF sub[s] = "Open" THEN "SendClosed" ELSE "Closed"]
  /\ UNCHANGED <<wire, buf, openBuf, pendingOut, blocking, handed, dropped, appRead, eof, sent, opened, refused, failed, closedBy>>

(* drop_stream *)
AppDrop(s) ==
  /\ ~failed /\ Live(s)
  /\ dropped' = dropped \cup {s}
  /\ pendingOut' = IF sub[s] = "Open" THEN <<<<"reset", s>>>> \o pendingOut
                   ELSE IF sub[s] = "RecvClosed" THEN <<<<"close", s>>>> \o pendingOut ELSE pendingOut
  /\ sub' = [sub EXCEPT ![s] = "none"] /\ buf' = [buf EXCEPT ![s] = <<>>]
  /\ blocking' = IF DropClears /\ blocking = s THEN 0 ELSE blocking
  /\ UNCHANGED <<wire, openBuf, handed, appRead, eof, sent, opened, refused, failed, closedBy>>

Next == \/ \E s \in Streams : InjectOpen(s) \/ InjectData(s) \/ InjectFin(s, "close") \/ InjectFin(s, "reset")
                              \/ AppRead(s) \/ AppDrop(s) \/ AppClose(s) \/ AppOpenOut(s)
        \/ AppNextStream
Spec == Init /\ [][Next]_vars

(* ---- properties (C26 / inbound C24) ---- *)
SubstreamLimit == NumSubs <= MaxSub
(* "a substream is used as long as it has not been dropped": the table knows every live handle *)
HandedInTable == \A s \in Streams : Live(s) /\ ~failed => sub[s] # "none"
AppLimit == ~failed => Cardinality({s \in Streams : Live(s)}) <= MaxSub
BufferLimit == \A s \in Streams : Len(buf[s]) <= MaxBuf + 1
RefusedNeverHanded == \A s \in refused : s \notin handed /\ ~(\E i \in 1..Len(openBuf) : openBuf[i] = s)
RefusedGetsReset == \A s \in refused : \E i \in 1..Len(pendingOut) : pendingOut[i] = <<"reset", s>>
(* whoever blocks reading can be unblocked by the application: it is in the table with a full buffer *)
NoDeadBlock == blocking # 0 => sub[blocking] # "none" /\ Len(buf[blocking]) > 0
InOrder == \A s \in Streams : \A i \in 1..Len(appRead[s]) : i > 1 => appRead[s][i] > appRead[s][i-1]       \* ordered, no duplicates
RECURSIVE WD(_, _)
WD(q, s) == IF q = <<>> THEN <<>> ELSE (IF Head(q)[1] = "data" /\ Head(q)[2] = s THEN <<Head(q)[3]>> ELSE <<>>) \o WD(Tail(q), s)
(* with Block nothing is dropped for a substream that is open for reading: read ++ buffered ++ in flight is gap-free *)
NoLossWhenBlocking ==
  Block => \A s \in Streams : (RecvOpen(s) /\ s \notin refused /\ ~failed) =>
      LET all == appRead[s] \o buf[s] \o WD(wire, s) IN \A i \in 1..Len(all) : all[i] = i + (sent[s] - Len(all))
(* ... and for a live handle whatever was sent is read, buffered or in flight - up to end-of-stream *)
NoLossForLive ==
  Block => \A s \in Streams : (Live(s) /\ sub[s] # "none" /\ ~failed /\ ~eof[s] /\ s \notin refused /\ sub[s] # "Reset") =>
      Len(appRead[s]) + Len(buf[s]) + Len(WD(wire, s)) = sent[s]
EofOnlyAfterDrain == \A s \in Streams : (eof[s] /\ sub[s] # "none") => buf[s] = <<>>
====
