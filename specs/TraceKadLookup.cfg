INIT Init
NEXT Next
INVARIANT InFlightBound
CONSTRAINT Progress
POSTCONDITION Accepted
