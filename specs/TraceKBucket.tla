---- MODULE TraceKBucket ----
(* C37 (and the `closest` lines: C38) trace validation for the REAL KBucketsTable (driver: drv-kad kbucket).
   Property-level: the abstract state is the table the driver projected after the previous operation; every
   recorded operation must lead to a projected table that the STATEMENT allows:
     - capacity, uniqueness, right bucket, local key absent                         (state invariants)
     - disconnected entries before connected ones, each class least-recently-updated first: a stamp per key
       (event of its last insert / status update / pending application) must increase within a class
     - a key enters a bucket only by a successful insert or as the bucket's pending entry after its timeout; it
       leaves only by remove or as the bucket's FIRST entry, being DISCONNECTED, in a FULL bucket, evicted by
       that pending entry
     - a pending entry is created only for a full bucket whose first entry is disconnected
     - closest(t) lists every stored key exactly once in non-decreasing XOR distance to t   (C38)
   Which access applies a due pending entry is not constrained (any access may, none must). *)
EXTENDS TraceIO, FiniteSets, Integers
VARIABLES l, bk, pd, due, stamp, now, B, local, cap, timeout
vars == <<l, bk, pd, due, stamp, now, B, local, cap, timeout>>
R == Rec[l]

Mod2(a) == a - 2 * (a \div 2)
RECURSIVE Xor(_, _)
Xor(a, b) == IF a = 0 THEN b ELSE IF b = 0 THEN a ELSE Mod2(Mod2(a) + Mod2(b)) + 2 * Xor(a \div 2, b \div 2)
RECURSIVE Ilog2(_)
Ilog2(d) == IF d <= 1 THEN 0 ELSE 1 + Ilog2(d \div 2)
BIdx(k) == Ilog2(Xor(local, k)) + 1                    \* 1-based bucket of key k # local
Empty(x) == DOMAIN x = {}          \* (a JSON [] is not TLC-equal to <<>>)
KeysOf(s) == {s[p][1] : p \in 1..Len(s)}
PosOf(s, k) == CHOOSE p \in 1..Len(s) : s[p][1] = k
StOf(s, k) == s[PosOf(s, k)][2]

Init == /\ l = 1 /\ bk = <<>> /\ pd = <<>> /\ due = <<>> /\ stamp = <<>> /\ now = 0
        /\ B = 1 /\ local = 0 /\ cap = 1 /\ timeout = 0 /\ InitReg

Reset == /\ R.e = "reset"
         /\ B' = R.B /\ local' = R.local /\ cap' = R.cap /\ timeout' = R.timeout /\ now' = 0
         /\ bk' = [i \in 1..R.B |-> <<>>] /\ pd' = [i \in 1..R.B |-> <<>>] /\ due' = [i \in 1..R.B |-> 0]
         /\ stamp' = [k \in 0..(2^R.B - 1) |-> 0]

HasKey == R.e \in {"ins", "upd", "rem", "get"}
Touched(i) == HasKey /\ R.k # local /\ BIdx(R.k) = i
InsK(i) == IF Touched(i) /\ R.e = "ins" /\ R.res = "inserted" THEN {R.k} ELSE {}
RemK(i) == IF Touched(i) /\ R.e = "rem" /\ R.found[1] = "present" THEN {R.k} ELSE {}
UpdK(i) == IF Touched(i) /\ R.e = "upd" /\ R.found[1] = "present" THEN {R.k} ELSE {}
NewPending(i) == Touched(i) /\ R.e = "ins" /\ R.res = "pending"
\* the bucket's pending key was applied and then removed by this very `rem` (never visible in a projected state)
RemApplied(i) == Touched(i) /\ R.e = "rem" /\ R.found[1] = "present" /\ ~Empty(pd[i]) /\ pd[i][1] = R.k /\ R.k \notin KeysOf(bk[i])
Appeared(i) == ((KeysOf(R.b[i]) \ KeysOf(bk[i])) \ InsK(i)) \cup (IF RemApplied(i) THEN {R.k} ELSE {})
Vanished(i) == (KeysOf(bk[i]) \ KeysOf(R.b[i])) \ RemK(i)
AppliedAt(i) == Appeared(i) # {}

BucketStep(i) ==
  LET P == bk[i]  Q == R.b[i]  KP == KeysOf(bk[i])  KQ == KeysOf(R.b[i])
      ins == InsK(i)  rem == RemK(i)
      app == Appeared(i)   van == (KP \ KQ) \ rem IN
  /\ ins \subseteq KQ /\ ins \cap KP = {} /\ rem \cap KQ = {}
  \* entering / leaving
  /\ \/ app = {} /\ van = {}
     \/ /\ ~Empty(pd[i]) /\ app = {pd[i][1]} /\ R.now >= due[i]
        /\ IF RemApplied(i) THEN R.found[2] = pd[i][2]
           ELSE StOf(Q, pd[i][1]) = (IF pd[i][1] \in UpdK(i) THEN R.st ELSE pd[i][2])     \* (applied, then updated by this very op)
        /\ \/ van = {} /\ Len(P) < cap
           \/ Len(P) >= cap /\ van = {P[1][1]} /\ P[1][2] = 0
  \* statuses of the untouched survivors are unchanged; an updated present key has the requested status
  /\ \A k \in (KeysOf(P) \cap KeysOf(Q)) \ UpdK(i) : StOf(Q, k) = StOf(P, k)
  /\ \A k \in UpdK(i) : k \in KeysOf(Q) => StOf(Q, k) = R.st
  /\ \A k \in InsK(i) : StOf(Q, k) = R.st
  \* pending entry
  /\ IF NewPending(i)
     THEN /\ ~Empty(R.p[i]) /\ R.p[i][1] = R.k /\ R.p[i][2] = R.st /\ R.st = 1
          /\ (Empty(pd[i]) \/ pd[i][1] \in KeysOf(Q) \/ R.now >= due[i])      \* old one applied or dropped when due
          /\ Len(Q) >= cap /\ Q[1][2] = 0 /\ R.dk = Q[1][1]
          /\ R.k \notin KeysOf(Q)
     ELSE \/ Empty(R.p[i])
          \/ /\ ~Empty(pd[i]) /\ R.p[i][1] = pd[i][1] /\ R.p[i][1] \notin KeysOf(Q)
             /\ R.p[i][2] = (IF Touched(i) /\ R.e = "upd" /\ R.k = pd[i][1] /\ R.found[1] = "pending" THEN R.st ELSE pd[i][2])

NewDue(i) == IF NewPending(i) THEN R.now + timeout ELSE IF Empty(R.p[i]) THEN 0 ELSE due[i]
ReadyOK == \A i \in 1..B : ~Empty(R.p[i]) => (R.p[i][3] = 1) = (R.now >= NewDue(i))

AllPost == UNION {KeysOf(R.b[i]) : i \in 1..B}
ResultOK ==
  /\ HasKey /\ R.k = local => R.found[1] = "self" /\ (R.e = "ins" => R.res = "noop")
  /\ HasKey /\ R.k # local =>
       LET i == BIdx(R.k)  Q == R.b[i] IN
       /\ R.e = "ins" =>
            /\ R.res \in {"inserted", "pending", "full", "noop"}
            /\ R.res = "full" => R.k \notin KeysOf(Q) /\ Len(Q) >= cap
            /\ R.res = "noop" => \/ R.found[1] = "present" /\ R.k \in KeysOf(Q) /\ StOf(Q, R.k) = R.found[2]
                                 \/ R.found[1] = "pending" /\ ~Empty(R.p[i]) /\ R.p[i][1] = R.k
       /\ R.e \in {"upd", "rem", "get"} =>
            /\ R.found[1] \in {"present", "pending", "absent"}
            /\ R.found[1] = "absent" => R.k \notin KeysOf(Q) /\ (Empty(R.p[i]) \/ R.p[i][1] # R.k)
            /\ R.e = "rem" => R.k \notin KeysOf(Q) /\ (Empty(R.p[i]) \/ R.p[i][1] # R.k)
            /\ R.e = "upd" /\ R.found[1] = "present" => R.k \in KeysOf(Q)
            /\ R.e = "get" /\ R.found[1] = "present" => R.k \in KeysOf(Q) /\ StOf(Q, R.k) = R.found[2]
  \* applied-pending notifications name exactly the applications that happened
  /\ \A j \in 1..Len(R.ap) : \E i \in 1..B : ~Empty(pd[i]) /\ R.ap[j][1] = pd[i][1] /\ AppliedAt(i)
                                              /\ (IF Vanished(i) = {} THEN R.ap[j][2] = -1 ELSE R.ap[j][2] \in Vanished(i))
  /\ Cardinality({i \in 1..B : AppliedAt(i)}) = Len(R.ap)

ClosestOK ==
  R.e = "closest" =>
    /\ Len(R.out) = Cardinality(AllPost)
    /\ {R.out[j] : j \in 1..Len(R.out)} = AllPost
    /\ \A j \in 1..(Len(R.out) - 1) : Xor(R.t, R.out[j]) <= Xor(R.t, R.out[j + 1])

Op == /\ R.e \in {"ins", "upd", "rem", "get", "closest", "tick"}
      /\ R.stray = 0 /\ Len(R.b) = B /\ Len(R.p) = B
      \* (IF: TLC must evaluate the checks as a state predicate - short-circuit - not as an action)
      /\ IF /\ (IF R.e = "tick" THEN R.now = now + R.d ELSE R.now = now)
            /\ \A i \in 1..B : BucketStep(i)
            /\ ReadyOK /\ ResultOK /\ ClosestOK
         THEN TRUE ELSE FALSE
      /\ now' = R.now /\ bk' = R.b /\ pd' = R.p
      /\ due' = [i \in 1..B |-> NewDue(i)]
      /\ LET opk == UNION {InsK(i) \cup UpdK(i) : i \in 1..B}
             apk == UNION {Appeared(i) : i \in 1..B} IN
         stamp' = [k \in DOMAIN stamp |-> IF k \in opk THEN 2 * l + 1 ELSE IF k \in apk THEN 2 * l ELSE stamp[k]]
      /\ UNCHANGED <<B, local, cap, timeout>>

Next == l <= NRec /\ l' = l + 1 /\ (Reset \/ Op)
Spec == Init /\ [][Next]_vars

(* ---- the statement's state invariants, on the projected real table ---- *)
Capacity == \A i \in DOMAIN bk : Len(bk[i]) <= cap
RightBucketUnique ==
  \A i \in DOMAIN bk : \A p \in 1..Len(bk[i]) :
     /\ bk[i][p][1] # local /\ bk[i][p][1] \in 0..(2^B - 1) /\ BIdx(bk[i][p][1]) = i
     /\ \A q \in 1..Len(bk[i]) : q # p => bk[i][q][1] # bk[i][p][1]
LruOrder ==
  \A i \in DOMAIN bk : \A p, q \in 1..Len(bk[i]) : p < q =>
     /\ (bk[i][p][2] = 0 \/ bk[i][q][2] = 1)
     /\ bk[i][p][2] = bk[i][q][2] => stamp[bk[i][p][1]] < stamp[bk[i][q][1]]
Progress == Mark(l)
====
