INIT Init
NEXT Next
INVARIANT Bounded PermanentKept EventsExact ApiContract
CONSTRAINT Progress
POSTCONDITION Accepted
