---- MODULE TraceRelay ----
(* C47 trace validation (property level).  From the relay behaviour's own events the spec rebuilds what the relay
   holds:  res  = connections <<peer, conn>> with an active reservation (from ReservationReqAccepted until
                  ReservationTimedOut or the connection closes),
           circ = established circuits (from CircuitReqAccepted until CircuitClosed or one of their two
                  connections closes),
   and checks the four bounds of the statement after every event.  Which requests are denied, with which status,
   in which order commands are issued, is not constrained (only upper bounds are stated). *)
EXTENDS TraceIO, FiniteSets
VARIABLES l, lim, res, circ, adm
vars == <<l, lim, res, circ, adm>>
Init == l = 1 /\ lim = [mr |-> 0, mrp |-> 0, mc |-> 0, mcp |-> 0] /\ res = {} /\ circ = {} /\ adm = {} /\ InitReg
R == Rec[l]
Reset == /\ R.e = "reset" /\ res' = {} /\ circ' = {} /\ adm' = {}
         /\ lim' = [mr |-> R.mr, mrp |-> R.mrp, mc |-> R.mc, mcp |-> R.mcp]
ResAcc == /\ R.e = "res_acc" /\ res' = res \cup {<<R.p, R.c>>} /\ UNCHANGED <<lim, circ, adm>>
ResGone == /\ R.e = "res_to" /\ res' = res \ {<<R.p, R.c>>} /\ UNCHANGED <<lim, circ, adm>>
Close == /\ R.e = "close"
         /\ res' = res \ {<<R.p, R.c>>}
         /\ circ' = {x \in circ : x.sc # R.c /\ x.dc # R.c}
         /\ adm' = {x \in adm : x.sc # R.c /\ x.dc # R.c}
         /\ UNCHANGED lim
(* the behaviour admitted the circuit request n and told the destination's handler (driver-level note that
   carries the two connections of the circuit) *)
CircAdm == /\ R.e = "circ_adm" /\ adm' = adm \cup {[n |-> R.n, s |-> R.s, sc |-> R.sc, d |-> R.d, dc |-> R.dc]}
           /\ UNCHANGED <<lim, res, circ>>
CircAcc == /\ R.e = "circ_acc"
           /\ \E x \in adm : x.n = R.n /\ x.s = R.s /\ x.d = R.d /\ circ' = circ \cup {x} /\ adm' = adm \ {x}
           /\ UNCHANGED <<lim, res>>
CircGone == /\ R.e \in {"circ_closed", "circ_den", "circ_denfail", "circ_accfail"}
            /\ circ' = {x \in circ : x.n # R.n} /\ adm' = {x \in adm : x.n # R.n}
            /\ UNCHANGED <<lim, res>>
Other == /\ R.e \in {"conn", "reserve", "connect", "res_den", "res_fail", "res_denfail", "res_closed", "circ_outfail", "circ_up", "status"}
         /\ UNCHANGED <<lim, res, circ, adm>>
Next == l <= NRec /\ l' = l + 1 /\ (Reset \/ ResAcc \/ ResGone \/ Close \/ CircAdm \/ CircAcc \/ CircGone \/ Other)
Spec == Init /\ [][Next]_vars
ResTotal == Cardinality(res) <= lim.mr
ResPerPeer == \A r \in res : Cardinality({x \in res : x[1] = r[1]}) <= lim.mrp
CircTotal == Cardinality(circ) <= lim.mc
Involving(p) == {x \in circ : x.s = p \/ x.d = p}
CircPerPeer == \A c \in circ : Cardinality(Involving(c.s)) <= lim.mcp /\ Cardinality(Involving(c.d)) <= lim.mcp
Progress == Mark(l)
====
