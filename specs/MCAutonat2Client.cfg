CONSTANTS
  Cands = {1, 2}
  MaxGen = 3
  NoBackCheck = FALSE
INIT Start
NEXT Next
INVARIANT ConfirmOnlyProven
INVARIANT ConfirmedOnce
INVARIANT NoStaleAck
INVARIANT OneProbeAtATime
