CONSTANTS
  X = 2
  T = 3
  HandOver = TRUE
SPECIFICATION Spec
INVARIANT Prefix Outcome Complete
PROPERTY Refines
