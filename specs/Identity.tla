---- MODULE Identity ----
(* C20.  Decision tables of libp2p-identity's PeerId:
     Accept(code, len, shape)  PeerId::from_bytes on a multihash with the given code, declared digest length and
                               shape (exact = digest has the declared length, short / long = one byte missing / extra)
     InlineCode(encLen)        the multihash code PeerId::from_public_key must choose for a key whose protobuf
                               encoding has encLen bytes *)
EXTENDS Naturals
IdentityCode == 0
Sha256Code == 18
MaxInline == 42
(* "MUST" / "MUSTNOT" / "FREE" (truncated SHA2-256 digests are legal multihashes; the statement does not decide them) *)
Accept(code, len, shape) ==
  IF shape # "exact" THEN "MUSTNOT"
  ELSE IF code = IdentityCode THEN (IF len <= MaxInline THEN "MUST" ELSE "MUSTNOT")
  ELSE IF code = Sha256Code THEN (IF len = 32 THEN "MUST" ELSE IF len <= 64 THEN "FREE" ELSE "MUSTNOT")
  ELSE "MUSTNOT"
InlineCode(encLen) == IF encLen <= MaxInline THEN IdentityCode ELSE Sha256Code
Codes == {0, 17, 18, 19, 22, 27, 85, 4114}
GridLens == {0, 1, 20, 31, 32, 33, 41, 42, 43, 63, 64, 65}
====
