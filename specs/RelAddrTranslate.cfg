INIT Init
NEXT Next
