CONSTANTS
  N = 7
  MaxFrame = 3
  Hdr = 2
  ResetOnSend = TRUE
  CheckTag = TRUE
SPECIFICATION Spec
INVARIANT Prefix FrameLimit Complete EofClean CorruptDetected
PROPERTY Refines
