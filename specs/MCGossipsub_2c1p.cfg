SPECIFICATION Spec
CONSTANTS
  Peers = {p1}
  Explicit = {}
  Flood = {}
  Topics = {t1, t2}
  Allowed = {t1, t2}
  MaxSubs = 2
  MeshLow = 1
  MeshN = 1
  MeshHigh = 2
  MaxConns = 2
  PerTopicNotify = FALSE
  FanoutReplace = FALSE
  GraftSkipsFilter = FALSE
  GraftIgnoresKind = FALSE
INVARIANT MeshEligible
INVARIANT HandlerView
INVARIANT HandlersOfOpenConns
INVARIANT FilterBound
PROPERTY AddedOnlyIfEligible
PROPERTY GraftRespectsHigh
PROPERTY FanoutKept
