CONSTANTS
  MaxExt = 2
  KeepLast = FALSE
SPECIFICATION Spec
INVARIANT RuleOK
