CONSTANTS
  N = 4
  MaxFrame = 2
  Hdr = 2
  ResetOnSend = TRUE
  CheckTag = FALSE
SPECIFICATION Spec
INVARIANT Prefix FrameLimit Complete EofClean CorruptDetected
PROPERTY Refines
