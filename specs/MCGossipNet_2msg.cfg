SPECIFICATION Spec
CONSTANTS
  Nodes <- N3
  Msgs <- M2
  SrcOf <- Src2
  FloodPublish = TRUE
  EchoBack = FALSE
  NoDupCache = FALSE
INVARIANT AtMostOnce
INVARIANT NotToPublisher
INVARIANT NeverBackOrToSource
CONSTRAINT Bounded
PROPERTY EveryoneGetsIt
