CONSTANTS
  Streams = {1, 2}
  Split = 1
  MaxBytes = 2
  Fifo = TRUE
  Demux = TRUE
  OwnerWrites = FALSE
INIT Init
NEXT Next
INVARIANT InOrderOwnBytes Delivered EofAfterCloseAndAll
