---- MODULE TraceOneShot ----
(* X03 (part 1) trace validation: every recorded step of the REAL OneShotHandler against the property-level
   specification (see OneShot.tla for P1..P5).  State is rebuilt from the events:
     queue  requests handed in and not yet opened (FIFO)
     out    substream requests the connection is working on (opened by poll, not yet answered by the driver)
     due    results handed to the handler and not yet reported
   The handler is free to choose between reporting and opening when both are possible, and in which order it
   reports; it is not free to stall, to reorder requests, to exceed max, to invent or to lose a report. *)
EXTENDS TraceIO, FiniteSets
VARIABLES l, max, to, lto, queue, out, due
vars == <<l, max, to, lto, queue, out, due>>
R == Rec[l]
Init == l = 1 /\ max = 1 /\ to = 0 /\ lto = 0 /\ queue = <<>> /\ out = {} /\ due = <<>> /\ InitReg

Drop(s, i) == [j \in 1..(Len(s) - 1) |-> IF j < i THEN s[j] ELSE s[j + 1]]

Reset == /\ R.e = "reset" /\ max' = R.max /\ to' = R.to /\ lto' = R.lto /\ queue' = <<>> /\ out' = {} /\ due' = <<>>
Send == /\ R.e = "send" /\ queue' = Append(queue, R.r) /\ UNCHANGED <<max, to, lto, out, due>>
PollOsr == /\ R.e = "poll" /\ R.res = "osr"
           /\ queue # <<>> /\ R.r = Head(queue) /\ R.to = to          \* P1: FIFO, that request, configured timeout
           /\ queue' = Tail(queue) /\ out' = out \cup {R.r}            \* P2 is the invariant Bounded
           /\ UNCHANGED <<max, to, lto, due>>
Report(x) == \E i \in 1..Len(due) : due[i] = x /\ due' = Drop(due, i)  \* P3: something that is due, exactly once
PollOk == /\ R.e = "poll" /\ R.res = "ok" /\ Report([k |-> "ok", v |-> R.v]) /\ UNCHANGED <<max, to, lto, queue, out>>
PollErr == /\ R.e = "poll" /\ R.res = "err" /\ Report([k |-> R.k, v |-> R.v]) /\ UNCHANGED <<max, to, lto, queue, out>>
PollPending == /\ R.e = "poll" /\ R.res = "pending"
               /\ due = <<>> /\ (queue = <<>> \/ Cardinality(out) >= max)   \* P4
               /\ UNCHANGED <<max, to, lto, queue, out, due>>
OutOk == /\ R.e = "outok" /\ R.r \in out /\ out' = out \ {R.r}
         /\ due' = Append(due, [k |-> "ok", v |-> R.v]) /\ UNCHANGED <<max, to, lto, queue>>
OutErr == /\ R.e = "outerr" /\ R.r \in out /\ out' = out \ {R.r}
          /\ due' = Append(due, [k |-> R.k, v |-> R.v]) /\ UNCHANGED <<max, to, lto, queue>>
InOk == /\ R.e = "inok" /\ due' = Append(due, [k |-> "ok", v |-> R.v]) /\ UNCHANGED <<max, to, lto, queue, out>>
Quiet == /\ R.e \in {"inerr", "addr", "skip"} /\ UNCHANGED <<max, to, lto, queue, out, due>>
Pend == /\ R.e = "pend" /\ R.n = Cardinality(out) + Len(queue) /\ UNCHANGED <<max, to, lto, queue, out, due>>   \* P5

(* P6: listen_protocol() is the configured inbound protocol (upgrade and timeout), as last modified through listen_protocol_mut;
   the handler does not keep the connection alive by itself *)
Lp == /\ R.e = "lp" /\ R.protos = <<"/x/1">> /\ R.tag = 0 /\ R.to = lto /\ R.ref /\ UNCHANGED <<max, to, lto, queue, out, due>>
LpSet == /\ R.e = "lpset" /\ lto' = R.to /\ UNCHANGED <<max, to, queue, out, due>>
Ka == /\ R.e = "ka" /\ ((queue = <<>> /\ out = {} /\ due = <<>>) => R.res = FALSE) /\ UNCHANGED <<max, to, lto, queue, out, due>>

Next == l <= NRec /\ l' = l + 1 /\ (Reset \/ Send \/ PollOsr \/ PollOk \/ PollErr \/ PollPending \/ OutOk \/ OutErr \/ InOk \/ Quiet \/ Pend \/ Lp \/ LpSet \/ Ka)
Spec == Init /\ [][Next]_vars
Bounded == Cardinality(out) <= max
Progress == Mark(l)
====
