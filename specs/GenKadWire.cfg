INIT Init
NEXT Next
