CONSTANTS
  Bug = "none"
INIT Init
NEXT Next
INVARIANTS NothingAccepted
