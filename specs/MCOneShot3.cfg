CONSTANTS MaxNeg = 3 NReq = 6 NIn = 2 DecOnError = TRUE
INIT Init
NEXT Next
INVARIANTS TypeOK OneSubstreamPerRequest Bounded CounterExact ReportedExactlyOnce NoStall PendingCount
