---- MODULE Autonat2 ----
(* X05 component spec: how the AutoNAT v2 server serves one dial request
   (protocols/autonat/src/v2/server/behaviour.rs, server/handler/dial_request.rs: handle_request /
   handle_request_internal, server/handler/dial_back.rs; protocol: libp2p specs autonat/autonat-v2.md, referenced by
   the module documentation of v2.rs).

   What a client of the server (and an operator reading its events) relies on:
     A1 OneDialPerRequest        "The server MUST NOT dial any address other than this one": at most one dial per request,
                                 to one of the request's addresses, over a newly allocated port (v2.rs: "always dials
                                 back over a newly allocated port")
     A2 AmplificationProtection  "If this selected address has an IP address different from the requesting node's observed
                                 IP address", the server demands 30k-100k bytes for that address and dials only after
                                 they have arrived; it never dials before demanded data has arrived
     A3 Nonce                    the DialBack message carries the nonce of the request
     A4 ExactlyOneResponse       every DialRequest is answered by exactly one DialResponse (unless the client goes away
                                 or keeps the demanded data back)
     A5 FaithfulResponse         status OK with dialStatus OK iff the DialBack was delivered and acknowledged;
                                 E_DIAL_ERROR iff the dial failed; E_DIAL_BACK_ERROR iff connected but the dial-back
                                 failed; addrIdx = the dialed address; E_DIAL_REFUSED / E_REQUEST_REJECTED only without dial
     A6 FaithfulEvent            (trace level) the Event names client, all addresses, the tested address and the data
                                 amount of exactly that request
   Named deviations of the code (modelled as they are, accepted by the trace spec):
     ChooseLast                  the specification selects "the first address it is capable of dialing" (the list is
                                 ordered by descending priority); the code tests the LAST address of the list.
     DemandAlthoughSameIp        data is demanded whenever the chosen multiaddr differs from the observed multiaddr (e.g.
                                 only in the port), not only when the IP differs: stricter than required.
     StreamIoIsInternal          an I/O error while opening the dial-back stream is not reported as E_DIAL_BACK_ERROR;
                                 the request only ends (E_INTERNAL_ERROR) when the dial-back connection closes.
   Canaries: NoDataWait (the command is sent without waiting for the demanded data), TwoResponses (the response of
   the no-address path is sent in addition to the regular one). *)
EXTENDS Naturals, FiniteSets, TLC
CONSTANTS Reqs, MaxAddrs, Need, NoDataWait, TwoResponses
VARIABLES st, n, exact, sameip, idx, need, got, dials, resp, res, acked
vars == <<st, n, exact, sameip, idx, need, got, dials, resp, res, acked>>
(* st[r]: idle, recv (request read), wait (data demanded), ready, dialing, connected, backsent, done, dead
   n[r] addresses; exact[r] / sameip[r]: indices equal to the observed address / with the observed IP
   res[r]: the response sent: <<status, dialStatus>>  *)
Start == /\ st = [r \in Reqs |-> "idle"] /\ n = [r \in Reqs |-> 0] /\ exact = [r \in Reqs |-> {}] /\ sameip = [r \in Reqs |-> {}]
         /\ idx = [r \in Reqs |-> 0] /\ need = [r \in Reqs |-> 0] /\ got = [r \in Reqs |-> 0] /\ dials = [r \in Reqs |-> 0]
         /\ resp = [r \in Reqs |-> 0] /\ res = [r \in Reqs |-> <<"none", "none">>] /\ acked = [r \in Reqs |-> FALSE]
Arrive(r) == /\ st[r] = "idle"
             /\ \E k \in 0..MaxAddrs : \E ex \in SUBSET (1..k) : \E sm \in SUBSET (1..k) :
                  /\ ex \subseteq sm /\ Cardinality(ex) <= 1
                  /\ n' = [n EXCEPT ![r] = k] /\ exact' = [exact EXCEPT ![r] = ex] /\ sameip' = [sameip EXCEPT ![r] = sm]
             /\ st' = [st EXCEPT ![r] = "recv"]
             /\ UNCHANGED <<idx, need, got, dials, resp, res, acked>>
Respond(r, status, ds) == /\ resp' = [resp EXCEPT ![r] = @ + 1] /\ res' = [res EXCEPT ![r] = <<status, ds>>]
                          /\ st' = [st EXCEPT ![r] = "done"]
(* handle_request_internal after the DialRequest was read *)
Select(r) == /\ st[r] = "recv"
             /\ IF n[r] = 0 THEN Respond(r, "refused", "unused") /\ UNCHANGED <<idx, need>>
                ELSE /\ idx' = [idx EXCEPT ![r] = n[r]]                                   \* ChooseLast
                     /\ IF n[r] \in exact[r] THEN need' = need /\ st' = [st EXCEPT ![r] = "ready"]
                        ELSE need' = [need EXCEPT ![r] = Need] /\ st' = [st EXCEPT ![r] = "wait"]   \* DemandAlthoughSameIp
                     /\ UNCHANGED <<resp, res>>
             /\ UNCHANGED <<n, exact, sameip, got, dials, acked>>
Data(r) == /\ st[r] = "wait" /\ got' = [got EXCEPT ![r] = @ + 1]
           /\ st' = [st EXCEPT ![r] = IF got[r] + 1 >= need[r] THEN "ready" ELSE "wait"]
           /\ UNCHANGED <<n, exact, sameip, idx, need, dials, resp, res, acked>>
ClientBreaks(r) == /\ st[r] = "wait" /\ \E s \in {"rejected", "internal"} : Respond(r, s, "unused")
                   /\ UNCHANGED <<n, exact, sameip, idx, need, got, dials, acked>>
SendCommand(r) == /\ st[r] = "ready" \/ (NoDataWait /\ st[r] = "wait")
                  /\ dials' = [dials EXCEPT ![r] = @ + 1] /\ st' = [st EXCEPT ![r] = "dialing"]
                  /\ UNCHANGED <<n, exact, sameip, idx, need, got, resp, res, acked>>
DialFails(r) == /\ st[r] = "dialing" /\ Respond(r, "ok", "dial_error")
                /\ UNCHANGED <<n, exact, sameip, idx, need, got, dials, acked>>
DialOk(r) == /\ st[r] = "dialing" /\ st' = [st EXCEPT ![r] = "connected"]
             /\ UNCHANGED <<n, exact, sameip, idx, need, got, dials, resp, res, acked>>
StreamRefused(r) == /\ st[r] = "connected" /\ Respond(r, "ok", "dial_back_error")
                    /\ UNCHANGED <<n, exact, sameip, idx, need, got, dials, acked>>
BackSent(r) == /\ st[r] = "connected" /\ st' = [st EXCEPT ![r] = "backsent"]
               /\ UNCHANGED <<n, exact, sameip, idx, need, got, dials, resp, res, acked>>
Acked(r) == /\ st[r] = "backsent" /\ acked' = [acked EXCEPT ![r] = TRUE]
            /\ resp' = [resp EXCEPT ![r] = @ + (IF TwoResponses THEN 2 ELSE 1)] /\ res' = [res EXCEPT ![r] = <<"ok", "ok">>]
            /\ st' = [st EXCEPT ![r] = "done"]
            /\ UNCHANGED <<n, exact, sameip, idx, need, got, dials>>
BackFails(r) == /\ st[r] = "backsent" /\ Respond(r, "ok", "dial_back_error")
                /\ UNCHANGED <<n, exact, sameip, idx, need, got, dials, acked>>
(* the dial-back connection closes before an outcome is known (also the end of StreamIoIsInternal) *)
BackGone(r) == /\ st[r] \in {"connected", "backsent"} /\ Respond(r, "internal", "unused")
               /\ UNCHANGED <<n, exact, sameip, idx, need, got, dials, acked>>
ClientGone(r) == /\ st[r] \notin {"idle", "done", "dead"} /\ st' = [st EXCEPT ![r] = "dead"]
                 /\ UNCHANGED <<n, exact, sameip, idx, need, got, dials, resp, res, acked>>
Next == \E r \in Reqs : Arrive(r) \/ Select(r) \/ Data(r) \/ ClientBreaks(r) \/ SendCommand(r) \/ DialFails(r) \/ DialOk(r)
                        \/ StreamRefused(r) \/ BackSent(r) \/ Acked(r) \/ BackFails(r) \/ BackGone(r) \/ ClientGone(r)
Spec == Start /\ [][Next]_vars /\ WF_vars(Next)

OneDialPerRequest == \A r \in Reqs : dials[r] <= 1                                                         \* A1
NoDialBeforeData == \A r \in Reqs : dials[r] > 0 => (idx[r] \in sameip[r] \/ need[r] > 0) /\ got[r] >= need[r]   \* A2
AtMostOneResponse == \A r \in Reqs : resp[r] <= 1                                                          \* A4
FaithfulResponse == \A r \in Reqs : /\ (res[r] = <<"ok", "ok">>) => acked[r] /\ dials[r] = 1              \* A5
                                    /\ res[r][1] = "ok" => dials[r] = 1
                                    /\ res[r][1] \in {"refused", "rejected"} => dials[r] = 0
DoneMeansAnswered == \A r \in Reqs : st[r] = "done" <=> resp[r] >= 1
(* A4, liveness: a request that was read is answered unless the client goes away or keeps the data back *)
EventuallyAnswered == \A r \in Reqs : (st[r] = "recv") ~> (st[r] \in {"done", "dead"})
====
