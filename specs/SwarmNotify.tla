---- MODULE SwarmNotify ----
(* Swarm's delivery of ToSwarm::NotifyHandler (lib.rs: pending_handler_event, notify_one / notify_any) over the
   per-connection futures::mpsc command channel. Probe for C07. *)
EXTENDS Naturals, Sequences, FiniteSets, TLC
CONSTANTS Conns, Buf, NEv,
          AnyToAll      \* canary: notify_any does not stop after the first successful send
VARIABLES chan,         \* conn -> queue of commands: event number, or 0 for Close
          parked,       \* conn -> the pool's sender is parked (channel over capacity)
          rclosed,      \* conn -> the task closed its receiver (closing / gone)
          pendingEv,    \* 0, or the event the swarm still has to deliver
          pendingTo,    \* set of connections captured for it (singleton for One)
          emitted,      \* events emitted so far (1..emitted)
          target,       \* event -> set of connections it was addressed to
          got           \* conn -> sequence of events delivered to the handler
vars == <<chan, parked, rclosed, pendingEv, pendingTo, emitted, target, got>>
Init == /\ chan = [c \in Conns |-> <<>>] /\ parked = [c \in Conns |-> FALSE] /\ rclosed = [c \in Conns |-> FALSE]
        /\ pendingEv = 0 /\ pendingTo = {} /\ emitted = 0 /\ target = [e \in 1..NEv |-> {}] /\ got = [c \in Conns |-> <<>>]
(* behaviour.poll -> NotifyHandler: only when no event is pending *)
Emit(to) == /\ pendingEv = 0 /\ emitted < NEv /\ to # {} /\ to \subseteq {c \in Conns : TRUE}
            /\ emitted' = emitted + 1 /\ pendingEv' = emitted + 1 /\ pendingTo' = to
            /\ target' = [target EXCEPT ![emitted + 1] = to]
            /\ UNCHANGED <<chan, parked, rclosed, got>>
(* one attempt of notify_one / notify_any *)
TryDeliver ==
  /\ pendingEv # 0
  /\ LET ready == {c \in pendingTo : ~rclosed[c] /\ ~parked[c]}
         waiting == {c \in pendingTo : ~rclosed[c] /\ parked[c]} IN
     IF ready # {}
     THEN \E S \in SUBSET ready : S # {} /\ (AnyToAll \/ Cardinality(S) = 1)
            /\ chan' = [c \in Conns |-> IF c \in S THEN Append(chan[c], pendingEv) ELSE chan[c]]
            /\ parked' = [c \in Conns |-> IF c \in S THEN Len(chan[c]) + 1 > Buf ELSE parked[c]]
            /\ pendingEv' = 0 /\ pendingTo' = {}
     ELSE IF waiting # {} THEN pendingTo' = waiting /\ UNCHANGED <<chan, parked, pendingEv>>      \* Pending: keep only those that may still become ready
     ELSE pendingEv' = 0 /\ pendingTo' = {} /\ UNCHANGED <<chan, parked>>                          \* all closing: event dropped
  /\ UNCHANGED <<rclosed, emitted, target, got>>
StartClose(c) == /\ ~rclosed[c] /\ \A i \in 1..Len(chan[c]) : chan[c][i] # 0
                 /\ chan' = [chan EXCEPT ![c] = Append(@, 0)] /\ UNCHANGED <<parked, rclosed, pendingEv, pendingTo, emitted, target, got>>
TaskStep(c) == /\ ~rclosed[c] /\ chan[c] # <<>>
               /\ LET m == Head(chan[c]) IN
                  /\ chan' = [chan EXCEPT ![c] = Tail(@)] /\ parked' = [parked EXCEPT ![c] = FALSE]
                  /\ IF m = 0 THEN rclosed' = [rclosed EXCEPT ![c] = TRUE] /\ UNCHANGED got
                     ELSE got' = [got EXCEPT ![c] = Append(@, m)] /\ UNCHANGED rclosed
               /\ UNCHANGED <<pendingEv, pendingTo, emitted, target>>
TaskError(c) == ~rclosed[c] /\ rclosed' = [rclosed EXCEPT ![c] = TRUE] /\ UNCHANGED <<chan, parked, pendingEv, pendingTo, emitted, target, got>>
Next == (\E to \in SUBSET Conns : Emit(to)) \/ TryDeliver \/ (\E c \in Conns : StartClose(c) \/ TaskStep(c) \/ TaskError(c))
Spec == Init /\ [][Next]_vars
Delivered(e) == {c \in Conns : \E i \in 1..Len(got[c]) : got[c][i] = e}
Targeted == \A e \in 1..NEv : Delivered(e) \subseteq target[e] /\ Cardinality(Delivered(e)) <= 1
InOrder == \A c \in Conns : \A i, j \in 1..Len(got[c]) : i < j => got[c][i] < got[c][j]
QueuedOnce == \A e \in 1..NEv : Cardinality({c \in Conns : \E i \in 1..Len(chan[c]) : chan[c][i] = e}) + Cardinality(Delivered(e)) <= 1
====
