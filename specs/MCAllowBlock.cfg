CONSTANTS
  Peers = {p1, p2}
  MaxConn = 3
  NoEnforceIn = FALSE
INIT Init
NEXT Next
INVARIANT NeverEstablishBlocked QuiescentClean
CONSTRAINT Bound
