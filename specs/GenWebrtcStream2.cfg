CONSTANTS
  Streams = {0, 1}
  Paired = TRUE
  MaxOps = 4
  MaxWire = 2
  BarrierBug = FALSE
  ResetLoose = FALSE
  LoseFlagInClosing = FALSE
INIT GInit
NEXT GNext
VIEW GView
CONSTRAINT WireBound
INVARIANT EmitState
