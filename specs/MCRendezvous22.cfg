CONSTANTS
  Peers = {1, 2}
  Namespaces = {1, 2}
  MaxId = 5
  MinTtl = 2
  MaxTtl = 3
  MaxPerPeer = 2
  MaxTotal = 2
  Today = FALSE
INIT Init
NEXT Next
INVARIANT PerPeerLimit
INVARIANT TotalLimit
INVARIANT DiscoverOnlyCurrent
INVARIANT NoOrphans
INVARIANT NoSpuriousExpiry
INVARIANT RefreshAlwaysAllowed
