---- MODULE SwarmConn ----
(* Connection-pool / swarm lifecycle model: one action per critical section of swarm/src/lib.rs
   (dial, handle_transport_event, handle_pool_event), connection/pool.rs (Pool::poll) and
   connection/pool/task.rs. Properties C01 C02 C05 C06 as invariants. Canary selects one seeded
   design bug that TLC must reject (anti-vacuity). *)
EXTENDS Naturals, Sequences, FiniteSets, TLC
CONSTANTS Ids, Peers, Local, NoPeer, Canary
ASSUME Local \notin Peers /\ NoPeer \notin Peers /\ NoPeer # Local

Auth == Peers \cup {Local}          \* what a transport may authenticate as
Expect == Peers \cup {NoPeer}

VARIABLES
  used,        \* ids handed out so far
  pending,     \* id -> [dir, expected, aborted] or "none"
  ptask,       \* id -> "none" | "run" | "done"
  pendChan,    \* FIFO of messages from pending tasks
  estab,       \* id -> [peer, dir, closeCmd] or "none"
  etask,       \* id -> "none" | "run" | "done"
  estQ,        \* id -> FIFO of messages from the established task
  swarmQ,      \* FIFO of SwarmEvents not yet returned by poll
  cnt,         \* [pi, po, ei, eo]
  bterm, sterm,\* id -> "none"|"est"|"outErr"|"inErr"|"DUP"   (behaviour / swarm-event view)
  bclosed, sclosed, \* id -> 0..2
  denied       \* ids for which some behaviour denied (monitor for C06)
vars == <<used, pending, ptask, pendChan, estab, etask, estQ, swarmQ, cnt, bterm, sterm, bclosed, sclosed, denied>>

PNone == [dir |-> "none", expected |-> NoPeer, aborted |-> FALSE]
ENone == [peer |-> NoPeer, dir |-> "none", closeCmd |-> FALSE]
Min(S) == CHOOSE x \in S : \A y \in S : x <= y
NextId == Min(Ids \ used)

Init ==
  /\ used = {} /\ pending = [i \in Ids |-> PNone] /\ ptask = [i \in Ids |-> "none"]
  /\ pendChan = <<>> /\ estab = [i \in Ids |-> ENone] /\ etask = [i \in Ids |-> "none"]
  /\ estQ = [i \in Ids |-> <<>>] /\ swarmQ = <<>>
  /\ cnt = [pi |-> 0, po |-> 0, ei |-> 0, eo |-> 0]
  /\ bterm = [i \in Ids |-> "none"] /\ sterm = [i \in Ids |-> "none"]
  /\ bclosed = [i \in Ids |-> 0] /\ sclosed = [i \in Ids |-> 0] /\ denied = {}

SetTerm(f, i, v) == [f EXCEPT ![i] = IF @ = "none" THEN v ELSE "DUP"]
Bump(f, i) == [f EXCEPT ![i] = IF @ < 2 THEN @ + 1 ELSE 2]

IsConnected(p) == \E i \in Ids : estab[i].dir # "none" /\ estab[i].peer = p
IsDialing(p) == \E i \in Ids : pending[i].dir # "none" /\ pending[i].dir = "out" /\ pending[i].expected = p
Conds == {"Always", "Disconnected", "NotDialing", "DisconnectedAndNotDialing"}
ShouldDial(c, p) ==
  \/ p = NoPeer \/ c = "Always"
  \/ c = "Disconnected" /\ ~IsConnected(p)
  \/ c = "NotDialing" /\ ~IsDialing(p)
  \/ c = "DisconnectedAndNotDialing" /\ ~IsConnected(p) /\ ~IsDialing(p)

(* Swarm::dial: three synchronous failure exits (no SwarmEvent), else a pending connection. *)
Dial(p, c, sync) ==
  /\ Ids \ used # {}
  /\ LET i == NextId IN
     /\ used' = used \cup {i}
     /\ IF ~ShouldDial(c, p) \/ sync \in {"denied", "noaddr"}
        THEN /\ bterm' = SetTerm(bterm, i, "outErr")
             /\ sterm' = SetTerm(sterm, i, "outErr")     \* delivered as Err(..) of the call
             /\ UNCHANGED <<pending, ptask, cnt>>
        ELSE /\ pending' = [pending EXCEPT ![i] = [dir |-> "out", expected |-> p, aborted |-> FALSE]]
             /\ ptask' = [ptask EXCEPT ![i] = "run"]
             /\ cnt' = [cnt EXCEPT !.po = @ + 1]
             /\ UNCHANGED <<bterm, sterm>>
     /\ denied' = IF ShouldDial(c, p) /\ sync = "denied" THEN denied \cup {i} ELSE denied
  /\ UNCHANGED <<pendChan, estab, etask, estQ, swarmQ, bclosed, sclosed>>

Incoming(deny) ==
  /\ Ids \ used # {}
  /\ LET i == NextId IN
     /\ used' = used \cup {i}
     /\ IF deny
        THEN /\ bterm' = SetTerm(bterm, i, "inErr")
             /\ swarmQ' = Append(swarmQ, <<"inErr", i>>)
             /\ UNCHANGED <<pending, ptask, cnt>>
        ELSE /\ pending' = [pending EXCEPT ![i] = [dir |-> "in", expected |-> NoPeer, aborted |-> FALSE]]
             /\ ptask' = [ptask EXCEPT ![i] = "run"]
             /\ cnt' = [cnt EXCEPT !.pi = @ + 1]
             /\ swarmQ' = Append(swarmQ, <<"incoming", i>>)
             /\ UNCHANGED bterm
     /\ denied' = IF deny THEN denied \cup {i} ELSE denied
  /\ UNCHANGED <<pendChan, estab, etask, estQ, sterm, bclosed, sclosed>>

(* pending-connection task: select(abort, future) -- abort wins if already signalled *)
TaskStep(i, outcome, who) ==
  /\ ptask[i] = "run"
  /\ ptask' = [ptask EXCEPT ![i] = "done"]
  /\ pendChan' = Append(pendChan,
        IF pending[i].dir # "none" /\ pending[i].aborted THEN <<"abort", i, NoPeer>>
        ELSE IF outcome = "ok" THEN <<"ok", i, who>> ELSE <<"fail", i, NoPeer>>)
  /\ UNCHANGED <<used, pending, estab, etask, estQ, swarmQ, cnt, bterm, sterm, bclosed, sclosed, denied>>

NumEst(p) == Cardinality({i \in Ids : estab[i].dir # "none" /\ estab[i].peer = p})

FailPending(i, dir) ==
  /\ bterm' = SetTerm(bterm, i, IF dir = "out" THEN "outErr" ELSE "inErr")
  /\ swarmQ' = Append(swarmQ, <<IF dir = "out" THEN "outErr" ELSE "inErr", i>>)

(* Pool::poll, pending part; then Swarm::handle_pool_event incl. the behaviours' decision *)
PoolPending(denyEst) ==
  /\ pendChan # <<>>
  /\ LET m == Head(pendChan) i == m[2] IN
     /\ pendChan' = Tail(pendChan)
     /\ IF pending[i].dir = "none"
        THEN /\ m[1] # "ok"       \* an "ok" for an unknown id would hit expect() -> must be unreachable
             /\ UNCHANGED <<pending, estab, etask, swarmQ, cnt, bterm, denied>>
        ELSE LET pc == pending[i] IN
          /\ pending' = [pending EXCEPT ![i] = PNone]
          /\ denied' = IF m[1] = "ok" /\ ~((pc.expected # NoPeer /\ m[3] # pc.expected) \/ m[3] = Local) /\ denyEst THEN denied \cup {i} ELSE denied
          /\ IF m[1] = "ok" /\ ~((pc.expected # NoPeer /\ m[3] # pc.expected) \/ (m[3] = Local /\ Canary # "skipLocalCheck")) /\ (~denyEst \/ Canary = "spawnOnDeny")
             THEN /\ estab' = [estab EXCEPT ![i] = [peer |-> m[3], dir |-> pc.dir, closeCmd |-> FALSE]]
                  /\ etask' = [etask EXCEPT ![i] = "run"]
                  /\ cnt' = IF pc.dir = "out" THEN [cnt EXCEPT !.po = @ - 1, !.eo = @ + 1]
                                              ELSE [cnt EXCEPT !.pi = @ - 1, !.ei = @ + 1]
                  /\ bterm' = SetTerm(bterm, i, "est")
                  /\ swarmQ' = Append(swarmQ, <<"est", i>>)
             ELSE /\ cnt' = IF Canary = "noDecPending" /\ m[1] # "ok" THEN cnt ELSE IF pc.dir = "out" THEN [cnt EXCEPT !.po = @ - 1] ELSE [cnt EXCEPT !.pi = @ - 1]
                  /\ FailPending(i, pc.dir)
                  /\ UNCHANGED <<estab, etask>>
  /\ UNCHANGED <<used, ptask, estQ, sterm, bclosed, sclosed>>

StartClose(i) ==
  /\ estab[i].dir # "none"
  /\ estab' = [estab EXCEPT ![i].closeCmd = TRUE]
  /\ UNCHANGED <<used, pending, ptask, pendChan, etask, estQ, swarmQ, cnt, bterm, sterm, bclosed, sclosed, denied>>

Disconnect(p) ==
  /\ estab' = [i \in Ids |-> IF estab[i].dir # "none" /\ estab[i].peer = p THEN [estab[i] EXCEPT !.closeCmd = TRUE] ELSE estab[i]]
  /\ pending' = [i \in Ids |-> IF pending[i].dir # "none" /\ pending[i].expected = p THEN [pending[i] EXCEPT !.aborted = TRUE] ELSE pending[i]]
  /\ UNCHANGED <<used, ptask, pendChan, etask, estQ, swarmQ, cnt, bterm, sterm, bclosed, sclosed, denied>>

(* established-connection task: graceful close on command, or error (remote close / keep-alive) *)
EtaskStep(i, kind) ==
  /\ etask[i] = "run"
  /\ kind = "close" => estab[i].closeCmd
  /\ etask' = [etask EXCEPT ![i] = "done"]
  /\ estQ' = [estQ EXCEPT ![i] = IF Canary = "dupClosed" THEN Append(Append(@, <<"closed", kind>>), <<"closed", kind>>) ELSE Append(@, <<"closed", kind>>)]
  /\ UNCHANGED <<used, pending, ptask, pendChan, estab, swarmQ, cnt, bterm, sterm, bclosed, sclosed, denied>>

PoolClosed(i) ==
  /\ estQ[i] # <<>>
  /\ estQ' = [estQ EXCEPT ![i] = Tail(@)]
  /\ (Canary # "dupClosed" => estab[i].dir # "none")    \* expect("Connection to be present")
  /\ estab' = [estab EXCEPT ![i] = ENone]
  /\ cnt' = IF estab[i].dir = "none" THEN cnt ELSE IF estab[i].dir = "out" THEN [cnt EXCEPT !.eo = @ - 1] ELSE [cnt EXCEPT !.ei = @ - 1]
  /\ bclosed' = Bump(bclosed, i)
  /\ swarmQ' = Append(swarmQ, <<"closed", i>>)
  /\ UNCHANGED <<used, pending, ptask, pendChan, etask, sterm, bterm, sclosed, denied>>

EmitSwarmEvent ==
  /\ swarmQ # <<>>
  /\ LET e == Head(swarmQ) IN
     /\ swarmQ' = Tail(swarmQ)
     /\ sterm' = IF e[1] \in {"est", "outErr", "inErr"} THEN SetTerm(sterm, e[2], e[1]) ELSE sterm
     /\ sclosed' = IF e[1] = "closed" THEN Bump(sclosed, e[2]) ELSE sclosed
  /\ UNCHANGED <<used, pending, ptask, pendChan, estab, etask, estQ, cnt, bterm, bclosed, denied>>

Next ==
  \/ \E p \in Expect, c \in Conds, s \in {"ok", "denied", "noaddr"} : Dial(p, c, s)
  \/ \E d \in BOOLEAN : Incoming(d)
  \/ \E i \in Ids, o \in {"ok", "fail"}, w \in Auth : TaskStep(i, o, w)
  \/ \E d \in BOOLEAN : PoolPending(d)
  \/ \E i \in Ids : StartClose(i) \/ PoolClosed(i) \/ \E k \in {"close", "error"} : EtaskStep(i, k)
  \/ \E p \in Peers : Disconnect(p)
  \/ EmitSwarmEvent
Spec == Init /\ [][Next]_vars /\ WF_vars(Next)

(* ---- the properties ---- *)
TermOnce == \A i \in Ids : bterm[i] # "DUP" /\ sterm[i] # "DUP"
ClosedOnce == \A i \in Ids : bclosed[i] <= 1 /\ sclosed[i] <= 1
ClosedOnlyAfterEst == \A i \in Ids : (bclosed[i] > 0 => bterm[i] = "est") /\ (sclosed[i] > 0 => sterm[i] = "est")
SameView == \A i \in Ids : sterm[i] # "none" => sterm[i] = bterm[i]
CountersOK ==
  /\ cnt.pi = Cardinality({i \in Ids : pending[i].dir # "none" /\ pending[i].dir = "in"})
  /\ cnt.po = Cardinality({i \in Ids : pending[i].dir # "none" /\ pending[i].dir = "out"})
  /\ cnt.ei = Cardinality({i \in Ids : estab[i].dir # "none" /\ estab[i].dir = "in"})
  /\ cnt.eo = Cardinality({i \in Ids : estab[i].dir # "none" /\ estab[i].dir = "out"})
IdentityOK == \A i \in Ids : estab[i].dir # "none" => estab[i].peer # Local
Quiescent == pendChan = <<>> /\ swarmQ = <<>> /\ \A i \in Ids : ptask[i] # "run" /\ estQ[i] = <<>>
DeniedFinal == \A i \in denied : estab[i].dir = "none" /\ bterm[i] \in {"outErr", "inErr"}      \* C06
AllResolvedAtQuiescence == Quiescent => \A i \in used : bterm[i] # "none" /\ sterm[i] = bterm[i]
====
