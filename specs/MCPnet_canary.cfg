CONSTANTS
  N = 4
  W = 3
  DropTail = TRUE
SPECIFICATION Spec
INVARIANT Prefix Complete
PROPERTY Refines
