---- MODULE GenWebrtcStream ----
(* C56 schedule generator: an instance of WebrtcStream with a history of the letters taken.  The history
   is excluded from the VIEW, so TLC explores the model's state graph once and
     EmitState (INVARIANT)         prints the breadth-first letter sequence reaching every distinct model state
     EmitEdge  (ACTION_CONSTRAINT) prints the letter sequence of every explored transition (edge cover of the
                                   state graph: every operation is tried in every reachable model state)     *)
EXTENDS WebrtcStream, Json
VARIABLE h
GInit == Init /\ h = <<>>
GNext == \E x \in Letters : Do(x) /\ h' = Append(h, x)
GView == <<st, rbuf, wire, eof, obuf, blocked, live, notif, dl, mon>>
EmitState == ~WireBound \/ h = <<>> \/ PrintT(<<"REPLAY", ToJson(h)>>)
EmitEdge == PrintT(<<"REPLAY", ToJson(h')>>)
====
