---- MODULE GenWebrtcStream ----
(* C56 schedule generator: the paired two-stream instance of WebrtcStream with a history of the letters
   taken.  The history is excluded from the VIEW, so TLC explores the model's state graph once and
     GenStates : prints the (breadth-first, hence shortest) letter sequence reaching every distinct model state
     GenEdges  : prints the letter sequence of every explored transition (state graph edge cover)          *)
EXTENDS WebrtcStream, Json
VARIABLE h
GInit == Init /\ h = <<>>
GNext == \E x \in Letters : Do(x) /\ h' = Append(h, x)
GView == <<st, rbuf, wire, eof, obuf, blocked, live, notif, dl, mon>>
EmitState == ~WireBound \/ h = <<>> \/ PrintT(<<"REPLAY", ToJson(h)>>)
EmitEdge == PrintT(<<"REPLAY", ToJson(h')>>)
====
