CONSTANTS
  Bug = "anon_seqno"
INIT Init
NEXT Next
INVARIANTS AcceptedIsValid StrictRejectsMutation
