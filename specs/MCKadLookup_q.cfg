CONSTANTS
  N = 4
  Par = 2
  NumRes = 2
  PeerTimeout = 2
  MaxTime = 2
  Seeds = {2, 4}
  CapGt = FALSE
INIT Init
NEXT Next
INVARIANT CounterExact
INVARIANT InFlightBound
INVARIANT NoCloserLeft
INVARIANT FinishedOnlyWhenDone
INVARIANT StuckFree
INVARIANT AllTimedOutFinishes
PROPERTY IssueWithinCapacity
PROPERTY IterBound
