---- MODULE ByteStream ----
(* Ordered pipe-or-fail, the refinement target of the byte-forwarding components
   (C17 Noise channel, C19 pnet / plaintext hand-over, C49 relay copy loop).

   Per direction d:
     sent[d]       number of bytes the writer has handed over so far; the k-th byte written in a
                   direction is identified with its position k (content = position), so the
                   written stream is <<1, 2, .., sent[d]>>
     delivered[d]  sequence of byte identities handed to the reader so far
     status[d]     "open" | "closing" (writer closed, reader not yet at EOF) | "eof" | "err"

   A step may change several directions at once (a component failing tears down both).
   The specification: the reader only ever sees a prefix of what was written, in order and
   unaltered; a clean EOF is only seen after everything written was delivered; after eof/err
   nothing more is delivered.  Components refine this with their buffering made explicit. *)
EXTENDS Naturals, Sequences
CONSTANTS Dirs,      \* set of directions
          MaxLen,    \* bound on bytes written per direction (model bound only)
          MaxChunk   \* largest number of bytes moved by one step (model bound only)
VARIABLES sent, delivered, status
bsvars == <<sent, delivered, status>>

Ident(n) == [i \in 1..n |-> i]
Good(s) == \A i \in 1..Len(s) : s[i] = i
Statuses == {"open", "closing", "eof", "err"}

BSInit == /\ sent = [d \in Dirs |-> 0]
          /\ delivered = [d \in Dirs |-> <<>>]
          /\ status = [d \in Dirs |-> "open"]

(* successor triples <<sent, delivered, status>> of one direction (stuttering included) *)
Succ(s, dl, st) ==
  {<<s, dl, st>>}
  \cup (IF st \in {"open", "err"}                                                                                 \* write (the writer need
        THEN {<<s + k, dl, st>> : k \in {k \in 1..MaxChunk : s + k <= MaxLen}} ELSE {})                             \*  not know the reader failed)
  \cup (IF st \in {"open", "closing"}
        THEN {<<s, dl \o [i \in 1..k |-> Len(dl) + i], st>> : k \in {k \in 1..MaxChunk : Len(dl) + k <= s}}    \* deliver
        ELSE {})
  \cup (IF st = "open" THEN {<<s, dl, "closing">>} ELSE {})                                                       \* writer closes
  \cup (IF st = "closing" /\ Len(dl) = s THEN {<<s, dl, "eof">>} ELSE {})                                         \* reader sees EOF
  \cup (IF st \in {"open", "closing"} THEN {<<s, dl, "err">>} ELSE {})                                            \* fail

BSNext == \E c \in [Dirs -> UNION {Succ(sent[d], delivered[d], status[d]) : d \in Dirs}] :
            /\ \A d \in Dirs : c[d] \in Succ(sent[d], delivered[d], status[d])
            /\ sent' = [d \in Dirs |-> c[d][1]]
            /\ delivered' = [d \in Dirs |-> c[d][2]]
            /\ status' = [d \in Dirs |-> c[d][3]]

BSSpec == BSInit /\ [][BSNext]_bsvars

(* the same step relation in relational form (cheap to evaluate on a given pair of states; this is
   what refinement checks of components use: PROPERTY BS!BSRef) *)
BSStep == \A d \in Dirs : <<sent'[d], delivered'[d], status'[d]>> \in Succ(sent[d], delivered[d], status[d])
BSRef == BSInit /\ [][BSStep]_bsvars

(* ---- the properties every refinement inherits ---- *)
PrefixOK == \A d \in Dirs : Good(delivered[d]) /\ Len(delivered[d]) <= sent[d]
EofComplete == \A d \in Dirs : status[d] = "eof" => Len(delivered[d]) = sent[d]
TypeOK == /\ sent \in [Dirs -> 0..MaxLen] /\ status \in [Dirs -> Statuses]
====
