---- MODULE MSSMsg ----
(* C15: multistream-select messages (misc/multistream-select/src/protocol.rs) with abstract sizes and
   scaled limits.  A body is a sequence of tokens; Message::encode and the dispatch order of
   Message::decode (fixed messages, single protocol line, ls response with the MAX_PROTOCOLS guard
   BEFORE parsing the next entry) are transcribed.  Every message over a small name alphabet with up to
   MaxProtocols + 1 names is an initial state; a hostile variant may carry names without '/'.
   CheckBefore = FALSE is the canary (limit tested after the push with `>`: accepts MaxProtocols + 1). *)
EXTENDS Naturals, Sequences, FiniteSets, TLC
CONSTANTS MaxProtocols, MaxFrame, CheckBefore
VARIABLE m          \* the message under test: [kind, names]   (names: sequence of [len, slash])
Names == [len : {1, 2}, slash : BOOLEAN]
Lists == UNION {[1..n -> Names] : n \in 0..(MaxProtocols + 1)}
Init == \/ m \in [kind : {"Header", "Na", "Ls"}, names : {<<>>}]
        \/ m \in [kind : {"Protocol"}, names : {<<n>> : n \in Names}]
        \/ m \in [kind : {"Protocols"}, names : Lists]
Next == UNCHANGED m
(* ---- encode: tokens "H" "N" "L" (whole fixed lines), [t: "name"], [t: "vlen"], "nl" ---- *)
NameTok(n) == [t |-> "name", len |-> n.len, slash |-> n.slash]
VTok(n) == [t |-> "vlen", v |-> n.len + 1]
NL == [t |-> "nl"]
RECURSIVE EncList(_)
EncList(ns) == IF ns = <<>> THEN <<NL>> ELSE <<VTok(Head(ns)), NameTok(Head(ns)), NL>> \o EncList(Tail(ns))
Encode(msg) == IF msg.kind = "Header" THEN <<[t |-> "H"]>> ELSE IF msg.kind = "Na" THEN <<[t |-> "N"]>>
               ELSE IF msg.kind = "Ls" THEN <<[t |-> "L"]>>
               ELSE IF msg.kind = "Protocol" THEN <<NameTok(msg.names[1]), NL>>
               ELSE EncList(msg.names)
TokSize(tk) == IF tk.t = "H" THEN 5 ELSE IF tk.t \in {"N", "L"} THEN 2 ELSE IF tk.t = "name" THEN tk.len ELSE 1
RECURSIVE Size(_)
Size(b) == IF b = <<>> THEN 0 ELSE TokSize(Head(b)) + Size(Tail(b))
(* ---- decode ---- *)
Err(k) == [kind |-> k, names |-> <<>>]
RECURSIVE DecList(_, _)
DecList(rem, acc) ==
  IF rem = <<NL>> THEN [kind |-> "Protocols", names |-> acc]
  ELSE IF CheckBefore /\ Len(acc) = MaxProtocols THEN Err("TooManyProtocols")
  ELSE IF Len(rem) < 3 \/ rem[1].t # "vlen" \/ rem[2].t # "name" \/ rem[3].t # "nl" \/ rem[1].v # rem[2].len + 1 THEN Err("InvalidMessage")
  ELSE IF ~rem[2].slash THEN Err("InvalidProtocol")
  ELSE LET acc2 == Append(acc, [len |-> rem[2].len, slash |-> TRUE]) IN
       IF ~CheckBefore /\ Len(acc2) > MaxProtocols + 1 THEN Err("TooManyProtocols")
       ELSE DecList(SubSeq(rem, 4, Len(rem)), acc2)
Decode(b) ==
  IF b = <<[t |-> "H"]>> THEN [kind |-> "Header", names |-> <<>>]
  ELSE IF b = <<[t |-> "N"]>> THEN [kind |-> "Na", names |-> <<>>]
  ELSE IF b = <<[t |-> "L"]>> THEN [kind |-> "Ls", names |-> <<>>]
  ELSE IF Len(b) = 2 /\ b[1].t = "name" /\ b[1].slash /\ b[2].t = "nl" THEN [kind |-> "Protocol", names |-> <<[len |-> b[1].len, slash |-> TRUE]>>]
  ELSE DecList(b, <<>>)
(* ---- properties ---- *)
Valid == \A i \in 1..Len(m.names) : m.names[i].slash
IsErr(r) == r.kind \in {"TooManyProtocols", "InvalidMessage", "InvalidProtocol"}
RoundTrip == (Valid /\ Len(m.names) <= MaxProtocols) => Decode(Encode(m)) = m
RejectTooMany == (m.kind = "Protocols" /\ Len(m.names) > MaxProtocols) => IsErr(Decode(Encode(m)))
RejectNoSlash == ~Valid => IsErr(Decode(Encode(m)))
(* framing: a body is sendable iff it fits MaxFrame; the frame layer adds a prefix of <= 2 units exactly then *)
Sendable == Size(Encode(m)) <= MaxFrame
Prefix(n) == IF n <= MaxFrame THEN (IF n < 4 THEN 1 ELSE 2) ELSE 3
PrefixAtMostTwo == Sendable <=> Prefix(Size(Encode(m))) <= 2
====
