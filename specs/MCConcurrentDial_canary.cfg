CONSTANTS
  N = 4
  K = 2
  NoRefill = TRUE
INIT Init
NEXT Next
INVARIANT FactorRespected ErrorsExact FailureReportsAll SuccessIsReal WindowKeptFull
