INIT Init
NEXT Next
INVARIANT OwnerOK
CONSTRAINT Progress
POSTCONDITION Accepted
