CONSTANTS
  MaxExt = 3
  KeepLast = FALSE
SPECIFICATION Spec
INVARIANT RuleOK
