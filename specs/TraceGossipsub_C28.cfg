INIT Init
NEXT Next
INVARIANT C28_MeshMemberEligible
INVARIANT C28_AddedNotBackedOff
INVARIANT C28_AddedNotNegative
INVARIANT C28_AddedNotExplicit
INVARIANT C28_GraftRefusedAtMeshHigh
CONSTRAINT Progress
POSTCONDITION Accepted
