CONSTANTS
  Bug = "perm_nosig"
INIT Init
NEXT Next
INVARIANTS AcceptedIsValid StrictRejectsMutation
