CONSTANTS
  Lens = {80}
  Kinds = {"plain", "quoted"}
  MaxAddrs = 3
  RecBudget = 333
  StaleLenByte = TRUE
  Truncate = FALSE
INIT Init
NEXT Next
INVARIANT PacketFits Exact
