CONSTANTS
  Lens = {80}
  Kinds = {"plain", "quoted"}
  MaxAddrs = 3
  RecBudget = 331
  HdrBudget = 104
  QuoteBug = TRUE
  Truncate = FALSE
INIT Init
NEXT Next
INVARIANT PacketFits Exact
