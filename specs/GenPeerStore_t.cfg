CONSTANTS
  Peers = {0, 1, 2}
  Addrs = {0, 1, 2}
  PeerCap = 2
  RecCap = 2
  MaxFailed = 1
  RemoveOnDialError = TRUE
  IgnoreForce = FALSE
  EntryOverflow = FALSE
  SilentAuto = FALSE
INIT GInit
NEXT GNext
VIEW GView
INVARIANT EmitState
