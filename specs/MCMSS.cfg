CONSTANTS
  Protos = {"a", "b", "c"}
  MaxLen = 2
  NData = 2
  SetLastNa = TRUE
INIT Init
NEXT Next
INVARIANT Agreement NoneInCommon Transparent Complete
