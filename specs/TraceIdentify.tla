---- MODULE TraceIdentify ----
(* C46 trace validation (property level).  One run = one connection whose authenticated peer is A.  msg events
   describe what the (possibly lying) remote put on the wire; received / peer_addr are what identify reports.
   Every address carries a unique id and its origin (plain listenAddrs field / signed peer record) is visible.
     okRec   = ids of record addresses that arrived in a record validly signed by A (the connection's peer)
     okPlain = ids of plain addresses that arrived in a message that did not carry a foreign public key (an
               absent or undecodable key field of a push leaves the authenticated key in place)
   Statement: information is reported only with a public key deriving A; a reported address that stems from a
   signed record stems from a record validly signed by A; plain addresses come from messages of this peer; no
   reported address ends in /p2p/<other peer>.  What else is dropped or kept is not constrained. *)
EXTENDS TraceIO, FiniteSets
VARIABLES l, okRec, okPlain
vars == <<l, okRec, okPlain>>
Init == l = 1 /\ okRec = {} /\ okPlain = {} /\ InitReg
R == Rec[l]
SeqSet(s) == {s[i] : i \in 1..Len(s)}
Reset == R.e = "reset" /\ okRec' = {} /\ okPlain' = {}
Msg == /\ R.e = "msg"
       /\ okRec' = IF R.rec = "A" THEN okRec \cup SeqSet(R.recaddrs) ELSE okRec
       /\ okPlain' = IF R.key # "B" THEN okPlain \cup SeqSet(R.plain) ELSE okPlain
AddrOK(a) == /\ a.p2p # "other"
             /\ a.src \in {"plain", "rec"}
             /\ (a.src = "rec" => a.id \in okRec)
             /\ (a.src = "plain" => a.id \in okPlain)
Received == /\ R.e = "received"
            /\ R.keyok
            /\ (\A i \in 1..Len(R.addrs) : AddrOK(R.addrs[i])) = TRUE
            /\ UNCHANGED <<okRec, okPlain>>
PeerAddr == /\ R.e = "peer_addr" /\ R.peerok /\ AddrOK(R.addr) /\ UNCHANGED <<okRec, okPlain>>
Error == R.e = "error" /\ UNCHANGED <<okRec, okPlain>>
Next == l <= NRec /\ l' = l + 1 /\ (Reset \/ Msg \/ Received \/ PeerAddr \/ Error)
Spec == Init /\ [][Next]_vars
Progress == Mark(l)
====
