---- MODULE ConnId ----
(* ConnectionId::next(): a process-wide counter used from many threads. Probe for C03. *)
EXTENDS Naturals, FiniteSets, TLC
CONSTANTS Threads, PerThread,
          Atomic          \* TRUE = fetch_add (one step); FALSE = canary: load then store
VARIABLES next, pc, tmp, got
vars == <<next, pc, tmp, got>>
Init == next = 1 /\ pc = [t \in Threads |-> "idle"] /\ tmp = [t \in Threads |-> 0] /\ got = [t \in Threads |-> {}]
Alloc(t) == /\ Atomic /\ Cardinality(got[t]) < PerThread
            /\ got' = [got EXCEPT ![t] = @ \cup {next}] /\ next' = next + 1 /\ UNCHANGED <<pc, tmp>>
Load(t) == /\ ~Atomic /\ pc[t] = "idle" /\ Cardinality(got[t]) < PerThread
           /\ tmp' = [tmp EXCEPT ![t] = next] /\ pc' = [pc EXCEPT ![t] = "loaded"] /\ UNCHANGED <<next, got>>
Store(t) == /\ ~Atomic /\ pc[t] = "loaded"
            /\ next' = tmp[t] + 1 /\ got' = [got EXCEPT ![t] = @ \cup {tmp[t]}] /\ pc' = [pc EXCEPT ![t] = "idle"] /\ UNCHANGED tmp
Next == \E t \in Threads : Alloc(t) \/ Load(t) \/ Store(t)
Spec == Init /\ [][Next]_vars
Unique == \A a, b \in Threads : a # b => got[a] \cap got[b] = {}
NoLoss == \A t \in Threads : Cardinality(got[t]) <= PerThread
====
