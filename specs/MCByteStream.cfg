CONSTANTS
  Dirs = {0, 1}
  MaxLen = 3
  MaxChunk = 2
INIT BSInit
NEXT BSNext
INVARIANT PrefixOK EofComplete TypeOK
