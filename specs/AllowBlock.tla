---- MODULE AllowBlock ----
(* misc/allow-block-list (blocked flavour; the allowed flavour is its complement): list changes queue
   CloseConnection::All, enforce() on every established callback. C53.
   Canary NoEnforceIn: established inbound connections are not checked. *)
EXTENDS Naturals, FiniteSets, Sequences, TLC
CONSTANTS Peers, MaxConn, NoEnforceIn
VARIABLES blocked, est, closeQ, last   \* est: set of <<id, peer, dir>>; closeQ: peers whose connections are to be closed; last: monitor
vars == <<blocked, est, closeQ, last>>
Init == blocked = {} /\ est = {} /\ closeQ = <<>> /\ last = <<>>
Ids == 1..MaxConn
Block(p) == /\ blocked' = blocked \cup {p} /\ closeQ' = (IF p \in blocked THEN closeQ ELSE Append(closeQ, p)) /\ last' = <<>> /\ UNCHANGED est
Unblock(p) == blocked' = blocked \ {p} /\ last' = <<>> /\ UNCHANGED <<est, closeQ>>
Establish(i, p, d) == /\ \A e \in est : e[1] # i
                      /\ (p \notin blocked \/ (NoEnforceIn /\ d = "in"))
                      /\ est' = est \cup {<<i, p, d>>} /\ last' = <<p, p \in blocked>> /\ UNCHANGED <<blocked, closeQ>>
ProcessClose == /\ closeQ # <<>> /\ est' = {e \in est : e[2] # Head(closeQ)} /\ closeQ' = Tail(closeQ) /\ last' = <<>> /\ UNCHANGED blocked
Close(i) == est' = {e \in est : e[1] # i} /\ last' = <<>> /\ UNCHANGED <<blocked, closeQ>>
Next == \/ \E p \in Peers : Block(p) \/ Unblock(p)
        \/ \E i \in Ids, p \in Peers, d \in {"in", "out"} : Establish(i, p, d)
        \/ ProcessClose \/ \E i \in Ids : Close(i)
NeverEstablishBlocked == last # <<>> => ~last[2]
QuiescentClean == closeQ = <<>> => \A e \in est : e[2] \notin blocked
Bound == Len(closeQ) <= 3
====
