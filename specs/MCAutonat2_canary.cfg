CONSTANTS
  Reqs = {1, 2}
  MaxAddrs = 2
  Need = 2
  NoDataWait = TRUE
  TwoResponses = FALSE
SPECIFICATION Spec
INVARIANT OneDialPerRequest
INVARIANT NoDialBeforeData
INVARIANT AtMostOneResponse
INVARIANT FaithfulResponse
INVARIANT DoneMeansAnswered
PROPERTY EventuallyAnswered
