---- MODULE TraceByteStream ----
(* Property-level trace specification of an upgraded byte stream (C17 Noise channel, C19 pnet and
   plaintext).  Two endpoints; direction d in {0,1} = bytes written by endpoint d, read by endpoint
   1-d (sequences are indexed d+1).  The k-th byte written in a direction is determined by k; the
   driver compares every chunk read with the written stream at the reader's offset and reports the
   index of the first differing byte (`bad`, -1 = identical).
     hs(side,res,peer,idMatches,keyOK,idOK)   handshake outcome of one side
     w(d,n,req)     poll_write accepted n of req bytes          wpend / flpend / clpend / rpend: Pending
     flush(d)       poll_flush completed                         close(d): poll_close completed
     r(d,n,bad)     reader got n bytes                           eof(d): reader got Ok(0)
     rerr(d)        reader got an error                          werr(d): writer got an error
     dl / wb        transport bookkeeping (delivery chunk, write budget)
     corrupt(d)     the driver will flip one bit of the wire byte at a given offset of direction d
     quiesce(hit,up) everything writable was flushed (or closed), every wire byte delivered and every
                    reader polled until Pending/EOF/error; hit[d] = the corrupted byte was really sent
   Guards = the statements: handshake succeeds iff the announced id matches the announced key (and
   both decode) and reports the remote; the reader only ever sees the written stream, in order and
   unaltered, never more than was written; EOF only after the writer closed and everything was
   delivered; errors only after a fault; at quiescence everything written has been delivered (and a
   closed stream has reached EOF); with integrity protection a corrupted stream that was closed ends
   in an error and never in a clean EOF. *)
EXTENDS TraceIO, Integers
VARIABLES l, sent, delivered, wclosed, rstat, corrupted, integrity
vars == <<l, sent, delivered, wclosed, rstat, corrupted, integrity>>
Z == <<0, 0>>
F == <<FALSE, FALSE>>
Init == /\ l = 1 /\ sent = Z /\ delivered = Z /\ wclosed = F /\ rstat = <<"open", "open">> /\ corrupted = F
        /\ integrity = FALSE /\ InitReg
R == Rec[l]
i == R.d + 1
Reset == /\ R.e = "reset" /\ sent' = Z /\ delivered' = Z /\ wclosed' = F /\ rstat' = <<"open", "open">>
         /\ corrupted' = F /\ integrity' = R.integrity
Hs == /\ R.e = "hs"
      /\ (R.res = "ok") <=> (R.idMatches /\ R.keyOK /\ R.idOK)
      /\ R.res \in {"ok", "err"}
      /\ (R.res = "ok" => R.peer \in {"remote", "none"})
      /\ UNCHANGED <<sent, delivered, wclosed, rstat, corrupted, integrity>>
Write == /\ R.e = "w" /\ ~wclosed[i] /\ R.n >= 0 /\ R.n <= R.req
         /\ (R.req > 0 => R.n > 0)                                 \* Ok(0) for a non-empty buffer is not a write
         /\ sent' = [sent EXCEPT ![i] = @ + R.n]
         /\ UNCHANGED <<delivered, wclosed, rstat, corrupted, integrity>>
Noop == /\ R.e \in {"wpend", "flpend", "clpend", "rpend", "dl", "wb", "flush"}
        /\ UNCHANGED <<sent, delivered, wclosed, rstat, corrupted, integrity>>
Close == /\ R.e = "close" /\ wclosed' = [wclosed EXCEPT ![i] = TRUE]
         /\ UNCHANGED <<sent, delivered, rstat, corrupted, integrity>>
Corrupt == /\ R.e = "corrupt" /\ corrupted' = [corrupted EXCEPT ![i] = TRUE]
           /\ UNCHANGED <<sent, delivered, wclosed, rstat, integrity>>
Read == /\ R.e = "r" /\ R.n > 0 /\ R.n <= R.req
        /\ R.bad = -1                                              \* unaltered, in order
        /\ delivered[i] + R.n <= sent[i]                           \* nothing that was not written
        /\ rstat[i] # "eof"
        /\ delivered' = [delivered EXCEPT ![i] = @ + R.n]
        /\ UNCHANGED <<sent, wclosed, rstat, corrupted, integrity>>
Eof == /\ R.e = "eof"
       /\ (rstat[i] # "err" => (wclosed[i] /\ delivered[i] = sent[i])) = TRUE   \* clean EOF only after everything; after an error Ok(0) is harmless
       /\ rstat' = [rstat EXCEPT ![i] = IF @ = "err" THEN "err" ELSE "eof"]
       /\ UNCHANGED <<sent, delivered, wclosed, corrupted, integrity>>
AnyFault == corrupted[1] \/ corrupted[2]      \* after tampering the whole session may legitimately be torn down
ReadErr == /\ R.e = "rerr" /\ AnyFault = TRUE /\ rstat[i] # "eof"     \* no failure without a fault
           /\ rstat' = [rstat EXCEPT ![i] = "err"]
           /\ UNCHANGED <<sent, delivered, wclosed, corrupted, integrity>>
WriteErr == /\ R.e = "werr" /\ AnyFault = TRUE
            /\ UNCHANGED <<sent, delivered, wclosed, rstat, corrupted, integrity>>
Quiesce == /\ R.e = "quiesce"
           /\ ((R.up[1] /\ R.up[2]) =>
                \A k \in 1..2 :
                  IF R.hit[k] /\ integrity
                  THEN (wclosed[k] => rstat[k] = "err") /\ rstat[k] # "eof"
                  ELSE (~(R.hit[1] \/ R.hit[2]) =>                         \* no tampering took effect: transparent
                          /\ delivered[k] = sent[k] /\ rstat[k] # "err"
                          /\ (wclosed[k] => rstat[k] = "eof"))) = TRUE
           /\ UNCHANGED <<sent, delivered, wclosed, rstat, corrupted, integrity>>
Next == l <= NRec /\ l' = l + 1 /\ (Reset \/ Hs \/ Write \/ Noop \/ Close \/ Corrupt \/ Read \/ Eof \/ ReadErr \/ WriteErr \/ Quiesce)
Spec == Init /\ [][Next]_vars
PrefixOK == \A k \in 1..2 : delivered[k] <= sent[k]
Progress == Mark(l)
====
