CONSTANTS
  Ls = {1, 2}
  As = {a, b}
  NoContains = FALSE
INIT Init
NEXT Next
INVARIANT ListenersView ClosedCarriesRemaining ExternalView
