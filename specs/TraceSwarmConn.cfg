INIT Init
NEXT Next
INVARIANT ClosedOnlyAfterEst NeverLocal DeniedNeverCounted
CONSTRAINT Progress
POSTCONDITION Accepted
