---- MODULE TraceMplexLimits ----
(* C26 trace validation (property level): a REAL mplex endpoint against a raw frame injector.
   State is rebuilt from the events; the guards/invariants are the statement:
     SubstreamLimit  the substream table never holds more than max_substreams entries (snap)
     AppLimit        neither does the application hold more substreams than that
     BufferLimit     no substream buffers more than max_buffer_len + 1 frames (snap)
     refusal         a Reset for an inbound Open that never entered the table is only legitimate
                     if the table was full at some snapshot since that Open was injected; such an
                     id is never handed to the application; at the end every injected Open was
                     either handed out or refused with a Reset on the wire
     no loss         bytes read on a substream are always a prefix of the bytes the remote sent on
                     it; EOF only after the remote's Close/Reset and after all its bytes (Block);
                     after the final drain nothing is missing (Block)
     ResetStream     an overflow (max_buffer_len + 1 frames seen buffered) is the only excuse for
                     missing bytes / early EOF, and it must put a Reset on the wire.
   Everything the driver cannot observe (when exactly a frame is processed) is left open. *)
EXTENDS TraceIO, FiniteSets
VARIABLES l, maxSub, maxBuf, block, opened, live, sent, rd, rfin, acc, dropped, eofs, inTable, full,
          refused, over, lreset, closeReq, wrote, txd, nsub, mbuf
vars == <<l, maxSub, maxBuf, block, opened, live, sent, rd, rfin, acc, dropped, eofs, inTable, full,
          refused, over, lreset, closeReq, wrote, txd, nsub, mbuf>>
R == Rec[l]
Sids == (0..79) \cup (100..131)
Empty == [s \in Sids |-> <<>>]
Prefix(a, b) == Len(a) <= Len(b) /\ \A i \in 1..Len(a) : a[i] = b[i]
cfgv == <<maxSub, maxBuf, block>>
Init == /\ l = 1 /\ maxSub = 1 /\ maxBuf = 1 /\ block = TRUE /\ opened = {} /\ live = {} /\ sent = Empty /\ rd = Empty
        /\ rfin = [s \in Sids |-> "no"] /\ acc = {} /\ dropped = {} /\ eofs = {} /\ inTable = {} /\ full = {}
        /\ refused = {} /\ over = {} /\ lreset = {} /\ closeReq = {} /\ wrote = Empty /\ txd = Empty
        /\ nsub = 0 /\ mbuf = 0 /\ InitReg
Reset == /\ R.e = "reset" /\ maxSub' = R.max_sub /\ maxBuf' = R.max_buf /\ block' = R.block
         /\ opened' = {} /\ live' = {} /\ sent' = Empty /\ rd' = Empty /\ rfin' = [s \in Sids |-> "no"]
         /\ acc' = {} /\ dropped' = {} /\ eofs' = {} /\ inTable' = {} /\ full' = {} /\ refused' = {} /\ over' = {}
         /\ lreset' = {} /\ closeReq' = {} /\ wrote' = Empty /\ txd' = Empty /\ nsub' = 0 /\ mbuf' = 0
(* ---- the remote (injector) ---- *)
Inj == /\ R.e = "inj" /\ R.sid \in Sids
       /\ IF R.f = "open" THEN /\ R.sid < 100 /\ R.sid \notin opened       \* generator never reuses ids
                               /\ opened' = opened \cup {R.sid} /\ live' = live \cup {R.sid}
                               /\ UNCHANGED <<sent, rfin>>
          ELSE IF R.f = "data" THEN /\ sent' = IF R.sid \in live THEN [sent EXCEPT ![R.sid] = @ \o R.bytes] ELSE sent
                                    /\ UNCHANGED <<opened, live, rfin>>
          ELSE /\ rfin' = IF R.sid \in live THEN [rfin EXCEPT ![R.sid] = R.f] ELSE rfin
               /\ live' = live \ {R.sid} /\ UNCHANGED <<opened, sent>>
       /\ UNCHANGED <<cfgv, rd, acc, dropped, eofs, inTable, full, refused, over, lreset, closeReq, wrote, txd, nsub, mbuf>>
(* ---- the local application ---- *)
Accept == /\ R.e = "accept" /\ R.sid \in opened /\ R.sid \notin acc /\ R.sid \notin refused
          /\ acc' = acc \cup {R.sid}
          /\ UNCHANGED <<cfgv, opened, live, sent, rd, rfin, dropped, eofs, inTable, full, refused, over, lreset, closeReq, wrote, txd, nsub, mbuf>>
Opened == /\ R.e = "opened" /\ R.sid >= 100 /\ R.sid \in Sids /\ R.sid \notin acc
          /\ acc' = acc \cup {R.sid} /\ live' = live \cup {R.sid}
          /\ UNCHANGED <<cfgv, opened, sent, rd, rfin, dropped, eofs, inTable, full, refused, over, lreset, closeReq, wrote, txd, nsub, mbuf>>
Read == /\ R.e = "read" /\ R.sid \in acc \ dropped /\ R.sid \notin eofs /\ Len(R.bytes) > 0
        /\ rd' = [rd EXCEPT ![R.sid] = @ \o R.bytes]
        /\ Prefix(rd'[R.sid], sent[R.sid])
        /\ UNCHANGED <<cfgv, opened, live, sent, rfin, acc, dropped, eofs, inTable, full, refused, over, lreset, closeReq, wrote, txd, nsub, mbuf>>
Overflowed(s) == ~block /\ s \in over
Eof == /\ R.e = "eof" /\ R.sid \in acc \ dropped
       /\ ((rfin[R.sid] # "no" /\ rd[R.sid] = sent[R.sid]) \/ Overflowed(R.sid)) = TRUE
       /\ eofs' = eofs \cup {R.sid}
       /\ UNCHANGED <<cfgv, opened, live, sent, rd, rfin, acc, dropped, inTable, full, refused, over, lreset, closeReq, wrote, txd, nsub, mbuf>>
Drop == /\ R.e = "drop" /\ R.sid \in acc \ dropped /\ dropped' = dropped \cup {R.sid}
        /\ UNCHANGED <<cfgv, opened, live, sent, rd, rfin, acc, eofs, inTable, full, refused, over, lreset, closeReq, wrote, txd, nsub, mbuf>>
Wrote == /\ R.e = "wrote" /\ R.sid \in acc \ dropped /\ wrote' = [wrote EXCEPT ![R.sid] = @ \o R.bytes]
         /\ UNCHANGED <<cfgv, opened, live, sent, rd, rfin, acc, dropped, eofs, inTable, full, refused, over, lreset, closeReq, txd, nsub, mbuf>>
CloseOp == /\ R.e \in {"closed", "w_pending", "w_err", "flushed"}
           /\ closeReq' = IF R.e = "closed" \/ (R.e # "flushed" /\ R.op = "close") THEN closeReq \cup {R.sid} ELSE closeReq
           /\ UNCHANGED <<cfgv, opened, live, sent, rd, rfin, acc, dropped, eofs, inTable, full, refused, over, lreset, wrote, txd, nsub, mbuf>>
Quiet == /\ R.e \in {"accept_pending", "open_pending", "read_pending", "skip", "budget", "drain"}
         /\ UNCHANGED <<cfgv, opened, live, sent, rd, rfin, acc, dropped, eofs, inTable, full, refused, over, lreset, closeReq, wrote, txd, nsub, mbuf>>
(* ---- observations ---- *)
SnapSids == {R.subs[i].sid : i \in 1..Len(R.subs)}
Snap == /\ R.e = "snap" /\ R.status = "Open" /\ Len(R.subs) = R.n /\ SnapSids \subseteq Sids
        /\ nsub' = R.n /\ mbuf' = R.mbuf
        /\ \A i \in 1..Len(R.subs) : R.subs[i].buf <= R.mbuf
        /\ inTable' = inTable \cup SnapSids
        /\ over' = over \cup {R.subs[i].sid : i \in {j \in 1..Len(R.subs) : R.subs[j].buf >= maxBuf + 1}}
        /\ full' = IF R.n >= maxSub THEN full \cup {s \in opened : s \notin inTable' /\ s \notin refused} ELSE full
        /\ UNCHANGED <<cfgv, opened, live, sent, rd, rfin, acc, dropped, eofs, refused, lreset, closeReq, wrote, txd>>
Tx == /\ R.e = "tx" /\ R.sid \in Sids
      /\ IF R.k = "reset" THEN
            /\ lreset' = lreset \cup {R.sid}
            /\ IF R.sid \in dropped \/ Overflowed(R.sid) THEN UNCHANGED refused
               ELSE /\ R.sid \in opened /\ R.sid \notin inTable /\ R.sid \notin acc /\ R.sid \in full      \* refusal
                    /\ refused' = refused \cup {R.sid}
            /\ UNCHANGED txd
         ELSE IF R.k = "close" THEN R.sid \in dropped \cup closeReq /\ UNCHANGED <<lreset, refused, txd>>
         ELSE IF R.k = "open" THEN R.sid >= 100 /\ R.sid \in acc /\ UNCHANGED <<lreset, refused, txd>>
         ELSE /\ R.sid \in acc /\ txd' = [txd EXCEPT ![R.sid] = @ \o R.bytes] /\ Prefix(txd'[R.sid], wrote[R.sid])
              /\ UNCHANGED <<lreset, refused>>
      /\ UNCHANGED <<cfgv, opened, live, sent, rd, rfin, acc, dropped, eofs, inTable, full, over, closeReq, wrote, nsub, mbuf>>
(* after the drain: nothing lost, every Open resolved, every overflow answered *)
End == /\ R.e = "end"
       /\ (\A s \in acc \ dropped : /\ (rd[s] = sent[s] \/ Overflowed(s))
                                    /\ (rfin[s] # "no" => s \in eofs)) = TRUE
       /\ (\A s \in opened : s \in acc \/ s \in refused) = TRUE
       /\ \A s \in over : ~block => s \in lreset
       /\ \A s \in refused : s \in lreset /\ s \notin acc
       /\ UNCHANGED <<cfgv, opened, live, sent, rd, rfin, acc, dropped, eofs, inTable, full, refused, over, lreset, closeReq, wrote, txd, nsub, mbuf>>
Next == l <= NRec /\ l' = l + 1 /\ (Reset \/ Inj \/ Accept \/ Opened \/ Read \/ Eof \/ Drop \/ Wrote \/ CloseOp \/ Quiet \/ Snap \/ Tx \/ End)
Spec == Init /\ [][Next]_vars
SubstreamLimit == nsub <= maxSub
BufferLimit == mbuf <= maxBuf + 1
AppLimit == Cardinality(acc \ dropped) <= maxSub
Progress == Mark(l)
====
