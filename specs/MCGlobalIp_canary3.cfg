CONSTANTS
  DropShared = FALSE
  WideLinkLocal = FALSE
  OldStd = TRUE
INIT Init
NEXT Next
INVARIANT CodeMatchesRegistry
