---- MODULE ConcurrentDial ----
(* swarm::connection::pool::concurrent_dial::ConcurrentDial (non-smart mode). Probe for C08. *)
EXTENDS Naturals, Sequences, FiniteSets, TLC
CONSTANTS N, K,
          NoRefill       \* canary: a failed dial does not start the next pending one
VARIABLES st,            \* address index -> "idle" | "inflight" | "ok" | "err"
          nextPending,   \* index of the next address not yet started
          errors,        \* sequence of failed addresses in completion order
          result         \* "none" | "ok" | "failed"
          , winner
vars == <<st, nextPending, errors, result, winner>>
Addr == 1..N
Min(a, b) == IF a < b THEN a ELSE b
Init == /\ st = [a \in Addr |-> IF a <= K THEN "inflight" ELSE "idle"] /\ nextPending = Min(K, N) + 1
        /\ errors = <<>> /\ result = "none" /\ winner = 0
Succeed(a) == /\ result = "none" /\ st[a] = "inflight"
              /\ st' = [st EXCEPT ![a] = "ok"] /\ result' = "ok" /\ winner' = a /\ UNCHANGED <<nextPending, errors>>
Fail(a) == /\ result = "none" /\ st[a] = "inflight"
           /\ errors' = Append(errors, a)
           /\ IF nextPending <= N /\ ~NoRefill
              THEN st' = [st EXCEPT ![a] = "err", ![nextPending] = "inflight"] /\ nextPending' = nextPending + 1
              ELSE st' = [st EXCEPT ![a] = "err"] /\ UNCHANGED nextPending
           /\ IF \A b \in Addr : st'[b] \notin {"inflight"} THEN result' = "failed" ELSE UNCHANGED result
           /\ UNCHANGED winner
Next == \E a \in Addr : Succeed(a) \/ Fail(a)
Spec == Init /\ [][Next]_vars
InFlight == Cardinality({a \in Addr : st[a] = "inflight"})
FactorRespected == InFlight <= K
ErrSet == {errors[i] : i \in 1..Len(errors)}
ErrorsExact == /\ Len(errors) = Cardinality(ErrSet)                                     \* each failed address once
               /\ ErrSet = {a \in Addr : st[a] = "err"}
FailureReportsAll == result = "failed" => ErrSet = Addr                                  \* every address was attempted and reported
SuccessIsReal == result = "ok" => st[winner] = "ok"
WindowKeptFull == (result = "none" /\ nextPending <= N) => InFlight = K                   \* the window is refilled after each failure
====
