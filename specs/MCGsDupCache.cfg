CONSTANTS
  Keys = {1, 2, 3}
  Ttl = 2
  MaxNow = 7
  Refresh = FALSE
INIT Init
NEXT Next
INVARIANTS SeenWithinTtl NewAfterTtl NotRefreshed LazyBound ListSorted
