INIT Init
NEXT Next
INVARIANT PerPeerLimit
INVARIANT TotalLimit
CONSTRAINT Progress
POSTCONDITION Accepted
