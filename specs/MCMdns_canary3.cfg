CONSTANTS
  Lens = {80, 256}
  Kinds = {"plain"}
  MaxAddrs = 3
  RecBudget = 333
  StaleLenByte = FALSE
  Truncate = TRUE
INIT Init
NEXT Next
INVARIANT PacketFits Exact
