CONSTANTS
  Lens = {80, 256}
  Kinds = {"plain"}
  MaxAddrs = 3
  RecBudget = 331
  HdrBudget = 104
  QuoteBug = FALSE
  Truncate = TRUE
INIT Init
NEXT Next
INVARIANT PacketFits Exact
