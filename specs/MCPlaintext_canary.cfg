CONSTANTS
  X = 2
  T = 3
  HandOver = FALSE
SPECIFICATION Spec
INVARIANT Prefix Outcome Complete
PROPERTY Refines
