CONSTANTS
  Reqs = {1, 2}
  MaxAddrs = 2
  Need = 2
  NoDataWait = FALSE
  TwoResponses = TRUE
SPECIFICATION Spec
INVARIANT OneDialPerRequest
INVARIANT NoDialBeforeData
INVARIANT AtMostOneResponse
INVARIANT FaithfulResponse
INVARIANT DoneMeansAnswered
PROPERTY EventuallyAnswered
