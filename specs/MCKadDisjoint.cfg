CONSTANTS
  N = 4
  Par = 2
  NumRes = 2
  Seeds = {2, 4}
  ShareCloser = FALSE
INIT Init
NEXT Next
INVARIANT InFlightBound
INVARIANT PathBound
INVARIANT ContactedOnce
INVARIANT Disjoint
INVARIANT ResultOK
INVARIANT StuckFree
