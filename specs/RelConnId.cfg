INIT Init
NEXT Next
