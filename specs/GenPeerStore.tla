---- MODULE GenPeerStore ----
(* C54 schedule generator: PeerStore with a history of letters; history excluded from the VIEW.
   EmitEdge prints the letter sequence of every transition of the model's state graph (every call / swarm
   event tried in every reachable store content). *)
EXTENDS PeerStore, Json
VARIABLE h
GInit == Init /\ h = <<>>
GNext == \E x \in Letters : Do(x) /\ h' = Append(h, x)
GView == recs
EmitEdge == PrintT(<<"REPLAY", ToJson([pc |-> PeerCap, rc |-> RecCap, rm |-> RemoveOnDialError, ops |-> h'])>>)
EmitState == h = <<>> \/ PrintT(<<"REPLAY", ToJson([pc |-> PeerCap, rc |-> RecCap, rm |-> RemoveOnDialError, ops |-> h])>>)
====
