CONSTANTS
  VerifySig = TRUE
  SamePrologue = TRUE
SPECIFICATION Spec
INVARIANT NotBothDone
