CONSTANTS
  Lens = {255}
  Kinds = {"plain"}
  MaxAddrs = 60
  RecBudget = 300
  StaleLenByte = FALSE
  Truncate = FALSE
INIT Init
NEXT Next
INVARIANT PacketFits Exact
