CONSTANTS
  Lens = {255}
  Kinds = {"plain"}
  MaxAddrs = 60
  RecBudget = 300
  HdrBudget = 100
  QuoteBug = FALSE
  Truncate = FALSE
INIT Init
NEXT Next
INVARIANT PacketFits Exact
