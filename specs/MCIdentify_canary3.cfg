CONSTANTS
  NoKeyCheck = FALSE
  AnySigner = FALSE
  NoP2pFilter = TRUE
INIT Init
NEXT Next
INVARIANT OnlyAuthenticatedKey
INVARIANT RecordOnlyIfSignedBySamePeer
INVARIANT NoForeignPeerAddr
