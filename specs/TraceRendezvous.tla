---- MODULE TraceRendezvous ----
(* C51 trace validation (property level).  The abstract state is rebuilt from the recorded events:
     live  = the registrations the server must currently hold: accepted, not superseded by a later accepted
             registration of the same (peer, namespace), not unregistered, not expired
     seen  = cookie number -> the registrations already returned along the discovery chain that produced it
   Guards / invariants are the clauses of the statement:
     accept only with min <= ttl <= max; |live of a peer| <= mpp; |live| <= mt; re-registering an existing
     (peer, namespace) with a valid ttl is never refused; an expiry is reported only for a live registration
     whose ttl has elapsed (a superseded one must not expire later); discovery returns only live, unexpired
     registrations (of the requested namespace, at most limit), none of them already returned under the cookie.
   Anything the statement leaves open (refusing a new registration below the limits, which error code, which
   subset discovery returns, cookie errors) is accepted. *)
EXTENDS TraceIO, FiniteSets
VARIABLES l, now, cfg, live, seen
vars == <<l, now, cfg, live, seen>>
NoCfg == [min |-> 0, max |-> 0, mpp |-> 0, mt |-> 0]
Init == l = 1 /\ now = 0 /\ cfg = NoCfg /\ live = {} /\ seen = <<>> /\ InitReg
R == Rec[l]
SeqSet(s) == {s[i] : i \in 1..Len(s)}
Key(p, n) == {r \in live : r.p = p /\ r.n = n}
Reset == /\ R.e = "reset" /\ now' = 0 /\ live' = {} /\ seen' = <<>>
         /\ cfg' = [min |-> R.min, max |-> R.max, mpp |-> R.mpp, mt |-> R.mt]
Reg == /\ R.e = "reg"
       /\ LET okTtl == R.ttl >= cfg.min /\ R.ttl <= cfg.max IN
          IF R.res = "ok"
          THEN /\ R.rttl >= cfg.min /\ R.rttl <= cfg.max     \* the granted ttl (the one the entry lives for) is in range
               /\ live' = (live \ Key(R.p, R.n)) \cup {[seq |-> R.seq, p |-> R.p, n |-> R.n, dl |-> now + R.rttl]}
          ELSE /\ ~(okTtl /\ Key(R.p, R.n) # {})       \* a refresh with a valid ttl must be accepted
               /\ UNCHANGED live
       /\ UNCHANGED <<now, cfg, seen>>
Unreg == /\ R.e = "unreg" /\ live' = live \ Key(R.p, R.n) /\ UNCHANGED <<now, cfg, seen>>
Tick == /\ R.e = "tick" /\ R.now >= now /\ now' = R.now /\ UNCHANGED <<cfg, live, seen>>
Expired == /\ R.e = "expired"
           /\ \E r \in live : r.seq = R.seq /\ r.dl <= now /\ live' = live \ {r}
           /\ UNCHANGED <<now, cfg, seen>>
Disc == /\ R.e = "disc"
        /\ IF R.res = "ok"
           THEN LET S == SeqSet(R.regs)
                    prior == IF R.ck >= 0 /\ R.ck \in DOMAIN seen THEN seen[R.ck] ELSE {} IN
                /\ Cardinality(S) = Len(R.regs)                                   \* no duplicates in one answer
                /\ (\A s \in S : \E r \in live : r.seq = s /\ r.dl > now /\ (R.n >= 0 => r.n = R.n)) = TRUE
                /\ S \cap prior = {}                                               \* at most once per cookie chain
                /\ (R.lim >= 0 => Len(R.regs) <= R.lim)
                /\ seen' = (R.nck :> (prior \cup S)) @@ seen
           ELSE UNCHANGED seen
        /\ UNCHANGED <<now, cfg, live>>
Next == l <= NRec /\ l' = l + 1 /\ (Reset \/ Reg \/ Unreg \/ Tick \/ Expired \/ Disc)
Spec == Init /\ [][Next]_vars
PerPeerLimit == \A r \in live : Cardinality({x \in live : x.p = r.p}) <= cfg.mpp
TotalLimit == Cardinality(live) <= cfg.mt
Progress == Mark(l)
====
