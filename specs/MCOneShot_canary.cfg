CONSTANTS MaxNeg = 2 NReq = 4 NIn = 1 DecOnError = FALSE
INIT Init
NEXT Next
INVARIANTS TypeOK OneSubstreamPerRequest Bounded ReportedExactlyOnce NoStall
