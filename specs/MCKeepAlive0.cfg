CONSTANTS
  Timeout = 0
  MaxTime = 5
  MaxStreams = 2
  NoReset = FALSE
INIT Init
NEXT Next
INVARIANT NeverClosedWhileBusy NotBeforeTimeout
