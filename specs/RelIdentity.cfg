INIT Init
NEXT Next
