---- MODULE TraceXTransport ----
(* X08 trace validation: the libp2p-core transport combinators (OrTransport, OptionalTransport, Map, AndThen,
   TransportTimeout, global_only, Either, Boxed) driven over two puppet transports (harness/drv-xcore/src/comb.rs).
   The state is rebuilt from the events: the listener events pending inside each inner transport (q), which side owns
   each listener id (own), and which inner dial / upgrade every future handed out by the combinator belongs to.

   Statements (specs/OrTransport.tla states them on the model):
     RouteFirst     listen_on / dial go to the FIRST inner transport (in stack order) that does not answer
                    MultiaddrNotSupported, and only to it; its Other error is returned (tagged with its side) without
                    trying the next; MultiaddrNotSupported (with the address intact) only if no side supports it.
                    OptionalTransport::none() supports nothing; global_only refuses non-global / non-IP dials before
                    asking anybody and passes listen_on through.
     OwnerStable    remove_listener returns TRUE iff some side holds the listener, and removes it there only;
                    events keep the listener id the inner transport reported.
     NoLossNoDup    every poll result is the oldest pending event of ONE side (either side may be served first:
                    OrTransport's first-transport priority is a legal choice), unchanged except for the tag;
                    Pending only if no side of the stack has an event.
     RightTag       an incoming upgrade / dial future resolves to the outcome of ITS inner future, tagged Left for side
                    0 and Right for side 1 (outputs and errors); map / and_then functions see the ConnectedPoint of the
                    attempt (dialed address, or local + send-back address) and their error is reported as theirs.
     TimeoutLower   TransportTimeout never reports Timeout before the duration has elapsed, never invents another
                    outcome, and passes an inner result that is ready when polled before the deadline. *)
EXTENDS TraceIO, FiniteSets, Integers
VARIABLES l, stack, sup, q, own, used, dl, up, daddr, uaddr, nsl, nup, outc, gone
vars == <<l, stack, sup, q, own, used, dl, up, daddr, uaddr, nsl, nup, outc, gone>>
R == Rec[l]
Ids == 0..7
Sup0 == <<<<1, 1, 1, 1, 1, 1, 1, 1>>, <<1, 1, 1, 1, 1, 1, 1, 1>>>>
Glob == <<0, 0, 0, 0, 1, 0, 1, 0>>          \* address alphabet: only 8.8.8.8 and 2606:4700::1 are global IPs
Init == /\ l = 1 /\ stack = "or" /\ sup = Sup0 /\ q = <<<<>>, <<>>>> /\ own = [i \in Ids |-> -1] /\ used = {}
        /\ dl = <<>> /\ up = <<>> /\ daddr = <<>> /\ uaddr = <<>> /\ nsl = <<0, 0>> /\ nup = <<0, 0>> /\ outc = {} /\ gone = {}
        /\ InitReg
Reset == /\ R.e = "reset" /\ stack' = R.stack /\ sup' = (IF R.stack = "toprobe" THEN Sup0 ELSE R.sup)
         /\ q' = <<<<>>, <<>>>> /\ own' = [i \in Ids |-> -1] /\ used' = {}
         /\ dl' = <<>> /\ up' = <<>> /\ daddr' = <<>> /\ uaddr' = <<>> /\ nsl' = <<0, 0>> /\ nup' = <<0, 0>> /\ outc' = {} /\ gone' = {}
Sides == CASE stack = "optnone_l" -> <<1>> [] stack = "either_r" -> <<1>> [] stack = "optnone_r" -> <<0>> [] stack = "either_l" -> <<0>>
           [] OTHER -> <<0, 1>>
SideSet == {Sides[i] : i \in 1..Len(Sides)}
Tagged == stack # "boxed"                     \* the boxed stack erases the error type
S(a) == [i \in 1..Len(Sides) |-> sup[Sides[i] + 1][a + 1]]
(* index in Sides of the first side that does not say MultiaddrNotSupported; 0 = none *)
First(a) == IF \E i \in 1..Len(Sides) : S(a)[i] # 0 THEN CHOOSE i \in 1..Len(Sides) : S(a)[i] # 0 /\ \A j \in 1..(i - 1) : S(a)[j] = 0 ELSE 0
Unit(s) == IF s = 0 THEN <<1, 0>> ELSE <<0, 1>>
Zero == <<0, 0>>
Same == UNCHANGED <<stack, sup>>

Listen == /\ R.e = "listen" /\ Same /\ R.id \notin used /\ used' = used \cup {R.id}
          /\ R.rem = Zero /\ R.slots = Zero
          /\ LET f == First(R.addr) IN
             IF f = 0 THEN R.res = "unsup" /\ R.back = R.addr /\ R.lis = Zero /\ own' = own
             ELSE LET s == Sides[f] IN
                  IF S(R.addr)[f] = 1 THEN R.res = "ok" /\ R.lis = Unit(s) /\ own' = [own EXCEPT ![R.id] = s]
                  ELSE R.res = "other" /\ (Tagged => R.err.side = s) /\ R.lis = Zero /\ own' = own
          /\ UNCHANGED <<q, dl, up, daddr, uaddr, nsl, nup, outc, gone>>
ListenUsed == R.e = "skip" /\ UNCHANGED <<stack, sup, q, own, used, dl, up, daddr, uaddr, nsl, nup, outc, gone>>

Remove == /\ R.e = "remove" /\ Same /\ R.lis = Zero /\ R.slots = Zero
          /\ LET s == own[R.id] IN
             IF s = -1 THEN R.res = FALSE /\ R.rem = Zero /\ UNCHANGED <<q, own>>
             ELSE /\ R.res = TRUE /\ R.rem = Unit(s)
                  /\ own' = [own EXCEPT ![R.id] = -1]
                  /\ q' = [q EXCEPT ![s + 1] = Append(@, [k |-> "closed", id |-> R.id, addr |-> -1, addr2 |-> -1])]
          /\ UNCHANGED <<used, dl, up, daddr, uaddr, nsl, nup, outc, gone>>

Dial == /\ R.e = "dial" /\ Same /\ R.lis = Zero /\ R.rem = Zero
        /\ LET f == IF stack = "global" /\ Glob[R.addr + 1] = 0 THEN 0 ELSE First(R.addr) IN
           IF f = 0 THEN R.res = "unsup" /\ R.back = R.addr /\ R.slots = Zero /\ UNCHANGED <<dl, daddr, nsl>>
           ELSE LET s == Sides[f] IN
                IF S(R.addr)[f] = 1
                THEN /\ R.res = "ok" /\ R.slots = Unit(s) /\ R.j = Len(dl)
                     /\ dl' = Append(dl, <<s, nsl[s + 1]>>) /\ daddr' = Append(daddr, R.addr)
                     /\ nsl' = [nsl EXCEPT ![s + 1] = @ + 1]
                ELSE R.res = "other" /\ (Tagged => R.err.side = s) /\ R.slots = Zero /\ UNCHANGED <<dl, daddr, nsl>>
        /\ UNCHANGED <<q, own, used, up, uaddr, nup, outc, gone>>

Inj == /\ R.e = "inj" /\ Same /\ R.lis = Zero /\ R.rem = Zero /\ R.slots = Zero
       /\ q' = [q EXCEPT ![R.s + 1] = Append(@, [k |-> R.k, id |-> R.id, addr |-> R.addr, addr2 |-> R.addr2])]
       /\ UNCHANGED <<own, used, dl, up, daddr, uaddr, nsl, nup, outc, gone>>

PollPending == /\ R.e = "poll" /\ R.res = "pending" /\ Same
               /\ \A s \in SideSet : q[s + 1] = <<>>
               /\ UNCHANGED <<q, own, used, dl, up, daddr, uaddr, nsl, nup, outc, gone>>
PollEvent(s) ==
  /\ R.e = "poll" /\ R.res # "pending" /\ Same /\ s \in SideSet /\ q[s + 1] # <<>>
  /\ LET h == q[s + 1][1] IN
     /\ h.k = R.res /\ h.id = R.id
     /\ (h.k \in {"newaddr", "expired", "incoming"} => h.addr = R.addr)
     /\ (h.k = "incoming" => h.addr2 = R.addr2)
     /\ (h.k \in {"closederr", "error"} /\ Tagged) => R.err.side = s
     /\ q' = [q EXCEPT ![s + 1] = Tail(@)]
     /\ own' = IF h.k \in {"closed", "closederr"} /\ own[h.id] = s THEN [own EXCEPT ![h.id] = -1] ELSE own
     /\ IF h.k = "incoming"
        THEN /\ R.j = Len(up) /\ up' = Append(up, <<s, nup[s + 1]>>) /\ uaddr' = Append(uaddr, <<h.addr, h.addr2>>)
             /\ nup' = [nup EXCEPT ![s + 1] = @ + 1]
        ELSE UNCHANGED <<up, uaddr, nup>>
  /\ UNCHANGED <<used, dl, daddr, nsl, outc, gone>>

Fin == /\ R.e = "fin" /\ Same
       /\ LET n == IF R.k = "dial" THEN nsl[R.s + 1] ELSE nup[R.s + 1]
              can == R.i < n /\ ~\E o \in outc : o[1] = R.k /\ o[2] = R.s /\ o[3] = R.i IN
          /\ R.done = can
          /\ outc' = IF can THEN outc \cup {<<R.k, R.s, R.i, R.ok, R.peer>>} ELSE outc
       /\ UNCHANGED <<q, own, used, dl, up, daddr, uaddr, nsl, nup, gone>>

Await == /\ R.e = "await" /\ Same
         /\ LET lst == IF R.k = "dial" THEN dl ELSE up IN
            IF R.j >= Len(lst) \/ <<R.k, R.j>> \in gone THEN R.res = "gone" /\ gone' = gone
            ELSE LET s == lst[R.j + 1][1]  i == lst[R.j + 1][2]
                     os == {o \in outc : o[1] = R.k /\ o[2] = s /\ o[3] = i} IN
                 IF os = {} THEN R.res = "pending" /\ gone' = gone
                 ELSE LET o == CHOOSE x \in os : TRUE
                          cp == IF R.k = "dial" THEN <<0, daddr[R.j + 1], -1>> ELSE <<1, uaddr[R.j + 1][1], uaddr[R.j + 1][2]>> IN
                      /\ gone' = gone \cup {<<R.k, R.j>>}
                      /\ IF ~o[4] THEN R.res = "err" /\ (Tagged => (R.err.side = s /\ ~R.err.timeout /\ ~R.err.fun))
                         ELSE IF stack = "andthen" /\ o[5] = 9 THEN R.res = "err" /\ R.err.fun
                         ELSE /\ R.res = "ok" /\ R.out.side = s /\ R.out.peer = o[5]
                              /\ (stack \in {"map", "andthen"} => R.out.cp = cp)
         /\ UNCHANGED <<q, own, used, dl, up, daddr, uaddr, nsl, nup, outc>>

(* TransportTimeout against real time: lower bounds only *)
ToOk(res, inner, after) == \/ (res = "timeout" /\ after >= R.timeout_ms * 1000)
                           \/ (res = "pending" /\ inner = 0)
                           \/ (res = "ok" /\ inner = 1)
                           \/ (res = "other" /\ inner = 2)
To == /\ R.e = "to" /\ Same
      /\ (ToOk(R.first, 0, R.first_after_us)) = TRUE
      /\ (R.second = "none" \/ ToOk(R.second, R.inner, R.after_us)) = TRUE
      /\ UNCHANGED <<q, own, used, dl, up, daddr, uaddr, nsl, nup, outc, gone>>

Next == l <= NRec /\ l' = l + 1 /\ (Reset \/ Listen \/ ListenUsed \/ Remove \/ Dial \/ Inj \/ PollPending \/ (\E s \in {0, 1} : PollEvent(s)) \/ Fin \/ Await \/ To)
Spec == Init /\ [][Next]_vars
OwnerOK == \A i \in Ids : own[i] \in {-1} \cup SideSet
Progress == Mark(l)
====
