---- MODULE GsBackoff ----
(* C32: gossipsub::backoff::BackoffStorage for one (topic, peer) pair, transcribed: ring of heartbeat slots
   (backoffs_by_heartbeat), the (expiry instant, slot index) entry, update_backoff keeping the more restrictive
   backoff and re-filing the pair, heartbeat() visiting the current slot and evicting only what is expired past
   the slack.  Time unit = one heartbeat interval; time advances independently of heartbeat() calls, durations
   may exceed the ring (slots wrap).  `promised` is a monitor: the latest instant some update promised. *)
EXTENDS Naturals, TLC
CONSTANTS PruneBackoff, Slack, MaxDur, MaxTime,
          NoTimeCheck,      \* canary: heartbeat() evicts whatever sits in the current slot without comparing instants
          OverwriteAlways   \* canary: update_backoff overwrites the entry unconditionally (a shorter backoff shortens it)
VARIABLES present, until, slot,   \* the entry: exists?, expiry instant, ring slot it is filed under
          hb,                     \* heartbeat_index
          now,
          promised
vars == <<present, until, slot, hb, now, promised>>
Ring == PruneBackoff + Slack + 1
Mod(a, b) == a - b * (a \div b)
Init == present = FALSE /\ until = 0 /\ slot = 0 /\ hb = 0 /\ now = 0 /\ promised = 0
Update(d) ==
  /\ LET inst == now + d idx == Mod(hb + d + Slack, Ring) IN
     IF ~present \/ until < inst \/ OverwriteAlways
     THEN present' = TRUE /\ until' = inst /\ slot' = idx
     ELSE UNCHANGED <<present, until, slot>>
  /\ promised' = IF now + d > promised THEN now + d ELSE promised
  /\ UNCHANGED <<hb, now>>
Heartbeat ==
  /\ IF present /\ slot = hb /\ (NoTimeCheck \/ ~(until + Slack > now)) THEN present' = FALSE ELSE present' = present
  /\ hb' = Mod(hb + 1, Ring) /\ UNCHANGED <<until, slot, now, promised>>
Tick == now < MaxTime /\ now' = now + 1 /\ UNCHANGED <<present, until, slot, hb, promised>>
Next == (\E d \in 1..MaxDur : Update(d)) \/ Heartbeat \/ Tick
Spec == Init /\ [][Next]_vars /\ WF_vars(Heartbeat)
IsBackoffWithSlack == present
BackoffTimeInFuture == present /\ until > now
(* safety: the backoff is never shortened *)
NeverShortened == now < promised => (IsBackoffWithSlack /\ BackoffTimeInFuture)
(* the entry is always filed under a slot the heartbeat will visit *)
SlotInRing == slot < Ring /\ hb < Ring
(* liveness: an entry that is expired past the slack does not survive forever *)
Forgets == []<>(~present \/ until + Slack > now)
====
