INIT Init
NEXT Next
