CONSTANTS
  N = 5
  MaxFrame = 2
  Hdr = 2
  ResetOnSend = TRUE
  CheckTag = TRUE
SPECIFICATION Spec
INVARIANT Prefix FrameLimit Complete EofClean CorruptDetected
PROPERTY Refines
