INIT Init
NEXT Next
INVARIANT C35_FanoutKept
CONSTRAINT Progress
POSTCONDITION Accepted
