---- MODULE GlobalIpCode ----
(* C22 (M): core/src/transport/global_only.rs `ipv4_global::is_global` / `ipv6_global::is_global` transcribed on
   16-bit segments, and compared with the registry classification on every boundary probe.
   Canaries: DropShared (is_shared removed), WideLinkLocal (mask 0xff80 instead of 0xffc0),
   OldStd (without the 3fff::/20 and 5f00::/16 rows = the code before the C22 repair). *)
EXTENDS GlobalIp
CONSTANTS DropShared, WideLinkLocal, OldStd
VARIABLE x
Mod(a, b) == a - b * (a \div b)
Code4(a) ==
  LET o0 == a[1] \div 256 o1 == Mod(a[1], 256) o2 == a[2] \div 256 o3 == Mod(a[2], 256)
      private == o0 = 10 \/ (o0 = 172 /\ o1 >= 16 /\ o1 <= 31) \/ (o0 = 192 /\ o1 = 168)
      shared == ~DropShared /\ o0 = 100 /\ (o1 \div 64) = 1
      doc == (o0 = 192 /\ o1 = 0 /\ o2 = 2) \/ (o0 = 198 /\ o1 = 51 /\ o2 = 100) \/ (o0 = 203 /\ o1 = 0 /\ o2 = 113)
      bcast == a = <<65535, 65535>>
  IN ~(o0 = 0 \/ private \/ shared \/ o0 = 127 \/ (o0 = 169 /\ o1 = 254) \/ (o0 = 192 /\ o1 = 0 /\ o2 = 0) \/ doc
       \/ (o0 = 198 /\ (o1 = 18 \/ o1 = 19)) \/ (o0 >= 240 /\ ~bcast) \/ bcast)
Code6(a) ==
  LET s(i) == a[i]
      u64lo == <<a[5], a[6], a[7], a[8]>>
      ietf == s(1) = 8193 /\ s(2) < 512
      exc == (a = <<8193, 1, 0, 0, 0, 0, 0, 1>>) \/ (a = <<8193, 1, 0, 0, 0, 0, 0, 2>>) \/ (s(1) = 8193 /\ s(2) = 3)
             \/ (s(1) = 8193 /\ s(2) = 4 /\ s(3) = 274) \/ (s(1) = 8193 /\ s(2) >= 32 /\ s(2) <= 47)
      linklocal == IF WideLinkLocal THEN (s(1) \div 128) * 128 = 65152 ELSE (s(1) \div 64) * 64 = 65152
  IN ~(a = <<0, 0, 0, 0, 0, 0, 0, 0>> \/ a = <<0, 0, 0, 0, 0, 0, 0, 1>>
       \/ (s(1) = 0 /\ s(2) = 0 /\ s(3) = 0 /\ s(4) = 0 /\ s(5) = 0 /\ s(6) = 65535)
       \/ (s(1) = 100 /\ s(2) = 65435 /\ s(3) = 1)
       \/ (s(1) = 256 /\ s(2) = 0 /\ s(3) = 0 /\ s(4) = 0)
       \/ (ietf /\ ~exc)
       \/ (s(1) = 8193 /\ s(2) = 3512) \/ (~OldStd /\ s(1) = 16383 /\ s(2) < 4096)
       \/ (~OldStd /\ s(1) = 24320)
       \/ (s(1) \div 512) * 512 = 64512
       \/ linklocal)
Code(v, a) == IF (IF v = 4 THEN Code4(a) ELSE Code6(a)) THEN "pass" ELSE "refuse"
(* extra probes around the code's own constants *)
Extra6 == {<<65152 + 64, 0, 0, 0, 0, 0, 0, 0>>, <<65152 + 127, 65535, 0, 0, 0, 0, 0, 1>>, <<65152 + 128, 0, 0, 0, 0, 0, 0, 0>>,
           <<8193, 512, 0, 0, 0, 0, 0, 0>>, <<8193, 511, 65535, 65535, 65535, 65535, 65535, 65535>>}
Extra4 == {<<25600, 0>>, <<25663, 65535>>, <<25664 + 63, 65535>>, <<25728, 0>>, <<57344, 1>>, <<61439, 65535>>}
ASSUME Sane(4) /\ Sane(6)
Agrees(v) == \A a \in Probes(v) \cup (IF v = 4 THEN Extra4 ELSE Extra6) :
               Compatible(Class(v, a), Code(v, a)) \/ (PrintT(<<"DISAGREE", v, a, Class(v, a), Code(v, a)>>) /\ FALSE)
Init == x = 0
Next == FALSE /\ x' = x
CodeMatchesRegistry == x = 0 /\ Agrees(4) /\ Agrees(6)
====
