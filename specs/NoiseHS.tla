---- MODULE NoiseHS ----
(* C16: symbolic model of the libp2p Noise XX handshake (transports/noise/src/lib.rs upgrade_inbound /
   upgrade_outbound, io/handshake.rs recv_identity / send_identity / State::finish) with a
   Dolev-Yao adversary M on the wire and ideal cryptography.

   Honest initiator A and responder B; M owns an identity key and a static DH key of its own and
   has recorded an earlier honest session between A and B (other ephemerals) and the public
   "certificates" (identity key, static key, signature of the static key) of A and B.
     m1 = [t, e]                          ephemeral only, no payload
     m2 = [t, tr, e, s, id, sig]          s = owner of the static key, id = announced identity key,
     m3 = [t, tr, s, id, sig]             sig = [signer, over] or "none"; tr = transcript it is bound to
   Ideal crypto: a message is accepted only if its transcript `tr` equals the receiver's own
   transcript (handshake hash / AEAD), a party can only build m2/m3 with a static key it owns, and m3
   only for an ephemeral it owns.  M may deliver ANY message it can know or build, in any order, any
   number of times, or nothing: this subsumes flip / truncate (-> junk), drop, reorder, replay,
   identity splice and M running the handshake as itself.
   The code sends m3 BEFORE verifying the identity signature of m2 (finish() runs last). *)
EXTENDS Naturals, Sequences, FiniteSets
CONSTANTS VerifySig,      \* TRUE = the code; FALSE = canary: finish() skips the signature check
          SamePrologue    \* TRUE / FALSE: A and B configured with the same prologue
VARIABLES ist, rst,       \* control state of initiator A / responder B
          im1, im2,       \* A's view: m1 it sent, m2 it accepted
          rm1, rm2,       \* B's view: m1 it received, m2 it sent
          wire,           \* set of messages the adversary has seen on the wire
          done, reported, keyWith
vars == <<ist, rst, im1, im2, rm1, rm2, wire, done, reported, keyWith>>
Honest == {"A", "B"}
Ids == {"A", "B", "M"}
None == [t |-> "none"]
Sig(signer, over) == [signer |-> signer, over |-> over]
NoSig == [signer |-> "none", over |-> "none"]
Cert(p) == Sig(p, p)                                  \* p's genuine signature over its own static key
Valid(id, sig, s) == sig.signer = id /\ sig.over = s  \* ideal signature verification
Pro(p) == IF SamePrologue THEN "pro" ELSE "pro" \o p  \* prologue mixed into the handshake hash

M1(e) == [t |-> "m1", e |-> e]
M2(tr, e, s, id, sig) == [t |-> "m2", tr |-> tr, e |-> e, s |-> s, id |-> id, sig |-> sig]
M3(tr, s, id, sig) == [t |-> "m3", tr |-> tr, s |-> s, id |-> id, sig |-> sig]
Junk == [t |-> "junk"]

(* the recorded earlier honest session between A and B (ephemerals eA0 / eB0) *)
Rec1 == M1("eA0")
Rec2 == M2(<<"pro", Rec1>>, "eB0", "B", "B", Cert("B"))
Rec3 == M3(<<"pro", Rec1, Rec2>>, "A", "A", Cert("A"))
Recorded == {Rec1, Rec2, Rec3}

(* signatures M can present: recorded genuine ones, anything signed with its own key, or none *)
MSigs == {Cert("A"), Cert("B"), NoSig} \cup {Sig("M", s) : s \in Ids}
(* messages M can build itself (static key M only; m3 only for a transcript whose m1 carries M's ephemeral) *)
MBuilt == {M1("eM"), M1("eFlipped"), Junk}
          \cup {M2(<<p, m>>, "eM2", "M", id, sg) : p \in {Pro("A"), Pro("B")}, m \in {x \in wire : x.t = "m1"}, id \in Ids, sg \in MSigs}
          \cup {M3(<<p, m1, m2>>, "M", id, sg) : p \in {Pro("A"), Pro("B")}, m1 \in {M1("eM")}, m2 \in {x \in wire : x.t = "m2"}, id \in Ids, sg \in MSigs}
Knows == wire \cup Recorded \cup MBuilt

Init == /\ ist = "start" /\ rst = "wait1" /\ im1 = None /\ im2 = None /\ rm1 = None /\ rm2 = None
        /\ wire = {} /\ done = [p \in Honest |-> FALSE] /\ reported = [p \in Honest |-> "none"]
        /\ keyWith = [p \in Honest |-> "none"]

(* ---- initiator A ---- *)
ISend1 == /\ ist = "start" /\ im1' = M1("eA") /\ wire' = wire \cup {M1("eA")} /\ ist' = "wait2"
          /\ UNCHANGED <<rst, im2, rm1, rm2, done, reported, keyWith>>
(* recv_identity(m2); send_identity(m3); finish() *)
IRecv2(x) ==
  /\ ist = "wait2" /\ x \in Knows
  /\ IF x.t = "m2" /\ x.tr = <<Pro("A"), im1>>
     THEN /\ im2' = x
          /\ wire' = wire \cup {M3(<<Pro("A"), im1, x>>, "A", "A", Cert("A"))}         \* m3 leaves before finish()
          /\ IF VerifySig => Valid(x.id, x.sig, x.s)
             THEN /\ ist' = "done" /\ done' = [done EXCEPT !["A"] = TRUE]
                  /\ reported' = [reported EXCEPT !["A"] = x.id] /\ keyWith' = [keyWith EXCEPT !["A"] = x.s]
             ELSE ist' = "err" /\ UNCHANGED <<done, reported, keyWith>>
     ELSE ist' = "err" /\ UNCHANGED <<im2, wire, done, reported, keyWith>>            \* decrypt / decode failure
  /\ UNCHANGED <<rst, im1, rm1, rm2>>
(* ---- responder B ---- *)
RRecv1(x) ==
  /\ rst = "wait1" /\ x \in Knows
  /\ IF x.t = "m1"
     THEN /\ rm1' = x /\ rm2' = M2(<<Pro("B"), x>>, "eB", "B", "B", Cert("B"))
          /\ wire' = wire \cup {M2(<<Pro("B"), x>>, "eB", "B", "B", Cert("B"))} /\ rst' = "wait3"
     ELSE rst' = "err" /\ UNCHANGED <<rm1, rm2, wire>>
  /\ UNCHANGED <<ist, im1, im2, done, reported, keyWith>>
RRecv3(x) ==
  /\ rst = "wait3" /\ x \in Knows
  /\ IF x.t = "m3" /\ x.tr = <<Pro("B"), rm1, rm2>> /\ (VerifySig => Valid(x.id, x.sig, x.s))
     THEN /\ rst' = "done" /\ done' = [done EXCEPT !["B"] = TRUE]
          /\ reported' = [reported EXCEPT !["B"] = x.id] /\ keyWith' = [keyWith EXCEPT !["B"] = x.s]
     ELSE rst' = "err" /\ UNCHANGED <<done, reported, keyWith>>
  /\ UNCHANGED <<ist, im1, im2, rm1, rm2, wire>>
Next == ISend1 \/ (\E x \in Knows : IRecv2(x) \/ RRecv1(x) \/ RRecv3(x))
Spec == Init /\ [][Next]_vars

(* ---- properties (C16) ---- *)
AuthOK == \A p \in Honest : done[p] => reported[p] = keyWith[p]      \* reports exactly the owner of the static key
PrologueOK == ~SamePrologue => ~(done["A"] /\ keyWith["A"] = "B") /\ ~(done["B"] /\ keyWith["B"] = "A")
(* if A reports B then B really answered A's own m1 in this session (no replay of an old session) *)
Fresh == (done["A"] /\ reported["A"] = "B") => rm1 = im1 /\ im2 = rm2
FreshB == (done["B"] /\ reported["B"] = "A") => rm1 = im1 /\ im2 = rm2
(* anti-vacuity: the honest run completes (checked as a reachable state by the canary config) *)
NotBothDone == ~(done["A"] /\ done["B"] /\ reported["A"] = "B" /\ reported["B"] = "A")
====
