CONSTANTS
  NamesN = 2
  HostsN = 1
  Ips = 2
  MaxLookups = 3
  MaxAttempts = 2
  MaxTxt = 2
  WithForeign = TRUE
  LookupOffByOne = FALSE
  NoSuffixFilter = FALSE
  EmptyPanics = FALSE
INIT Init
NEXT Next
INVARIANT Bounded OnlyResolved SuffixOK NoPanic
