---- MODULE TraceMSS ----
(* C14 trace validation (property level): real dialer_select_proto / listener_select_proto and the
   Negotiated streams they yield, over a scripted pipe (any chunking, any poll order).
     agreement     a successful listener is on First = the first dialer protocol it supports; so is a
                   dialer whose choice was confirmed.  A V1Lazy dialer may optimistically settle on its
                   LAST protocol when nothing before it is supported (that is what "lazy" means)
     none common   both sides fail with NegotiationError::Failed (never a protocol error); the lazy
                   dialer that settled optimistically learns it at its first completed read: no read on
                   its stream may ever yield bytes or EOF
     transparent   application bytes read by either side are a prefix, in order, of what the other side
                   wrote (even if written before the negotiation finished); EOF only after the writer
                   closed and after all bytes; after the final drain everything arrived
   Application bytes are 'A'.. (dialer) / 'a'.. (listener), i.e. never a well-formed negotiation frame. *)
EXTENDS TraceIO
VARIABLES l, ver, pd, pl, dres, lres, dW, lW, dR, lR, dclosed, lclosed
vars == <<l, ver, pd, pl, dres, lres, dW, lW, dR, lR, dclosed, lclosed>>
R == Rec[l]
None == [k |-> "none", p |-> "-"]
Res(r) == [k |-> r.r, p |-> IF r.r = "ok" THEN r.p ELSE "-"]
InPl(x) == \E i \in 1..Len(pl) : pl[i] = x
Common == {i \in 1..Len(pd) : InPl(pd[i])}
First == IF Common = {} THEN "none" ELSE pd[CHOOSE i \in Common : \A j \in Common : i <= j]
Prefix(a, b) == Len(a) <= Len(b) /\ \A i \in 1..Len(a) : a[i] = b[i]
Init == /\ l = 1 /\ ver = "V1" /\ pd = <<>> /\ pl = <<>> /\ dres = None /\ lres = None
        /\ dW = <<>> /\ lW = <<>> /\ dR = <<>> /\ lR = <<>> /\ dclosed = FALSE /\ lclosed = FALSE /\ InitReg
cfgv == <<ver, pd, pl>>
Reset == /\ R.e = "reset" /\ ver' = R.ver /\ pd' = R.pd /\ pl' = R.pl /\ dres' = None /\ lres' = None
         /\ dW' = <<>> /\ lW' = <<>> /\ dR' = <<>> /\ lR' = <<>> /\ dclosed' = FALSE /\ lclosed' = FALSE
DRes == /\ R.e = "dres" /\ dres = None /\ dres' = Res(R)
        /\ IF R.r = "ok" THEN (R.p = First \/ (ver = "V1Lazy" /\ First = "none" /\ Len(pd) > 0 /\ R.p = pd[Len(pd)])) = TRUE
           ELSE R.r = "failed" /\ First = "none"
        /\ UNCHANGED <<cfgv, lres, dW, lW, dR, lR, dclosed, lclosed>>
LRes == /\ R.e = "lres" /\ lres = None /\ lres' = Res(R)
        /\ IF R.r = "ok" THEN R.p = First ELSE R.r = "failed" /\ First = "none"
        /\ UNCHANGED <<cfgv, dres, dW, lW, dR, lR, dclosed, lclosed>>
(* ---- application I/O on the Negotiated streams ---- *)
DWrite == /\ R.e = "dw" /\ dres.k = "ok" /\ dW' = dW \o R.bytes /\ UNCHANGED <<cfgv, dres, lres, lW, dR, lR, dclosed, lclosed>>
LWrite == /\ R.e = "lw" /\ lres.k = "ok" /\ lW' = lW \o R.bytes /\ UNCHANGED <<cfgv, dres, lres, dW, dR, lR, dclosed, lclosed>>
DRead == /\ R.e = "dr" /\ dres.k = "ok" /\ First # "none" /\ Len(R.bytes) > 0
         /\ dR' = dR \o R.bytes /\ Prefix(dR', lW)
         /\ UNCHANGED <<cfgv, dres, lres, dW, lW, lR, dclosed, lclosed>>
LRead == /\ R.e = "lr" /\ lres.k = "ok" /\ Len(R.bytes) > 0
         /\ lR' = lR \o R.bytes /\ Prefix(lR', dW)
         /\ UNCHANGED <<cfgv, dres, lres, dW, lW, dR, dclosed, lclosed>>
DEof == /\ R.e = "dr_eof" /\ dres.k = "ok" /\ First # "none" /\ lclosed /\ dR = lW
        /\ UNCHANGED <<cfgv, dres, lres, dW, lW, dR, lR, dclosed, lclosed>>
LEof == /\ R.e = "lr_eof" /\ lres.k = "ok" /\ dclosed /\ lR = dW
        /\ UNCHANGED <<cfgv, dres, lres, dW, lW, dR, lR, dclosed, lclosed>>
(* the optimistic dialer learns of the failure: a read error is the ONLY legal outcome of a completed read then *)
DReadErr == /\ R.e = "dr_err" /\ dres.k = "ok" /\ First = "none"
            /\ UNCHANGED <<cfgv, dres, lres, dW, lW, dR, lR, dclosed, lclosed>>
DWErr == /\ R.e \in {"dw_err", "df_err", "dc_err"} /\ (First = "none" \/ dclosed) = TRUE
         /\ UNCHANGED <<cfgv, dres, lres, dW, lW, dR, lR, dclosed, lclosed>>
LWErr == /\ R.e \in {"lw_err", "lf_err", "lc_err"} /\ lclosed
         /\ UNCHANGED <<cfgv, dres, lres, dW, lW, dR, lR, dclosed, lclosed>>
DClose == /\ R.e \in {"dc", "dc_pending", "ddrop"} /\ dclosed' = TRUE /\ UNCHANGED <<cfgv, dres, lres, dW, lW, dR, lR, lclosed>>
LClose == /\ R.e \in {"lc", "lc_pending", "ldrop"} /\ lclosed' = TRUE /\ UNCHANGED <<cfgv, dres, lres, dW, lW, dR, lR, dclosed>>
Quiet == /\ R.e \in {"dpending", "lpending", "skip", "dl", "wb", "drain", "df", "lf", "df_pending", "lf_pending",
                     "dw_pending", "lw_pending", "dr_pending", "lr_pending"}
         /\ UNCHANGED <<cfgv, dres, lres, dW, lW, dR, lR, dclosed, lclosed>>
(* after the drain: both sides have an outcome; success = same protocol and all data through *)
End == /\ R.e = "end" /\ R.dfin /\ R.lfin /\ dres # None /\ lres # None
       /\ IF First # "none"
          THEN dres = [k |-> "ok", p |-> First] /\ lres = [k |-> "ok", p |-> First] /\ dR = lW /\ lR = dW
          ELSE lres.k = "failed" /\ (ver = "V1" => dres.k = "failed")
       /\ UNCHANGED <<cfgv, dres, lres, dW, lW, dR, lR, dclosed, lclosed>>
Next == l <= NRec /\ l' = l + 1 /\ (Reset \/ DRes \/ LRes \/ DWrite \/ LWrite \/ DRead \/ LRead \/ DEof \/ LEof
                                    \/ DReadErr \/ DWErr \/ LWErr \/ DClose \/ LClose \/ Quiet \/ End)
Spec == Init /\ [][Next]_vars
Agreement == (dres.k = "ok" /\ lres.k = "ok") => dres.p = lres.p
Progress == Mark(l)
====
