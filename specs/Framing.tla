---- MODULE Framing ----
(* C57 / C31: streaming decoder for length-prefixed frames fed in arbitrary chunks.
   Grown from specs/proto/Framing.tla.  Abstract byte = one "unit".  A frame is Hdr(len) header units (a varint:
   lengths >= Wide need two units) followed by `len` payload units.  The peer's frame sequence is
   chosen in Init (all sequences of 1..MaxFrames lengths in Lens), the transport delivers it in
   any chunking (Feed), and Decode transcribes one call of `Decoder::decode(&mut BytesMut)`:

   Variant = "prost"        misc/prost-codec Codec::decode: header incomplete -> Ok(None); declared
                            length > Limit -> Err (before any payload is needed); payload
                            incomplete -> Ok(None); else consume the frame and emit it.
             "gs"           gossipsub GossipsubCodec::decode = validate_rpc_limits pre-check on the
                            FIRST frame of the buffer, then the prost codec.  Pre-check: frame
                            incomplete -> Ok(None) unless more than Limit+MaxHdr units are already
                            buffered for it (then Err); complete and len > Limit -> Err.
             "gs_buffer"    CANARY = DESIGN §7-7: the pre-check compares the WHOLE buffer (prefix
                            and any coalesced frames included) with Limit.
             "prost_late"   CANARY: limit compared only once the payload is buffered.
             "prost_insuff" CANARY: an incomplete header is reported as an error.
   The decoder keeps no state besides the buffer, so its outcome is a function of (buf, idx).    *)
EXTENDS Naturals, Sequences, FiniteSets, TLC
CONSTANTS Lens,        \* set of payload lengths a frame may have
          MaxFrames,   \* longest frame sequence
          Limit,       \* maximum accepted payload length
          Wide,        \* payload lengths >= Wide have a 2-unit header
          MaxHdr,      \* longest header (= slack of the gossipsub pre-check)
          Variant
VARIABLES frames,      \* the peer's frame sequence (fixed in Init)
          fed,         \* units of the concatenated stream delivered so far
          buf,         \* units buffered and not yet consumed
          idx,         \* index of the frame currently at the head of the buffer
          out,         \* payload lengths emitted so far
          status       \* "ok" | "err"
vars == <<frames, fed, buf, idx, out, status>>

Hdr(n) == IF n >= Wide THEN 2 ELSE 1
RECURSIVE Sum(_, _)
Sum(f, i) == IF i = 0 THEN 0 ELSE Sum(f, i - 1) + Hdr(f[i]) + f[i]
Total == Sum(frames, Len(frames))

Init == /\ frames \in UNION {[1..n -> Lens] : n \in 1..MaxFrames}
        /\ fed = 0 /\ buf = 0 /\ idx = 1 /\ out = <<>> /\ status = "ok"

Feed(n) == /\ status = "ok" /\ n >= 1 /\ fed + n <= Total
           /\ fed' = fed + n /\ buf' = buf + n /\ UNCHANGED <<frames, idx, out, status>>

(* ---- what one decode call returns, as a function of the buffer ---- *)
Cur == frames[idx]
HdrComplete == buf >= 1 /\ buf >= Hdr(Cur)        \* the first unit tells whether a second one follows
Complete == HdrComplete /\ buf >= Hdr(Cur) + Cur
Prost == IF ~HdrComplete THEN "none"
         ELSE IF Cur > Limit THEN "err"
         ELSE IF ~Complete THEN "none" ELSE "emit"
ProstLate == IF ~Complete THEN "none" ELSE IF Cur > Limit THEN "err" ELSE "emit"
ProstInsuff == IF ~HdrComplete THEN "err" ELSE Prost
PreFrame == IF ~Complete THEN (IF buf > Limit + MaxHdr THEN "err" ELSE "none")
            ELSE IF Cur > Limit THEN "err" ELSE "pass"
PreBuffer == IF buf > Limit THEN "err" ELSE IF ~Complete THEN "none" ELSE "pass"
Outcome == CASE Variant = "prost" -> Prost
             [] Variant = "prost_late" -> ProstLate
             [] Variant = "prost_insuff" -> ProstInsuff
             [] Variant = "gs" -> (IF PreFrame = "pass" THEN Prost ELSE PreFrame)
             [] Variant = "gs_buffer" -> (IF PreBuffer = "pass" THEN Prost ELSE PreBuffer)

Decode == /\ status = "ok" /\ idx <= Len(frames)
          /\ CASE Outcome = "none" -> UNCHANGED vars
               [] Outcome = "err" -> status' = "err" /\ UNCHANGED <<frames, fed, buf, idx, out>>
               [] Outcome = "emit" -> /\ buf' = buf - (Hdr(Cur) + Cur) /\ out' = Append(out, Cur)
                                      /\ idx' = idx + 1 /\ UNCHANGED <<frames, fed, status>>
Next == (\E n \in 1..Total : Feed(n)) \/ Decode
Spec == Init /\ [][Next]_vars /\ WF_vars(Decode)

(* ---- properties (state predicates over every reachable (frames, chunking) situation) ---- *)
Live == status = "ok" /\ idx <= Len(frames)
Good == Cur <= Limit
Prefix(s, t) == Len(s) <= Len(t) /\ \A i \in 1..Len(s) : s[i] = t[i]
OutIsPrefix == Prefix(out, frames) /\ \A i \in 1..Len(out) : out[i] <= Limit   \* never invents, reorders or lets an oversize frame through
BufIsTail == buf = fed - Sum(frames, idx - 1)                                   \* the buffer starts at a frame boundary
AcceptGood == (Live /\ Complete /\ Good) => Outcome = "emit"                    \* C31/C57: a buffered frame within the limit is delivered
NoSpuriousError == (Live /\ Outcome = "err") => (~Good /\ HdrComplete)          \* an error only for an oversize frame whose length is known
RejectOversize == (Live /\ Complete /\ ~Good) => Outcome = "err"                \* C31: an oversize frame is rejected at the latest when complete
RejectEarly == (Live /\ HdrComplete /\ ~Good) => Outcome = "err"                \* C57: ... as soon as its declared length is known
BoundedBuffer == (Live /\ Outcome = "none") => buf <= Limit + MaxHdr            \* a decoder waiting for more never holds more than one max frame
ErrIsFirstBad == status = "err" => (idx <= Len(frames) /\ ~Good /\ \A j \in 1..(idx - 1) : frames[j] <= Limit)
AllDelivered == (status = "ok" /\ fed = Total /\ ~ENABLED (Decode /\ vars' # vars)) => out = frames
====
