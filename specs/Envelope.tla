---- MODULE Envelope ----
(* C21.  Provenance model of signed envelopes and peer records.  Every field of an envelope either is the one the
   verifier expects / the signer signed ("0") or another one ("1"):
     key   the public key carried by the envelope is the signer's (0) or another key of the same type (1)
     dom   the domain string the signature was made over is the verifier's (0) or another (1)
     tsig  the payload type the signature was made over is the verifier's expected type (0) or another (1)
     tenv  the payload type field carried by the envelope is the expected type (0) or another (1)
     pay   the payload the signature was made over is the carried payload (0) or another (1)
   AcceptEnv: payload_and_signing_key must succeed iff every field is original.
   Peer records: api / dom / typ range over the two constant sets (legacy, interop); peer = the record's peer id is
   the signer's (0) / another (1).  AcceptRec iff the constants are the API's own, key and peer are the signer's. *)
EXTENDS Naturals
Bit == {0, 1}
AcceptEnv(v) == v.key = 0 /\ v.dom = 0 /\ v.tsig = 0 /\ v.tenv = 0 /\ v.pay = 0
AcceptRec(v) == v.dom = v.api /\ v.typ = v.api /\ v.key = 0 /\ v.peer = 0
KeyTypes == {"ed25519", "secp256k1", "ecdsa", "rsa"}
====
