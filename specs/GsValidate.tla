---- MODULE GsValidate ----
(* C30 model: the decision procedure of GossipsubCodec::decode for one published message,
   transcribed over the abstract grid of GsValidateRel, for key types whose public key is inlined
   in the peer id (ed25519, secp256k1) or not (rsa, ecdsa).  TLC enumerates the whole grid (Init)
   and checks Decide = "valid" => Valid.
   Bug = "none" | "perm_nosig" CANARY: Permissive skips signature verification
               | "anon_seqno" CANARY: Anonymous tolerates a sequence number                      *)
EXTENDS GsValidateRel
CONSTANTS Bug
VARIABLES m, inlined
Modes == {"Strict", "Permissive", "Anonymous", "None"}
Muts == {"none", "from_swap", "data_flip", "data_drop", "seqno_flip", "seqno_drop", "topic_change", "sig_flip"}
Grid == [mode : Modes, from : {"absent", "empty", "garbage", "A", "B"}, seqno : {"absent", "empty", "4", "8"},
         sigby : {"absent", "garbage", "A", "B"}, key : {"absent", "garbage", "A", "B"}, mut : Muts]
Init == m \in Grid /\ inlined \in BOOLEAN
Next == UNCHANGED <<m, inlined>>
(* verify_signature *)
KeyUsed == IF IsPeer(m.key) THEN m.key                       \* the key field decodes: use it
           ELSE IF inlined THEN m.from ELSE "nokey"           \* else the key inlined in the source id, if any
VerifySig == /\ IsPeer(m.from)                                 \* source present and a valid peer id
             /\ m.sigby # "absent"
             /\ KeyUsed # "nokey" /\ KeyUsed = m.from          \* the key must match the source
             /\ m.sigby = KeyUsed /\ m.mut = "none"            \* cryptographic verification over the fields as received
SeqnoErr == m.seqno = "4"
Decide ==
  CASE m.mode = "None" -> "valid"
    [] m.mode = "Anonymous" ->
         IF m.sigby # "absent" \/ (Bug # "anon_seqno" /\ m.seqno # "absent") \/ m.from # "absent" THEN "invalid" ELSE "valid"
    [] m.mode = "Strict" ->
         IF ~VerifySig THEN "invalid"
         ELSE IF m.seqno = "absent" \/ SeqnoErr THEN "invalid"
         ELSE IF m.from = "garbage" THEN "invalid" ELSE "valid"
    [] m.mode = "Permissive" ->
         IF Bug # "perm_nosig" /\ m.sigby # "absent" /\ ~VerifySig THEN "invalid"
         ELSE IF m.seqno # "absent" /\ SeqnoErr THEN "invalid"
         ELSE IF m.from = "garbage" THEN "invalid" ELSE "valid"
AcceptedIsValid == Decide = "valid" => Valid(m)
StrictRejectsMutation == (m.mode = "Strict" /\ m.mut # "none") => Decide = "invalid"
(* anti-vacuity, to be VIOLATED: a properly signed message is accepted in Strict mode *)
NothingAccepted == ~(m.mode = "Strict" /\ Decide = "valid")
====
