SPECIFICATION Spec
CONSTANTS
  Nodes = {1, 2, 3}
  Topics = {1, 2}
  Msgs = {1}
  Slm = {2}
  NoView <- NV13
  LateView <- None
  SubBudget = 4
  MaxLink = 3
  Reorder = TRUE
  RememberOwn = TRUE
  NoDedup = FALSE
  EchoBack = FALSE
INVARIANT DeliverOnce
INVARIANT NoEcho
INVARIANT ForwardOnce
INVARIANT NoSelfDelivery
PROPERTY OnlySubscribed
CONSTRAINT Bounded
