CONSTANTS
  MaxMs = 3000
  StepMs = 250
  OrMinMerge = TRUE
  FloorTtl = FALSE
INIT Init
NEXT Next
INVARIANT MergeOK
INVARIANT WireOK
INVARIANT RoundTripOK
