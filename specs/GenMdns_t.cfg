CONSTANTS
  MaxLen = 3
INIT Init
NEXT Next
