---- MODULE Autonat2Client ----
(* X05 (client part) component spec: the test status of one external address candidate in the AutoNAT v2 client
   (protocols/autonat/src/v2/client/behaviour.rs: TestStatus, issue_dial_requests_for_untested_candidates,
   on_connection_handler_event; client/handler/dial_request.rs: start_stream_handle; client/handler/dial_back.rs).
   autonat-v2.md: "The client MUST check that the nonce received in the DialBack message is the same as the nonce it
   sent in the DialRequest. If the nonce is different, it MUST discard this response."
     C1 ConfirmOnlyProven  ExternalAddrConfirmed(a) only if a DialBack with the nonce of the CURRENT probe of a was
                           acknowledged and the server answered that probe OK / OK
     C2 NonceCheck         a DialBack is acknowledged only if it carries the nonce of the current probe and none was
                           acknowledged for it yet (stale nonces of earlier probes and foreign nonces are refused)
     C4 ProbeDiscipline    one probe per candidate at a time; failed and confirmed candidates are not probed again
   Named deviations: StuckWithoutDialBack (an OK response without a dial-back leaves the candidate "pending" for good:
   no event, no retry), StuckOnClose (a connection that closes mid-probe does the same).
   Canary: NoBackCheck (the "received_dial_back" test removed). *)
EXTENDS Naturals, TLC
CONSTANTS Cands, MaxGen, NoBackCheck
VARIABLES st, gen, acked, inflight, confirmed, proven
vars == <<st, gen, acked, inflight, confirmed, proven>>
(* st[k]: untested / pending / received / failed;  gen[k]: nonce generation of the current probe;
   acked[k]: set of generations whose DialBack was acknowledged; inflight[k]: a request handler still runs for gen[k];
   proven[k]: at the time of confirmation the current generation had been acknowledged *)
Start == /\ st = [k \in Cands |-> "untested"] /\ gen = [k \in Cands |-> 0] /\ acked = [k \in Cands |-> {}]
         /\ inflight = [k \in Cands |-> FALSE] /\ confirmed = [k \in Cands |-> 0] /\ proven = [k \in Cands |-> TRUE]
Probe(k) == /\ st[k] = "untested" /\ gen[k] < MaxGen /\ gen' = [gen EXCEPT ![k] = @ + 1]
            /\ st' = [st EXCEPT ![k] = "pending"] /\ inflight' = [inflight EXCEPT ![k] = TRUE]
            /\ UNCHANGED <<acked, confirmed, proven>>
(* a DialBack with the nonce of generation g (0 = a nonce nobody sent) arrives on some inbound connection *)
DialBack(k, g) == /\ IF st[k] = "pending" /\ g = gen[k] /\ g > 0
                     THEN st' = [st EXCEPT ![k] = "received"] /\ acked' = [acked EXCEPT ![k] = @ \cup {g}]
                     ELSE UNCHANGED <<st, acked>>
                  /\ UNCHANGED <<gen, inflight, confirmed, proven>>
ServerOk(k) == /\ inflight[k] /\ inflight' = [inflight EXCEPT ![k] = FALSE]
               /\ IF st[k] = "received" \/ NoBackCheck
                  THEN /\ confirmed' = [confirmed EXCEPT ![k] = @ + 1]
                       /\ proven' = [proven EXCEPT ![k] = @ /\ (gen[k] \in acked[k])]
                  ELSE UNCHANGED <<confirmed, proven>>                              \* StuckWithoutDialBack
               /\ UNCHANGED <<st, gen, acked>>
ServerUnreachable(k) == /\ inflight[k] /\ inflight' = [inflight EXCEPT ![k] = FALSE] /\ st' = [st EXCEPT ![k] = "failed"]
                        /\ UNCHANGED <<gen, acked, confirmed, proven>>
Retry(k) == /\ inflight[k] /\ inflight' = [inflight EXCEPT ![k] = FALSE] /\ st' = [st EXCEPT ![k] = "untested"]
            /\ UNCHANGED <<gen, acked, confirmed, proven>>
ConnClosed(k) == /\ inflight[k] /\ inflight' = [inflight EXCEPT ![k] = FALSE]           \* StuckOnClose
                 /\ UNCHANGED <<st, gen, acked, confirmed, proven>>
Next == \E k \in Cands : Probe(k) \/ ServerOk(k) \/ ServerUnreachable(k) \/ Retry(k) \/ ConnClosed(k)
                         \/ \E g \in 0..MaxGen : DialBack(k, g)
Spec == Start /\ [][Next]_vars
ConfirmOnlyProven == \A k \in Cands : proven[k]                                          \* C1
ConfirmedOnce == \A k \in Cands : confirmed[k] <= 1
NoStaleAck == \A k \in Cands : \A g \in acked[k] : g > 0 /\ g <= gen[k]                  \* C2
OneProbeAtATime == \A k \in Cands : inflight[k] => st[k] \in {"pending", "received"}       \* C4
====
