CONSTANTS
  Cands = {1, 2}
  MaxGen = 3
  NoBackCheck = TRUE
INIT Start
NEXT Next
INVARIANT ConfirmOnlyProven
INVARIANT ConfirmedOnce
INVARIANT NoStaleAck
INVARIANT OneProbeAtATime
