CONSTANTS
  Ids = {1, 2, 3}
  Topics = {1, 2}
  Peers = {1, 2}
  H = 3
  G = 2
  MaxShifts = 6
  MaxCount = 2
  Mode = "purge"
INIT Init
NEXT Next
CONSTRAINT Bounded
INVARIANTS GossipExact KeptExactly IwantOnly CountsCleared
