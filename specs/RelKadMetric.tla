---- MODULE RelKadMetric ----
(* C40 relation over records produced by the REAL key / distance API (driver: drv-kad kbucket metric).
   Embedded records: abstract B-bit keys a, b, c embedded into 256-bit keys; every value the API returned was mapped
   back to the abstract domain by the driver (-1 = bits outside the embedding were set, -2 = None / no bucket):
     dab dba dac dbc = distances, fd = for_distance(a, d(a,b)), il = ilog2(d(a,b)) as abstract bit index,
     bidx = abstract index of the bucket in which b landed in a table whose local key is a, tri = triangle inequality
     evaluated with 256-bit arithmetic, brange = abstract index of the bucket KBucketsTable::bucket(b) returns (its range
     must be [2^i, 2^(i+1) - 1] and hold the distance; -2 = no bucket: the local key).  TLC recomputes the expected values.
   Wide records (random / edge 256-bit keys): the laws evaluated by the driver with U256 arithmetic must all hold. *)
EXTENDS TraceIO, Integers
VARIABLE x
Mod2(a) == a - 2 * (a \div 2)
RECURSIVE Xor(_, _)
Xor(a, b) == IF a = 0 THEN b ELSE IF b = 0 THEN a ELSE Mod2(Mod2(a) + Mod2(b)) + 2 * Xor(a \div 2, b \div 2)
RECURSIVE Ilog2(_)
Ilog2(d) == IF d <= 1 THEN 0 ELSE 1 + Ilog2(d \div 2)
Emb(r) ==
  LET d == Xor(r.a, r.b) IN
  /\ r.dab = d /\ r.dba = d /\ r.dac = Xor(r.a, r.c) /\ r.dbc = Xor(r.b, r.c)
  /\ (r.dab = 0) = (r.a = r.b)
  /\ r.tri /\ (r.contig => r.dac <= r.dab + r.dbc)
  /\ r.fd = r.b
  /\ IF r.a = r.b THEN r.il = -2 /\ r.self /\ ~r.insok /\ r.bidx = -2 /\ r.brange = -2
     ELSE r.il = Ilog2(d) /\ ~r.self /\ r.insok /\ r.bidx = Ilog2(d) /\ r.brange = Ilog2(d)
Wide(r) ==
  /\ r.sym /\ r.tri /\ r.uni /\ r.fdinv /\ r.xor /\ r.ilok /\ r.other_dist_differs
  /\ r.zero = r.eq
  /\ IF r.eq THEN r.self /\ r.bidx = -1 /\ r.il = -1 /\ r.brange = -1
     ELSE ~r.self /\ r.bidx = r.il /\ r.il \in 0..255 /\ r.brange = r.il
Post(r) == ~Has(r, "panic") /\ (IF Has(r, "wide") THEN Wide(r) ELSE Emb(r))
ASSUME PrintT(<<"CHECKED", ToJson([n |-> NRec])>>)
ASSUME \A i \in 1..NRec : Post(Rec[i]) \/ PrintT(<<"BAD", ToJson([line |-> i, why |-> "metric law / bucket index"])>>)
Init == x = 0
Next == FALSE /\ x' = x
====
