INIT Init
NEXT Next
INVARIANT NoDuplicate
CONSTRAINT Progress
POSTCONDITION Accepted
