CONSTANTS
  Streams = {1, 2}
  MaxSub = 1
  MaxBuf = 1
  Block = TRUE
  DataPer = 2
  GeLimit = FALSE
  DropClears = TRUE
  ResetKeeps = TRUE
INIT Init
NEXT Next
INVARIANT SubstreamLimit HandedInTable AppLimit BufferLimit RefusedNeverHanded RefusedGetsReset NoDeadBlock InOrder NoLossWhenBlocking EofOnlyAfterDrain
