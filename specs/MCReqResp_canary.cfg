CONSTANTS
  ForgetDenied = FALSE
  Reqs = {1, 2, 3}
  Conns = {1, 2}
  Inb = {1}
INIT Init
NEXT Next
INVARIANT AtMostOnce
INVARIANT OnlyForSent
INVARIANT ExactlyOnceAtQuiescence
INVARIANT TrackedWhileOwned
