---- MODULE ProtoChange ----
(* swarm::handler::ProtocolsChange::from_full_sets as used by Connection::poll. Probe for C11. *)
EXTENDS Naturals, Sequences, FiniteSets, TLC
CONSTANTS Names, Bad,      \* valid protocol names, and one invalid name (kept in the map, never reported)
          MaxLen,
          CountShortcut    \* canary: today's early return when the number of advertised items equals the map size
VARIABLES known,           \* the connection's map of supported protocols (keys)
          folded,          \* what the handler believes, folding Added/Removed events
          adv              \* the list currently advertised by listen_protocol()
vars == <<known, folded, adv>>
All == Names \cup {Bad}
Lists == UNION {[1..n -> All] : n \in 0..MaxLen}
ToSet(l) == {l[i] : i \in 1..Len(l)}
Init == known = {} /\ folded = {} /\ adv = <<>>
Advertise(l) ==
  /\ adv' = l
  /\ LET new == ToSet(l)
         added == new \ known
         shortcut == CountShortcut /\ Len(l) = Cardinality(known \cup added) /\ (added \cap Names) = {}
         removed == IF shortcut THEN {} ELSE known \ new IN
     /\ known' = (known \cup added) \ removed
     /\ folded' = (folded \cup (added \cap Names)) \ (removed \cap Names)
Next == \E l \in Lists : Advertise(l)
Spec == Init /\ [][Next]_vars
FoldMatches == folded = ToSet(adv) \cap Names
====
