---- MODULE MCGenDnsDial ----
EXTENDS GenDnsDial
PolQuick == {<<"failed">>}
PolTwo == {<<"failed">>, <<"refused", "failed">>}
PolAll == {<<"failed">>, <<"refused">>, <<"failed", "ok">>, <<"refused", "failed">>}
====
