---- MODULE MCGenDnsDial ----
EXTENDS GenDnsDial
PolQuick == {<<"failed">>}
PolAll == {<<"failed">>, <<"refused">>, <<"failed", "ok">>, <<"refused", "failed">>}
====
