---- MODULE RelMSSMsg ----
(* C15 relation (property level) over records produced by the real multistream-select code:
   rt    a generated valid message m: decode(encode(m)) = m  - unless m lists more than 1000 protocols,
         which the decoder must reject
   dec   a hand-built ls-response body: accepted iff well formed, every name starts with '/', ends with a
         line feed, fits its declared length, and there are at most 1000 names; never a panic
   line  single-line bodies: the three fixed messages, a protocol name, and malformed variants
   wire  what the real listener / dialer wrote: every frame has a length prefix of at most two bytes and a
         body of at most 16383 bytes and decodes to the message the protocol calls for; a message that
         would not fit is refused with an error instead of being sent *)
EXTENDS TraceIO
VARIABLE x
MaxProtocols == 1000
MaxFrame == 16383
Why(r) ==
  IF Has(r, "panic") /\ r.t = "rt" THEN "panic"
  ELSE IF r.t = "rt" THEN
       IF r.msg.kind = "Protocols" /\ r.msg.n > MaxProtocols
       THEN (IF r.res = "err" THEN "" ELSE "more than 1000 protocols not rejected")
       ELSE (IF r.res = "same" /\ r.got = r.msg THEN "" ELSE "valid message does not round-trip")
  ELSE IF r.t = "dec" THEN
       IF r.res.panic THEN "panic"
       ELSE LET wellformed == r.term /\ r.count <= MaxProtocols /\ (r.bad_at = 0) IN
            IF wellformed THEN (IF r.res.ok /\ r.res.got.kind = "Protocols" /\ r.res.got.n = r.count THEN "" ELSE "well-formed ls response rejected or altered")
            ELSE (IF ~r.res.ok THEN "" ELSE "malformed / oversized ls response accepted")
  ELSE IF r.t = "line" THEN
       IF r.res.panic THEN "panic"
       ELSE IF r.class = "header" THEN (IF r.res.ok /\ r.res.got.kind = "Header" THEN "" ELSE "header")
       ELSE IF r.class = "na" THEN (IF r.res.ok /\ r.res.got.kind = "Na" THEN "" ELSE "na")
       ELSE IF r.class = "ls" THEN (IF r.res.ok /\ r.res.got.kind = "Ls" THEN "" ELSE "ls")
       ELSE IF r.class = "proto" THEN (IF r.res.ok /\ r.res.got.kind = "Protocol" /\ r.res.got.len = r.len - 1 THEN "" ELSE "proto")
       ELSE IF r.class = "emptyls" THEN (IF r.res.ok /\ r.res.got.kind = "Protocols" /\ r.res.got.n = 0 THEN "" ELSE "emptyls")
       ELSE (IF ~r.res.ok THEN "" ELSE "malformed line accepted")                 \* noslash, empty, no_nl, utf8
  ELSE IF r.t = "wire" THEN
       LET F == r.frames
           FramesOK == \A i \in 1..Len(F) : F[i].plen \in {1, 2} /\ F[i].len <= MaxFrame /\ ~F[i].trunc /\ F[i].msg.kind # "panic"
       IN IF r.outcome.r = "panic" THEN "panic"
          ELSE IF ~FramesOK THEN "frame with a length prefix over two bytes / oversized / truncated"
          ELSE IF r.who = "listener" THEN
               IF r.ls_body > MaxFrame
               THEN (IF r.outcome.r = "error" /\ Len(F) = 1 /\ F[1].msg.kind = "Header" THEN "" ELSE "oversized ls response not refused")
               ELSE IF Len(F) < 3 \/ F[1].msg.kind # "Header" \/ F[3].msg.kind # "Na" THEN "listener frames"
               ELSE IF r.nprotos <= MaxProtocols /\ ~(F[2].msg.kind = "Protocols" /\ F[2].msg.n = r.nprotos) THEN "ls response"
               ELSE IF r.nprotos > 0 /\ ~(Len(F) = 4 /\ F[4].msg.kind = "Protocol" /\ F[4].msg.len = r.namelen /\ r.outcome.r = "ok") THEN "confirmation"
               ELSE ""
          ELSE \* dialer
               IF r.namelen + 1 > MaxFrame
               THEN (IF r.outcome.r = "error" THEN "" ELSE "oversized proposal not refused")
               ELSE IF Len(F) = 2 /\ F[1].msg.kind = "Header" /\ F[2].msg.kind = "Protocol" /\ F[2].msg.len = r.namelen
                       /\ r.outcome.r = (IF r.lazy THEN "ok" ELSE "pending") THEN "" ELSE "dialer frames"
  ELSE "unknown record"
(* the statement's framing arithmetic: a body fits a two-byte unsigned-varint prefix iff it is at most 16383 long *)
PrefixLen(n) == IF n < 128 THEN 1 ELSE IF n < 16384 THEN 2 ELSE 3
ASSUME \A n \in {0, 1, 127, 128, 16382, 16383, 16384, 20000} : (PrefixLen(n) <= 2) <=> (n <= MaxFrame)
ASSUME PrintT(<<"CHECKED", ToJson([n |-> NRec])>>)
ASSUME \A i \in 1..NRec : Why(Rec[i]) = "" \/ PrintT(<<"BAD", ToJson([line |-> i, why |-> Why(Rec[i])])>>)
Init == x = 0
Next == FALSE /\ x' = x
====
