---- MODULE AddrBook ----
(* Swarm's listener-address bookkeeping (lib.rs handle_transport_event: NewAddress / AddressExpired /
   ListenerClosed) and external addresses, against the fold of the events it emits. C12.
   Canary NoContains: NewAddress pushes without the `contains` test. *)
EXTENDS Naturals, Sequences, FiniteSets, TLC
CONSTANTS Ls, As, NoContains
VARIABLES listened,   \* listener -> sequence of addresses (the code's Vec), or <<>> when absent
          fold,       \* listener -> set: fold of NewListenAddr / ExpiredListenAddr / ListenerClosed events
          lastClosed, \* <<listener, addresses carried by the last ListenerClosed, fold before it>>
          external, foldExt
vars == <<listened, fold, lastClosed, external, foldExt>>
ToSet(s) == {s[i] : i \in 1..Len(s)}
Init == listened = [x \in Ls |-> <<>>] /\ fold = [x \in Ls |-> {}] /\ lastClosed = <<>> /\ external = {} /\ foldExt = {}
NewAddress(x, a) ==
  /\ listened' = [listened EXCEPT ![x] = IF a \in ToSet(@) /\ ~NoContains THEN @ ELSE Append(@, a)]
  /\ fold' = [fold EXCEPT ![x] = @ \cup {a}] /\ UNCHANGED <<lastClosed, external, foldExt>>
AddressExpired(x, a) ==
  /\ listened' = [listened EXCEPT ![x] = SelectSeq(@, LAMBDA y : y # a)]
  /\ fold' = [fold EXCEPT ![x] = @ \ {a}] /\ UNCHANGED <<lastClosed, external, foldExt>>
ListenerClosed(x) ==
  /\ lastClosed' = <<x, listened[x], fold[x]>>
  /\ listened' = [listened EXCEPT ![x] = <<>>] /\ fold' = [fold EXCEPT ![x] = {}] /\ UNCHANGED <<external, foldExt>>
Confirm(a) == external' = external \cup {a} /\ foldExt' = foldExt \cup {a} /\ UNCHANGED <<listened, fold, lastClosed>>
Expire(a) == external' = external \ {a} /\ foldExt' = foldExt \ {a} /\ UNCHANGED <<listened, fold, lastClosed>>
Next == \/ \E x \in Ls, a \in As : NewAddress(x, a) \/ AddressExpired(x, a)
        \/ \E x \in Ls : ListenerClosed(x)
        \/ \E a \in As : Confirm(a) \/ Expire(a)
ListenersView == \A x \in Ls : ToSet(listened[x]) = fold[x] /\ Len(listened[x]) = Cardinality(fold[x])
ClosedCarriesRemaining == lastClosed # <<>> => (ToSet(lastClosed[2]) = lastClosed[3] /\ Len(lastClosed[2]) = Cardinality(lastClosed[3]))
ExternalView == external = foldExt
Small == \A x \in Ls : Len(listened[x]) <= 3
====
