---- MODULE MemHub ----
(* X02: the in-memory transport, libp2p_core::transport::MemoryTransport (/repo/core/src/transport/memory.rs):
   a process-global hub maps ports to the channel of whoever owns the port.  What users (every Swarm test) rely on,
   from the doc comments of the module, of `Transport` and of `TransportEvent`:

   M1 PortAllocation     listen_on(/memory/0) picks a port that is non-zero and not in use; listen_on(/memory/N) succeeds
                         iff N is not in use (by a listener or as the ephemeral port of a live outgoing connection).
   M2 DialIffListener    dial(/memory/N) succeeds iff a listener owns N at that moment; the dial future completes iff
                         that listener is still listening; then exactly one Incoming appears, at exactly that listener.
   M3 Announced          NewAddress(/memory/port) once per listener and before any of its Incoming events; Incoming has
                         local_addr = that address and send_back_addr = the dialer's ephemeral port: non-zero, unique,
                         not a listen address ("analogous to TCP").
   M4 PortsAreFreed      remove_listener(id) is true iff this transport has that listener; the port can be listened on
                         again at once; ListenerClosed follows exactly once.  Dropping the transport frees its ports
                         ("Listening port is unregistered in Drop implementation of Listener"), dropping the dialer's
                         channel frees the ephemeral port.  Removing / dropping never affects ANOTHER listener's port.
   M5 OrderedBytes       bytes written on one end are read on the other end in order, exactly once; EOF after the
                         writer is gone; a write fails once the other end is gone (trace spec only).
   M6 NoLeak             every hub entry belongs to a live listener or a live outgoing connection.

   The model transcribes HUB / Listener / DialFuture / Chan.  Two named deviations of the code as found:
     GuardRemove = FALSE  remove_listener unregisters listener.port even when the listener was removed before and the
                          port meanwhile belongs to somebody else (second call before ListenerClosed was polled);
     DropFrees   = FALSE  there is no Drop for Listener: a dropped transport leaves its ports registered for ever. *)
EXTENDS Integers, Sequences, FiniteSets
CONSTANTS NP, NT, MaxL, MaxD, GuardRemove, DropFrees
VARIABLES hub, lis, dial, delivered, nclosed
vars == <<hub, lis, dial, delivered, nclosed>>
Ports == 1..NP
DPort(d) == 10 + d
AllPorts == Ports \cup {DPort(d) : d \in 1..MaxD}
Trans == 1..NT
NoL == [t |-> 0, port |-> 0, st |-> "none", rxclosed |-> FALSE, told |-> FALSE, queue |-> <<>>]
NoD == [st |-> "none", ch |-> 0, alive |-> FALSE]

Init == /\ hub = [p \in AllPorts |-> 0]
        /\ lis = [i \in 1..MaxL |-> NoL] /\ dial = [d \in 1..MaxD |-> NoD]
        /\ delivered = {} /\ nclosed = [i \in 1..MaxL |-> 0]

FreshL == {i \in 1..MaxL : lis[i].st = "none" /\ \A j \in 1..MaxL : j < i => lis[j].st # "none"}
FreshD == {d \in 1..MaxD : dial[d].st = "none" /\ \A e \in 1..MaxD : e < d => dial[e].st # "none"}

(* Hub::register_port for a given port; entry = listener id *)
Listen(t, p) == \E i \in FreshL :
                  /\ hub[p] = 0
                  /\ hub' = [hub EXCEPT ![p] = i]
                  /\ lis' = [lis EXCEPT ![i] = [t |-> t, port |-> p, st |-> "listed", rxclosed |-> FALSE, told |-> FALSE, queue |-> <<>>]]
                  /\ UNCHANGED <<dial, delivered, nclosed>>

(* MemoryTransport::remove_listener: the listener stays in the list until poll reports ListenerClosed *)
Remove(t, i) == /\ lis[i].st = "listed" /\ lis[i].t = t
                /\ IF GuardRemove /\ lis[i].rxclosed
                   THEN UNCHANGED hub
                   ELSE hub' = [hub EXCEPT ![lis[i].port] = 0]          \* HUB.unregister_port(&listener.port)
                /\ lis' = [lis EXCEPT ![i].rxclosed = TRUE]             \* listener.receiver.close()
                /\ UNCHANGED <<dial, delivered, nclosed>>

(* one iteration of MemoryTransport::poll for listener i (the rotation order is abstracted) *)
Poll(t, i) == /\ lis[i].st = "listed" /\ lis[i].t = t
              /\ IF ~lis[i].told THEN lis' = [lis EXCEPT ![i].told = TRUE] /\ UNCHANGED <<hub, delivered, nclosed>>
                 ELSE IF lis[i].queue # <<>>
                 THEN /\ delivered' = delivered \cup {<<i, Head(lis[i].queue)>>}
                      /\ lis' = [lis EXCEPT ![i].queue = Tail(@)] /\ UNCHANGED <<hub, nclosed>>
                 ELSE /\ lis[i].rxclosed                                \* Ready(None): ListenerClosed, listener dropped
                      /\ lis' = [lis EXCEPT ![i].st = "reported"] /\ nclosed' = [nclosed EXCEPT ![i] = @ + 1]
                      /\ UNCHANGED <<hub, delivered>>
              /\ UNCHANGED dial

(* drop(MemoryTransport): every listener is dropped, receivers included *)
DropT(t) == /\ \E i \in 1..MaxL : lis[i].st = "listed" /\ lis[i].t = t
            /\ LET mine == {i \in 1..MaxL : lis[i].st = "listed" /\ lis[i].t = t} IN
               /\ hub' = [p \in AllPorts |-> IF DropFrees /\ \E i \in mine : ~lis[i].rxclosed /\ lis[i].port = p /\ hub[p] = i
                                             THEN 0 ELSE hub[p]]
               /\ lis' = [i \in 1..MaxL |-> IF i \in mine THEN [lis[i] EXCEPT !.st = "dropped", !.rxclosed = TRUE, !.queue = <<>>] ELSE lis[i]]
            /\ UNCHANGED <<dial, delivered, nclosed>>

(* MemoryTransport::dial / DialFuture::new: clones the sender found in the hub, registers an ephemeral port *)
Dial(p) == \E d \in FreshD :
             /\ hub[p] # 0
             /\ dial' = [dial EXCEPT ![d] = [st |-> "fut", ch |-> hub[p], alive |-> TRUE]]
             /\ hub' = [hub EXCEPT ![DPort(d)] = -d]
             /\ UNCHANGED <<lis, delivered, nclosed>>

(* DialFuture::poll: poll_ready / start_send on the captured sender *)
DialPoll(d) == /\ dial[d].st = "fut"
               /\ IF dial[d].ch > 0 /\ ~lis[dial[d].ch].rxclosed
                  THEN /\ lis' = [lis EXCEPT ![dial[d].ch].queue = Append(@, d)]
                       /\ dial' = [dial EXCEPT ![d].st = "done"] /\ UNCHANGED hub
                  ELSE /\ dial' = [dial EXCEPT ![d].st = "failed", ![d].alive = FALSE]
                       /\ hub' = [hub EXCEPT ![DPort(d)] = 0] /\ UNCHANGED lis        \* channel_to_return dropped with the future
               /\ UNCHANGED <<delivered, nclosed>>

(* drop of the dialer's Chan (or of the unfinished DialFuture) *)
DropChan(d) == /\ dial[d].st \in {"fut", "done"} /\ dial[d].alive
               /\ dial' = [dial EXCEPT ![d].alive = FALSE, ![d].st = IF @ = "fut" THEN "dropped" ELSE @]
               /\ hub' = [hub EXCEPT ![DPort(d)] = 0]
               /\ UNCHANGED <<lis, delivered, nclosed>>

Next == \/ \E t \in Trans, p \in Ports : Listen(t, p)
        \/ \E t \in Trans, i \in 1..MaxL : Remove(t, i) \/ Poll(t, i)
        \/ \E t \in Trans : DropT(t)
        \/ \E p \in AllPorts : Dial(p)
        \/ \E d \in 1..MaxD : DialPoll(d) \/ DropChan(d)
Spec == Init /\ [][Next]_vars

Listening(i) == lis[i].st = "listed" /\ ~lis[i].rxclosed
(* M4 (never affects another listener) + M2: a listening listener is reachable under its port *)
Reachable == \A i \in 1..MaxL : Listening(i) => hub[lis[i].port] = i
(* M6 / M4: no listen-port entry without a listening listener *)
NoLeak == \A p \in Ports : hub[p] # 0 => Listening(hub[p])
DialPortsFreed == \A d \in 1..MaxD : (hub[DPort(d)] # 0) = (dial[d].st \in {"fut", "done"} /\ dial[d].alive)
PortExclusive == \A i, j \in 1..MaxL : (i # j /\ Listening(i) /\ Listening(j)) => lis[i].port # lis[j].port
(* M2: an Incoming only for a completed dial, at the listener whose sender the dial captured, once (delivered is a set,
   a second delivery would need the same d twice in a queue) *)
IncomingAtDialed == \A x \in delivered : dial[x[2]].st = "done" /\ dial[x[2]].ch = x[1]
QueuedOnce == \A i \in 1..MaxL : \A a, b \in 1..Len(lis[i].queue) : a # b => lis[i].queue[a] # lis[i].queue[b]
NotRedelivered == \A i \in 1..MaxL : \A a \in 1..Len(lis[i].queue) : <<i, lis[i].queue[a]>> \notin delivered
ClosedOnce == \A i \in 1..MaxL : nclosed[i] <= 1 /\ (nclosed[i] = 1 => lis[i].st = "reported")
====
