CONSTANTS
  B = 3
  Local = 5
  Cap = 2
  Timeout = 1
  MaxTime = 0
  Bucket0Twice = FALSE
  ApplyEarly = FALSE
  ApplyConnected = FALSE
INIT Init
NEXT Next
INVARIANT Capacity
INVARIANT RightBucketUnique
INVARIANT LruOrder
INVARIANT ClosestOK
PROPERTY EvictionRule
