INIT Init
NEXT Next
