INIT Init
NEXT Next
INVARIANT PortExclusive
CONSTRAINT Progress
POSTCONDITION Accepted
