---- MODULE Mdns ----
(* C55.  protocols/mdns/src/behaviour/iface/dns.rs `build_query_response` transcribed at the level of byte counts
   (REAL constants): the peer-name qname (34..65 bytes, chosen at start), one TXT record per address
   (name + 10 bytes of fixed fields + 1 length byte + the character-string), addresses whose TXT string exceeds 255
   bytes or is not ASCII are skipped, a packet is closed after RecsPerPacket records.  Addresses are abstracted to
   [len : length of "dnsaddr=<addr>/p2p/<peer>", kind : "plain" | "quoted" (contains a space) | "nonascii"].  The decoder reads the character-string by its length byte.
   Properties: PacketFits (every packet <= 9000 bytes), Exact (decoded = advertised addresses with len <= 255 and
   ASCII, in order).
   Constants as canaries: RecBudget = 300 / HdrBudget = 100 and QuoteBug are the code before the C55 repairs. *)
EXTENDS Naturals, Sequences, TLC
CONSTANTS Lens,            \* TXT string lengths explored
          Kinds,           \* address kinds explored
          MaxAddrs,
          RecBudget,       \* MAX_TXT_RECORD_SIZE: the per-record size the code budgets for  (repaired: 331, before: 300)
          HdrBudget,       \* packet header allowance (repaired: 104, before: 100)
          QuoteBug,        \* TRUE (before the repair): a string with a space is wrapped in quotes while the length byte
                           \* still announces the unquoted length
          Truncate         \* canary: an oversize string is cut to 255 bytes instead of being skipped
VARIABLES name, n, recs, cur, worst, mismatch, poisoned   \* worst: size of the largest closed packet; monitors instead of histories
vars == <<name, n, recs, cur, worst, mismatch, poisoned>>
MaxTxt == 255
MaxPacket == 9000 - 68
RecsPerPacket == (MaxPacket - HdrBudget) \div RecBudget
Header == 12 + 17 + 4 + 4 + 2          \* DNS header, question-less answer: qname(_p2p._udp.local) type class ttl rdlength
Init == /\ name \in {34, 65} /\ n = 0 /\ recs = 0 /\ cur = 0 /\ worst = 0 /\ mismatch = FALSE /\ poisoned = FALSE
Fit(len, kind) == len <= MaxTxt /\ kind # "nonascii"
Add(len, kind) ==
  /\ n < MaxAddrs /\ n' = n + 1 /\ name' = name
  /\ LET skip == kind = "nonascii" \/ (len > MaxTxt /\ ~Truncate)
         wlen == IF len > MaxTxt THEN MaxTxt ELSE len
         body == IF kind = "quoted" /\ QuoteBug THEN wlen + 2 ELSE wlen   \* append_character_string
         rsize == name + 10 + 1 + body
         readable == kind = "plain" \/ ~QuoteBug                      \* length byte matches the string
         nrecs == recs + 1
         decoded == ~skip /\ readable /\ len <= MaxTxt                 \* this address comes out of the decoder unchanged
     IN /\ mismatch' = (mismatch \/ (decoded # Fit(len, kind)))
        /\ IF skip THEN UNCHANGED <<recs, cur, worst, poisoned>>
           ELSE /\ poisoned' = (poisoned \/ ~readable \/ len > MaxTxt)      \* a record the decoder cannot read / a foreign string
                /\ IF nrecs = RecsPerPacket
                   THEN /\ worst' = (IF Header + name + cur + rsize > worst THEN Header + name + cur + rsize ELSE worst)
                        /\ recs' = 0 /\ cur' = 0
                   ELSE recs' = nrecs /\ cur' = cur + rsize /\ worst' = worst
Next == \E len \in Lens, kind \in Kinds : Add(len, kind)
Spec == Init /\ [][Next]_vars
PacketFits == worst <= 9000 /\ Header + name + cur <= 9000
Exact == ~poisoned /\ ~mismatch
====
