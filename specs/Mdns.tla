---- MODULE Mdns ----
(* C55.  protocols/mdns/src/behaviour/iface/dns.rs `build_query_response` transcribed at the level of byte counts
   (REAL constants): the peer-name qname (34..65 bytes, chosen at start), one TXT record per address
   (name + 10 bytes of fixed fields + 1 length byte + the character-string), addresses whose TXT string exceeds 255
   bytes or is not ASCII are skipped, a packet is closed after RecsPerPacket records.  Addresses are abstracted to
   [len : length of "dnsaddr=<addr>/p2p/<peer>", kind : "plain" | "quoted" (contains a space: the string is wrapped
   in quotes) | "nonascii"].  The decoder reads the character-string by its length byte.
   Properties: PacketFits (every packet <= 9000 bytes), Exact (decoded = advertised addresses with len <= 255 and
   ASCII, in order).
   Constants as canaries: RecBudget = 300 and the stale length byte are the code before the C55 repair. *)
EXTENDS Naturals, Sequences, TLC
CONSTANTS Lens,            \* TXT string lengths explored
          Kinds,           \* address kinds explored
          MaxAddrs,
          RecBudget,       \* MAX_TXT_RECORD_SIZE: the per-record size the code budgets for  (repaired: 333, before: 300)
          StaleLenByte,    \* TRUE: length byte = unquoted length although the string was quoted (before the repair)
          Truncate         \* canary: an oversize string is cut to 255 bytes instead of being skipped
VARIABLES name, n, recs, cur, packets, adv, dec, poisoned
vars == <<name, n, recs, cur, packets, adv, dec, poisoned>>
MaxTxt == 255
MaxPacket == 9000 - 68
RecsPerPacket == (MaxPacket - 100) \div RecBudget
Header == 12 + 17 + 4 + 4 + 2          \* DNS header, question-less answer: qname(_p2p._udp.local) type class ttl rdlength
Init == /\ name \in {34, 65} /\ n = 0 /\ recs = 0 /\ cur = 0 /\ packets = <<>> /\ adv = <<>> /\ dec = <<>> /\ poisoned = FALSE
Close == [size |-> Header + name + cur, recs |-> recs]
Add(len, kind) ==
  /\ n < MaxAddrs /\ n' = n + 1 /\ name' = name
  /\ adv' = Append(adv, [len |-> len, kind |-> kind, id |-> n + 1])
  /\ LET skip == kind = "nonascii" \/ (len > MaxTxt /\ ~Truncate)
         wlen == IF len > MaxTxt THEN MaxTxt ELSE len
         body == IF kind = "quoted" THEN wlen + 2 ELSE wlen           \* append_character_string
         rsize == name + 10 + 1 + body
         readable == kind = "plain" \/ ~StaleLenByte                  \* length byte matches the string
         nrecs == recs + 1
     IN IF skip THEN UNCHANGED <<recs, cur, packets, dec, poisoned>>
        ELSE /\ dec' = IF readable /\ len <= MaxTxt THEN Append(dec, n + 1) ELSE dec
             /\ poisoned' = (poisoned \/ ~readable \/ len > MaxTxt)
             /\ IF nrecs = RecsPerPacket
                THEN packets' = Append(packets, [size |-> Header + name + cur + rsize, recs |-> nrecs]) /\ recs' = 0 /\ cur' = 0
                ELSE recs' = nrecs /\ cur' = cur + rsize /\ packets' = packets
Next == \E len \in Lens, kind \in Kinds : Add(len, kind)
Spec == Init /\ [][Next]_vars
PacketFits == (\A i \in 1..Len(packets) : packets[i].size <= 9000) /\ Header + name + cur <= 9000
Fit(a) == a.len <= MaxTxt /\ a.kind # "nonascii"
RECURSIVE Ids(_)
Ids(s) == IF s = <<>> THEN <<>> ELSE (IF Fit(Head(s)) THEN <<Head(s).id>> ELSE <<>>) \o Ids(Tail(s))
Exact == ~poisoned /\ dec = Ids(adv)
====
