INIT Init
NEXT Next
