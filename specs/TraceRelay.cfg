INIT Init
NEXT Next
INVARIANT ResTotal
INVARIANT ResPerPeer
INVARIANT CircTotal
INVARIANT CircPerPeer
CONSTRAINT Progress
POSTCONDITION Accepted
