CONSTANTS NO = 4 DialBounded = FALSE ForwardAll = TRUE
INIT Init
NEXT Next
INVARIANTS Resolves OnePlace RightPeer
