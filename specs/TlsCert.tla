---- MODULE TlsCert ----
(* C18: transcription of transports/tls/src/certificate.rs parse_unverified + P2pCertificate::verify
   over abstract certificates; TLC enumerates every abstract certificate with up to MaxExt
   extensions as an initial state and runs the procedure; the outcome must equal the declarative
   rule of TlsCertRule and an accepted certificate yields the host key of its libp2p extension. *)
EXTENDS TlsCertRule
CONSTANTS MaxExt,
          KeepLast     \* FALSE = the code; TRUE = canary: a second libp2p extension replaces the first
VARIABLES cert, pc, i, ext, res, peer
vars == <<cert, pc, i, ext, res, peer>>
Bool == {TRUE, FALSE}
Exts == [k : {"p2p"}, host : {"H", "X"}, sig : {"ok", "wrongmsg", "otherkey"}, keyOK : Bool, crit : Bool]
        \cup [k : {"unk"}, crit : Bool]
NoExt == [k |-> "none"]
Init == /\ cert \in [selfSigned : Bool, valid : {"now", "expired", "notyet"}, exts : UNION {[1..n -> Exts] : n \in 0..MaxExt}]
        /\ pc = "exts" /\ i = 1 /\ ext = NoExt /\ res = "run" /\ peer = "none"
(* parse_unverified: loop over the extensions *)
Step == /\ pc = "exts" /\ i <= Len(cert.exts)
        /\ LET e == cert.exts[i] IN
           IF e.k = "p2p" /\ ext # NoExt /\ ~KeepLast THEN res' = "reject" /\ pc' = "end" /\ UNCHANGED <<i, ext>>
           ELSE IF e.k = "p2p" THEN
                  IF ~e.keyOK THEN res' = "reject" /\ pc' = "end" /\ UNCHANGED <<i, ext>>     \* key does not decode
                  ELSE ext' = e /\ i' = i + 1 /\ UNCHANGED <<res, pc>>
           ELSE IF e.crit THEN res' = "reject" /\ pc' = "end" /\ UNCHANGED <<i, ext>>        \* unknown critical
           ELSE i' = i + 1 /\ UNCHANGED <<ext, res, pc>>
        /\ UNCHANGED <<cert, peer>>
AfterExts == /\ pc = "exts" /\ i > Len(cert.exts)
             /\ IF ext = NoExt THEN res' = "reject" /\ pc' = "end" ELSE pc' = "verify" /\ UNCHANGED res
             /\ UNCHANGED <<cert, i, ext, peer>>
(* P2pCertificate::verify *)
Verify == /\ pc = "verify" /\ pc' = "end"
          /\ IF cert.valid # "now" THEN res' = "reject" /\ UNCHANGED peer
             ELSE IF ~cert.selfSigned THEN res' = "reject" /\ UNCHANGED peer
             ELSE IF ext.sig # "ok" THEN res' = "reject" /\ UNCHANGED peer
             ELSE res' = "accept" /\ peer' = ext.host
          /\ UNCHANGED <<cert, i, ext>>
Next == Step \/ AfterExts \/ Verify
Spec == Init /\ [][Next]_vars
RuleOK == pc = "end" => /\ (res = "accept") = Accept(cert)
                        /\ (res = "accept" => peer = PeerOf(cert))
====
