SPECIFICATION Spec
CONSTANTS
  PruneBackoff = 2
  Slack = 1
  MaxDur = 5
  MaxTime = 8
  NoTimeCheck = TRUE
  OverwriteAlways = FALSE
INVARIANT NeverShortened
INVARIANT SlotInRing
PROPERTY Forgets
