---- MODULE TraceMemHub ----
(* X02 trace validation: the REAL MemoryTransport instances of one process against the property-level
   specification of the port hub (see MemHub.tla for M1..M6).  State rebuilt from the events:
     L  listeners in order of creation: [t (owning transport), p (port, 0 = /memory/0 not yet announced),
        st: "open" | "removed" (remove_listener called, ListenerClosed not yet reported) | "closed" | "gone" (transport dropped),
        ann (NewAddress reported)]
     D  dials in order of creation: [lid (listener that owned the port when dial() was called),
        st: "fut" | "done" | "failed" | "dropped", deliv (Incoming reported), dp (dialer port, 0 = not yet seen),
        dend / lend: "none" | "open" | "closed" (the two channel ends), ql / qd: bytes in flight towards the l / d end] *)
EXTENDS TraceIO, FiniteSets
VARIABLES l, L, D
vars == <<l, L, D>>
R == Rec[l]
Init == l = 1 /\ L = <<>> /\ D = <<>> /\ InitReg

LS == 1..Len(L)
DS == 1..Len(D)
DPortLive(d) == D[d].st = "fut" \/ (D[d].st = "done" /\ D[d].dend = "open")
InUse(p) == /\ p # 0
            /\ \/ \E i \in LS : L[i].st = "open" /\ L[i].p = p
               \/ \E d \in DS : D[d].dp = p /\ DPortLive(d)
Targets(p) == {i \in LS : L[i].st = "open" /\ L[i].p = p}
Undelivered(i) == \E d \in DS : D[d].lid = i /\ D[d].st = "done" /\ ~D[d].deliv
Attached(i) == L[i].st \in {"open", "removed"}
(* the other end of dial d, seen from `side`, still exists (or still sits undelivered in a live listener's queue) *)
PeerAlive(d, side) == IF side = "d"
                      THEN D[d].lend = "open" \/ (D[d].lend = "none" /\ ~D[d].deliv /\ Attached(D[d].lid))
                      ELSE D[d].dend = "open"

Reset == R.e = "reset" /\ L' = <<>> /\ D' = <<>>

(* M1: /memory/0 always gets a port; a given port can be listened on iff nobody uses it *)
(* an address that is not /memory/N or /memory/N/p2p/.. is refused as unsupported and changes nothing *)
Unsupported == /\ R.e \in {"listen", "dial"} /\ R.sfx = "bad" /\ R.res = "unsupported" /\ UNCHANGED <<L, D>>
Listen == /\ R.e = "listen" /\ R.sfx # "bad"
          /\ (IF R.p = 0 THEN R.res = "ok" ELSE (R.res = "ok") = ~InUse(R.p)) = TRUE
          /\ IF R.res = "ok"
             THEN R.lid = Len(L) + 1 /\ L' = Append(L, [t |-> R.t, p |-> R.p, st |-> "open", ann |-> FALSE])
             ELSE UNCHANGED L
          /\ UNCHANGED D

(* M4: true iff this transport has a listener with that id; the port is free from then on *)
Remove == /\ R.e = "remove"
          /\ LET i == R.lid
                 mine == i \in LS /\ L[i].t = R.t IN
             IF mine /\ L[i].st = "open" THEN R.res = TRUE /\ L' = [L EXCEPT ![i].st = "removed"]
             ELSE IF mine /\ L[i].st = "removed" THEN UNCHANGED L          \* already removed, not yet reported: either answer
             ELSE R.res = FALSE /\ UNCHANGED L
          /\ UNCHANGED D

(* M2: a dial succeeds iff a listener owns the port at that moment.  With a listener dial() must return the future;
   without one it returns an error, or (the code does this for a port that is somebody's ephemeral dialer port) a
   future that is bound to fail: lid = 0 *)
Dial == /\ R.e = "dial" /\ R.sfx # "bad"
        /\ (IF R.p # 0 /\ Targets(R.p) # {} THEN R.res = "ok" ELSE R.res = "err" \/ InUse(R.p)) = TRUE
        /\ IF R.res = "ok"
           THEN /\ R.d = Len(D) + 1
                /\ D' = Append(D, [lid |-> IF Targets(R.p) # {} THEN CHOOSE i \in Targets(R.p) : TRUE ELSE 0, st |-> "fut",
                                   deliv |-> FALSE, dp |-> 0, dend |-> "none", lend |-> "none", ql |-> <<>>, qd |-> <<>>])
           ELSE UNCHANGED D
        /\ UNCHANGED L

(* M2: the dial completes iff that same listener is still listening *)
DialPoll == /\ R.e = "dialpoll" /\ R.d \in DS /\ D[R.d].st = "fut"
            /\ LET i == D[R.d].lid IN
               \/ /\ R.res = "ok" /\ i # 0 /\ L[i].st = "open" /\ R.tag = "ok"
                  /\ D' = [D EXCEPT ![R.d].st = "done", ![R.d].dend = "open"]
               \/ /\ R.res = "err" /\ (IF i = 0 THEN TRUE ELSE L[i].st # "open")
                  /\ D' = [D EXCEPT ![R.d].st = "failed"]
            /\ UNCHANGED L
DropD == /\ R.e = "dropd" /\ R.d \in DS /\ D[R.d].st = "fut" /\ D' = [D EXCEPT ![R.d].st = "dropped"] /\ UNCHANGED L

(* M3: NewAddress once per listener, with its port; a /memory/0 port is non-zero and unused *)
NewAddr == /\ R.e = "poll" /\ R.res = "newaddr" /\ R.lid \in LS /\ R.n = 1
           /\ LET i == R.lid IN
              /\ L[i].t = R.t /\ ~L[i].ann /\ Attached(i) /\ R.p # 0
              /\ (IF L[i].p # 0 THEN R.p = L[i].p ELSE ~InUse(R.p)) = TRUE
              /\ L' = [L EXCEPT ![i].ann = TRUE, ![i].p = R.p]
           /\ UNCHANGED D
(* M2/M3: exactly one Incoming per completed dial, at the dialed listener, only after its NewAddress,
   send_back_addr = a fresh non-zero dialer port different from every port in use *)
Incoming == /\ R.e = "poll" /\ R.res = "incoming" /\ R.lid \in LS /\ R.d \in DS /\ R.up = "ok"
            /\ LET i == R.lid
                   d == R.d IN
               /\ L[i].t = R.t /\ L[i].ann /\ Attached(i) /\ R.local = L[i].p
               /\ D[d].lid = i /\ D[d].st = "done" /\ ~D[d].deliv
               /\ R.from # 0 /\ R.from # R.local /\ (~\E j \in LS : L[j].st = "open" /\ L[j].p = R.from) = TRUE
               /\ (~\E e \in DS : e # d /\ D[e].dp = R.from /\ DPortLive(e)) = TRUE
               /\ D' = [D EXCEPT ![d].deliv = TRUE, ![d].dp = R.from, ![d].lend = "open"]
            /\ UNCHANGED L
(* M4: ListenerClosed exactly once, only after remove_listener, after every accepted connection was handed out *)
Closed == /\ R.e = "poll" /\ R.res = "closed" /\ R.lid \in LS /\ R.ok
          /\ L[R.lid].t = R.t /\ L[R.lid].st = "removed" /\ (~Undelivered(R.lid)) = TRUE
          /\ L' = [L EXCEPT ![R.lid].st = "closed"] /\ UNCHANGED D
(* nothing is withheld: Pending only if no event is due at this transport *)
PollPending == /\ R.e = "poll" /\ R.res = "pending"
               /\ (\A i \in LS : L[i].t = R.t => /\ L[i].st # "removed"
                                                   /\ (L[i].st = "open" => L[i].ann /\ ~Undelivered(i))) = TRUE
               /\ UNCHANGED <<L, D>>
(* M4: dropping the transport frees its ports *)
DropT == /\ R.e = "dropt"
         /\ L' = [i \in LS |-> IF L[i].t = R.t /\ Attached(i) THEN [L[i] EXCEPT !.st = "gone"] ELSE L[i]]
         /\ UNCHANGED D
Close == /\ R.e = "close" /\ R.d \in DS
         /\ D' = IF R.side = "d" THEN [D EXCEPT ![R.d].dend = "closed"] ELSE [D EXCEPT ![R.d].lend = "closed"]
         /\ UNCHANGED L
(* M5: bytes arrive in order, exactly once; no data -> Pending while the writer lives, EOF after; a write succeeds
   iff the other end still exists (BrokenPipe otherwise) *)
Write == /\ R.e = "write" /\ R.d \in DS
         /\ \/ /\ R.res = "ok" /\ R.n >= 1 /\ R.n <= Len(R.bytes) /\ PeerAlive(R.d, R.side) = TRUE   \* a write to a vanished peer fails
               /\ D' = IF R.side = "d" THEN [D EXCEPT ![R.d].ql = @ \o SubSeq(R.bytes, 1, R.n)]
                                        ELSE [D EXCEPT ![R.d].qd = @ \o SubSeq(R.bytes, 1, R.n)]
            \/ /\ R.res = "err" /\ (~PeerAlive(R.d, R.side)) = TRUE /\ UNCHANGED D
         /\ UNCHANGED L
Read == /\ R.e = "read" /\ R.d \in DS
        /\ LET Q == IF R.side = "l" THEN D[R.d].ql ELSE D[R.d].qd
               k == Len(R.bytes) IN
           \/ /\ R.res = "ok" /\ k >= 1 /\ k <= R.max /\ k <= Len(Q) /\ SubSeq(Q, 1, k) = R.bytes
              /\ D' = IF R.side = "l" THEN [D EXCEPT ![R.d].ql = SubSeq(Q, k + 1, Len(Q))]
                                       ELSE [D EXCEPT ![R.d].qd = SubSeq(Q, k + 1, Len(Q))]
           \/ /\ R.res = "pending" /\ Q = <<>> /\ PeerAlive(R.d, R.side) = TRUE /\ UNCHANGED D
           \/ /\ R.res = "eof" /\ Q = <<>> /\ (~PeerAlive(R.d, R.side)) = TRUE /\ UNCHANGED D
        /\ UNCHANGED L
Skip == R.e = "skip" /\ UNCHANGED <<L, D>>

Next == l <= NRec /\ l' = l + 1 /\
        (Reset \/ Unsupported \/ Listen \/ Remove \/ Dial \/ DialPoll \/ DropD \/ NewAddr \/ Incoming \/ Closed \/ PollPending \/ DropT \/ Close
         \/ Write \/ Read \/ Skip)
Spec == Init /\ [][Next]_vars
PortExclusive == \A i, j \in LS : (i # j /\ L[i].st = "open" /\ L[j].st = "open" /\ L[i].p # 0) => L[i].p # L[j].p
Progress == Mark(l)
====
