---- MODULE Gossipsub ----
(* Single-router model of the gossipsub behaviour (protocols/gossipsub/src/behaviour.rs): mesh maintenance,
   handler mesh notifications, fanout on publish, subscription filter.  One action per entry point of the
   behaviour (critical section).  Implementation-shaped: the notification helpers NAdd / NRem are transcriptions
   of peer_added_to_mesh / peer_removed_from_mesh (they scan the peer's OTHER tracked topics and address the
   peer's FIRST connection), Disconnect follows on_connection_closed's first-connection rule.
   Abstractions: backoff and score sign are booleans per (topic, peer) / peer (logical time for backoff lives in
   GsBackoff.tla); at most two connections per peer; one topic per subscription / GRAFT / PRUNE RPC.
   Properties: C28 (MeshEligible, AddedOnlyIfEligible, GraftRespectsHigh), C29 (HandlerView), C35 (FanoutKept),
   C36 (FilterBound).  Canary constants re-introduce the four defects found in the code. *)
EXTENDS Naturals, FiniteSets, Sequences, TLC
CONSTANTS Peers, Topics, Explicit, Flood, Allowed, MaxSubs, MeshLow, MeshN, MeshHigh, MaxConns,
          PerTopicNotify,   \* canary C29: heartbeat notifies once per grafted topic (send_graft_prune before the fix)
          FanoutReplace,    \* canary C35: publish replaces the fanout set (fanout.insert before the fix)
          GraftSkipsFilter, \* canary C36: GRAFT records the topic without consulting the subscription filter
          GraftIgnoresKind  \* canary C28: GRAFT from a floodsub peer is accepted
VARIABLES conns,    \* peer -> sequence of open connection ids (establishment order; head = "first connection")
          gs,       \* peers whose handler reported a gossipsub protocol (the others count as floodsub)
          topics,   \* peer -> tracked topics
          subs, mesh, fanout,
          bo,       \* topic -> peers backed off
          neg,      \* peers with negative score
          hIn       \* set of <<peer, conn>> whose connection handler believes "in mesh"
vars == <<conns, gs, topics, subs, mesh, fanout, bo, neg, hIn>>

ConnIds == 1..MaxConns
Range(s) == {s[i] : i \in 1..Len(s)}
Connected == {p \in Peers : conns[p] # <<>>}
InAny(m, p) == \E t \in Topics : p \in m[t]
First(p) == <<p, conns[p][1]>>

Init == /\ conns = [p \in Peers |-> <<>>] /\ gs = {} /\ topics = [p \in Peers |-> {}] /\ subs = {}
        /\ mesh = [t \in Topics |-> {}] /\ fanout = [t \in Topics |-> {}]
        /\ bo = [t \in Topics |-> {}] /\ neg = {} /\ hIn = {}

Eligible(t, p) == p \in Connected /\ p \in gs /\ t \in topics[p] /\ p \notin Explicit /\ p \notin neg /\ p \notin bo[t]
(* peer_added_to_mesh / peer_removed_from_mesh exactly as coded *)
NAdd(h, p, new, m, tp) == IF \E t \in tp[p] \ new : p \in m[t] THEN h ELSE h \cup {First(p)}
NRem(h, p, old, m, tp) == IF \E t \in tp[p] \ {old} : p \in m[t] THEN h ELSE h \ {First(p)}
RECURSIVE FoldAdd(_, _, _, _, _)
FoldAdd(h, p, ts, m, tp) == IF ts = {} THEN h ELSE LET t == CHOOSE x \in ts : TRUE IN FoldAdd(NAdd(h, p, {t}, m, tp), p, ts \ {t}, m, tp)
RECURSIVE FoldRem(_, _, _, _, _)
FoldRem(h, p, ts, m, tp) == IF ts = {} THEN h ELSE LET t == CHOOSE x \in ts : TRUE IN FoldRem(NRem(h, p, t, m, tp), p, ts \ {t}, m, tp)

Connect(p, c) ==
  /\ Len(conns[p]) < MaxConns /\ c \notin Range(conns[p])
  /\ conns' = [conns EXCEPT ![p] = Append(@, c)]
  /\ UNCHANGED <<gs, topics, subs, mesh, fanout, bo, neg, hIn>>
(* HandlerEvent::PeerKind: only handlers of non-floodsub peers report a gossipsub kind *)
Kind(p) == p \in Connected /\ p \notin Flood /\ gs' = gs \cup {p} /\ UNCHANGED <<conns, topics, subs, mesh, fanout, bo, neg, hIn>>
(* a handler reports its protocol before it can deliver a message *)
CanSend(p) == p \in Connected /\ (p \in gs \/ p \in Flood)

Disconnect(p, c) ==
  /\ c \in Range(conns[p])
  /\ LET rest == SelectSeq(conns[p], LAMBDA x : x # c) IN
     /\ conns' = [conns EXCEPT ![p] = rest]
     /\ IF rest # <<>>
        THEN /\ hIn' = (hIn \ {<<p, c>>}) \cup (IF \E t \in topics[p] : p \in mesh[t] THEN {<<p, rest[1]>>} ELSE {})
             /\ UNCHANGED <<gs, topics, mesh, fanout>>
        ELSE /\ topics' = [topics EXCEPT ![p] = {}] /\ gs' = gs \ {p}
             /\ mesh' = [t \in Topics |-> IF t \in topics[p] THEN mesh[t] \ {p} ELSE mesh[t]]
             /\ fanout' = [t \in Topics |-> IF t \in topics[p] THEN fanout[t] \ {p} ELSE fanout[t]]
             /\ hIn' = {x \in hIn : x[1] # p}                  \* the handlers die with their connections
  /\ UNCHANGED <<subs, bo, neg>>

(* handle_received_subscriptions for one topic *)
RecvSubscribe(p, t) ==
  /\ CanSend(p)
  /\ IF t \notin Allowed \/ (t \notin topics[p] /\ Cardinality(topics[p]) >= MaxSubs)
     THEN UNCHANGED vars                                            \* filtered / rejected: nothing changes
     ELSE LET tp == [topics EXCEPT ![p] = @ \cup {t}]
              graft == t \in subs /\ p \in gs /\ p \notin Explicit /\ p \notin neg /\ p \notin bo[t] /\ p \notin mesh[t] /\ Cardinality(mesh[t]) < MeshLow
              m == IF graft THEN [mesh EXCEPT ![t] = @ \cup {p}] ELSE mesh IN
          /\ topics' = tp /\ mesh' = m
          /\ hIn' = IF graft THEN NAdd(hIn, p, {t}, m, tp) ELSE hIn
          /\ UNCHANGED <<conns, gs, subs, fanout, bo, neg>>
RecvUnsubscribe(p, t) ==
  /\ CanSend(p) /\ t \in Allowed
  /\ LET tp == [topics EXCEPT ![p] = @ \ {t}]
         m == [mesh EXCEPT ![t] = @ \ {p}] IN
     /\ topics' = tp /\ mesh' = m /\ fanout' = [fanout EXCEPT ![t] = @ \ {p}]
     /\ bo' = IF p \in mesh[t] THEN [bo EXCEPT ![t] = @ \cup {p}] ELSE bo
     /\ hIn' = IF p \in mesh[t] THEN NRem(hIn, p, t, m, tp) ELSE hIn
     /\ UNCHANGED <<conns, gs, subs, neg>>

(* handle_graft *)
RecvGraft(p, t) ==
  /\ CanSend(p)
  /\ LET ok == GraftSkipsFilter \/ (t \in Allowed /\ (t \in topics[p] \/ Cardinality(topics[p]) < MaxSubs))
         tp == IF ok THEN [topics EXCEPT ![p] = @ \cup {t}] ELSE topics
         cand == ok /\ p \notin Explicit /\ (GraftIgnoresKind \/ p \in gs) /\ t \in subs /\ p \notin mesh[t]
         accept == cand /\ p \notin bo[t] /\ p \notin neg /\ Cardinality(mesh[t]) < MeshHigh
         m == IF accept THEN [mesh EXCEPT ![t] = @ \cup {p}] ELSE mesh IN
     /\ topics' = tp /\ mesh' = m
     /\ hIn' = IF accept THEN NAdd(hIn, p, {t}, m, tp) ELSE hIn
     /\ bo' = IF cand /\ ~accept THEN [bo EXCEPT ![t] = @ \cup {p}] ELSE bo       \* PRUNE sent => backoff
     /\ UNCHANGED <<conns, gs, subs, fanout, neg>>
RecvPrune(p, t) ==
  /\ CanSend(p)
  /\ LET m == [mesh EXCEPT ![t] = @ \ {p}] IN
     /\ mesh' = m /\ bo' = [bo EXCEPT ![t] = @ \cup {p}]
     /\ hIn' = IF p \in mesh[t] THEN NRem(hIn, p, t, m, topics) ELSE hIn
     /\ UNCHANGED <<conns, gs, topics, subs, fanout, neg>>

(* subscribe -> join: eligible fanout peers first, then random eligible peers, up to MeshN *)
Subscribe(t) ==
  /\ t \notin subs /\ t \in Allowed /\ subs' = subs \cup {t}
  /\ LET el == {p \in Peers : Eligible(t, p)} IN
     \E add \in SUBSET el :
       /\ Cardinality(add) <= MeshN
       /\ Cardinality(add) = MeshN \/ add = el                                   \* takes as many as available
       /\ (fanout[t] \cap el) \subseteq add \/ Cardinality(add \cap fanout[t]) = MeshN   \* fanout peers first
       /\ LET m == [mesh EXCEPT ![t] = add] IN
          /\ mesh' = m /\ fanout' = [fanout EXCEPT ![t] = {}]
          /\ hIn' = hIn \cup {First(p) : p \in add}     \* one single-topic call per peer; t is new => joins or is in already
  /\ UNCHANGED <<conns, gs, topics, bo, neg>>
Unsubscribe(t) ==
  /\ t \in subs /\ subs' = subs \ {t}
  /\ LET m == [mesh EXCEPT ![t] = {}] IN
     /\ mesh' = m /\ bo' = [bo EXCEPT ![t] = @ \cup mesh[t]]
     /\ hIn' = {x \in hIn : x[1] \notin mesh[t] \/ x # First(x[1]) \/ \E u \in topics[x[1]] \ {t} : x[1] \in m[u]}
  /\ UNCHANGED <<conns, gs, topics, fanout, neg>>

(* heartbeat mesh maintenance for all topics at once *)
Heartbeat ==
  \E nm \in [Topics -> SUBSET Connected] :
    /\ \A t \in Topics :
         IF t \notin subs THEN nm[t] = {} ELSE
         LET kept == mesh[t] \ neg IN
           /\ nm[t] \ mesh[t] \subseteq {p \in Peers : Eligible(t, p)}        \* only eligible peers are added
           /\ (mesh[t] \ nm[t]) \cap kept # {} => Cardinality(kept) >= MeshHigh     \* good peers are pruned only when too many
           /\ nm[t] \cap neg = {}
           /\ Cardinality(kept) < MeshLow => kept \subseteq nm[t]
           /\ Cardinality(nm[t]) <= IF Cardinality(kept) >= MeshHigh THEN MeshN ELSE (IF MeshN > Cardinality(kept) THEN MeshN ELSE Cardinality(kept))
    /\ mesh' = nm
    /\ bo' = [t \in Topics |-> bo[t] \cup (mesh[t] \ nm[t])]
    /\ hIn' = LET G(p) == {t \in Topics : p \in nm[t] \ mesh[t]}
                  P(p) == {t \in Topics : p \in mesh[t] \ nm[t]}
                  one(p, h) == IF G(p) # {} THEN (IF PerTopicNotify THEN FoldAdd(h, p, G(p), nm, topics) ELSE NAdd(h, p, G(p), nm, topics))
                               ELSE FoldRem(h, p, P(p), nm, topics)
                  RECURSIVE all(_, _)
                  all(ps, h) == IF ps = {} THEN h ELSE LET p == CHOOSE x \in ps : TRUE IN all(ps \ {p}, one(p, h))
              IN all(Connected, hIn)
    /\ UNCHANGED <<conns, gs, topics, subs, fanout, neg>>

(* publish to a topic we are not subscribed to *)
Publish(t) ==
  /\ t \notin subs
  /\ LET cand == {p \in Connected : t \in topics[p] /\ p \notin neg}
         keep == fanout[t] \cap cand IN
     \E new \in SUBSET {p \in cand \ (keep \cup Explicit) : p \in gs} :
       /\ Cardinality(keep) < MeshN \/ new = {}
       /\ Cardinality(keep) + Cardinality(new) <= (IF MeshN > Cardinality(keep) THEN MeshN ELSE Cardinality(keep))
       /\ fanout' = [fanout EXCEPT ![t] = IF Cardinality(keep) >= MeshN THEN @ ELSE (IF FanoutReplace THEN new ELSE @ \cup new)]
  /\ UNCHANGED <<conns, gs, topics, subs, mesh, bo, neg, hIn>>

SetNeg(p) == neg' = (IF p \in neg THEN neg \ {p} ELSE neg \cup {p}) /\ UNCHANGED <<conns, gs, topics, subs, mesh, fanout, bo, hIn>>
ExpireBackoff(t, p) == p \in bo[t] /\ bo' = [bo EXCEPT ![t] = @ \ {p}] /\ UNCHANGED <<conns, gs, topics, subs, mesh, fanout, neg, hIn>>

Next == \/ \E p \in Peers : Kind(p) \/ SetNeg(p) \/ \E c \in ConnIds : Connect(p, c) \/ Disconnect(p, c)
        \/ \E p \in Peers, t \in Topics : RecvSubscribe(p, t) \/ RecvUnsubscribe(p, t) \/ RecvGraft(p, t) \/ RecvPrune(p, t) \/ ExpireBackoff(t, p)
        \/ \E t \in Topics : Subscribe(t) \/ Unsubscribe(t) \/ Publish(t)
        \/ Heartbeat
Spec == Init /\ [][Next]_vars

(* ---- properties ---- *)
MeshEligible == \A t \in Topics : \A p \in mesh[t] : p \in Connected /\ p \in gs /\ t \in topics[p] /\ p \notin Explicit /\ t \in subs      \* C28 (state part)
AddedOnlyIfEligible == [][\A t \in Topics : \A p \in mesh'[t] \ mesh[t] : p \notin bo[t] /\ p \notin neg /\ p \notin Explicit]_vars  \* C28 (step part)
GraftRespectsHigh == [][\A t \in Topics : Cardinality(mesh[t]) >= MeshHigh => (mesh'[t] \ mesh[t] = {} \/ Cardinality(mesh'[t]) <= MeshN)]_vars
(* C29: the first connection's handler is right, no other handler claims "in mesh" *)
HandlerView == \A p \in Connected : /\ First(p) \in hIn <=> InAny(mesh, p)
                                     /\ \A c \in Range(conns[p]) : <<p, c>> \in hIn => (InAny(mesh, p) /\ c = conns[p][1])
HandlersOfOpenConns == \A x \in hIn : x[2] \in Range(conns[x[1]])
FilterBound == \A p \in Peers : topics[p] \subseteq Allowed /\ Cardinality(topics[p]) <= MaxSubs                          \* C36
FanoutKept == [][\A t \in Topics : (t \notin subs /\ t \notin subs' /\ conns' = conns /\ topics' = topics /\ neg' = neg)
                   => (fanout[t] \cap {p \in Connected : t \in topics[p] /\ p \notin neg}) \subseteq fanout'[t]]_vars           \* C35
====
