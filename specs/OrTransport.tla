---- MODULE OrTransport ----
(* X08: OrTransport (core/src/transport/choice.rs) over two inner transports (side 0 = first, side 1 = second),
   implementation-shaped; OptionalTransport::none() is an inner transport that supports nothing and never has
   events (Sup[s] = all "no", no Inject for it: constant Disabled).

   What a user of `a.or_transport(b)` relies on (docs of Transport::or_transport, OrTransport, OptionalTransport,
   Transport::listen_on / remove_listener / poll):
     RouteFirst    listen_on / dial are handled by the FIRST transport that does not answer MultiaddrNotSupported, and by
                   it alone; MultiaddrNotSupported comes back only if both say so; another error of the first
                   transport is final (the second is not tried)
     OwnerStable   a listener lives in exactly one inner transport; remove_listener(id) is TRUE iff one of them has
                   it and removes it there (and nowhere else)
     NoLossNoDup   the events surfaced for a side are exactly the events of that side, in order, each once
                   (srf[s] is a prefix of inj[s]); Pending is returned only if both sides are idle
     Surfaced      (liveness) with a bounded number of inner events every event is eventually surfaced
     BoundedWait   an event pending on the second transport is surfaced after at most Wait polls.
                   NAMED DEVIATION FirstPriority: OrTransport::poll always polls the first transport first, so a first
                   transport that stays busy starves the second for as long as it does. BoundedWait holds for a
                   fair (alternating) poll - Fair = TRUE - and is violated by the code's order (Fair = FALSE) as soon
                   as the first transport may produce more than Wait events: config MCOrTransport_starve.cfg documents it.
   Canaries: TryNextAfterError (an Other error of the first transport falls through to the second),
             DropOwner (remove_listener asks only the first transport), SwapTag (the second side's events are
             surfaced under the first side's tag). *)
EXTENDS Naturals, Sequences, FiniteSets, TLC
CONSTANTS Addrs, Ids, Sup,          \* Sup[s][a] \in {"no", "ok", "err"}   (MC module supplies the function)
          Disabled,                 \* sides that are OptionalTransport::none()
          Budget,                   \* inner events per side
          Wait, Fair,
          TryNextAfterError, DropOwner, SwapTag
VARIABLES own,      \* id -> side holding the listener, or 2 = nobody
          q,        \* side -> pending inner events (tokens 1, 2, ..)
          inj, srf, \* ghost: side -> events injected so far (count) / sequence of events surfaced for that side
          waited,   \* polls answered with another side's event while side 1 had an event pending
          turn, bad
vars == <<own, q, inj, srf, waited, turn, bad>>
Sides == {0, 1}
NoSide == 2
Init == /\ own = [i \in Ids |-> NoSide] /\ q = [s \in Sides |-> <<>>] /\ inj = [s \in Sides |-> 0] /\ srf = [s \in Sides |-> <<>>]
        /\ waited = 0 /\ turn = 0 /\ bad = {}
SupOf(s, a) == IF s \in Disabled THEN "no" ELSE Sup[s][a]
(* the side that handles address a, or NoSide; second component: the result *)
Route(a) == IF SupOf(0, a) = "ok" THEN <<0, "ok">>
            ELSE IF SupOf(0, a) = "err" /\ ~TryNextAfterError THEN <<0, "err">>
            ELSE IF SupOf(1, a) = "ok" THEN <<1, "ok">>
            ELSE IF SupOf(1, a) = "err" THEN <<1, "err">>
            ELSE IF SupOf(0, a) = "err" THEN <<0, "err">>
            ELSE <<NoSide, "unsup">>
(* the statement, independent of the implementation order above *)
Want(a) == IF SupOf(0, a) # "no" THEN <<0, SupOf(0, a)>> ELSE IF SupOf(1, a) # "no" THEN <<1, SupOf(1, a)>> ELSE <<NoSide, "unsup">>
Judge(a) == IF Route(a) = Want(a) THEN {} ELSE {"route"}
Listen(i, a) == /\ own[i] = NoSide
                /\ own' = IF Route(a)[2] = "ok" THEN [own EXCEPT ![i] = Route(a)[1]] ELSE own
                /\ bad' = bad \cup Judge(a)
                /\ UNCHANGED <<q, inj, srf, waited, turn>>
Dial(a) == bad' = bad \cup Judge(a) /\ UNCHANGED <<own, q, inj, srf, waited, turn>>
Remove(i) == /\ LET s == own[i]  found == s # NoSide /\ (s = 0 \/ ~DropOwner) IN
                /\ own' = IF found THEN [own EXCEPT ![i] = NoSide] ELSE own
                /\ bad' = bad \cup (IF (s # NoSide) # found THEN {"remove"} ELSE {})
             /\ UNCHANGED <<q, inj, srf, waited, turn>>
Inject(s) == /\ s \notin Disabled /\ inj[s] < Budget
             /\ inj' = [inj EXCEPT ![s] = @ + 1] /\ q' = [q EXCEPT ![s] = Append(@, inj[s] + 1)]
             /\ UNCHANGED <<own, srf, waited, turn, bad>>
Order == IF Fair /\ turn = 1 THEN <<1, 0>> ELSE <<0, 1>>
Poll == /\ \E s \in Sides : q[s] # <<>>
        /\ LET s == IF q[Order[1]] # <<>> THEN Order[1] ELSE Order[2]
               tag == IF SwapTag THEN 0 ELSE s IN
           /\ srf' = [srf EXCEPT ![tag] = Append(@, Head(q[s]))]
           /\ q' = [q EXCEPT ![s] = Tail(@)]
           /\ waited' = IF s = 1 THEN 0 ELSE IF q[1] # <<>> THEN waited + 1 ELSE 0
           /\ turn' = 1 - s
        /\ UNCHANGED <<own, inj, bad>>
Next == \/ \E i \in Ids, a \in Addrs : Listen(i, a)
        \/ \E a \in Addrs : Dial(a)
        \/ \E i \in Ids : Remove(i)
        \/ \E s \in Sides : Inject(s)
        \/ Poll
Spec == Init /\ [][Next]_vars /\ WF_vars(Poll)
(* ---- X08 ---- *)
RouteFirst == "route" \notin bad
OwnerStable == "remove" \notin bad /\ \A i \in Ids : own[i] \in (Sides \ Disabled) \cup {NoSide}
IsPrefixOfCount(sq, n) == Len(sq) <= n /\ \A k \in 1..Len(sq) : sq[k] = k
NoLossNoDup == \A s \in Sides : IsPrefixOfCount(srf[s], inj[s])
BoundedWait == waited <= Wait
Surfaced == \A s \in Sides : []<>(Len(srf[s]) = inj[s])
====
