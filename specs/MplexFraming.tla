---- MODULE MplexFraming ----
(* C25: the mplex frame codec (muxers/mplex/src/codec.rs) as a streaming decoder fed in arbitrary
   chunks, transcribed state by state (Begin / HasHeader / HasHeaderAndLen / Poisoned), plus the
   encoder.  Own instance of the Framing pattern of DESIGN.md Appendix B: abstract byte = one unit;
   a frame = `hl` units of header varint (id << 3 | type), `ll` units of length varint, `len`
   payload units.  The peer is hostile: any type 0..7 and any declared length.  All sequences of
   NFrames frames over FrameSet are explored from the initial states, with every chunking. *)
EXTENDS Naturals, Sequences, FiniteSets, TLC
CONSTANTS Limit,        \* MAX_FRAME_SIZE in units
          NFrames,      \* frames per stream
          Lens,         \* declared payload lengths explored
          Types,        \* header types explored (7 = invalid)
          EarlyCheck    \* TRUE: the code (limit checked when the length varint completes); FALSE: canary
VARIABLES frames,       \* what the peer sends: sequence of [hl, ll, len, ty, role]
          fed,          \* units delivered so far
          src,          \* units in the decoder's input buffer (BytesMut `src`)
          ds,           \* decoder_state: "Begin" | "HasHeader" | "HasHeaderAndLen" | "Poisoned"
          idx,          \* frame the decoder is working on
          out,          \* frames emitted: sequence of [i, kind, rrole, lrole, len]
          status,       \* "ok" | "err"
          peak          \* most payload units of the current frame ever held in src while still undecided
vars == <<frames, fed, src, ds, idx, out, status, peak>>

FrameSet == [hl : {1, 2}, ll : {1, 2}, len : Lens, ty : Types]
Size(f) == f.hl + f.ll + f.len
RECURSIVE SumTo(_, _)
SumTo(fs, i) == IF i = 0 THEN 0 ELSE SumTo(fs, i - 1) + Size(fs[i])
Total == SumTo(frames, Len(frames))

Init == /\ frames \in [1..NFrames -> FrameSet]
        /\ fed = 0 /\ src = 0 /\ ds = "Begin" /\ idx = 1 /\ out = <<>> /\ status = "ok" /\ peak = 0

(* the transport delivers n more units: any chunking *)
Feed == \E n \in 1..(Total - fed) :
          /\ status = "ok" /\ fed' = fed + n /\ src' = src + n
          /\ UNCHANGED <<frames, ds, idx, out, status, peak>>

Kind(ty) == IF ty = 0 THEN "Open" ELSE IF ty \in {1, 2} THEN "Data" ELSE IF ty \in {3, 4} THEN "Close" ELSE "Reset"
(* role flag on the wire: odd types are sent by the receiver of the stream; Open carries none (dialer) *)
RRole(ty) == IF ty \in {1, 3, 5} THEN "L" ELSE "D"
Flip(r) == IF r = "D" THEN "L" ELSE "D"

(* One call of Decoder::decode = up to three turns of its loop.  St = [ds, src, r] with
   r \in {"go", "none", "err", "frame"}.  Uvi::decode consumes a varint only when it is complete. *)
Turn(s, f) ==
  IF s.r # "go" THEN s
  ELSE IF s.ds = "Begin" THEN
         IF s.src >= f.hl THEN [ds |-> "HasHeader", src |-> s.src - f.hl, r |-> "go"] ELSE [s EXCEPT !.r = "none"]
  ELSE IF s.ds = "HasHeader" THEN
         IF s.src >= f.ll
         THEN IF EarlyCheck /\ f.len > Limit THEN [ds |-> "Poisoned", src |-> s.src - f.ll, r |-> "err"]
              ELSE [ds |-> "HasHeaderAndLen", src |-> s.src - f.ll, r |-> "go"]
         ELSE [s EXCEPT !.r = "none"]
  ELSE IF s.ds = "HasHeaderAndLen" THEN
         IF s.src < f.len THEN [s EXCEPT !.r = "none"]
         ELSE IF (~EarlyCheck /\ f.len > Limit) \/ f.ty = 7 THEN [ds |-> "Poisoned", src |-> s.src - f.len, r |-> "err"]
         ELSE [ds |-> "Begin", src |-> s.src - f.len, r |-> "frame"]
  ELSE [s EXCEPT !.r = "err"]                                     \* Poisoned
Call(f) == Turn(Turn(Turn([ds |-> ds, src |-> src, r |-> "go"], f), f), f)

Decode ==
  /\ status = "ok" /\ idx <= Len(frames)
  /\ LET f == frames[idx]  c == Call(f) IN
     /\ ds' = c.ds /\ src' = c.src
     /\ status' = IF c.r = "err" THEN "err" ELSE "ok"
     /\ IF c.r = "frame"
        THEN /\ out' = Append(out, [i |-> idx, kind |-> Kind(f.ty), rrole |-> RRole(f.ty), lrole |-> Flip(RRole(f.ty)),
                                    len |-> IF Kind(f.ty) = "Data" THEN f.len ELSE 0])
             /\ idx' = idx + 1 /\ peak' = 0
        ELSE /\ UNCHANGED <<out, idx>>
             /\ peak' = IF c.ds = "HasHeaderAndLen" /\ c.src > peak THEN c.src ELSE peak
  /\ UNCHANGED <<frames, fed>>
Next == Feed \/ Decode
Spec == Init /\ [][Next]_vars /\ WF_vars(Decode)

(* ---- the encoder (sender side): refuses oversize payloads, emits header + payload ---- *)
Encodable(f) == f.len <= Limit /\ f.ty # 7
(* ---- properties ---- *)
Bad(f) == f.len > Limit \/ f.ty = 7
FirstBad == IF \E i \in 1..Len(frames) : Bad(frames[i])
            THEN CHOOSE i \in 1..Len(frames) : Bad(frames[i]) /\ \A j \in 1..(i-1) : ~Bad(frames[j])
            ELSE Len(frames) + 1
TypeOK == /\ fed <= Total /\ src <= fed /\ idx \in 1..(Len(frames) + 1) /\ status \in {"ok", "err"}
(* never invents, reorders or alters frames; roles mirrored *)
OutIsPrefix == /\ Len(out) = idx - 1
               /\ \A i \in 1..Len(out) : /\ out[i].i = i /\ out[i].kind = Kind(frames[i].ty)
                                         /\ out[i].rrole = RRole(frames[i].ty) /\ out[i].lrole # out[i].rrole
                                         /\ out[i].len = (IF out[i].kind = "Data" THEN frames[i].len ELSE 0)
(* an error only at the first bad frame *)
NoSpuriousError == status = "err" => idx = FirstBad /\ idx <= Len(frames)
(* everything the encoder can produce round-trips once all of it was fed and decode was called enough *)
Quiescent == idx > Len(frames) \/ (Call(frames[idx]).r = "none" /\ Call(frames[idx]).ds = ds)
RoundTrip == ((\A i \in 1..Len(frames) : Encodable(frames[i])) /\ fed = Total /\ status = "ok" /\ Quiescent)
             => Len(out) = Len(frames)
(* an oversize frame is rejected as soon as its length varint is complete: the decoder never sits in
   HasHeaderAndLen for it, so no payload unit of it is ever awaited/buffered on its behalf *)
RejectBeforeBuffering == \A i \in 1..Len(frames) : (idx = i /\ frames[i].len > Limit) => ds # "HasHeaderAndLen"
(* what is buffered for an undecided frame never exceeds the limit *)
BoundedBuffer == peak <= Limit
UnknownTypeRejected == \A i \in 1..Len(out) : frames[i].ty # 7
====
