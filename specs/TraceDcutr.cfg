INIT Init
NEXT Next
INVARIANT AttemptsBounded
CONSTRAINT Progress
POSTCONDITION Accepted
