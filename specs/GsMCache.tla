---- MODULE GsMCache ----
(* C33 (message cache): transcription of mcache.rs `MessageCache`:
     msgs    id -> [topic, validated]           (absent = NoMsg)
     iwant   id -> peer -> count
     history sequence of H slots, each a sequence of ids (CacheEntry); slot 1 = current heartbeat
   put / validate / remove / shift / get_gossip_message_ids / get_with_iwant_counts as coded -
   in particular `remove` leaves the id in its history slot ("will simply be ignored on popping").
   Ghost `age[id]` = shifts since the put that created the present message.
   Mode: "impl" as coded | "purge" remove() also deletes the id from the history slots (the repair)
         | "shift_front" CANARY: shift drops slot 1 instead of the last | "gossip_incl" CANARY: window ..=gossip *)
EXTENDS Naturals, Sequences, FiniteSets, TLC
CONSTANTS Ids, Topics, Peers, H, G, MaxShifts, MaxCount, Mode
VARIABLES msgs, iwant, history, age, shifts, alive
vars == <<msgs, iwant, history, age, shifts, alive>>
NoMsg == [topic |-> 0, validated |-> FALSE]
Present(i) == msgs[i].topic # 0
Init == /\ msgs = [i \in Ids |-> NoMsg] /\ iwant = [i \in Ids |-> [p \in Peers |-> 0]]
        /\ history = [s \in 1..H |-> <<>>] /\ age = [i \in Ids |-> 0] /\ shifts = 0
        /\ alive = [i \in Ids |-> FALSE]   \* ghost: put, not removed since, fewer than H shifts ago

PutResult(i) == H = 0 \/ ~Present(i)
Put(i, t) == /\ alive' = [alive EXCEPT ![i] = H > 0]
             /\ IF H = 0 \/ Present(i) THEN UNCHANGED <<msgs, history, age>>
                ELSE /\ msgs' = [msgs EXCEPT ![i] = [topic |-> t, validated |-> FALSE]]
                     /\ history' = [history EXCEPT ![1] = Append(@, i)]
                     /\ age' = [age EXCEPT ![i] = 0]
             /\ UNCHANGED <<iwant, shifts>>
Validate(i) == /\ Present(i) /\ msgs' = [msgs EXCEPT ![i].validated = TRUE]
               /\ UNCHANGED <<iwant, history, age, shifts, alive>>
Without(s, i) == SelectSeq(s, LAMBDA x : x # i)
Remove(i) == /\ msgs' = [msgs EXCEPT ![i] = NoMsg] /\ iwant' = [iwant EXCEPT ![i] = [p \in Peers |-> 0]]
             /\ history' = (IF Mode = "purge" THEN [s \in 1..H |-> Without(history[s], i)] ELSE history)
             /\ alive' = [alive EXCEPT ![i] = FALSE] /\ UNCHANGED <<age, shifts>>
Dropped == IF H = 0 THEN {} ELSE LET s == IF Mode = "shift_front" THEN 1 ELSE H IN {history[s][k] : k \in 1..Len(history[s])}
Shift == /\ shifts < MaxShifts /\ shifts' = shifts + 1
         /\ IF H = 0 THEN UNCHANGED <<msgs, iwant, history>>
            ELSE /\ msgs' = [i \in Ids |-> IF i \in Dropped THEN NoMsg ELSE msgs[i]]
                 /\ iwant' = [i \in Ids |-> IF i \in Dropped THEN [p \in Peers |-> 0] ELSE iwant[i]]
                 /\ history' = (IF Mode = "shift_front" THEN [s \in 1..H |-> IF s = 1 THEN <<>> ELSE history[s]]
                                ELSE [s \in 1..H |-> IF s = 1 THEN <<>> ELSE history[s - 1]])
         /\ age' = [i \in Ids |-> age[i] + 1]
         /\ alive' = [i \in Ids |-> alive[i] /\ age[i] + 1 < H]
IwantResult(i) == Present(i) /\ msgs[i].validated                       \* get_with_iwant_counts returns Some
Iwant(i, p) == /\ IwantResult(i) /\ iwant[i][p] < MaxCount
               /\ iwant' = [iwant EXCEPT ![i][p] = @ + 1] /\ UNCHANGED <<msgs, history, age, shifts, alive>>
Window == IF Mode = "gossip_incl" THEN (IF G + 1 <= H THEN G + 1 ELSE H) ELSE G
Gossip(t) == {i \in Ids : /\ \E s \in 1..Window : \E k \in 1..Len(history[s]) : history[s][k] = i
                          /\ Present(i) /\ msgs[i].topic = t /\ msgs[i].validated}
Next == \/ \E i \in Ids : (\E t \in Topics : Put(i, t)) \/ Validate(i) \/ Remove(i) \/ (\E p \in Peers : Iwant(i, p))
        \/ Shift
Spec == Init /\ [][Next]_vars
(* ---- the statement, against the ghost ages ---- *)
GossipExact == \A t \in Topics : Gossip(t) = {i \in Ids : Present(i) /\ msgs[i].validated /\ msgs[i].topic = t /\ age[i] < G}
GossipOnly == \A t \in Topics : Gossip(t) \subseteq {i \in Ids : Present(i) /\ msgs[i].validated /\ msgs[i].topic = t /\ age[i] < G}
KeptExactly == \A i \in Ids : Present(i) = alive[i]                    \* kept for exactly history_length heartbeats (unless removed)
IwantOnly == \A i \in Ids : Present(i) => age[i] < H                    \* a message is returned only while within history_length heartbeats
CountsCleared == \A i \in Ids : ~Present(i) => \A p \in Peers : iwant[i][p] = 0
Bounded == \A s \in 1..H : Len(history[s]) <= 2                         \* state constraint helper (see cfg)
====
