"""Shared machinery for /verif checks (python3 stdlib only).

Pipeline stages (DESIGN.md section 1):
  (M) tlc_mc      exhaustive model check of a component Spec (+ canary configs that MUST fail)
  (G) tlc_gen     TLC-generated stimulus schedules (simulation or exhaustive) -> ndjson
  (R) drive       Rust driver executes schedules against the real code, records ndjson traces
  (V) tlc_trace   trace specification checked by TLC against the recorded traces

Exit codes: 0 held / 1 VIOLATION (with replay file) / 2 tool error.
"""
import json
import os
import re
import shutil
import subprocess
import sys
import time
from pathlib import Path

VERIF = Path(__file__).resolve().parent.parent
SPECS = VERIF / "specs"
HARNESS = VERIF / "harness"
RUNS = VERIF / "runs"
EVID = VERIF / "evidence"
REPO = Path(os.environ.get("VERIF_REPO", "/repo"))
CP = "/opt/veriftools/tla/tla2tools.jar:/opt/veriftools/tla/CommunityModules-deps.jar"


class ToolError(Exception):
    pass


def log(*a):
    print(*a, flush=True)


class TlcResult:
    def __init__(self):
        self.rc = None
        self.out = ""
        self.generated = 0
        self.distinct = 0
        self.depth = 0
        self.violated = None  # name of violated invariant/property, or "deadlock"/"assumption"/...
        self.printed = []  # decoded PrintT payloads  <<"TAG", "json">>
        self.wall = 0.0
        self.coverage = {}  # action -> (distinct, total) when -coverage was given
        self.errtrace = ""


_PRINT_RE = re.compile(r'^<<"([A-Z_]+)", (.*)>>$')


def _untla(s):
    """Decode a TLA+ string literal body printed by TLC (escapes \\" and \\\\)."""
    s = s.strip()
    if s.startswith('"') and s.endswith('"'):
        s = s[1:-1]
    return s.replace('\\"', '"').replace("\\\\", "\\")


def run_tlc(module, cfg=None, *, cwd=SPECS, workers=4, timeout=300, metadir=None, env=None,
            simulate=None, depth=None, seed=None, coverage=False, jvm=None, dfs=False,
            deadlock=False, extra=None, xmx="6g"):
    """Run TLC; never raises on property violation, raises ToolError on parse/semantic/timeout."""
    cfg = cfg or (module + ".cfg")
    md = Path(metadir or (RUNS / "tlc" / module))
    if md.exists():
        shutil.rmtree(md, ignore_errors=True)
    md.mkdir(parents=True, exist_ok=True)
    java = ["java", "-XX:+UseParallelGC", "-Xss1g", "-Xmx" + xmx]
    if dfs:
        java.append("-Dtlc2.tool.queue.IStateQueue=StateDeque")
    java += jvm or []
    cmd = java + ["-cp", CP, "tlc2.TLC", "-metadir", str(md), "-cleanup", "-noGenerateSpecTE",
                  "-workers", str(workers), "-config", cfg]
    if not deadlock:
        cmd.append("-deadlock")  # "-deadlock" DISABLES deadlock checking in TLC
    if simulate is not None:
        cmd += ["-simulate", "num=%d" % simulate]
        if depth:
            cmd += ["-depth", str(depth)]
    if seed is not None:
        cmd += ["-seed", str(seed)]
    if coverage:
        cmd += ["-coverage", "1"]
    cmd += extra or []
    cmd.append(module)
    e = dict(os.environ)
    e.pop("JAVA_TOOL_OPTIONS", None)
    e.update(env or {})
    t0 = time.time()
    try:
        p = subprocess.run(cmd, cwd=str(cwd), env=e, stdout=subprocess.PIPE, stderr=subprocess.STDOUT,
                           timeout=timeout, text=True, errors="replace")
    except subprocess.TimeoutExpired as ex:
        out = ex.stdout or ""
        if isinstance(out, bytes):
            out = out.decode("utf-8", "replace")
        r = TlcResult()
        r.out = out
        r.rc = -9
        r.violated = None
        r.wall = time.time() - t0
        _parse_tlc(r)
        r.timed_out = True
        shutil.rmtree(md, ignore_errors=True)
        return r
    r = TlcResult()
    r.timed_out = False
    r.rc = p.returncode
    r.out = p.stdout
    r.wall = time.time() - t0
    _parse_tlc(r)
    shutil.rmtree(md, ignore_errors=True)
    if r.violated is None and r.rc not in (0,):
        # parse error, semantic error, evaluation error ...
        tail = "\n".join(r.out.splitlines()[-40:])
        ex = ToolError("TLC failed on %s/%s rc=%s\n%s" % (module, cfg, r.rc, tail))
        ex.out = r.out
        raise ex
    return r


def _parse_tlc(r):
    out = r.out
    for line in out.splitlines():
        m = _PRINT_RE.match(line.strip())
        if m:
            r.printed.append((m.group(1), _untla(m.group(2))))
    m = None
    for m in re.finditer(r"(\d+) states generated, (\d+) distinct states found", out):
        pass
    if m:
        r.generated, r.distinct = int(m.group(1)), int(m.group(2))
    m = re.search(r"The number of states generated: (\d+)", out)
    if m and not r.generated:
        r.generated = int(m.group(1))
        r.distinct = r.generated
    m = re.search(r"The depth of the complete state graph search is (\d+)", out)
    if m:
        r.depth = int(m.group(1))
    m = re.search(r"Error: Invariant (\S+) is violated", out)
    if m:
        r.violated = m.group(1).rstrip(".")
    if not m:
        m = re.search(r"Error: The invariant of (\S+) is equal to FALSE", out)
        if m:
            r.violated = m.group(1).rstrip(".")
    m2 = re.search(r"Error: Action property (\S+) is violated", out)
    if m2 and not r.violated:
        r.violated = m2.group(1).rstrip(".")
    if not r.violated and "Temporal properties were violated" in out:
        r.violated = "TEMPORAL"
    if not r.violated and re.search(r"Error: Deadlock reached", out):
        r.violated = "DEADLOCK"
    if not r.violated and re.search(r"Error: Assumption .* is false", out):
        r.violated = "ASSUMPTION"
    if not r.violated and "Error: The postcondition" in out or (not r.violated and "Postcondition" in out and "violated" in out):
        r.violated = "POSTCONDITION"
    if r.violated:
        i = out.find("Error:")
        r.errtrace = out[i:i + 6000]
    for m in re.finditer(r"^<(\w+) line \d+, col \d+ to line \d+, col \d+ of module (\w+)>: (\d+):(\d+)", out, re.M):
        r.coverage[m.group(1)] = (int(m.group(3)), int(m.group(4)))


class Check:
    def __init__(self, pid, tier="quick", seed=0, replay=None):
        self.pid = pid
        self.tier = tier
        self.seed = seed
        self.replay = str(Path(replay).resolve()) if replay else None
        self.t0 = time.time()
        self.rundir = RUNS / pid
        if self.rundir.exists():
            shutil.rmtree(self.rundir, ignore_errors=True)
        self.rundir.mkdir(parents=True, exist_ok=True)
        self.violations = []  # dicts: what, replay, sig
        self.known_hits = []
        self.notes = []
        self.states = 0
        self.transitions = 0
        self.traces_ok = 0
        self.evaluations = 0
        self.distinct_nontrivial = 0
        self.samples = []
        self.assumptions = []
        self.extra_cov = {}
        self.mc_runs = []
        self.rule = ""
        kf = VERIF / "known_findings.json"
        self.known = json.loads(kf.read_text()).get("findings", []) if kf.exists() else []

    @property
    def quick(self):
        return self.tier == "quick"

    def pick(self, q, t):
        return q if self.quick else t

    # ---------------------------------------------------------------- build
    def build(self, pkg, timeout=3000):
        """Build one driver from /repo's current working tree (hooks on). Returns the binary path."""
        cmd = ["cargo", "build", "--release", "--offline", "-p", pkg]
        e = dict(os.environ)
        e["CARGO_NET_OFFLINE"] = "true"
        t0 = time.time()
        p = subprocess.run(cmd, cwd=str(HARNESS), env=e, stdout=subprocess.PIPE, stderr=subprocess.STDOUT,
                           text=True, errors="replace", timeout=timeout)
        if p.returncode != 0:
            raise ToolError("cargo build -p %s failed:\n%s" % (pkg, "\n".join(p.stdout.splitlines()[-60:])))
        log("[build] %s ok (%.1fs)" % (pkg, time.time() - t0))
        b = HARNESS / "target" / "release" / pkg
        if not b.exists():
            raise ToolError("binary %s missing" % b)
        return b

    # ---------------------------------------------------------------- (M)
    def tlc_mc(self, module, cfg=None, *, workers=None, timeout=600, expect=None, liveness=False, coverage=False,
               must_cover=None, count=True):
        """Exhaustive model check. expect=None: no violation allowed (a violation of the DESIGN is a
        tool-level failure: the spec no longer proves the property).  expect="Inv": canary config, TLC
        MUST report that invariant violated (anti-vacuity); otherwise ToolError."""
        workers = workers or int(os.environ.get("VERIF_TLC_WORKERS", "4"))
        r = run_tlc(module, cfg, workers=workers, timeout=timeout, metadir=self.rundir / ("mc_" + module + "_" + (cfg or "")),
                    coverage=coverage or bool(must_cover))
        if getattr(r, "timed_out", False):
            raise ToolError("TLC timed out on %s %s" % (module, cfg))
        tag = "%s/%s" % (module, cfg or module + ".cfg")
        if expect is None:
            if r.violated:
                raise ToolError("model check %s: %s violated in the MODEL (spec bug or design flaw)\n%s" % (tag, r.violated, r.errtrace[:3000]))
            if count:
                self.states += r.distinct
                self.transitions += r.generated
            self.mc_runs.append({"model": tag, "distinct_states": r.distinct, "states_generated": r.generated,
                                 "depth": r.depth, "wall_s": round(r.wall, 1), "result": "no violation"})
            log("[M] %s: %d distinct / %d generated, depth %d, %.1fs: OK" % (tag, r.distinct, r.generated, r.depth, r.wall))
            if must_cover:
                for a in must_cover:
                    if r.coverage.get(a, (0, 0))[1] == 0:
                        raise ToolError("model check %s: action %s never taken (vacuous model)" % (tag, a))
        else:
            exp = expect if isinstance(expect, (list, tuple, set)) else [expect]
            if r.violated not in exp:
                raise ToolError("canary %s: expected violation of %s, got %s" % (tag, exp, r.violated))
            self.mc_runs.append({"model": tag, "canary": True, "result": "violates %s as required" % r.violated,
                                 "wall_s": round(r.wall, 1)})
            log("[M] canary %s: %s violated as required (%.1fs)" % (tag, r.violated, r.wall))
        return r

    # ---------------------------------------------------------------- (G)
    def tlc_gen(self, module, cfg=None, *, num=None, depth=None, out=None, tag="REPLAY", timeout=600, exhaustive=False,
                workers=1, env=None, dedup=True):
        """Have TLC emit behaviours as JSON schedules (PrintT(<<"REPLAY", ToJson(h)>>) lines)."""
        out = Path(out or (self.rundir / ("sched_%s.ndjson" % module)))
        if exhaustive:
            r = run_tlc(module, cfg, workers=workers, timeout=timeout, metadir=self.rundir / ("gen_" + module), env=env)
        else:
            r = run_tlc(module, cfg, workers=1, timeout=timeout, simulate=num, depth=depth, seed=self.seed + 1,
                        metadir=self.rundir / ("gen_" + module), env=env)
        if r.violated:
            raise ToolError("generator %s reported %s\n%s" % (module, r.violated, r.errtrace[:2000]))
        seen = set()
        n = 0
        with open(out, "w") as f:
            for t, payload in r.printed:
                if t != tag:
                    continue
                if dedup:
                    if payload in seen:
                        continue
                    seen.add(payload)
                try:
                    json.loads(payload)
                except Exception:
                    raise ToolError("generator %s printed unparsable JSON: %r" % (module, payload[:200]))
                f.write(payload + "\n")
                n += 1
        if n == 0:
            raise ToolError("generator %s/%s produced no schedules\n%s" % (module, cfg, r.out[-2000:]))
        log("[G] %s: %d schedules (%s, %.1fs)" % (module, n, "exhaustive" if exhaustive else "simulate seed %d" % (self.seed + 1), r.wall))
        return out, n, r

    # ---------------------------------------------------------------- (R)
    def drive(self, binary, args, timeout=1200, env=None):
        e = dict(os.environ)
        e.update(env or {})
        e.setdefault("RUST_BACKTRACE", "0")
        t0 = time.time()
        p = subprocess.run([str(binary)] + [str(a) for a in args], cwd=str(self.rundir), env=e,
                           stdout=subprocess.PIPE, stderr=subprocess.PIPE, text=True, errors="replace", timeout=timeout)
        if p.returncode != 0:
            raise ToolError("driver %s %s failed rc=%s\n%s\n%s" % (binary, args, p.returncode, p.stdout[-2000:], p.stderr[-4000:]))
        log("[R] %s %s (%.1fs) %s" % (Path(binary).name, " ".join(str(a) for a in args[:4]), time.time() - t0, p.stdout.strip().splitlines()[-1] if p.stdout.strip() else ""))
        return p.stdout

    # ---------------------------------------------------------------- (V)
    def tlc_trace(self, module, trace, cfg=None, *, timeout=900, max_rejects=4, env=None, attribute=None,
                  reset_event="reset", xmx="8g"):
        """Validate a batch trace file (runs separated by reset events) against Trace<X>.tla.
        Returns number of accepted runs. Records violations for rejected runs.
        attribute(rec, reason) -> property id (or None = this check's own)."""
        trace = Path(trace)
        lines = trace.read_text().splitlines()
        lines = [l for l in lines if l.strip()]
        # split into runs
        runs = []
        cur = None
        for l in lines:
            try:
                ev = json.loads(l)
            except Exception:
                raise ToolError("bad trace line in %s: %r" % (trace, l[:200]))
            if ev.get("e") == reset_event or cur is None:
                cur = []
                runs.append(cur)
            cur.append(l)
        accepted = 0
        start = 0
        rejects = 0
        part_no = 0
        while start < len(runs):
            part = self.rundir / ("%s.part%d.ndjson" % (trace.stem, part_no))
            part_no += 1
            flat = [l for r_ in runs[start:] for l in r_]
            part.write_text("\n".join(flat) + "\n")
            e = {"TRACE": str(part)}
            e.update(env or {})
            r = run_tlc(module, cfg, workers=1, timeout=timeout, dfs=True, env=e, xmx=xmx,
                        metadir=self.rundir / ("tv_" + module))
            if getattr(r, "timed_out", False):
                raise ToolError("trace validation timed out (%s)" % module)
            self.tv_generated = getattr(self, "tv_generated", 0) + r.generated
            unmatched = None
            for t, payload in r.printed:
                if t == "UNMATCHED":
                    unmatched = payload
            if not r.violated and unmatched is None:
                accepted += len(runs) - start
                break
            # locate failing line (1-based in part file)
            if r.violated in (None, "POSTCONDITION"):
                try:
                    idx = int(json.loads(unmatched)["line"])
                except Exception:
                    raise ToolError("cannot parse UNMATCHED payload %r" % unmatched)
                reason = "unmatched"
            else:
                # take the LAST state's l value in the error trace
                ls = re.findall(r'/\\ l = (\d+)', r.out)
                if not ls:
                    ls = re.findall(r'\bl = (\d+)', r.out)
                if not ls:
                    raise ToolError("invariant %s violated in trace validation but position unknown\n%s" % (r.violated, r.errtrace[:3000]))
                idx = max(1, int(ls[-1]) - 1)
                reason = "invariant " + r.violated
            # which run?
            k = start
            acc = 0
            while k < len(runs) and acc + len(runs[k]) < idx:
                acc += len(runs[k])
                k += 1
            k = min(k, len(runs) - 1)
            accepted += k - start
            bad_line = flat[idx - 1] if 0 < idx <= len(flat) else "<end of trace>"
            rp = self.rundir / ("replay_%s_%d.ndjson" % (trace.stem, k))
            rp.write_text("\n".join(runs[k]) + "\n")
            try:
                rec = json.loads(bad_line)
            except Exception:
                rec = {"e": "<end>"}
            who = attribute(rec, reason) if attribute else None
            what = "%s at run %d line %d: %s" % (reason, k, idx - acc, bad_line[:300])
            if who is not None and who != self.pid:
                self.notes.append("trace rejected for a reason attributed to %s (not this property): %s" % (who, what))
                log("NOTE: " + self.notes[-1])
            else:
                self.violation(what, rp, rec=rec, reason=reason)
            rejects += 1
            start = k + 1
            if rejects >= max_rejects:
                self.notes.append("stopped after %d rejected runs; %d runs unexamined" % (rejects, len(runs) - start))
                break
        self.traces_ok += accepted
        log("[V] %s: %d/%d runs accepted" % (module, accepted, len(runs)))
        return accepted, len(runs)

    # ---------------------------------------------------------------- relation-style (V)
    def tlc_relation(self, module, records, cfg=None, *, timeout=900, env=None, xmx="8g"):
        """Relation-style validation: the module reads IOEnv.TRACE (ndjson of (input, output) records) and
        prints <<"BAD", ToJson([line |-> i, why |-> ..])>> for each record violating Post; one TLC state."""
        records = Path(records)
        e = {"TRACE": str(records)}
        e.update(env or {})
        r = run_tlc(module, cfg, workers=1, timeout=timeout, env=e, xmx=xmx, metadir=self.rundir / ("rel_" + module))
        if getattr(r, "timed_out", False):
            raise ToolError("relation validation timed out (%s)" % module)
        if r.violated and r.violated not in ("ASSUMPTION",):
            raise ToolError("relation module %s: unexpected %s\n%s" % (module, r.violated, r.errtrace[:2000]))
        bad = [json.loads(p) for t, p in r.printed if t == "BAD"]
        nrec = None
        for t, p in r.printed:
            if t == "CHECKED":
                nrec = json.loads(p)
        if nrec is None:
            raise ToolError("relation module %s did not report CHECKED\n%s" % (module, r.out[-3000:]))
        lines = [l for l in records.read_text().splitlines() if l.strip()]
        for b in bad[:8]:
            i = int(b["line"])
            rp = self.rundir / ("replay_%s_%d.ndjson" % (records.stem, i))
            rp.write_text(lines[i - 1] + "\n")
            try:
                rec = json.loads(lines[i - 1])
            except Exception:
                rec = {}
            self.violation("record %d violates %s: %s" % (i, b.get("why", "Post"), lines[i - 1][:300]), rp, rec=rec, reason=str(b.get("why", "Post")))
        n = nrec if isinstance(nrec, int) else int(nrec.get("n", 0))
        self.traces_ok += n - len(bad)
        log("[V] %s: %d records checked, %d bad" % (module, n, len(bad)))
        return n, bad

    # ---------------------------------------------------------------- verdicts
    def violation(self, what, replay, rec=None, reason=""):
        rec = rec or {}
        for k in self.known:
            if k.get("property") != self.pid or k.get("status", "open") != "open":
                continue
            m = k.get("match", {})
            ok = True
            for key, val in m.items():
                if key == "_reason":
                    ok = ok and (val in reason)
                elif key == "_contains":
                    ok = ok and (val in what)
                else:
                    ok = ok and (rec.get(key) == val)
            if ok and m:
                hit = "KNOWN-FINDING: property=%s %s" % (self.pid, k.get("what", ""))
                if hit not in self.known_hits:
                    self.known_hits.append(hit)
                return
        self.violations.append({"what": what, "replay": str(replay)})

    def sample(self, x):
        if len(self.samples) < 6:
            self.samples.append(x)

    def finish(self, level, *, rule="", explanation="", exhaustive=False, assumptions=None, extra=None):
        cov = {}
        if level == "model_checking":
            cov.update({"states": int(self.states), "transitions": int(self.transitions),
                        "traces_validated_against_impl": int(self.traces_ok), "samples": self.samples or ["<none>"]})
        cov.update({"evaluations": int(self.evaluations or self.traces_ok), "distinct_nontrivial": int(self.distinct_nontrivial),
                    "rule": rule or self.rule, "samples": self.samples or ["<none>"]})
        if explanation:
            cov["explanation"] = explanation
        if exhaustive:
            cov["exhaustive"] = True
        cov["model_runs"] = self.mc_runs
        cov["trace_validation_states"] = getattr(self, "tv_generated", 0)
        if self.notes:
            cov["notes"] = self.notes
        cov["known_findings_hit"] = self.known_hits
        cov.update(self.extra_cov)
        cov.update(extra or {})
        ev = {"property_id": self.pid, "tier": self.tier, "seed": int(self.seed), "level": level, "coverage": cov,
              "assumptions": (assumptions or []) + self.assumptions, "wall_s": round(time.time() - self.t0, 2),
              "violations": len(self.violations)}
        # extension checks (ids X..: specification coverage beyond the listed properties) keep their evidence apart
        evid = EVID if not self.pid.startswith("X") else VERIF / "evidence_ext"
        evid.mkdir(exist_ok=True)
        (evid / (self.pid + ".json")).write_text(json.dumps(ev, indent=1, default=str) + "\n")
        for h in self.known_hits:
            log(h)
        if self.violations:
            keep = VERIF / "runs" / "violations" / self.pid
            keep.mkdir(parents=True, exist_ok=True)
            for v in self.violations:
                src = Path(v["replay"])
                dst = keep / src.name
                try:
                    shutil.copy(src, dst)
                except Exception:
                    dst = src
                log("VIOLATION property=%s replay=%s" % (self.pid, dst))
                log("  what: " + v["what"])
            return 1
        log("OK property=%s tier=%s wall=%.1fs" % (self.pid, self.tier, time.time() - self.t0))
        return 0


def read_ndjson(path):
    return [json.loads(l) for l in Path(path).read_text().splitlines() if l.strip()]


def write_ndjson(path, items):
    with open(path, "w") as f:
        for it in items:
            f.write(json.dumps(it, separators=(",", ":")) + "\n")
