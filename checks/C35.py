"""C35 Publishing without a subscription keeps its fanout peers."""
import os
import sys

sys.path.insert(0, os.path.dirname(os.path.abspath(__file__)))
import gsrouter_lib as g  # noqa: E402

META = {
    "level": "model_checking",
    "technique": "TLA+ single-router model (Gossipsub.tla) model-checked for the FanoutKept action property (+ canary: publish replaces the fanout set); fanout of the real Behaviour (read through the verif hook) validated by TLC after every publish against TraceGossipsub",
    "text": "TLC exhaustively checks that a publish to an unsubscribed topic keeps every still eligible fanout peer and only adds peers; the canary that replaces the set is rejected. Conformance: publish sequences against the real Behaviour (flood_publish off) with peers connecting, disconnecting, (un)subscribing and changing score between publishes and heartbeats; 2-8 peers, in half of the runs with send queues of 2 and slow peers whose queues are not drained for a while; TLC remembers every peer that entered a topic's fanout set since the set was last maintained (heartbeat) or dissolved (own subscribe) and has been eligible ever since (connected, subscribed, above the publish threshold), and checks at each publish to an unsubscribed topic that all of them are still in the fanout set - whichever step dropped them.",
    "note": "fanout_ttl expiry (real clock, 60 s) does not occur within a run.",
    "design_ref": "6/C35",
}


def nontrivial(evs):
    # at least two publishes to a topic we are not subscribed to while its fanout set was non-empty before
    n = 0
    prev = None
    for e in evs:
        if e["e"] == "pub" and prev is not None and e["t"] not in prev.get("subs", []) and prev["fan"][e["t"]]:
            n += 1
        if "fan" in e:
            prev = e
    return n >= 1


def run(c):
    g.model(c, "MCGossipsub_canary_fanout.cfg", "FanoutKept")
    traces = g.drive(c, ["fanout"], 600, 5000)
    g.validate(c, "TraceGossipsub_C35.cfg", traces, nontrivial)
    return c.finish(
        "model_checking",
        rule="schedule class fanout: 2 directed (design section 7-9) + seeded random schedules (length 20..40) of connect/close/subscription RPCs/score/heartbeat/subscribe/unsubscribe with ~50% publishes; distinct = distinct schedules with at least one publish to an unsubscribed topic whose fanout set was already non-empty",
        assumptions=g.ASSUMPTIONS,
    )
