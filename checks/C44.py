"""C44 Kademlia messages round-trip through the wire codec."""
import json

META = {
    "level": "exploration",
    "technique": "TLA+ shape enumerator generates every message shape; each is built, sent through the real protocol upgrade's Sink (req/resp_msg_to_proto + prost + length prefix) and read back through the opposite Stream (proto_to_req/resp_msg); TLC compares the projected decoded message with the expected one and checks the protobuf type / connection / ttl codes; seeded arbitrary and mutated byte strings are fed to both decoders",
    "text": "GenKadWire.tla enumerates 182 shapes (6 request and 5 response kinds x key present/empty x 0-2 closer / provider peers x 0-2 addresses per peer (with and without /p2p suffix) x the 4 connection types x record present / publisher / ttl 0, 5, 90 s / value length), plus records with 300-900 ms of lifetime left (must go out as ttl 1 and stay expiring). For every shape the real codec path is exercised both ways over an in-memory stream; TLC checks decoded = expected (field by field on integer projections), message type code, connection-type codes on the wire, and that an expiry travels as whole seconds without being lost or extended. Fuzzing: truncations of valid frames, random noise with a plausible length prefix and 1-3 byte mutations of valid frames of five kinds go through the request and the response decoder: no panic, and whatever decodes re-encodes to the same message. The model is a shape enumerator, the oracle is identity / error-not-panic.",
    "note": "Addresses are compared modulo the decoder's normalisation (the peer's own /p2p suffix is appended); addresses carrying a foreign /p2p suffix (dropped by the decoder) are not generated. Expiry is compared at one-second granularity.",
    "design_ref": "6/C44",
}


def run(c):
    drv = c.build("drv-kad")
    recs = c.rundir / "wire.ndjson"
    if c.replay:
        c.drive(drv, ["wire", "replay", c.replay, recs])
        n, bad = c.tlc_relation("RelKadWire", recs)
        c.evaluations = n
        return c.finish("exploration", rule="replay")
    shapes, ns, _ = c.tlc_gen("GenKadWire", exhaustive=True)
    r1 = c.rundir / "rt.ndjson"
    c.drive(drv, ["wire", "roundtrip", shapes, r1])
    r2 = c.rundir / "fuzz.ndjson"
    c.drive(drv, ["wire", "fuzz", c.seed, c.pick(1500, 30000), r2])
    with open(recs, "w") as f:
        f.write(open(r1).read())
        f.write(open(r2).read())
    n, bad = c.tlc_relation("RelKadWire", recs, timeout=2400)
    c.evaluations = n
    nt = 0
    seen = set()
    for line in open(recs):
        r = json.loads(line)
        if r["m"] == "rt":
            s = r["shape"]
            if s["kind"] not in ("Ping", "Pong"):
                nt += 1
                if len(c.samples) < 3 and s["ncloser"] + s["nprov"] >= 2:
                    c.sample(s)
        elif r["hex"] not in seen:
            seen.add(r["hex"])
            if any(d[0] == "ok" for d in r.get("dec", [])):
                nt += 1
    c.distinct_nontrivial = nt
    c.extra_cov["fuzz_inputs_distinct"] = len(seen)
    return c.finish(
        "exploration",
        rule="record = one message shape from GenKadWire.tla (all 182; distinct by construction) round-tripped through the real codec, or one byte string (truncated / random / mutated valid frame, seeded) fed to both decoders; non-trivial = a shape other than Ping/Pong, or a distinct byte string that decodes successfully",
        assumptions=["peer ids, keys, values and addresses are small fixed representatives; only addresses without /p2p or with the matching /p2p suffix are generated"],
    )
