"""C16 Noise handshake authenticates exactly the remote identity."""
import json

META = {
    "level": "exploration",
    "technique": "symbolic TLA+ model of the XX handshake with a Dolev-Yao adversary and ideal crypto model-checked (authentication, freshness, prologue; canary without signature check); byte-level counterparts of the adversary actions applied between two real noise::Config upgrades, outcomes validated by TLC against the property-level trace spec",
    "text": "TLC exhaustively explores the symbolic handshake (A, B honest, M with own keys, a recorded earlier session, M-built messages with every identity/signature combination, junk, any delivery order/number) for: a completed side reports the owner of the static key it completed with; A reporting B implies B answered A's own m1 (no replay); with differing prologues A and B never complete with each other; the canary (finish() without signature verification) is rejected. Real code: initiator and responder upgrades joined by a relay that applies, per handshake message, a bit flip at every byte offset (incl. length prefix), truncation at every length, drop, duplication, replay of a recorded honest session, M terminating both handshakes with the real code and its own identity, identity splices (6 payload variants x 2 roles x impersonating the expected peer or a third party x 3 key types), a prologue mismatch, and WebTransport certhash sets (expected by the initiator / announced by the responder: satisfiable, unsatisfiable, and combined with every identity splice - M announces a superset, the same, a different set or nothing); per side done(peer)/err is validated by TLC: done implies peer = the counterpart, and the side that is fed a message of an earlier session (replay) never completes.",
    "note": "Cryptographic strength is assumed (ideal crypto in the model); exploration level. Identity-splice attacks use the noise `verif` hook (payload override): M keeps its static key and presents X's identity key with X's / M's / no signature, towards the initiator and towards the responder.",
    "design_ref": "6/C16",
}


def run(c):
    c.tlc_mc("NoiseHS", "MCNoiseHS.cfg")
    c.tlc_mc("NoiseHS", "MCNoiseHS_pro.cfg")
    c.tlc_mc("NoiseHS", "MCNoiseHS_canary.cfg", expect="AuthOK")
    c.tlc_mc("NoiseHS", "MCNoiseHS_reach.cfg", expect="NotBothDone")   # honest completion is reachable
    drv = c.build("drv-secure")
    t = c.rundir / "noisehs.ndjson"
    if c.replay:
        c.drive(drv, ["noisehs", "replay", c.replay, t])
    else:
        c.drive(drv, ["noisehs", "gen", c.pick(0, 1), c.seed, t])
    c.tlc_trace("TraceNoiseHS", t, timeout=1500)
    distinct = set()
    outcomes = {}
    cur = None
    for line in open(t):
        ev = json.loads(line)
        if ev["e"] == "reset":
            cur = ev["attack"]
            if cur != "none":
                distinct.add(json.dumps(ev["sched"], sort_keys=True))
                if cur in ("replay", "mitm", "trunc"):
                    c.sample(ev["sched"])
        elif ev["e"] == "hs":
            k = "%s:%s:%s" % (cur, ev["side"], ev["res"])
            outcomes[k] = outcomes.get(k, 0) + 1
        c.evaluations += 1
    c.distinct_nontrivial = len(distinct)
    return c.finish(
        "exploration",
        rule="schedule = (key type, attack, message 1..3, offset, mask); quick: ed25519, alternating masks 0x01/0x80 at every offset of every handshake message, truncation at every third length, 30 seeded double flips per message, plus drop/dup/replay per message, mitm, prologue mismatch for ed25519/secp256k1/ecdsa/rsa identities; thorough: four key types, masks 0x01/0x80/0xff, every truncation length, 300 double flips per message; distinct = distinct schedules with an attack",
        assumptions=["ideal cryptography in the model; the real-code runs check that every tampering is detected or harmless, not cryptographic strength",
                     "RSA identities use the three fixed test keys of libp2p-identity (no offline RSA key generation)"],
        extra={"outcomes": outcomes},
    )
