"""C45 Every request gets exactly one outcome."""
import json

META = {
    "level": "model_checking",
    "technique": "TLA+ model of the request-response behaviour and the Swarm's command delivery model-checked for at-most-once / exactly-once-at-quiescence (+ canary: connection denied after handler creation ignored); traces of the real Behaviour with its real Handlers over scripted in-memory streams validated by TLC against the property-level outcome-counting spec",
    "text": "TLC exhaustively checks the transcribed behaviour (3 outbound requests, 2-3 connections, 1-2 inbound requests; dial failure, connection establishment/denial/closing/closure, lost handler commands, handler outcomes) for at-most-one outcome per id, outcomes only for sent ids and exactly one outcome at quiescence, and rejects the canary that ignores a connection denied after its handler was preloaded. The real request_response::Behaviour and its real Handlers are driven by all op sequences of length 3 (4 thorough) over a 15-letter alphabet and by seeded random schedules: the driver plays the Swarm (dial ok/fail/denied, inbound connections, closing phase with lost NotifyHandler commands, ConnectionClosed, substream negotiation ok/timeout/unsupported/io), the remote peers (respond, EOF, reset, garbage, partial requests on real negotiated in-memory streams through a byte codec), the application (respond/drop channels), local write failures and real request timeouts (30 ms runs); at the end everything is closed. TLC validates every emitted Event: request ids unique, at most one outcome per outbound id and per inbound id, exactly one at quiescence.",
    "note": "Behaviour + Handler + codec are real; the Swarm and the network are played by the driver (single-threaded, FIFO event delivery per connection). Outcome kinds are not constrained, only their number.",
    "design_ref": "6/C45",
}


def run(c):
    c.tlc_mc("ReqResp", "MCReqResp.cfg")
    c.tlc_mc("ReqResp", "MCReqResp_canary.cfg", expect=["ExactlyOnceAtQuiescence"])
    if not c.quick:
        c.tlc_mc("ReqResp", "MCReqResp3.cfg", timeout=1000)
    drv = c.build("drv-reqresp")
    if c.replay:
        t = c.rundir / "replay_trace.ndjson"
        c.drive(drv, ["outcomes", "replay", c.replay, t])
        traces = [t]
    else:
        t0 = c.rundir / "exh.ndjson"
        c.drive(drv, ["outcomes", "exhaustive", c.pick(3, 4), t0])
        t1 = c.rundir / "rand.ndjson"
        c.drive(drv, ["outcomes", "random", c.seed, c.pick(500, 8000), t1])
        traces = [t0, t1]
    distinct = set()
    kinds = {}
    for t in traces:
        ok, total = c.tlc_trace("TraceReqResp", t, timeout=1500)
        c.evaluations += total
        cur, ks = None, set()
        for line in open(t):
            ev = json.loads(line)
            if ev["e"] == "reset":
                if cur is not None and len(ks) >= 2:
                    distinct.add(cur)
                cur, ks = json.dumps(ev["sched"], sort_keys=True), set()
                if len(c.samples) < 2 and len(ev["sched"]["ops"]) > 10:
                    c.sample(ev["sched"])
            elif ev["e"] in ("out", "in"):
                ks.add(ev["e"] + ":" + ev["k"])
                kinds[ev["e"] + ":" + ev["k"]] = kinds.get(ev["e"] + ":" + ev["k"], 0) + 1
        if cur is not None and len(ks) >= 2:
            distinct.add(cur)
    c.distinct_nontrivial = len(distinct)
    c.extra_cov["outcome_kinds_seen"] = kinds
    return c.finish(
        "model_checking",
        rule="exhaustive: one send followed by every op sequence of length N over a 15-letter alphabet; random: schedule = (request timeout, op sequence of length 5..40 over send/dial(ok,fail,deny)/inconn(ok,deny)/neg(ok,timeout,unsup,io)/remote(respond,eof,reset,garbage)/inb(req,partial,eof,reset)/app(respond,drop)/wfail/sleep/closing/close on 2 peers x 2 connections), seeded random with state-aware operand resolution; distinct = distinct schedules that produced at least two different outcome kinds",
        assumptions=["the Swarm is emulated: handler events are delivered in order and never after ConnectionClosed; commands to a closing/closed connection are dropped",
                     "timeouts are real (30 ms) in one run out of eight; the trace spec does not depend on which outcome a request gets"],
    )
