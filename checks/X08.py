"""X08 Core transport combinators: routing, listener ownership, event pass-through and tagging of OrTransport & co."""
import json

META = {
    "level": "model_checking",
    "technique": "TLA+ model of OrTransport over two inner transports (OptionalTransport::none() as a disabled side) model-checked for first-supporter routing, listener ownership, loss-free in-order event surfacing and (liveness) eventual surfacing, with the first-transport poll priority as a named deviation (bounded-wait violated by the code's order, satisfied by an alternating one) and three canaries; the REAL combinators (OrTransport, OptionalTransport, Map, AndThen, TransportTimeout, global_only, Either, Boxed) stacked over two puppet transports, every call and poll validated by TLC against the property-level trace specification",
    "text": "specs/OrTransport.tla: 6 address classes (first only / second only / both / neither / first errs / second errs), 2 listener ids, 2-3 inner events per side, either side disabled; invariants RouteFirst, OwnerStable, NoLossNoDup, property Surfaced; BoundedWait holds with a fair poll and is violated by first-transport priority (documented deviation); canaries: fall through after an Other error, remove_listener asking only the first side, second side's events under the first side's tag. harness/drv-xcore comb: 11 stacks over two vswarm PuppetTransports (a Spy wrapper counts calls and scripts TransportError::Other); ops listen_on / remove_listener / dial over an 8-address alphabet with random per-side support tables, injected inner listener events (NewAddress, AddressExpired, Incoming, ListenerClosed ok/err, ListenerError) on either side, poll, completion of inner dials/upgrades with success or failure, polling of the futures the combinator handed out. specs/TraceXTransport.tla requires: the routed side alone sees the call (listen_calls / dial slots / removed lists of the two Worlds), Other errors carry the side and stop the search, MultiaddrNotSupported returns the address intact, global_only refuses non-global and non-IP dials without reaching a side, every poll result is the head of one side's pending events, Pending only if the stack's sides are idle, futures resolve to their own inner outcome tagged Left/Right, map / and_then see the attempt's ConnectedPoint and and_then's own error is Right, TransportTimeout (real 15-40 ms timers, lower bounds only) never fires early and never masks a ready inner result.",
    "note": "Named deviation FirstPriority: OrTransport::poll serves the first transport whenever it is ready, so a continuously busy first transport starves the second; the trace specification accepts either order. global_only's address classification itself is C22's subject (only 4 IP probes here). Upper bounds on real time are never asserted.",
}


def run(c):
    c.tlc_mc("MCOrTransport", "MCOrTransport.cfg")
    c.tlc_mc("MCOrTransport", "MCOrTransport_fair.cfg")
    c.tlc_mc("MCOrTransport", "MCOrTransport_starve.cfg", expect="BoundedWait")
    c.tlc_mc("MCOrTransport", "MCOrTransport_canary_err.cfg", expect="RouteFirst")
    if not c.quick:
        c.tlc_mc("MCOrTransport", "MCOrTransport_optleft.cfg")
        c.tlc_mc("MCOrTransport", "MCOrTransport_optright.cfg")
        c.tlc_mc("MCOrTransport", "MCOrTransport_canary_owner.cfg", expect="OwnerStable")
        c.tlc_mc("MCOrTransport", "MCOrTransport_canary_tag.cfg", expect="NoLossNoDup")
        c.tlc_mc("MCOrTransport", "MCOrTransport_big.cfg", timeout=1500)
    drv = c.build("drv-xcore")
    if c.replay:
        t = c.rundir / "replay_trace.ndjson"
        c.drive(drv, ["comb", "replay", c.replay, t])
        traces = [t]
    else:
        t1 = c.rundir / "directed.ndjson"
        c.drive(drv, ["comb", "directed", t1])
        t2 = c.rundir / "rand.ndjson"
        c.drive(drv, ["comb", "random", c.seed, c.pick(150, 4000), t2])
        traces = [t1, t2]
    distinct = set()
    for t in traces:
        ok, total = c.tlc_trace("TraceXTransport", t, timeout=2400)
        c.evaluations += total
        for line in open(t):
            ev = json.loads(line)
            if ev["e"] == "reset":
                ops = ev["sched"]["ops"]
                if ev["stack"] == "toprobe" or any(o["a"] in ("dial", "listen") for o in ops):
                    distinct.add(json.dumps(ev["sched"], sort_keys=True))
                    if len(c.samples) < 3 and 0 < len(ops) <= 14:
                        c.sample(ev["sched"])
    c.distinct_nontrivial = len(distinct)
    return c.finish(
        "model_checking",
        rule="schedule = (combinator stack, per-side support table over 8 addresses, op sequence over listen/remove/dial/inj/poll/fin/await); 48 directed schedules (busy-first starvation scenarios, full routing tables on all 11 stacks), 16 real-time TransportTimeout probes, plus seeded random schedules of 8-56 ops generated online; distinct = distinct schedules with a dial or listen",
        assumptions=["inner transports are puppets: an address is supported, unsupported or failing per side as scripted",
                     "ListenerIds are used for one listen_on only"],
    )
