"""C34 Accepted gossipsub configs never break the behaviour."""
import json
from pathlib import Path

META = {
    "level": "model_checking",
    "technique": "TLA+ state machine of ConfigBuilder setter calls + build() model-checked for 'accepted => valid' and for the heartbeat's usize arithmetic, pre-repair validation as canary; every builder call sequence applied to the real ConfigBuilder and every accepted Config driven through real Behaviour heartbeats, records validated by TLC against the statement's relation",
    "text": "TLC explores every setter-call sequence of the transcribed builder (default and one per-topic mesh parameter set over 0..2, transmit sizes 99/100, history 0/1) and checks that build() accepts only configs satisfying what the repaired validation guarantees (defaults fully valid, every parameter set ordered, transmit sizes >= 100) and that the heartbeat's subtractions cannot underflow for any mesh size; the pre-repair validation (DESIGN 7-8) is rejected as canary and a model with the full statement is checked too. The real ConfigBuilder is called with all default quads over 0..2 (thorough 0..3) x transmit sizes x history settings, all per-topic quads via set_topic_config x per-topic transmit size, single *_for_topic setters over realistic values, the inputs of DESIGN 7-8, and seeded random call sequences; for every accepted Config TLC evaluates the statement's inequalities on the values the returned Config reports, and a real Behaviour built from it runs heartbeats with 0,1,2,3,4,6 subscribed peers (all inbound / all outbound, with and without GRAFTs); a panic (overflow checks on) is a violation.",
    "note": "Residual finding: per-topic mesh_outbound_min is still only validated for topics that also have a per-topic transmit size (an upstream unit test builds such a config), reported under its own signature. Only 'accepted => valid' is checked, not that valid configs are accepted (anti-vacuity: the number of accepted configs is measured).",
    "design_ref": "6/C34",
}


def run(c):
    c.tlc_mc("MCGsConfig", "MCGsConfig_impl.cfg")
    c.tlc_mc("MCGsConfig", "MCGsConfig_canary.cfg", expect=["AcceptedValid", "HeartbeatSafe"])
    c.tlc_mc("MCGsConfig", "MCGsConfig_vacuity.cfg", expect="NotVacuous")
    if not c.quick:
        c.tlc_mc("MCGsConfig", "MCGsConfig_full.cfg", timeout=900)
        c.tlc_mc("MCGsConfig", "MCGsConfig_impl_big.cfg", timeout=1500)
    drv = c.build("drv-gscodec")
    recs = c.rundir / "config.ndjson"
    if c.replay:
        c.drive(drv, ["config", "replay", Path(c.replay).resolve(), recs])
    else:
        a = c.rundir / "config_exh.ndjson"
        b = c.rundir / "config_rand.ndjson"
        c.drive(drv, ["config", "exhaustive", c.tier, a])
        c.drive(drv, ["config", "random", c.seed, c.pick(1500, 20000), b])
        recs.write_text(a.read_text() + b.read_text())
    n, bad = c.tlc_relation("RelGsConfig", recs, timeout=1500)
    accepted = set()
    hb = 0
    for line in open(recs):
        r = json.loads(line)
        if r["ok"]:
            accepted.add(json.dumps([r["dflt"], r["topics"], r["hist"], r["gossip"], r["tx"]], sort_keys=True))
            hb += r["hbn"]
            if len(r["calls"]) > 2:
                c.sample({"calls": r["calls"], "dflt": r["dflt"], "topics": r["topics"]})
    if not c.replay and len(accepted) < 20:
        raise __import__("vlib").ToolError("vacuous: only %d accepted configs" % len(accepted))
    c.evaluations = n
    c.distinct_nontrivial = len(accepted)
    return c.finish(
        "model_checking",
        rule="record = one builder call sequence; exhaustive: default quads over the value set x {no, 99, 100} default transmit size x history settings; per-topic quads via set_topic_config x {no, 99, 100} per-topic transmit size; single and paired *_for_topic setters over {0,1,3,5,6,12,13}; DESIGN 7-8 inputs; random: 1..9 calls over all 13 setters, values from realistic sets; non-trivial = distinct ACCEPTED configurations (their observable parameter values); each is also driven through %d heartbeat scenarios in total" % hb,
        assumptions=["heartbeat scenarios: peers all subscribed to every configured topic, gossipsub v1.1 kind, no scoring; overflow checks enabled for libp2p-gossipsub in the harness profile"],
        extra={"heartbeat_scenarios": hb},
    )
