"""C43 Provider records are only accepted from the provider itself."""
import json

META = {
    "level": "exploration",
    "technique": "TLA+ relation evaluated by TLC on records produced by a real Behaviour<MemoryStore> that is fed the handler events of inbound ADD_PROVIDER / PUT_VALUE requests with every sender/provider/publisher identity combination; the store is read back through store_mut() and the InboundRequest events are drained",
    "text": "Exhaustive over the abstract identity space: sender in {local, peer1, peer2} x announced provider in {local, peer1, peer2, peer3} x record filtering on/off x an honest provider record already stored or not x the named peers connected to the node or not (ADD_PROVIDER), and sender x publisher in {none, local, peer1, peer2} x filtering x a local record already stored or not (PUT_VALUE). The TLA+ relation: a provider record is stored iff provider = sender and provider != local (with filtering: handed to the application under the same condition, never stored); a PUT_VALUE whose publisher is the local node leaves the store untouched and raises no event, any other one replaces the record. A finite case analysis over identities, so enumeration of the abstract space is the right level.",
    "note": "Events are injected at NetworkBehaviour::on_connection_handler_event (what the connection handler emits for an inbound request); the stream/codec path in front of it is C44's subject.",
    "design_ref": "6/C43",
}


def run(c):
    drv = c.build("drv-kad")
    recs = c.rundir / "inbound.ndjson"
    if c.replay:
        c.drive(drv, ["record", "replay", c.replay, recs])
    else:
        c.drive(drv, ["record", "inbound", recs])
    n, bad = c.tlc_relation("RelKadInbound", recs)
    c.evaluations = n
    nt = 0
    for line in open(recs):
        r = json.loads(line)
        if (r["m"] == "addp" and r["provider"] != r["sender"]) or (r["m"] == "putpub" and r["pub"] == 0):
            nt += 1
            if len(c.samples) < 4 and not r["filt"]:
                c.sample(r)
    c.distinct_nontrivial = nt
    return c.finish(
        "exploration", exhaustive=True,
        rule="record = (request kind, sender, announced provider / publisher, filtering, pre-existing record); all combinations over 3 senders x 4 identities x 2 x 2 per kind (distinct by construction); non-trivial = the announced provider differs from the sender, or the publisher is the local node",
        assumptions=["identities abstracted to: local node, sender, another remote peer, a third peer"],
    )
