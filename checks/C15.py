"""C15 Negotiation messages round-trip and malformed input is rejected safely."""
import json

META = {
    "level": "model_checking",
    "technique": "TLA+ transcription of Message::encode / the decode dispatch order with scaled limits, enumerated exhaustively over all messages up to MAX_PROTOCOLS+1 names (round trip, >MAX rejected, names without '/' rejected, two-byte prefix iff sendable; canary: limit tested after the push); records of the real codec (verif hook) and of the frames real listeners/dialers write are evaluated by TLC against the property-level relation; the public select functions are fed enumerated malformed and seeded random bytes and the recorded outcomes validated by TLC (panic = violation)",
    "text": "TLC enumerates every abstract message (3 fixed kinds, protocol lines, ls responses of 0..4 names over 2 sizes, with/without leading '/') against the transcribed codec. The real encode_message/decode_message round-trip Header/Ls/Na, protocol names of boundary lengths (1..16384+) and ls responses of 0..2500 names; hand-built ls bodies with 0/1/2/999/1000/1001/1002/3000 entries and one malformed entry (no '/', empty, over-long, no line feed, invalid UTF-8) at the first/middle/last position; the frames the real listener writes for ls / reject / confirm with 0..1500 protocols of various name lengths and the real dialer's proposal frames up to the 16383-byte limit are parsed and checked for a <=2-byte prefix, <=16383-byte body and the expected messages (oversized messages must be refused with an error). Listener, V1 dialer and V1Lazy dialer are fed enumerated malformed frame sequences (oversized, non-minimal and unterminated length prefixes, bad names, too many protocols, wrong header ...) in 5 chunkings and seeded random byte strings, then the peer hangs up and any stream handed out is used again (read, read, flush, close): outcomes must be errors for the enumerated cases, nothing may panic or hang.",
    "note": "Generated protocol names avoid line feeds and the reserved line '/multistream/1.0.0' (a Protocol with that name encodes to the header message; outside the statement's 'valid message'). Random bytes can only be checked for absence of panics/hangs.",
    "design_ref": "6/C15",
}


def run(c):
    c.tlc_mc("MSSMsg", "MCMSSMsg.cfg")
    c.tlc_mc("MSSMsg", "MCMSSMsg_canary.cfg", expect="RejectTooMany")
    if not c.quick:
        c.tlc_mc("MSSMsg", "MCMSSMsg5.cfg", timeout=1500)
    drv = c.build("drv-mss")
    if c.replay:
        t = c.rundir / "replay_trace.ndjson"
        first = open(c.replay).readline()
        if '"e":"reset"' in first:
            c.drive(drv, ["msg", "hostile", "replay", c.replay, t])
            c.tlc_trace("TraceMSSHostile", t)
        else:
            n, bad = c.tlc_relation("RelMSSMsg", c.replay)
        return c.finish("model_checking", rule="replay")
    recs = c.rundir / "records.ndjson"
    c.drive(drv, ["msg", "records", c.pick(1, 2), recs])
    n, bad = c.tlc_relation("RelMSSMsg", recs)
    c.evaluations += n
    t1 = c.rundir / "hostile_enum.ndjson"
    c.drive(drv, ["msg", "hostile", "enum", t1])
    t2 = c.rundir / "hostile_rand.ndjson"
    c.drive(drv, ["msg", "hostile", "random", c.seed, c.pick(600, 10000), t2])
    distinct = set()
    for line in open(recs):
        distinct.add(line)
    for t in (t1, t2):
        c.tlc_trace("TraceMSSHostile", t)
        for line in open(t):
            if line.startswith('{"e":"reset"'):
                ev = json.loads(line)
                if ev["sched"]["input"]:
                    distinct.add(json.dumps(ev["sched"], sort_keys=True))
                    if len(c.samples) < 3 and ev["sched"].get("case") != "random" and len(ev["sched"]["input"]) < 40:
                        c.sample(ev["sched"])
            else:
                c.evaluations += 1
    c.distinct_nontrivial = len(distinct)
    return c.finish(
        "model_checking",
        rule="records: round trips over boundary name lengths {1,2,19,126..129,1000,16381..16384,40000} and list sizes {0,1,2,3,10,999..1002,2500}; hand-built ls bodies (8 sizes x 5 malformations x 3 positions, with/without terminator); real listener/dialer wire captures (8 list sizes x 6 name lengths; 8 proposal lengths x 2 versions); hostile runs: 12 enumerated malformed inputs x 3 roles x 5 chunkings + seeded random inputs (4 byte distributions, random chunking, optional hang-up); distinct = distinct records + distinct non-empty hostile inputs; evaluations = records + events validated",
        assumptions=["names without line feeds, not equal to the reserved header line"],
    )
