"""C48 Relay rate limiters are token buckets."""

META = {
    "level": "model_checking",
    "technique": "TLA+ transcription of GenericRateLimiter model-checked (window law, idle-accept, canary); traces of the real boxed limiters validated by TLC against the property-level token-bucket trace spec",
    "text": "TLC exhaustively checks the transcribed refill-schedule algorithm (2 identities, limit 2 / interval 2 / 8 time units: 0.9 M states; thorough also limit 3: 10.7 M states) for the window law and idle-accept, and rejects a canary; every try_next result of the real per-peer and per-IP limiters, on all op sequences up to length 4-5 over a small alphabet plus seeded random schedules, is validated by TLC against the property-level spec (acceptance histories must satisfy the window law; a refusal is illegal once idle for limit*interval).",
    "note": "Synthetic non-decreasing instants; per-IP limiter exercised only with addresses that contain an IP.",
    "design_ref": "6/C48",
}


def run(c):
    # (M) transcribed algorithm satisfies the window law / idle-accept; canary must fail
    c.tlc_mc("TokenBucket", "MCTokenBucket.cfg")
    c.tlc_mc("TokenBucket", "MCTokenBucket_canary.cfg", expect="WindowLaw")
    if not c.quick:
        c.tlc_mc("TokenBucket", "MCTokenBucket3.cfg", timeout=1500)
    # (R) real limiters under exhaustive short + random long schedules
    drv = c.build("drv-relay")
    if c.replay:
        t = c.rundir / "replay_trace.ndjson"
        c.drive(drv, ["ratelimit", "replay", c.replay, t])
        traces = [t]
    else:
        t1 = c.rundir / "exh.ndjson"
        c.drive(drv, ["ratelimit", "exhaustive", c.pick(4, 5), t1])
        t2 = c.rundir / "rand.ndjson"
        c.drive(drv, ["ratelimit", "random", c.seed, c.pick(300, 3000), t2])
        traces = [t1, t2]
    # (V)
    import json
    distinct = set()
    for t in traces:
        ok, total = c.tlc_trace("TraceTokenBucket", t)
        c.evaluations += total
        for line in open(t):
            ev = json.loads(line)
            if ev["e"] == "reset":
                key = json.dumps(ev["sched"], sort_keys=True)
                if any(o["a"] == "try" for o in ev["sched"]["ops"]):
                    distinct.add(key)
                if len(c.samples) < 3:
                    c.sample(ev["sched"])
    c.distinct_nontrivial = len(distinct)
    return c.finish(
        "model_checking",
        rule="schedule = (limiter kind, limit, interval, op sequence over try(peer,ip)/tick(d)); exhaustive for length<=N over a 5-7 letter alphabet and limit,interval in 1..2, plus seeded random schedules of length 5..40; distinct = distinct schedules containing at least one try",
        assumptions=["synthetic non-decreasing Instants (1 abstract unit = 1 ms)",
                     "addresses always carry an IPv4 component (address without IP is outside the statement)"],
    )
