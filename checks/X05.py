"""X05 AutoNAT v2 server: one dial-back per request, amplification protection, exactly one faithful response."""
import json

META = {
    "level": "model_checking",
    "technique": "TLA+ model of how the v2 server serves a dial request (address selection, data demand, dial-back command, dial / dial-back outcomes, response) model-checked incl. a liveness property and two canaries; traces of the REAL v2 server Behaviour with its REAL dial_request / dial_back handlers and wire codec (driver plays the Swarm and the clients with crafted protobuf frames on in-memory streams) validated by TLC against a property-level spec",
    "text": "AutoNAT v2 server (extension component): A1 at most one dial per request, exactly one address, one of the request's, to the requester, PortUse::New, PeerCondition::Always; A2 a dial to an address whose IP differs from the observed IP only after a DialDataRequest (30000..100000 bytes) for that address was answered with at least that many bytes, and never before demanded data has arrived; A3 the DialBack carries the request's nonce, one per dial; A4 at most one DialResponse per request and, at the end of a run, one for every well-formed DialRequest whose client is connected and has done its part (also for an empty address list); A5 status OK only after a dial, addrIdx = the dialed address, dialStatus OK iff the DialBack was delivered and acknowledged, E_DIAL_ERROR iff the dial failed, E_DIAL_BACK_ERROR only if connected but the dial-back failed; A6 the Event names client, all addresses, tested address and data amount of that request, Ok only if the response was written.",
    "note": "Deviations named in Autonat2.tla and accepted: the LAST address of the list is tested (the protocol text says the first dialable one); data is demanded whenever the multiaddr differs from the observed one (stricter than the IP rule); an I/O error opening the dial-back stream ends as E_INTERNAL_ERROR when the connection closes. The 10 s request timeout is not exercised; more than 10 concurrent requests per connection (silently dropped by the handler) are not generated.",
    "design_ref": "ext/X05",
}


def stats(path):
    n = 0
    nontrivial = set()
    k = {"dials": 0, "data_demands": 0, "dialback_ok": 0, "responses": 0}
    cur = None
    for line in open(path):
        r = json.loads(line)
        e = r["e"]
        if e == "reset":
            n += 1
            cur = json.dumps(r["sched"], sort_keys=True)
        elif e == "dial":
            k["dials"] += 1
            nontrivial.add(cur)
        elif e == "data_req":
            k["data_demands"] += 1
        elif e == "resp":
            k["responses"] += 1
            if r["status"] == 200 and r["ds"] == 200:
                k["dialback_ok"] += 1
    k["runs"] = n
    return nontrivial, k


def run(c):
    if c.quick:
        c.tlc_mc("Autonat2", "MCAutonat2_q.cfg", liveness=True)
    else:
        c.tlc_mc("Autonat2", "MCAutonat2.cfg", liveness=True)
        c.tlc_mc("Autonat2", "MCAutonat2_big.cfg", liveness=True, timeout=900)
    c.tlc_mc("Autonat2", "MCAutonat2_canary.cfg", expect=["NoDialBeforeData"])
    c.tlc_mc("Autonat2", "MCAutonat2_canary2.cfg", expect=["AtMostOneResponse"])
    drv = c.build("drv-xautonat2")
    if c.replay:
        t = c.rundir / "replay.ndjson"
        c.drive(drv, ["server", "replay", c.replay, t])
        c.tlc_trace("TraceAutonat2", t)
        return c.finish("model_checking", rule="replay")
    t1 = c.rundir / "exhaustive.ndjson"
    c.drive(drv, ["server", "exhaustive", c.pick(2, 3), t1])
    t2 = c.rundir / "random.ndjson"
    c.drive(drv, ["server", "random", c.seed, c.pick(300, 6000), t2])
    nontrivial = set()
    for t in (t1, t2):
        nt, k = stats(t)
        nontrivial |= nt
        c.extra_cov[t.stem] = k
    allt = c.rundir / "all.ndjson"
    allt.write_text(t1.read_text() + t2.read_text())
    c.tlc_trace("TraceAutonat2", allt, timeout=3000)
    for line in open(t2):
        r = json.loads(line)
        if r["e"] == "reset" and len(c.samples) < 2 and 4 < len(r["sched"]["ops"]) < 12:
            c.sample(r["sched"])
    c.evaluations = c.traces_ok
    c.distinct_nontrivial = len(nontrivial)
    return c.finish(
        "model_checking",
        rule="schedule = client connections, dial requests (0..4 addresses: exactly the observed address / observed IP other port / other IP; or a stream starting with data, junk, EOF), data sent by the client (all, one chunk, one byte short, too much, a DialRequest instead, junk, EOF), dial results, dial-back stream results (ok / unsupported / timeout / io), dial-back answers (ok / undefined status / junk / EOF), connections closing; exhaustive: all op sequences of length N over 13 ops after 4 prefixes; random: interleaved request episodes and undirected op sequences; non-trivial = the server dialed at least once",
        assumptions=["the driver plays the Swarm and resolves at the end of a run what the Swarm still owes (pending dials fail, dial-back connections close)", "request timeout (10 s) and the 10-requests-per-connection limit not exercised"],
    )
