"""C05 Established peer identity matches expectation and is never local"""
import importlib.util
import os

_spec = importlib.util.spec_from_file_location("_swarmconn", os.path.join(os.path.dirname(os.path.abspath(__file__)), "_swarmconn.py"))
_m = importlib.util.module_from_spec(_spec)
_spec.loader.exec_module(_m)

META = {
    "level": "model_checking",
    "technique": "TLA+ model of the pool/swarm lifecycle model-checked with TLC (+canary); traces of a real Swarm over a puppet transport validated by TLC against the property-level trace spec TraceSwarmConn (PROP=C05 guards)",
    "text": "Same model (IdentityOK invariant + skipped-local-check canary). Conformance: the puppet transport authenticates dial and upgrade futures as whichever peer the schedule says (expected, another, or the local id); TLC checks that a connection is reported established only if some successful authentication of that id equals the reported peer, the peer equals the dial's expectation when one was given, and is not local; at the end every muxer of a non-established connection must have been closed or dropped.",
    "note": 'identity = PeerId returned by the transport upgrade (what the pool sees)',
    "design_ref": "6/C05",
}


def run(c):
    _m.run_conn(c)
    return c.finish(
        "model_checking",
        rule="seeded random command schedules (dial/incoming/envDial/envUpgrade/failMux/close/disconnect/behClose/keepAlive/poll/poll1, 18-30 steps, <=4-6 connections, dial concurrency 1-3, deny probability 0/0.1/0.3) executed on a real Swarm; distinct = distinct schedules; non-trivial = the run contains at least one event the property talks about (a successful authentication)",
        assumptions=["single-threaded deterministic polling (Config::without_executor) - thread interleavings inside one Swarm are not explored",
                     "PuppetTransport/PuppetMuxer stand in for real transports"],
    )
