"""C55 mDNS responses encode exactly the advertised addresses."""
import json

META = {
    "level": "exploration",
    "technique": "TLA+ byte-count model of build_query_response's packing loop with the real constants (packet <= 9000, decoded = fitting addresses; 3 canaries); TLC-enumerated address lists + bulk lists around the records-per-packet limit + seeded random lists built and re-parsed by the real code (verif hook); TLC evaluates the relation Post on every record; random / mutated / truncated / spliced packets fed to the real parser (no panic)",
    "text": "TLC checks the packing model (real constants, address length and kind classes, up to 60 addresses) for PacketFits and Exact and rejects three canaries (record budget 300, quoting with stale length byte, truncation instead of skipping). TLC enumerates all address lists of length <= 2 (thorough 3) over 10 address classes (lengths 254/255/256, space, quote, non-ASCII, already /p2p-suffixed, foreign /p2p) x both peer-id forms plus bulk lists of 25..59 long addresses; the driver adds seeded random lists (up to 100 addresses). Each list is encoded by the real build_query_response and every packet is parsed by the real MdnsPacket::new_from_bytes; TLC evaluates Post: no panic, every packet <= 9000 bytes and parseable, all peers = the advertiser, decoded bag = advertised addresses whose TXT string fits 255 bytes (non-ASCII ones may be excluded), nothing foreign. 3124 well-formed responses whose TXT character-strings run through a grammar (every string over quote, backslash, letter, space, '=' up to length 4, alone / behind dnsaddr= / behind a good string / inside an opening quote), 4 x N random/mutated/truncated/spliced packets plus the recorded regression inputs are parsed: no panic (every distinct panic message is a record of its own).",
    "note": "Exclusion of non-ASCII addresses is accepted (the builder documents it). Address translation in extract_discovered is outside this property. Exploration level: a pure encode/decode function pair over generated inputs. Open finding: a crafted TSIG record makes the dependency hickory-proto 0.26.1 overflow (panic only with overflow checks); it is fed deterministically as a regression input and reported as KNOWN-FINDING.",
    "design_ref": "6/C55",
}


def run(c):
    c.tlc_mc("Mdns", "MCMdns.cfg")
    c.tlc_mc("Mdns", "MCMdns2.cfg")
    c.tlc_mc("Mdns", "MCMdns_canary.cfg", expect="PacketFits")
    c.tlc_mc("Mdns", "MCMdns_canary2.cfg", expect="Exact")
    c.tlc_mc("Mdns", "MCMdns_canary3.cfg", expect="Exact")
    drv = c.build("drv-mdns")
    files = []
    if c.replay:
        t = c.rundir / "replay_records.ndjson"
        c.drive(drv, ["response", c.replay, t])
        files.append(t)
    else:
        sched, n, _ = c.tlc_gen("GenMdns", c.pick("GenMdns_q.cfg", "GenMdns_t.cfg"), exhaustive=True, timeout=1500)
        t = c.rundir / "lists.ndjson"
        c.drive(drv, ["response", sched, t])
        files.append(t)
        t = c.rundir / "rand.ndjson"
        c.drive(drv, ["gen", c.seed, c.pick(800, 3000), t])
        files.append(t)
        t = c.rundir / "worst.ndjson"
        c.drive(drv, ["worst", c.pick(240, 2400), t])
        files.append(t)
        t = c.rundir / "fuzz.ndjson"
        c.drive(drv, ["fuzz", c.seed, c.pick(20000, 400000), t])
        files.append(t)
    nontrivial = 0
    inputs = 0
    for f in files:
        n, bad = c.tlc_relation("RelMdns", f, timeout=3000)
        for line in open(f):
            r = json.loads(line)
            if r["kind"] == "fuzz":
                inputs += r["inputs"]
                continue
            inputs += 1
            # non-trivial: more than one packet, or an address that must be skipped, or an unusual address
            if len(r["packets"]) > 1 or any(a["len"] > 255 or not a["ascii"] or not a["plain"] for a in r["adv"]):
                nontrivial += 1
                if len(c.samples) < 3:
                    c.sample(r["sched"])
    c.evaluations = inputs
    c.distinct_nontrivial = nontrivial
    return c.finish(
        "exploration",
        rule="input = (peer id form, address list by class: ip4, exact TXT length, space, quote, backslash, non-ASCII, /p2p-suffixed); all lists of length <= 2 (thorough 3) over 10 classes, bulk lists, seeded random lists; evaluations also count every fuzzed packet; distinct_nontrivial = lists that need more than one packet or contain an address that must be skipped / is unusual",
        assumptions=["the decoder under test is the crate's own parser (hickory Message + MdnsPeer::new)"],
    )
