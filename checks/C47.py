"""C47 Relay resource limits hold."""
import json

META = {
    "level": "model_checking",
    "technique": "TLA+ model of the relay behaviour's admission of reservations and circuits model-checked for the four limits (+ two canaries transcribing the pre-repair comparisons); traces of the real relay Behaviour driven at the NetworkBehaviour interface (real HOP request parsing, handler events via hook constructors) validated by TLC against the property-level bounds",
    "text": "TLC exhaustively checks the transcribed admission logic (3 peers x 2 connections, limits 3/1/2/1 and 3/2/2/2, up to 3 circuit requests) for reservation and circuit limits per peer and in total, and rejects the canaries using `>` for the per-peer limits / checking only the circuit's source. The real relay::Behaviour is driven with connection established/closed events and the relay handler's events (inbound RESERVE/CONNECT frames parsed by the real handle_inbound_request over negotiated in-memory streams); its commands to handlers are answered as the handler does. Every emitted behaviour Event of all op sequences of length 4 (5 thorough) over a 13-letter alphabet and of seeded random histories (2-4 peers, 2 connections each, limits 1..4) is validated by TLC: active reservations and established circuits are rebuilt from the events and the four bounds checked after every event.",
    "note": "Behaviour level: the per-connection relay handler is played by the driver (renewed flag, accept outcome, reservation timeout, circuit negotiation steps); rate limiters are emptied; established circuits = CircuitReqAccepted until CircuitClosed / connection closed.",
    "design_ref": "6/C47",
}


def run(c):
    c.tlc_mc("Relay", "MCRelay.cfg")
    c.tlc_mc("Relay", "MCRelay_canary.cfg", expect=["ResLimits", "CircLimits"])
    c.tlc_mc("Relay", "MCRelay_canary2.cfg", expect=["CircLimits"])
    if not c.quick:
        c.tlc_mc("Relay", "MCRelay2.cfg", timeout=1000)
    drv = c.build("drv-relaybeh")
    if c.replay:
        t = c.rundir / "replay_trace.ndjson"
        c.drive(drv, ["limits", "replay", c.replay, t])
        traces = [t]
    else:
        t1 = c.rundir / "exh.ndjson"
        c.drive(drv, ["limits", "exhaustive", c.pick(3, 4), t1])
        t2 = c.rundir / "rand.ndjson"
        c.drive(drv, ["limits", "random", c.seed, c.pick(400, 8000), t2])
        traces = [t1, t2]
    distinct = set()
    for t in traces:
        ok, total = c.tlc_trace("TraceRelay", t, timeout=1500)
        c.evaluations += total
        cur, acc = None, 0
        for line in open(t):
            ev = json.loads(line)
            if ev["e"] == "reset":
                if cur is not None and acc >= 2:
                    distinct.add(cur)
                cur, acc = json.dumps(ev["sched"], sort_keys=True), 0
                if len(c.samples) < 2 and len(ev["sched"]["ops"]) > 8:
                    c.sample(ev["sched"])
            elif ev["e"] in ("res_acc", "circ_acc"):
                acc += 1
        if cur is not None and acc >= 2:
            distinct.add(cur)
    c.distinct_nontrivial = len(distinct)
    return c.finish(
        "model_checking",
        rule="schedule = (max_reservations, per peer, max_circuits, per peer, op sequence over conn/close/reserve/timeout/connect/step/cclose); exhaustive for length N after all 6 connections of 3 peers are up, limits (2,1,2,1) and (3,2,3,2), plus seeded random histories of length 6..40; distinct = distinct schedules in which at least two reservations/circuits were accepted",
        assumptions=["the relay handler is emulated by the driver at its event interface (handler.rs is outside this property)",
                     "rate limiters emptied so that only the resource limits decide"],
    )
