"""C14 Protocol negotiation agrees and is transparent to application data."""
import json

META = {
    "level": "model_checking",
    "technique": "TLA+ model of the dialer/listener/Negotiated state machines at message granularity model-checked over all dialer lists, listener sets and both versions (agreement on the first common protocol, Failed on none, lazy failure at first read, application data prefix/complete; canary: listener forgets it sent `na`); the real dialer_select_proto/listener_select_proto futures and Negotiated streams are hand-polled over a scripted pipe with byte-level delivery control and every outcome/read is validated by TLC against the property-level trace spec",
    "text": "TLC exhaustively checks the message-level model for every dialer list of length <= 2 (thorough 3) over {a,b,c}, every listener subset, V1 and V1Lazy, 2 application chunks per side. The real futures negotiate for every pair of protocol lists of length <= 2 (thorough 3) over {/a,/b,/c} and both versions, with the wire released one byte at a time / all at once / 3 bytes at a time and early application writes on the lazy dialer, plus seeded random schedules (random poll order, deliveries of 1..21 bytes, pipe read/write chunking, app writes/reads/flushes/closes on both sides at any time); TLC checks outcomes against First(pd, pl), that a failing lazy dialer never completes a read successfully, that application bytes read are always a prefix of the peer's writes, EOF only after close and all bytes, and completeness after a final drain.",
    "note": "Application payloads are letters (never a well-formed negotiation frame: C14 scope note). `ls` is not used by the dialer and is covered by C15 only.",
    "design_ref": "6/C14",
}


def run(c):
    c.tlc_mc("MSS", "MCMSS.cfg")
    c.tlc_mc("MSS", "MCMSS_canary.cfg", expect="NoneInCommon")
    if not c.quick:
        c.tlc_mc("MSS", "MCMSS3.cfg", timeout=1500)
    drv = c.build("drv-mss")
    if c.replay:
        t = c.rundir / "replay_trace.ndjson"
        c.drive(drv, ["negotiate", "replay", c.replay, t])
        traces = [t]
    else:
        t1 = c.rundir / "exh.ndjson"
        c.drive(drv, ["negotiate", "exhaustive", c.pick(2, 3), t1])
        t2 = c.rundir / "rand.ndjson"
        c.drive(drv, ["negotiate", "random", c.seed, c.pick(500, 8000), t2])
        traces = [t1, t2]
    distinct = set()
    for t in traces:
        c.tlc_trace("TraceMSS", t, timeout=1800)
        for line in open(t):
            if not line.startswith('{"e":"reset"'):
                c.evaluations += 1
                continue
            ev = json.loads(line)
            s = ev["sched"]
            # non-trivial: a real negotiation (dialer proposes something, listener supports something)
            if s["pd"] and s["pl"]:
                distinct.add(json.dumps(s, sort_keys=True))
                if len(c.samples) < 2 and len(s["ops"]) < 120:
                    c.sample({"ver": s["ver"], "pd": s["pd"], "pl": s["pl"], "ops": s["ops"][:10]})
    c.distinct_nontrivial = len(distinct)
    return c.finish(
        "model_checking",
        rule="schedule = (version, dialer list, listener list, pipe chunking, op list over poll dialer/listener, deliver(dir,n), app write/read/flush/close per side); exhaustive: all pairs of lists of length <= N over {/a,/b,/c} x {V1,V1Lazy} x 3 delivery styles; random: seeded lists of length 0..4 over 4 names and 10..90 random ops; distinct = distinct schedules with non-empty lists on both sides; evaluations = events validated",
        assumptions=["application payloads never parse as a negotiation frame (C14 scope note)"],
    )
