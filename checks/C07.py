"""C07 Behaviour-to-handler notifications are targeted, ordered and not lost."""
import json

META = {
    "level": "model_checking",
    "technique": "TLA+ model of pending_handler_event / notify_one / notify_any over the futures::mpsc command channel model-checked (+canary); traces of a real Swarm with probe handlers validated by TLC against the property-level trace spec",
    "text": "TLC explores every interleaving of emission, delivery attempts, task consumption, close commands and task errors for 2 connections, buffer 1, 3 events (Targeted, InOrder, QueuedOnce) and rejects an any-to-all canary. Conformance: a real Swarm with notify buffer 1-2 and three to six established puppet connections (two peers); the behaviour emits bursts of up to 6 NotifyHandler::One/Any commands larger than the buffer, interleaved with close_connection, CloseConnection from the behaviour, disconnect_peer_id, muxer failures and connections established after the emission; handlers log every delivery with the emission number. TLC checks: delivery only to the emitting behaviour's handler, One(c) only to c, Any to exactly one connection of the set that existed at emission, per-handler delivery order = emission order, at most one delivery per emission, and at quiescence an undelivered event is excused only by closing evidence for its target.",
    "note": "For Any, an event handed to a connection that is already closing is lost with it (the code documents this as consumed); the check accepts that reading of 'dropped only when the target is closing or gone'.",
    "design_ref": "6/C07",
}


def run(c):
    c.tlc_mc("SwarmNotify", "MCSwarmNotify.cfg")
    c.tlc_mc("SwarmNotify", "MCSwarmNotify_canary.cfg", expect="QueuedOnce")
    drv = c.build("drv-swarm")
    t = c.rundir / "notify.ndjson"
    if c.replay:
        c.drive(drv, ["notify", "replay", c.replay, t])
    else:
        c.drive(drv, ["notify", "random", c.seed + 3, c.pick(300, 6000), t])
    ok, total = c.tlc_trace("TraceSwarmNotify", t, timeout=c.pick(600, 3000))
    distinct = set()
    cur, burst = None, False
    for line in open(t):
        ev = json.loads(line)
        if ev["e"] == "reset":
            cur = json.dumps(ev["sched"], sort_keys=True)
            if len(c.samples) < 2:
                c.sample(ev["sched"]["cmds"])
        elif ev["e"] == "hEvent" and cur:
            distinct.add(cur)
    c.evaluations = total
    c.distinct_nontrivial = len(distinct)
    return c.finish("model_checking",
                    rule="seeded random schedules of 4-12 commands (emit burst of 1-6 One/Any notifications, close/behClose/failMux/disconnect, late connection, poll/poll1) on a Swarm with 3 initial connections; distinct schedules; non-trivial = at least one delivery happened",
                    assumptions=["single-threaded deterministic polling (connection tasks advance inside Pool::poll)"])
