"""C28 Gossipsub mesh membership respects eligibility rules."""
import os
import sys

sys.path.insert(0, os.path.dirname(os.path.abspath(__file__)))
import gsrouter_lib as g  # noqa: E402

META = {
    "level": "model_checking",
    "technique": "TLA+ single-router model (Gossipsub.tla) model-checked for the mesh eligibility invariant and step properties (+ canary); every step of the real gossipsub::Behaviour under directed and seeded random event histories validated by TLC against the property-level trace spec TraceGossipsub",
    "text": "TLC exhaustively checks the transcribed router (2-3 peers, 2 topics, up to 2 connections per peer, floodsub and explicit peers, whitelist/max-count filter) for: every mesh member is connected, gossipsub, subscribed, not explicit; peers added in a step are not backed off / negative / explicit; no GRAFT accepted at mesh_n_high; a canary (GRAFT accepted from a floodsub peer) is rejected. The real Behaviour is driven through its swarm-facing entry points (connections, PeerKind, subscription/GRAFT/PRUNE RPCs decoded by the real codec, subscribe/unsubscribe, score changes, heartbeats, clock advances); after every call the complete mesh/tracked-topic/score/backoff view is recorded and TLC checks each step against the statement.",
    "note": "Backoff is judged at protocol level (PRUNE sent or received with its duration, logical time); the router's extra backoffs and slack are allowed. Peer choices of the router are never predicted.",
    "design_ref": "6/C28",
}


def nontrivial(evs):
    prev = None
    for e in evs:
        m = e.get("mesh")
        if prev is not None and m is not None and any(set(a) - set(b) for a, b in zip(m, prev)):
            return True
        prev = m if m is not None else prev
    return False


def run(c):
    g.model(c, "MCGossipsub_canary_graftkind.cfg", "MeshEligible")
    traces = g.drive(c, ["mesh"], 500, 4000)
    g.validate(c, "TraceGossipsub_C28.cfg", traces, nontrivial)
    return c.finish(
        "model_checking",
        rule="schedule = (mesh_n_low/n/high 1..3, 2-5 peers incl. floodsub and explicit ones, 1-3 topics, up to 3 connections per peer; ops connect/kind/close/rpc(subs,graft,prune)/sub/unsub/pub/score/hb/tick); 4 directed schedules + seeded random schedules of length 20..40; distinct = distinct schedules in which at least one peer was added to a mesh",
        assumptions=g.ASSUMPTIONS,
    )
