"""C37 K-bucket routing table keeps its structural invariants."""
import json

META = {
    "level": "model_checking",
    "technique": "TLA+ transcription of KBucket/KBucketsTable model-checked (capacity, uniqueness, right bucket, LRU order, eviction rule, canary); projected states of the real KBucketsTable under exhaustive short and seeded random operation sequences validated by TLC against a property-level trace spec",
    "text": "TLC exhaustively checks the transcribed insert/update/remove/apply_pending/tick algorithm over 3-bit keys (bucket size 2, pending timeout 1) for capacity, uniqueness, right-bucket, local-key-absent, LRU order and the eviction rule (action property), and rejects a canary that evicts a connected head. The real KBucketsTable (verif::Table over the Entry API, clock shim for the pending timeout) is driven with all op sequences of length 2-3 over a 12-letter alphabet and seeded random sequences over 2-4-bit keys embedded at random bit positions of 256-bit keys; after every op the whole table is projected and TLC checks the step against the statement (who may enter/leave a bucket, when, status frame, LRU stamps).",
    "note": "Keys are abstract b-bit keys embedded order-preservingly into 256-bit keys (b <= 4); one logical time unit = 1 h of clock-shim offset; which access applies a due pending entry is left unconstrained.",
    "design_ref": "6/C37",
}


def run(c):
    c.tlc_mc("KBucket", c.pick("MCKBucket_q.cfg", "MCKBucket.cfg"), timeout=1500)
    c.tlc_mc("KBucket", "MCKBucket_canary37.cfg", expect="EvictionRule")          # pending applied before its timeout
    if not c.quick:
        c.tlc_mc("KBucket", "MCKBucket_canary37b.cfg", expect="EvictionRule", timeout=1500)   # connected head evicted
    drv = c.build("drv-kad")
    if c.replay:
        t = c.rundir / "replay_trace.ndjson"
        c.drive(drv, ["kbucket", "replay", c.replay, t])
        traces = [t]
    else:
        t1 = c.rundir / "exh.ndjson"
        c.drive(drv, ["kbucket", "exhaustive", c.pick(2, 3), t1])
        t2 = c.rundir / "rand.ndjson"
        c.drive(drv, ["kbucket", "random", c.seed, c.pick(160, 3000), t2, "closest=0"])
        traces = [t1, t2]
    distinct = set()
    for t in traces:
        ok, total = c.tlc_trace("TraceKBucket", t, timeout=2400,
                                attribute=lambda rec, reason: "C38" if rec.get("e") == "closest" and reason == "unmatched" else None)
        c.evaluations += total
        for line in open(t):
            ev = json.loads(line)
            if ev["e"] == "reset":
                ops = ev["sched"]["ops"]
                if sum(1 for o in ops if o["a"] == "ins") >= 2:
                    distinct.add(json.dumps(ev["sched"], sort_keys=True))
                    if len(c.samples) < 3 and len(ops) <= 8:
                        c.sample(ev["sched"])
    c.distinct_nontrivial = len(distinct)
    return c.finish(
        "model_checking",
        rule="schedule = (key bits B, local key, bucket size, pending timeout, bit positions of the embedding, mask seed, op sequence over ins(k,status)/upd(k,status)/rem(k)/get(k)/tick(d)); exhaustive for length<=N over a 12-letter alphabet (2-bit keys, bucket sizes 1 and 2) plus seeded random schedules of length 4..30 over 2..4-bit keys; distinct = distinct schedules with at least two inserts",
        assumptions=["abstract b-bit keys (b<=4) embedded into 256-bit keys by an order-preserving bit scattering; buckets outside the embedding must stay empty (checked)",
                     "pending timeout measured on the verif clock shim (thread-local offset added to the monotonic clock), 1 logical unit = 1 h"],
    )
